(* ProofServer.v — proofs about the connection state machine (C14, C15). *)
From Coq Require Import List Bool Arith Lia.
Import ListNotations.
From Redka Require Import Server.

Section Proofs.
  Variable DB : Type.
  Variable Cmd : Type.
  Variable run : Cmd -> DB -> DB * bool.

  Notation handle := (Server.handle run).
  Notation ref_step := (Server.ref_step run).
  Notation run_block := (Server.run_block run).
  Notation exec_block := (Server.exec_block run).
  Notation all_ok := (Server.all_ok run).

  Definition is_val (t : tok) : bool := match t with TValue _ => true | _ => false end.

  Lemma run_block_spec : forall q d,
    let '(d1, ts, ok) := run_block q d in
    length ts = length q /\
    forallb is_val ts = true /\
    (let '(d2, ok2) := all_ok q d in ok = ok2 /\ (ok = true -> d1 = d2)).
  Proof.
    induction q as [|c rest IH]; intros d; cbn [Server.run_block Server.all_ok].
    - repeat split; reflexivity.
    - destruct (run c d) as [d1 ok] eqn:E. destruct ok.
      + specialize (IH d1). destruct (Server.run_block run rest d1) as [[d2 ts] ok2].
        destruct IH as (L & F & A). destruct (Server.all_ok run rest d1) as [d3 ok3].
        destruct A as [A1 A2]. cbn [length forallb is_val andb]. repeat split; auto.
      + cbn [length]. rewrite map_length.
        split; [reflexivity|]. split.
        * cbn [forallb is_val andb]. apply forallb_forall. intros t Ht.
          apply in_map_iff in Ht. destruct Ht as (x & Hx & _). subst t. reflexivity.
        * split; [reflexivity | discriminate].
  Qed.

  Lemma cv_values : forall ts need count,
    forallb is_val ts = true ->
    length ts = need -> 0 < need -> cv ts need count = Some (S count).
  Proof.
    induction ts as [|t r IH]; intros need count F L P; cbn in L; [lia|].
    destruct t; cbn in F; [|discriminate]. destruct need as [|k]; [lia|]. cbn [cv].
    destruct r as [|t2 r2].
    - cbn in L. assert (k = 0) by lia. subst k. reflexivity.
    - assert (Hk : 0 < k) by (cbn in L; lia).
      destruct (k =? 0) eqn:E; [apply Nat.eqb_eq in E; lia|].
      apply IH; [exact F | cbn in *; lia | exact Hk].
  Qed.

  (* C14: whatever arrives, in whatever state, exactly one complete, well-formed
     reply is written *)
  Theorem one_reply : forall st d r,
    let '(_, _, ts) := handle st d r in complete_values ts = Some 1.
  Proof.
    intros st d r. unfold Server.handle.
    destruct r; try reflexivity; destruct (in_multi st); try reflexivity.
    - (* EXEC in a block *)
      unfold Server.exec_block. pose proof (run_block_spec (cmds st) d) as S.
      destruct (Server.run_block run (cmds st) d) as [[d1 ts] ok]. destruct S as (L & F & _).
      unfold complete_values. cbn [cv].
      destruct (length (cmds st)) as [|n] eqn:E.
      + destruct ts; [reflexivity | discriminate].
      + cbn [Nat.eqb]. apply cv_values; [exact F | exact L | lia].
    - unfold Server.run_single. destruct (run c d) as [d1 ok]. reflexivity.
  Qed.

  (* C14: a pipeline of n requests yields n complete replies, in order *)
  Fixpoint serve (st : cstate Cmd) (d : DB) (rs : list (req Cmd)) : cstate Cmd * DB * list (list tok) :=
    match rs with
    | [] => (st, d, [])
    | r :: rest =>
        let '(st1, d1, ts) := handle st d r in
        let '(st2, d2, out) := serve st1 d1 rest in (st2, d2, ts :: out)
    end.
  Theorem pipeline_replies : forall rs st d,
    let '(_, _, out) := serve st d rs in
    length out = length rs /\ Forall (fun ts => complete_values ts = Some 1) out.
  Proof.
    induction rs as [|r rest IH]; intros st d; cbn [serve].
    - split; [reflexivity | constructor].
    - pose proof (one_reply st d r) as O. destruct (handle st d r) as [[st1 d1] ts].
      specialize (IH st1 d1). destruct (serve st1 d1 rest) as [[st2 d2] out]. destruct IH as [L F].
      split; [cbn; f_equal; exact L | constructor; assumption].
  Qed.

  (* C15: the handler chain IS the reference machine (same state, same data
     effect, one reply), step by step, hence for request sequences of any length *)
  Theorem step_simulates : forall st d r,
    wf st ->
    let '(st', d', ts) := handle st d r in
    let '(rs', rd', n) := ref_step (abs_state st) d r in
    abs_state st' = rs' /\ d' = rd' /\ complete_values ts = Some n /\ wf st'.
  Proof.
    intros st d r W. pose proof (one_reply st d r) as O.
    unfold abs_state, wf in *. destruct st as [im q]. cbn [in_multi cmds] in *.
    assert (Q : im = false -> q = []) by exact W.
    destruct im.
    - (* queuing *)
      destruct r; cbn [Server.handle Server.ref_step in_multi cmds] in *.
      + repeat split; auto.
      + repeat split; auto.
      + (* EXEC *)
        unfold Server.exec_block in *. pose proof (run_block_spec q d) as S.
        destruct (Server.run_block run q d) as [[d1 ts] ok].
        destruct S as (_ & _ & A). destruct (Server.all_ok run q d) as [d2 ok2].
        destruct A as [A1 A2]. subst ok2. cbn [in_multi cmds].
        repeat split; auto. destruct ok; [rewrite (A2 eq_refl)|]; reflexivity.
      + cbn [in_multi cmds]. repeat split; auto.
      + cbn [in_multi cmds]. repeat split; auto; try (intros; discriminate).
    - (* idle *)
      rewrite (Q eq_refl) in *.
      destruct r; cbn [Server.handle Server.ref_step in_multi cmds] in *.
      + repeat split; auto.
      + cbn [in_multi cmds]. repeat split; auto; try (intros; discriminate).
      + repeat split; auto.
      + repeat split; auto.
      + unfold Server.run_single in *. destruct (run c d) as [d1 ok]. cbn [in_multi cmds].
        repeat split; auto.
  Qed.

  (* a queued command has no effect on the data until EXEC *)
  Theorem queued_has_no_effect : forall st d c,
    in_multi st = true -> let '(_, d', _) := handle st d (RCmd c) in d' = d.
  Proof. intros st d c M. unfold Server.handle. rewrite M. reflexivity. Qed.

  (* EXEC is all-or-nothing: every queued command applied in order, or the data untouched *)
  Theorem exec_all_or_nothing : forall st d,
    in_multi st = true ->
    let '(st', d', _) := handle st d RExec in
    in_multi st' = false /\ cmds st' = [] /\
    (let '(d2, ok) := all_ok (cmds st) d in d' = if ok then d2 else d).
  Proof.
    intros st d M. unfold Server.handle. rewrite M. unfold Server.exec_block.
    pose proof (run_block_spec (cmds st) d) as S.
    destruct (Server.run_block run (cmds st) d) as [[d1 ts] ok]. destruct S as (_ & _ & A).
    destruct (Server.all_ok run (cmds st) d) as [d2 ok2]. destruct A as [A1 A2]. subst ok2.
    repeat split. destruct ok; [rewrite (A2 eq_refl)|]; reflexivity.
  Qed.

  (* DISCARD drops the queue without touching the data *)
  Theorem discard_drops : forall st d,
    in_multi st = true ->
    let '(st', d', _) := handle st d RDiscard in st' = mkC false [] /\ d' = d.
  Proof. intros st d M. unfold Server.handle. rewrite M. split; reflexivity. Qed.

  (* connections are independent: a request on connection i never changes the
     state of another connection, and only ever runs connection i's own queue *)
  Theorem connections_independent : forall cs d i r j,
    i <> j -> let '(cs', _, _) := server_step run cs d i r in cs' j = cs j.
  Proof.
    intros cs d i r j N. unfold server_step. destruct (handle (cs i) d r) as [[st' d'] ts].
    unfold upd. destruct (Nat.eqb i j) eqn:E; [apply Nat.eqb_eq in E; contradiction | reflexivity].
  Qed.
  Theorem step_depends_only_on_own_connection : forall cs cs' d i r,
    cs i = cs' i ->
    snd (server_step run cs d i r) = snd (server_step run cs' d i r) /\
    snd (fst (server_step run cs d i r)) = snd (fst (server_step run cs' d i r)).
  Proof.
    intros cs cs' d i r E. unfold server_step. rewrite E.
    destruct (handle (cs' i) d r) as [[st' d'] ts]. split; reflexivity.
  Qed.
End Proofs.
