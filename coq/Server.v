(* Server.v — internal/server/handlers.go and state.go: the per-connection
   MULTI/EXEC/DISCARD state machine (middleware chain parse -> multi -> handle),
   EXEC as one transaction with rollback and a complete reply, and the reference
   machine the property describes.  Generic in the database and command types:
   [run c d] is what one parsed command does at Tx level (new state, and whether
   it failed); by assumption (validated over the wire for every command by the
   C14 runs) a command's Run writes exactly ONE complete reply value.
   No proofs here. *)
From Coq Require Import List Bool Arith.
Import ListNotations.

Section Server.
  Variable DB : Type.
  Variable Cmd : Type.
  (* one Tx-level run: the state after it (partial effects stay) and success *)
  Variable run : Cmd -> DB -> DB * bool.

  (* what arrives on a connection, after command.Parse *)
  Inductive req :=
  | RParseError            (* command.Parse failed: unknown command, bad arguments *)
  | RMulti | RExec | RDiscard
  | RCmd (c : Cmd).        (* any other successfully parsed command *)

  (* what is written to the connection *)
  Inductive tok :=
  | TValue (ok : bool)     (* one complete reply value: a command's reply (ok) or an error *)
  | TArrayHdr (n : nat).   (* "*n": announces n values *)

  Record cstate := mkC { in_multi : bool; cmds : list Cmd }.
  Definition cinit := mkC false [].

  (* handleMulti: db.Update over the queued commands; stop at the first
     failure, roll back, and answer for the commands that were not run *)
  Fixpoint run_block (q : list Cmd) (d : DB) : DB * list tok * bool :=
    match q with
    | [] => (d, [], true)
    | c :: rest =>
        let '(d1, ok) := run c d in
        if ok then
          let '(d2, ts, ok2) := run_block rest d1 in (d2, TValue true :: ts, ok2)
        else (d1, TValue false :: map (fun _ => TValue false) rest, false)
    end.
  Definition exec_block (q : list Cmd) (d : DB) : DB * list tok :=
    let '(d1, ts, ok) := run_block q d in
    ((if ok then d1 else d), ts).

  (* handleSingle at DB level: a failing command is rolled back by its own
     DB-level transaction ([run] is used with rollback on failure) *)
  Definition run_single (c : Cmd) (d : DB) : DB * list tok :=
    let '(d1, ok) := run c d in ((if ok then d1 else d), [TValue ok]).

  (* the middleware chain, request by request *)
  Definition handle (st : cstate) (d : DB) (r : req) : cstate * DB * list tok :=
    match r with
    | RParseError => (st, d, [TValue false])                (* parse(): error reply, nothing pushed *)
    | _ =>
      if in_multi st then
        match r with
        | RMulti => (st, d, [TValue false])                 (* push, pop, ErrNestedMulti *)
        | RExec =>
            let '(d', ts) := exec_block (cmds st) d in
            (mkC false [], d', TArrayHdr (length (cmds st)) :: ts)
        | RDiscard => (mkC false [], d, [TValue true])
        | RCmd c => (mkC true (cmds st ++ [c]), d, [TValue true])   (* QUEUED *)
        | RParseError => (st, d, [TValue false])
        end
      else
        match r with
        | RMulti => (mkC true (cmds st), d, [TValue true])  (* push, pop, OK *)
        | RExec | RDiscard => (st, d, [TValue false])       (* push, pop, ErrNotInMulti *)
        | RCmd c => let '(d', ts) := run_single c d in (mkC false [], d', ts)
        | RParseError => (st, d, [TValue false])
        end
    end.

  (* ---------- the reference machine of the property ---------- *)
  (* idle / queuing; MULTI starts queuing; queued commands are acknowledged and
     have no effect; EXEC runs them in order as one all-or-nothing unit and
     replies with one array of their replies; DISCARD drops them; EXEC/DISCARD
     without MULTI and nested MULTI are refused *)
  Inductive rstate := Idle | Queuing (q : list Cmd).

  Fixpoint all_ok (q : list Cmd) (d : DB) : DB * bool :=
    match q with
    | [] => (d, true)
    | c :: rest => let '(d1, ok) := run c d in if ok then all_ok rest d1 else (d1, false)
    end.

  Definition ref_step (st : rstate) (d : DB) (r : req) : rstate * DB * nat (* complete replies *) :=
    match st, r with
    | _, RParseError => (st, d, 1)
    | Idle, RMulti => (Queuing [], d, 1)
    | Idle, (RExec | RDiscard) => (Idle, d, 1)
    | Idle, RCmd c => let '(d1, ok) := run c d in (Idle, (if ok then d1 else d), 1)
    | Queuing q, RMulti => (Queuing q, d, 1)
    | Queuing q, RCmd c => (Queuing (q ++ [c]), d, 1)
    | Queuing q, RDiscard => (Idle, d, 1)
    | Queuing q, RExec => let '(d1, ok) := all_ok q d in (Idle, (if ok then d1 else d), 1)
    end.

  (* a token stream is [count] complete values: [need] = values still owed to
     the array being read (0 = at top level); arrays are not nested *)
  Fixpoint cv (ts : list tok) (need count : nat) : option nat :=
    match ts with
    | [] => if need =? 0 then Some count else None
    | TValue _ :: r =>
        match need with
        | O => cv r 0 (S count)
        | S k => cv r k (if k =? 0 then S count else count)
        end
    | TArrayHdr n :: r =>
        match need with
        | O => if n =? 0 then cv r 0 (S count) else cv r n count
        | S _ => None
        end
    end.
  Definition complete_values (ts : list tok) : option nat := cv ts 0 0.

  Definition abs_state (st : cstate) : rstate :=
    if in_multi st then Queuing (cmds st) else Idle.
  (* outside a block the pending list is empty *)
  Definition wf (st : cstate) : Prop := in_multi st = false -> cmds st = [].

  (* many connections on one server: a step on connection i *)
  Definition conns := nat -> cstate.
  Definition upd (cs : conns) (i : nat) (st : cstate) : conns :=
    fun j => if Nat.eqb i j then st else cs j.
  Definition server_step (cs : conns) (d : DB) (i : nat) (r : req) : conns * DB * list tok :=
    let '(st', d', ts) := handle (cs i) d r in (upd cs i st', d', ts).
End Server.

Arguments in_multi {Cmd} _.
Arguments cmds {Cmd} _.
Arguments mkC {Cmd} _ _.
Arguments cinit {Cmd}.
Arguments RParseError {Cmd}.
Arguments RMulti {Cmd}.
Arguments RExec {Cmd}.
Arguments RDiscard {Cmd}.
Arguments RCmd {Cmd} c.
Arguments Idle {Cmd}.
Arguments Queuing {Cmd} q.
Arguments abs_state {Cmd} st.
Arguments wf {Cmd} st.
Arguments handle {DB Cmd} run st d r.
Arguments ref_step {DB Cmd} run st d r.
Arguments run_block {DB Cmd} run q d.
Arguments exec_block {DB Cmd} run q d.
Arguments run_single {DB Cmd} run c d.
Arguments all_ok {DB Cmd} run q d.
Arguments server_step {DB Cmd} run cs d i r.
Arguments upd {Cmd} cs i st.
