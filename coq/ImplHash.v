(* ImplHash.v — internal/rhash/tx.go, statement by statement, with the
   rhash_on_insert trigger.  No proofs here. *)
From Redka Require Import Base Db Glob.

Definition hash_rows (d : db) (kid : Z) : list hrow :=
  filter (fun r => h_kid r =? kid) (rhash d).
Definition next_hash_rid (d : db) : Z := zmax_list (map h_rid (rhash d)) + 1.

Definition live_hash_rows (now : Z) (d : db) (key : bytes) : list hrow :=
  match live_key now d key T_HASH with
  | Some k => hash_rows d (k_id k)
  | None => []
  end.

(* sqlCount: count(field) ... field in (:fields) *)
Definition hash_count (now : Z) (key : bytes) (fields : list bytes) : M Z :=
  lift_read (fun d => zlen (filter (fun r => str_in (h_field r) fields) (live_hash_rows now d key))).

(* sqlSet1 *)
Definition hash_set1 (now : Z) (key : bytes) : M keyrow :=
  typed_error (upsert_key now key T_HASH None (Some 0) (fun r => r)).

(* sqlSet2: insert into rhash (kid, field, value) values (?, ?, ?)
   on conflict (kid, field) do update set value = excluded.value;
   BEFORE INSERT trigger: len+1 when the (kid, field) pair is new *)
Definition hash_set2 (kid : Z) (field : bytes) (v : option bytes) : M unit :=
  fun d =>
    match v with
    | None => (d, Err (ESql (SqNotNull "rhash.value")))
    | Some v =>
        if existsb (fun r => (h_kid r =? kid) && String.eqb (h_field r) field) (rhash d)
        then (set_rhash d (map (fun r => if (h_kid r =? kid) && String.eqb (h_field r) field
                                         then mkH (h_rid r) kid field v else r) (rhash d)), Ok tt)
        else
          let d1 := upd_key_id kid (fun r => with_len r (opt_add (k_len r) 1)) d in
          (set_rhash d1 (rhash d1 ++ [mkH (next_hash_rid d1) kid field v]), Ok tt)
    end.

(* set(): ToBytes, sqlSet1, sqlSet2 *)
Definition hash_set_raw (now : Z) (key field : bytes) (v : value) : M unit :=
  match to_bytes v with
  | None => fail EValueType
  | Some vb => k <- hash_set1 now key ;; hash_set2 (k_id k) field vb
  end.

Definition hash_delete (now : Z) (key : bytes) (fields : list bytes) : M Z :=
  fun d =>
    match live_key now d key T_HASH with
    | None => (d, Ok 0)
    | Some k =>
        let hit := fun r => (h_kid r =? k_id k) && str_in (h_field r) fields in
        let n := zlen (filter hit (rhash d)) in
        if n =? 0 then (d, Ok 0)
        else (bump_key_len now key T_HASH n (set_rhash d (filter (fun r => negb (hit r)) (rhash d))), Ok n)
    end.

Definition hash_exists (now : Z) (key field : bytes) : M bool :=
  n <- hash_count now key [field] ;; ret (0 <? n).

Definition hash_fields (now : Z) (key : bytes) : M (list bytes) :=
  lift_read (fun d => map h_field (live_hash_rows now d key)).
Definition hash_values (now : Z) (key : bytes) : M (list bytes) :=
  lift_read (fun d => map h_val (live_hash_rows now d key)).
Definition hash_items (now : Z) (key : bytes) : M (list (bytes * bytes)) :=
  lift_read (fun d => map (fun r => (h_field r, h_val r)) (live_hash_rows now d key)).

Definition hash_get (now : Z) (key field : bytes) : M bytes :=
  fun d =>
    match find (fun r => String.eqb (h_field r) field) (live_hash_rows now d key) with
    | Some r => (d, Ok (h_val r))
    | None => (d, Err ENotFound)
    end.

Definition hash_get_many (now : Z) (key : bytes) (fields : list bytes) : M (list (bytes * bytes)) :=
  lift_read (fun d => map (fun r => (h_field r, h_val r))
                          (filter (fun r => str_in (h_field r) fields) (live_hash_rows now d key))).

Definition hash_incr (now : Z) (key field : bytes) (delta : Z) : M Z :=
  try_ (hash_get now key field) (fun r =>
    match r with
    | Err ENotFound | Ok _ =>
        let cur := match r with Ok v => v | _ => "" end in
        match value_int cur with
        | None => fail EValueType
        | Some n =>
            if negb (in_int64 (n + delta)) then fail EValueType else
            let nv := n + delta in
            hash_set_raw now key field (AInt nv) ;;; ret nv
        end
    | Err e => fail e
    end).

Definition hash_incr_float (now : Z) (key field : bytes) (delta : float)
           (parsed : bytes -> option float) (fmt : float -> bytes) : M float :=
  try_ (hash_get now key field) (fun r =>
    match r with
    | Err ENotFound | Ok _ =>
        let cur := match r with Ok v => v | _ => "" end in
        match (match cur with EmptyString => Some zero | _ => parsed cur end) with
        | None => fail EValueType
        | Some f =>
            let nv := (f + delta)%float in
            hash_set_raw now key field (AFloat nv (fmt nv)) ;;; ret nv
        end
    | Err e => fail e
    end).

Definition hash_len (now : Z) (key : bytes) : M Z :=
  fun d =>
    match live_key now d key T_HASH with
    | None => (d, Ok 0)
    | Some k => match k_len k with Some n => (d, Ok n) | None => (d, Err (ESql SqScanNull)) end
    end.

(* Set: IsValueType, count, set -> created *)
Definition hash_set (now : Z) (key field : bytes) (v : value) : M bool :=
  if negb (is_value_type v) then fail EValueType else
  c <- hash_count now key [field] ;;
  hash_set_raw now key field v ;;;
  ret (c =? 0).

Fixpoint hash_set_each (now : Z) (key : bytes) (items : list (bytes * value)) : M unit :=
  match items with
  | [] => ret tt
  | (f, v) :: r => hash_set_raw now key f v ;;; hash_set_each now key r
  end.

(* SetMany: items is a Go map (distinct fields, iteration order given) *)
Definition hash_set_many (now : Z) (key : bytes) (items : list (bytes * value)) : M Z :=
  if negb (forallb (fun fv => is_value_type (snd fv)) items) then fail EValueType else
  c <- hash_count now key (map fst items) ;;
  hash_set_each now key items ;;;
  ret (zlen items - c).

Definition hash_set_nx (now : Z) (key field : bytes) (v : value) : M bool :=
  if negb (is_value_type v) then fail EValueType else
  ex <- hash_exists now key field ;;
  if ex then ret false else
  hash_set_raw now key field v ;;; ret true.

(* sqlScan: "... order by rhash.rowid limit ?" *)
Definition hash_scan (now : Z) (key : bytes) (cursor : Z) (pat : bytes) (count : Z)
  : M (Z * list (bytes * bytes)) :=
  lift_read (fun d =>
    let count := if count =? 0 then 10 else count in
    let rows := filter (fun r => (cursor <? h_rid r) && glob pat (h_field r))
                       (live_hash_rows now d key) in
    let page := sql_limit 0 count rows in
    (zmax_list (map h_rid page), map (fun r => (h_field r, h_val r)) page)).
