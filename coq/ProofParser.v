(* ProofParser.v — theorems about the argument-parser model (Parser.v) and
   about the parse trees regenerated from /repo's source (gen/ParseSpecs.v). *)
From Redka Require Import Base Parser.
From Redka.gen Require ParseSpecs.
From Coq Require Import Lia.

Section P.
  Variable is_float : bytes -> bool.

  (* ---- keywords are recognised regardless of letter case ---- *)

  (* two spellings that fold to the same text are the same keyword for a flag:
     both are recognised or neither is, and when recognised the outcome is identical ... *)
  Theorem flag_case_insensitive : forall fuel name d e a a' r,
    fold_special a = fold_special a' ->
    equal_fold a name = equal_fold a' name /\
    (equal_fold a name = true ->
     run_prim is_float (S fuel) (PFlag name d) e (a :: r) = run_prim is_float (S fuel) (PFlag name d) e (a' :: r)).
  Proof.
    intros fuel name d e a a' r H. unfold equal_fold. rewrite H. split; [reflexivity|].
    intros M. cbn [run_prim]. unfold equal_fold. rewrite H, M. reflexivity.
  Qed.

  (* ... for a named option ... *)
  Theorem named_case_insensitive : forall fuel name ps e a a' r,
    fold_special a = fold_special a' ->
    equal_fold a name = equal_fold a' name /\
    (equal_fold a name = true ->
     run_prim is_float (S fuel) (PNamed name ps) e (a :: r) = run_prim is_float (S fuel) (PNamed name ps) e (a' :: r)).
  Proof.
    intros fuel name ps e a a' r H. unfold equal_fold. rewrite H. split; [reflexivity|].
    intros M. cbn [run_prim]. unfold equal_fold. rewrite H, M. reflexivity.
  Qed.

  (* ... and for an enumerated keyword (BEFORE/AFTER, SUM/MIN/MAX, type names) *)
  Theorem enum_case_insensitive : forall fuel d allowed e a a' r,
    lower a = lower a' -> str_in (lower a) allowed = true ->
    run_prim is_float (S fuel) (PEnum d allowed) e (a :: r) = run_prim is_float (S fuel) (PEnum d allowed) e (a' :: r).
  Proof. intros fuel d allowed e a a' r H M. cbn [run_prim]. rewrite <- H, M. reflexivity. Qed.

  (* changing the ASCII case of a letter does not change how a token folds *)
  Lemma lower_ascii_idem : forall c, lower_ascii (lower_ascii c) = lower_ascii c.
  Proof.
    intros c. unfold lower_ascii.
    destruct ((65 <=? N_of_ascii c)%N && (N_of_ascii c <=? 90)%N)%bool eqn:E; [|rewrite E; reflexivity].
    rewrite N_ascii_embedding.
    - apply andb_prop in E. destruct E as [E1 E2]. apply N.leb_le in E1, E2.
      destruct ((65 <=? N_of_ascii c + 32)%N && (N_of_ascii c + 32 <=? 90)%N)%bool eqn:F; [|reflexivity].
      apply andb_prop in F. destruct F as [_ F2]. apply N.leb_le in F2. lia.
    - apply andb_prop in E. destruct E as [_ E2]. apply N.leb_le in E2. lia.
  Qed.
  Theorem lower_idem : forall s, lower (lower s) = lower s.
  Proof. induction s as [|c r IH]; cbn [lower]; [reflexivity | rewrite lower_ascii_idem, IH; reflexivity]. Qed.

  (* ---- a value that happens to spell a keyword is still a value ---- *)

  (* a positional string/bytes parser at the head of the pipeline binds the
     next argument whatever it spells, and the pipeline goes on with the rest *)
  Theorem positional_string_binds : forall f d rest e a r,
    run_loop is_float (S f) (PString d :: rest) e (a :: r) = run_loop is_float f rest (pset e d (PVStr a)) r.
  Proof. intros. cbn [run_loop first_fired run_prim prim_fuel rev app]. reflexivity. Qed.
  Theorem positional_bytes_binds : forall f d rest e a r,
    run_loop is_float (S f) (PBytes d :: rest) e (a :: r) = run_loop is_float f rest (pset e d (PVStr a)) r.
  Proof. intros. cbn [run_loop first_fired run_prim prim_fuel rev app]. reflexivity. Qed.
  Theorem positional_int_binds : forall f d rest e a r z,
    atoi a = Some z ->
    run_loop is_float (S f) (PInt d :: rest) e (a :: r) = run_loop is_float f rest (pset e d (PVInt z)) r.
  Proof. intros. cbn [run_loop first_fired run_prim prim_fuel rev app]. rewrite H. reflexivity. Qed.

  (* ---- malformed invocations are errors ---- *)

  Theorem too_few_arguments_is_an_error : forall p args,
    zlen args < pl_required p -> run_pipeline is_float p args = inr PErrArgNum.
  Proof. intros. unfold run_pipeline. destruct (zlen args <? pl_required p) eqn:E; [reflexivity | apply Z.ltb_ge in E; lia]. Qed.

  Theorem bad_integer_is_an_error : forall f d rest e a r,
    atoi a = None -> run_loop is_float (S f) (PInt d :: rest) e (a :: r) = inr PErrInt.
  Proof. intros. cbn [run_loop first_fired run_prim prim_fuel]. rewrite H. reflexivity. Qed.

  Theorem bad_float_is_an_error : forall f d rest e a r,
    is_float a = false -> run_loop is_float (S f) (PFloat d :: rest) e (a :: r) = inr PErrFloat.
  Proof. intros. cbn [run_loop first_fired run_prim prim_fuel]. rewrite H. reflexivity. Qed.

  (* a negative key count is refused instead of reaching make([]string, n) *)
  Theorem negative_count_is_an_error : forall fuel d nvar e a r n,
    pget e nvar = Some (PVInt n) -> n < 0 ->
    run_prim is_float (S fuel) (PStringsN d nvar) e (a :: r) = (true, a :: r, e, Some PErrArgNum).
  Proof.
    intros. cbn [run_prim]. rewrite H. destruct (n <? 0) eqn:E; [reflexivity | apply Z.ltb_ge in E; lia].
  Qed.

  (* arguments nobody consumes are a syntax error *)
  Theorem leftover_arguments_are_an_error : forall f e a r,
    run_loop is_float (S f) [] e (a :: r) = inr PErrSyntax.
  Proof. reflexivity. Qed.
End P.

(* ---- facts about the trees generated from the current source ---- *)

Definition positional_prim (p : prim) : bool :=
  match p with
  | PString _ | PBytes _ | PInt _ | PFloat _ | PEnum _ _ | PStrings _ | PAnys _
  | PStringsN _ _ | PAnyMap _ | PFloatMap _ => true
  | _ => false
  end.
Fixpoint option_only (ps : list prim) : bool :=
  match ps with
  | [] => true
  | p :: r => negb (positional_prim p) && option_only r
  end.
(* positional parsers first, then only options *)
Fixpoint positional_first (ps : list prim) : bool :=
  match ps with
  | [] => true
  | p :: r => if positional_prim p then positional_first r else option_only ps
  end.

Fixpoint is_lower_ascii (s : string) : bool :=
  match s with
  | EmptyString => true
  | String c r => let n := N_of_ascii c in ((97 <=? n)%N && (n <=? 122)%N)%bool && is_lower_ascii r
  end.
Fixpoint keywords_lower (p : prim) : bool :=
  match p with
  | PFlag name _ => is_lower_ascii name
  | PNamed name ps => is_lower_ascii name && forallb keywords_lower ps
  | POneOf ps => forallb keywords_lower ps
  | PEnum _ allowed => forallb is_lower_ascii allowed
  | _ => true
  end.

(* in every command of the current source: the positional arguments come
   first (so the first arguments are bound as values whatever they spell) ... *)
Theorem all_specs_positional_first :
  forallb (fun s => positional_first (pl_parsers (snd s))) ParseSpecs.all_specs = true.
Proof. vm_compute. reflexivity. Qed.

(* ... and every keyword is spelled in lower-case ASCII in the source, which is
   what the case-folding comparison of Flag / Named / Enum relies on *)
Theorem all_specs_keywords_lower :
  forallb (fun s => forallb keywords_lower (pl_parsers (snd s))) ParseSpecs.all_specs = true.
Proof. vm_compute. reflexivity. Qed.

(* the required count never exceeds what the positional parsers can take, and is non-negative *)
Theorem all_specs_required_nonneg :
  forallb (fun s => 0 <=? pl_required (snd s)) ParseSpecs.all_specs = true.
Proof. vm_compute. reflexivity. Qed.

(* examples on the generated SET grammar: options in any order, any letter case;
   a value that spells a keyword; conflicting options *)
Definition fl (s : bytes) : bool := true.
Example set_examples :
  (exists e, run_pipeline fl ParseSpecs.spec_string_ParseSet ["k"; "v"; "NX"; "ex"; "10"; "GeT"] = inl e) /\
  (exists e, run_pipeline fl ParseSpecs.spec_string_ParseSet ["k"; "v"; "get"; "EX"; "10"; "nx"] = inl e) /\
  (exists e, run_pipeline fl ParseSpecs.spec_string_ParseSet ["nx"; "xx"] = inl e) /\
  run_pipeline fl ParseSpecs.spec_string_ParseSet ["k"; "v"; "nx"; "xx"] = inr PErrSyntax /\
  run_pipeline fl ParseSpecs.spec_string_ParseSet ["k"; "v"; "ex"; "abc"] = inr PErrInt /\
  run_pipeline fl ParseSpecs.spec_string_ParseSet ["k"] = inr PErrArgNum /\
  run_pipeline fl ParseSpecs.spec_string_ParseSet ["k"; "v"; "bogus"] = inr PErrSyntax.
Proof. vm_compute. repeat split; try reflexivity; eexists; reflexivity. Qed.
