(* Writer.v - "every command writes exactly one reply value".

   A small IR for what a command's Run method does with its redis.Writer
   (the IR is produced from the Go source by harness/cmd/wprogs, see
   gen/WriterProgs.v), the set of token traces an IR program can emit, the
   property "the trace is exactly one complete RESP value", and an executable
   checker (an abstract interpretation: the number of values still expected is
   tracked as a linear expression over the collection lengths).
   Definitions only; the soundness proof is in ProofWriter.v. *)
From Coq Require Import List Bool Arith ZArith String.
Import ListNotations.
Open Scope string_scope.

(* ------------------------------------------------------------------ *)
(* IR                                                                 *)
(* ------------------------------------------------------------------ *)

(* the argument of WriteArray *)
Inductive lenx :=
| LConst (n : nat)               (* integer literal *)
| LLen (x : string)              (* len(x) *)
| LMul (k : nat) (e : lenx)      (* k * e *)
| LAdd (a b : lenx)              (* a + b *)
| LUnknown.                      (* anything else *)

Inductive wstmt :=
| WVal                               (* a call that writes ONE complete value *)
| WArr (n : lenx)                    (* WriteArray(n): header, n values follow *)
| WIf (a b : list wstmt)             (* a branch, either side may be taken *)
| WFor (x : string) (body : list wstmt)  (* body once per element of x *)
| WRet                               (* return *)
| WUnknown.                          (* unclassified use of the writer *)

(* what goes on the wire, as far as framing is concerned *)
Inductive tok := TVal | TArr (n : nat).

Definition env := string -> nat.

(* ------------------------------------------------------------------ *)
(* Semantics: the traces a program can emit                           *)
(* ------------------------------------------------------------------ *)

Fixpoint leval (en : env) (e : lenx) : option nat :=
  match e with
  | LConst n => Some n
  | LLen x => Some (en x)
  | LMul k e1 => match leval en e1 with Some v => Some (k * v)%nat | None => None end
  | LAdd a b => match leval en a, leval en b with
                | Some u, Some v => Some (u + v)%nat
                | _, _ => None
                end
  | LUnknown => None
  end.

(* [exec en p tr ret]: program p can emit the token trace tr and then either
   has returned (ret = true) or falls off its end (ret = false).
   [iter en n body tr ret]: n successive executions of a loop body.
   WUnknown can do anything; an array header whose length is unknown can
   announce any number of values. *)
Inductive exec (en : env) : list wstmt -> list tok -> bool -> Prop :=
| E_nil : exec en [] [] false
| E_val : forall rest tr r,
    exec en rest tr r -> exec en (WVal :: rest) (TVal :: tr) r
| E_arr : forall e n rest tr r,
    leval en e = Some n -> exec en rest tr r -> exec en (WArr e :: rest) (TArr n :: tr) r
| E_arr_unknown : forall e n rest tr r,
    leval en e = None -> exec en rest tr r -> exec en (WArr e :: rest) (TArr n :: tr) r
| E_if_l_ret : forall a b rest tr,
    exec en a tr true -> exec en (WIf a b :: rest) tr true
| E_if_l : forall a b rest tr1 tr2 r,
    exec en a tr1 false -> exec en rest tr2 r -> exec en (WIf a b :: rest) (tr1 ++ tr2) r
| E_if_r_ret : forall a b rest tr,
    exec en b tr true -> exec en (WIf a b :: rest) tr true
| E_if_r : forall a b rest tr1 tr2 r,
    exec en b tr1 false -> exec en rest tr2 r -> exec en (WIf a b :: rest) (tr1 ++ tr2) r
| E_for_ret : forall x body rest tr,
    iter en (en x) body tr true -> exec en (WFor x body :: rest) tr true
| E_for : forall x body rest tr1 tr2 r,
    iter en (en x) body tr1 false -> exec en rest tr2 r ->
    exec en (WFor x body :: rest) (tr1 ++ tr2) r
| E_ret : forall rest, exec en (WRet :: rest) [] true
| E_unknown : forall rest tr r, exec en (WUnknown :: rest) tr r
with iter (en : env) : nat -> list wstmt -> list tok -> bool -> Prop :=
| I_done : forall body, iter en O body [] false
| I_ret : forall n body tr, exec en body tr true -> iter en (S n) body tr true
| I_next : forall n body tr1 tr2 r,
    exec en body tr1 false -> iter en n body tr2 r -> iter en (S n) body (tr1 ++ tr2) r.

Definition runs (p : list wstmt) (en : env) (tr : list tok) (ret : bool) : Prop :=
  exec en p tr ret.

(* ------------------------------------------------------------------ *)
(* One complete RESP value                                            *)
(* ------------------------------------------------------------------ *)

(* [feed tr c]: c values are still expected; every token needs c >= 1; a value
   consumes one, an array header consumes one and asks for n more. *)
Fixpoint feed (tr : list tok) (c : nat) : option nat :=
  match tr with
  | [] => Some c
  | t :: tr' =>
      match c with
      | O => None
      | S c' => feed tr' (match t with TVal => c' | TArr n => c' + n end)%nat
      end
  end.

Definition one_value (tr : list tok) : Prop := feed tr 1 = Some O.
Definition one_valueb (tr : list tok) : bool :=
  match feed tr 1 with Some O => true | _ => false end.

(* ------------------------------------------------------------------ *)
(* Abstract domain: linear forms  c + sum k_i * len(x_i)  over Z       *)
(* ------------------------------------------------------------------ *)

Open Scope Z_scope.

Definition terms := list (string * Z).
Definition lin := (Z * terms)%type.

Fixpoint ev_terms (en : env) (t : terms) : Z :=
  match t with
  | [] => 0
  | (x, k) :: r => k * Z.of_nat (en x) + ev_terms en r
  end.
Definition ev (en : env) (L : lin) : Z := fst L + ev_terms en (snd L).

(* coefficient of x (sum of its entries), x removed, k*x added (merging) *)
Fixpoint coef (x : string) (t : terms) : Z :=
  match t with
  | [] => 0
  | (y, k) :: r => if String.eqb x y then k + coef x r else coef x r
  end.
Fixpoint remove_var (x : string) (t : terms) : terms :=
  match t with
  | [] => []
  | (y, k) :: r => if String.eqb x y then remove_var x r else (y, k) :: remove_var x r
  end.
Fixpoint add_term (x : string) (k : Z) (t : terms) : terms :=
  match t with
  | [] => [(x, k)]
  | (y, j) :: r => if String.eqb x y then (y, j + k) :: r else (y, j) :: add_term x k r
  end.

Definition lconst (c : Z) : lin := (c, []).
Definition ladd_const (c : Z) (L : lin) : lin := (fst L + c, snd L).
Definition ladd_term (x : string) (k : Z) (L : lin) : lin := (fst L, add_term x k (snd L)).
Definition ladd (A B : lin) : lin :=
  (fst A + fst B, fold_right (fun xk acc => add_term (fst xk) (snd xk) acc) (snd A) (snd B)).
Definition lscale (k : Z) (A : lin) : lin :=
  (k * fst A, map (fun xk => (fst xk, k * snd xk)) (snd A)).
Definition lsub (A B : lin) : lin := ladd A (lscale (-1) B).

(* L >= 1 for every environment; L = 0 for every environment; L constant *)
Definition all_nonneg (t : terms) : bool := forallb (fun xk => 0 <=? snd xk) t.
Definition all_zero (t : terms) : bool := forallb (fun xk => snd xk =? 0) t.
Definition ge1 (L : lin) : bool := (1 <=? fst L) && all_nonneg (snd L).
Definition is_zero (L : lin) : bool := (fst L =? 0) && all_zero (snd L).
Definition lin_eqb (A B : lin) : bool := is_zero (lsub A B).

Fixpoint lin_of_lenx (e : lenx) : option lin :=
  match e with
  | LConst n => Some (lconst (Z.of_nat n))
  | LLen x => Some (0, [(x, 1)])
  | LMul k e1 => match lin_of_lenx e1 with Some A => Some (lscale (Z.of_nat k) A) | None => None end
  | LAdd a b => match lin_of_lenx a, lin_of_lenx b with
                | Some A, Some B => Some (ladd A B)
                | _, _ => None
                end
  | LUnknown => None
  end.

(* ------------------------------------------------------------------ *)
(* Syntactic helpers                                                  *)
(* ------------------------------------------------------------------ *)

Fixpoint lenx_mentions (x : string) (e : lenx) : bool :=
  match e with
  | LLen y => String.eqb x y
  | LMul _ e1 => lenx_mentions x e1
  | LAdd a b => lenx_mentions x a || lenx_mentions x b
  | _ => false
  end.

(* does the statement refer to the collection x? *)
Fixpoint mentions (x : string) (s : wstmt) : bool :=
  match s with
  | WArr e => lenx_mentions x e
  | WIf a b => existsb (mentions x) a || existsb (mentions x) b
  | WFor y body => String.eqb x y || existsb (mentions x) body
  | _ => false
  end.
Definition mentions_l (x : string) (p : list wstmt) : bool := existsb (mentions x) p.

(* can the statement return (WUnknown can do anything)? *)
Fixpoint may_ret (s : wstmt) : bool :=
  match s with
  | WIf a b => existsb may_ret a || existsb may_ret b
  | WFor _ body => existsb may_ret body
  | WRet | WUnknown => true
  | _ => false
  end.
Definition may_ret_l (p : list wstmt) : bool := existsb may_ret p.

Fixpoint ssize (s : wstmt) : nat :=
  match s with
  | WIf a b => S (list_sum (map ssize a) + list_sum (map ssize b))
  | WFor _ body => S (list_sum (map ssize body))
  | _ => 1%nat
  end.
Definition psize (p : list wstmt) : nat := list_sum (map ssize p).

(* ------------------------------------------------------------------ *)
(* The checker                                                        *)
(* ------------------------------------------------------------------ *)

(* outcome of analysing a statement list from an abstract state:
   rejected / every path returns (each with 0 values expected) /
   the paths that fall off the end do so with L values expected *)
Inductive res := RFail | RRet | RFall (L : lin).

Definition join (a b : res) : res :=
  match a, b with
  | RFail, _ | _, RFail => RFail
  | RRet, r | r, RRet => r
  | RFall A, RFall B => if lin_eqb A B then RFall A else RFail
  end.

(* [chk f p L]: f is fuel (psize p + 1 is enough).
   WFor x body, with L = L' + k*len(x): the body must not refer to x; it is
   analysed from L' + k + k*x where x now stands for the number of iterations
   still to come AFTER the current one (any natural number); its fall-through
   state must differ from its start state by a constant d; then k + d >= 0 is
   what one iteration leaves over, per element; if the body can return, k + d
   must be 0 (otherwise the left-over of earlier iterations would be expected
   at the return).  After the loop: L' + (k+d)*len(x). *)
Fixpoint chk (f : nat) (p : list wstmt) (L : lin) : res :=
  match f with
  | O => RFail
  | S f' =>
    match p with
    | [] => RFall L
    | s :: rest =>
      match s with
      | WVal => if ge1 L then chk f' rest (ladd_const (-1) L) else RFail
      | WArr e =>
          match lin_of_lenx e with
          | None => RFail
          | Some A => if ge1 L then chk f' rest (ladd (ladd_const (-1) L) A) else RFail
          end
      | WIf a b =>
          match join (chk f' a L) (chk f' b L) with
          | RFail => RFail
          | RRet => RRet
          | RFall L' => chk f' rest L'
          end
      | WFor x body =>
          if mentions_l x body then RFail else
          let k := coef x (snd L) in
          let L' := (fst L, remove_var x (snd L)) in
          let S0 := ladd_const k (ladd_term x k L') in
          match chk f' body S0 with
          | RFail => RFail
          | RRet => chk f' rest L'          (* reached only when x is empty *)
          | RFall E =>
              let D := lsub E S0 in
              if all_zero (snd D) then
                let m := k + fst D in
                if (m =? 0) || ((0 <? m) && negb (may_ret_l body))
                then chk f' rest (ladd_term x m L')
                else RFail
              else RFail
          end
      | WRet => if is_zero L then RRet else RFail
      | WUnknown => RFail
      end
    end
  end.

Definition check (p : list wstmt) : bool :=
  match chk (S (psize p)) p (lconst 1) with
  | RFail => false
  | RRet => true
  | RFall L => is_zero L
  end.
