(* Base.v — values shared by every layer of the model.
   Byte strings are Coq [string]s (one [ascii] = one byte), integers are [Z],
   binary64 values are primitive floats.  No proofs here. *)
From Coq Require Export List ZArith String Ascii Bool Lia PrimFloat.
Export ListNotations.
Open Scope string_scope.
Open Scope list_scope.
Open Scope Z_scope.

Definition bytes := string.

(* ---------- errors ---------- *)

(* storage-level failures the model can produce (the class is what the
   correspondence check compares, never the message text) *)
Inductive sqlerr :=
| SqNotNull (col : string)      (* NOT NULL constraint failed: <col> *)
| SqUnique (col : string)       (* UNIQUE constraint failed: <cols> *)
| SqMismatch                    (* datatype mismatch (NULL used as LIMIT) *)
| SqVacuum                      (* cannot VACUUM from within a transaction *)
| SqScanNull                    (* driver cannot scan NULL into the Go destination *)
| SqReadOnly                    (* attempt to write a readonly database *)
| SqFault.                      (* injected fault / cancelled context *)

Inductive err :=
| ENotFound | EKeyType | EValueType | ESql (e : sqlerr).

Inductive res (A : Type) :=
| Ok (a : A)
| Err (e : err).
Arguments Ok {A} a.
Arguments Err {A} e.

(* ---------- results of operations (one uniform tree) ---------- *)

Inductive rv :=
| VNone                       (* Go nil / no value *)
| VI (z : Z)
| VB (b : bool)
| VS (s : bytes)
| VF (f : float)
| VL (l : list rv)            (* ordered *)
| VU (l : list rv)            (* unordered: compared as a multiset *)
| VE (e : err).

(* what a call returns: a value, an error, or (rarely) both *)
Record out := mkOut { o_val : rv; o_err : option err }.
Definition out_ok (v : rv) : out := mkOut v None.
Definition out_err (e : err) : out := mkOut VNone (Some e).
Definition out_both (v : rv) (e : err) : out := mkOut v (Some e).
Definition is_err (o : out) : bool := match o_err o with Some _ => true | None => false end.

(* ---------- Go int arithmetic ---------- *)

Definition int64_min : Z := - 2 ^ 63.
Definition int64_max : Z := 2 ^ 63 - 1.
Definition in_int64 (z : Z) : bool := (int64_min <=? z) && (z <=? int64_max).
(* two's-complement wrap-around of Go's int (64 bit) *)
Definition wrap64 (z : Z) : Z := (z + 2 ^ 63) mod 2 ^ 64 - 2 ^ 63.

(* ---------- strconv.Itoa / strconv.Atoi ---------- *)

Definition digit_char (d : Z) : ascii := ascii_of_N (Z.to_N (48 + d)).

Fixpoint itoa_pos (fuel : nat) (n : Z) (acc : string) : string :=
  match fuel with
  | O => acc
  | S f =>
      let acc' := String (digit_char (n mod 10)) acc in
      if n <? 10 then acc' else itoa_pos f (n / 10) acc'
  end.

Definition itoa (z : Z) : string :=
  if z <? 0
  then String "-" (itoa_pos (S (Z.to_nat (Z.log2 (- z)))) (- z) "")
  else itoa_pos (S (Z.to_nat (Z.log2 z))) z "".

Definition digit_of (c : ascii) : option Z :=
  let n := Z.of_N (N_of_ascii c) in
  if (48 <=? n) && (n <=? 57) then Some (n - 48) else None.

Fixpoint atoi_digits (s : string) (acc : Z) : option Z :=
  match s with
  | EmptyString => Some acc
  | String c r =>
      match digit_of c with
      | Some d => atoi_digits r (acc * 10 + d)
      | None => None
      end
  end.

(* strconv.Atoi: optional sign, at least one decimal digit, nothing else,
   value inside int64 *)
Definition atoi (s : string) : option Z :=
  match s with
  | EmptyString => None
  | String c r =>
      let '(neg, body) :=
        if Ascii.eqb c "-" then (true, r)
        else if Ascii.eqb c "+" then (false, r)
        else (false, s) in
      match body with
      | EmptyString => None
      | _ =>
          match atoi_digits body 0 with
          | Some n =>
              let v := if neg then - n else n in
              if in_int64 v then Some v else None
          | None => None
          end
      end
  end.

(* core.Value.Int: the empty value reads as 0 *)
Definition value_int (s : bytes) : option Z :=
  match s with EmptyString => Some 0 | _ => atoi s end.

(* ---------- values handed to the API as [any] ---------- *)

(* A float argument carries the text strconv.FormatFloat(v,'f',-1,64) gives for
   it (supplied by the harness from the real strconv: an oracle, see DESIGN 3.5) *)
Inductive value :=
| AStr (s : bytes)           (* Go string *)
| ABytes (s : bytes)         (* Go []byte, non-nil *)
| ANil                       (* Go []byte(nil) *)
| AInt (z : Z)
| ABool (b : bool)
| AFloat (f : float) (text : bytes)
| ABad.                      (* any other Go type: not a value type *)

(* core.ToBytes.  [None] = ErrValueType.  The inner option is a value the SQL
   driver would bind as NULL; since the nil-slice repair no Go value does. *)
Definition to_bytes (v : value) : option (option bytes) :=
  match v with
  | AStr s => Some (Some s)
  | ABytes s => Some (Some s)
  | ANil => Some (Some "")
  | AInt z => Some (Some (itoa z))
  | ABool b => Some (Some (if b then "1" else "0"))
  | AFloat _ t => Some (Some t)
  | ABad => None
  end.

Definition is_value_type (v : value) : bool :=
  match v with ABad => false | _ => true end.

(* ---------- small list helpers ---------- *)

Definition zlen {A} (l : list A) : Z := Z.of_nat (List.length l).

Fixpoint zmax_list (l : list Z) : Z :=
  match l with
  | [] => 0
  | x :: r => Z.max x (zmax_list r)
  end.

Definition str_in (s : string) (l : list string) : bool :=
  existsb (String.eqb s) l.

Fixpoint dedup (l : list string) : list string :=
  match l with
  | [] => []
  | x :: r => if str_in x r then dedup r else x :: dedup r
  end.

(* insertion sort, stable, by a boolean "less or equal" *)
Section Sort.
  Context {A : Type} (le : A -> A -> bool).
  Fixpoint insert_sorted (x : A) (l : list A) : list A :=
    match l with
    | [] => [x]
    | y :: r => if le x y then x :: l else y :: insert_sorted x r
    end.
  (* stable: equal elements keep their input order *)
  Fixpoint isort (l : list A) : list A :=
    match l with
    | [] => []
    | x :: r => insert_sorted x (isort r)
    end.
End Sort.

(* take / drop with Z arguments, SQL style *)
(* (recursion on the list, so that huge counts cost nothing when run) *)
Fixpoint ztake {A} (n : Z) (l : list A) : list A :=
  match l with
  | [] => []
  | x :: r => if n <=? 0 then [] else x :: ztake (n - 1) r
  end.
Fixpoint zdrop {A} (n : Z) (l : list A) : list A :=
  match l with
  | [] => []
  | x :: r => if n <=? 0 then l else zdrop (n - 1) r
  end.

(* SQLite [LIMIT cnt OFFSET off]: a negative offset counts as 0, a negative
   count means "no limit" *)
Definition sql_limit {A} (off cnt : Z) (l : list A) : list A :=
  let l' := zdrop (Z.max off 0) l in
  if cnt <? 0 then l' else ztake cnt l'.
