(* ProofBg.v — property C20: expired keys are reclaimed on their own, without
   disturbing service.  Theorems about the definitions of Bg.v. *)
From Redka Require Import Base Db ImplKey Ops Spec Abs Inv Refine ProofInv ProofExpiry Bg.

Theorem C20_tick_is_purge : forall now d, tick now d = purge now d.
Proof.
  intros now d. unfold tick, purge, key_delete_expired. change (0 <? 0) with false. cbv iota.
  destruct (delete_keys (expired now) d) as [d' c]. reflexivity.
Qed.

(* the tick removes exactly the expired keys together with all their elements,
   nothing else, and reports how many keys it removed *)
Theorem C20_tick_exact : forall now d, Inv d ->
  let d' := tick now d in
  tick_count now d = Ok (zlen (filter (expired now) (rkey d))) /\
  rkey d' = filter (fun k => negb (expired now k)) (rkey d) /\
  (forall x, In x (rstring d') <-> In x (rstring d) /\ exists k, In k (rkey d') /\ k_id k = s_kid x) /\
  (forall x, In x (rlist d') <-> In x (rlist d) /\ exists k, In k (rkey d') /\ k_id k = l_kid x) /\
  (forall x, In x (rset d') <-> In x (rset d) /\ exists k, In k (rkey d') /\ k_id k = e_kid x) /\
  (forall x, In x (rhash d') <-> In x (rhash d) /\ exists k, In k (rkey d') /\ k_id k = h_kid x) /\
  (forall x, In x (rzset d') <-> In x (rzset d) /\ exists k, In k (rkey d') /\ k_id k = z_kid x).
Proof.
  intros now d I. pose proof (C10_cleaner_exact now d I) as H.
  unfold tick, tick_count. destruct (key_delete_expired now 0 d) as [d' r].
  cbn [fst snd]. destruct H as [_ H]. exact H.
Qed.

Theorem C20_live_untouched : forall now d r,
  Inv d -> In r (rkey d) -> expired now r = false -> In r (rkey (tick now d)).
Proof.
  intros now d r I Hr X. rewrite C20_tick_is_purge, rkey_purge.
  apply filter_In. split; [exact Hr | rewrite X; reflexivity].
Qed.

(* ... and every element row of a key that has not expired is still there *)
Theorem C20_live_elements_untouched : forall now d r,
  Inv d -> In r (rkey d) -> expired now r = false ->
  (forall x, In x (rstring d) -> s_kid x = k_id r -> In x (rstring (tick now d))) /\
  (forall x, In x (rlist d) -> l_kid x = k_id r -> In x (rlist (tick now d))) /\
  (forall x, In x (rset d) -> e_kid x = k_id r -> In x (rset (tick now d))) /\
  (forall x, In x (rhash d) -> h_kid x = k_id r -> In x (rhash (tick now d))) /\
  (forall x, In x (rzset d) -> z_kid x = k_id r -> In x (rzset (tick now d))).
Proof.
  intros now d r I Hr X.
  pose proof (C20_live_untouched now d r I Hr X) as L.
  destruct (C20_tick_exact now d I) as [_ [_ [S [Ls [E [H Z]]]]]].
  repeat split; intros x Hx Ex.
  - apply S. split; [exact Hx|]. exists r. split; [exact L | symmetry; exact Ex].
  - apply Ls. split; [exact Hx|]. exists r. split; [exact L | symmetry; exact Ex].
  - apply E. split; [exact Hx|]. exists r. split; [exact L | symmetry; exact Ex].
  - apply H. split; [exact Hx|]. exists r. split; [exact L | symmetry; exact Ex].
  - apply Z. split; [exact Hx|]. exists r. split; [exact L | symmetry; exact Ex].
Qed.

(* after a tick at time [now] nothing that has expired by [now] is stored *)
Theorem C20_bounded_delay : forall now d r, In r (rkey (tick now d)) -> expired now r = false.
Proof. intros now d r. rewrite C20_tick_is_purge. apply C10_purge_no_expired. Qed.

(* hence: a key whose expiry time e is <= t is physically gone after any tick
   at a time now >= t; if a tick occurs in every window of length T, that is by
   t + T at the latest *)
Theorem C20_gone_by_deadline : forall t T now d r e,
  k_etime r = Some e -> e <= t -> t <= now <= t + T -> ~ In r (rkey (tick now d)).
Proof.
  intros t T now d r e E Le [Lo _] H. apply C20_bounded_delay in H.
  unfold expired in H. rewrite E in H. apply Z.leb_gt in H. lia.
Qed.

(* no read operation can tell whether the tick has happened (Key.Len, which
   counts rows, is the recorded known finding) *)
Theorem C20_tick_invisible : forall b now o d,
  Inv d -> is_read o = true -> o <> KLen ->
  snd (exec_tx b now o (tick now d)) = snd (exec_tx b now o d).
Proof. intros b now o d. rewrite C20_tick_is_purge. apply C10_reads_ignore_expired. Qed.

(* the abstract keyspace, which every refinement theorem speaks about, is the same *)
Theorem C20_tick_abs : forall now d, Inv d -> abs now (tick now d) = abs now d.
Proof. intros now d. rewrite C20_tick_is_purge. apply C10_purge_abs. Qed.

Theorem C20_tick_keeps_consistency : forall now d, Inv d -> Inv (tick now d).
Proof. intros now d. rewrite C20_tick_is_purge. apply C10_purge_inv. Qed.

(* any run of ticks keeps the state consistent *)
Theorem C20_ticks_keep_consistency : forall times d, Inv d -> Inv (ticks times d).
Proof.
  unfold ticks. induction times as [|t ts IH]; intros d I; cbn [fold_left]; [exact I|].
  apply IH. apply C20_tick_keeps_consistency. exact I.
Qed.

Print Assumptions C20_tick_is_purge.
Print Assumptions C20_tick_exact.
Print Assumptions C20_live_untouched.
Print Assumptions C20_live_elements_untouched.
Print Assumptions C20_bounded_delay.
Print Assumptions C20_gone_by_deadline.
Print Assumptions C20_tick_invisible.
Print Assumptions C20_tick_abs.
Print Assumptions C20_tick_keeps_consistency.
Print Assumptions C20_ticks_keep_consistency.
