(* Inv.v — the structural consistency rules of the stored representation (C11)
   as a boolean predicate, the outcome classes of C12 and the metadata rules
   of C19.  These executable definitions are both the predicates the theorems
   are about and what the correspondence check evaluates on every state it
   reaches.  No proofs here. *)
From Redka Require Import Base Db Ops.

Fixpoint nodup_z (l : list Z) : bool :=
  match l with
  | [] => true
  | x :: r => negb (zmem x r) && nodup_z r
  end.
Fixpoint nodup_s (l : list bytes) : bool :=
  match l with
  | [] => true
  | x :: r => negb (str_in x r) && nodup_s r
  end.

Definition key_of_type (d : db) (kid : Z) (typ : Z) : bool :=
  match find_id d kid with
  | Some r => k_type r =? typ
  | None => false
  end.

Fixpoint nodup_by {A} (eq : A -> A -> bool) (l : list A) : bool :=
  match l with
  | [] => true
  | x :: r => negb (existsb (eq x) r) && nodup_by eq r
  end.

Definition count_children (d : db) (r : keyrow) : Z :=
  let id := k_id r in
  match k_type r with
  | 2 => zlen (filter (fun x => l_kid x =? id) (rlist d))
  | 3 => zlen (filter (fun x => e_kid x =? id) (rset d))
  | 4 => zlen (filter (fun x => h_kid x =? id) (rhash d))
  | 5 => zlen (filter (fun x => z_kid x =? id) (rzset d))
  | _ => 0
  end.

(* the cached length equals the number of elements (types 2-5); a string key
   has exactly one value row *)
Definition len_ok (d : db) (r : keyrow) : bool :=
  if k_type r =? 1
  then zlen (filter (fun x => s_kid x =? k_id r) (rstring d)) =? 1
  else match k_len r with
       | Some n => n =? count_children d r
       | None => false
       end.

Definition inv_ok (d : db) : bool :=
  (* one row per name, one row per id *)
  nodup_s (map k_key (rkey d)) && nodup_z (map k_id (rkey d)) &&
  forallb (fun r => (0 <? k_id r) && (1 <=? k_type r) && (k_type r <=? 5)) (rkey d) &&
  (* every element belongs to an existing key of the matching type *)
  forallb (fun x => key_of_type d (s_kid x) 1) (rstring d) &&
  forallb (fun x => key_of_type d (l_kid x) 2) (rlist d) &&
  forallb (fun x => key_of_type d (e_kid x) 3) (rset d) &&
  forallb (fun x => key_of_type d (h_kid x) 4) (rhash d) &&
  forallb (fun x => key_of_type d (z_kid x) 5) (rzset d) &&
  (* uniqueness where the type demands it; list positions distinct and numbers *)
  nodup_z (map s_kid (rstring d)) &&
  nodup_by (fun a b => (l_kid a =? l_kid b) && (l_pos a =? l_pos b)%float) (rlist d) &&
  forallb (fun x => (l_pos x =? l_pos x)%float) (rlist d) &&
  nodup_by (fun a b => (e_kid a =? e_kid b) && String.eqb (e_elem a) (e_elem b)) (rset d) &&
  nodup_by (fun a b => (h_kid a =? h_kid b) && String.eqb (h_field a) (h_field b)) (rhash d) &&
  nodup_by (fun a b => (z_kid a =? z_kid b) && String.eqb (z_elem a) (z_elem b)) (rzset d) &&
  nodup_z (map e_rid (rset d)) && nodup_z (map h_rid (rhash d)) && nodup_z (map z_rid (rzset d)) &&
  (* cached lengths *)
  forallb (len_ok d) (rkey d).

(* ---------- C12: outcome classes ---------- *)

Inductive oclass := CRead | CRefused | CNothing | CChanged.

(* "there was nothing to do": the call succeeded (or reported not-found) and
   says so in its result *)
Definition nothing_result (o : op) (r : out) : bool :=
  match o_err r with
  | Some ENotFound => true
  | Some _ => false
  | None =>
      match o, o_val r with
      | KDelete _, VI 0 | KDeleteExpired _, VI 0 => true
      | KRenameNX _ _, VB false => true
      | SSetWith _ _ _, VL [_; VB false; VB false] => true
      | LDelete _ _, VI 0 | LDeleteBack _ _ _, VI 0 | LDeleteFront _ _ _, VI 0 | LTrim _ _ _, VI 0 => true
      | EDelete _ _, VI 0 => true
      | HDelete _ _, VI 0 | HSetNX _ _ _, VB false => true
      | ZDelete _ _, VI 0 | ZDeleteRank _ _ _, VI 0 | ZDeleteScore _ _ _, VI 0 => true
      | _, _ => false
      end
  end.

Definition classify (o : op) (r : out) : oclass :=
  if is_read o then CRead
  else match o_err r with
       | Some ENotFound => CNothing
       | Some _ => CRefused
       | None => if nothing_result o r then CNothing else CChanged
       end.

(* full equality of two states (every column of every table) *)
Definition opt_z_eqb (a b : option Z) : bool :=
  match a, b with Some x, Some y => x =? y | None, None => true | _, _ => false end.
Definition keyrow_eqb (a b : keyrow) : bool :=
  (k_id a =? k_id b) && String.eqb (k_key a) (k_key b) && (k_type a =? k_type b) &&
  (k_ver a =? k_ver b) && opt_z_eqb (k_etime a) (k_etime b) && (k_mtime a =? k_mtime b) &&
  opt_z_eqb (k_len a) (k_len b).
Fixpoint list_eqb {A} (eq : A -> A -> bool) (l1 l2 : list A) : bool :=
  match l1, l2 with
  | [], [] => true
  | x :: r1, y :: r2 => eq x y && list_eqb eq r1 r2
  | _, _ => false
  end.
Definition feqb (a b : float) : bool := (a =? b)%float || (negb (a =? a)%float && negb (b =? b)%float).
Definition db_eqb (a b : db) : bool :=
  list_eqb keyrow_eqb (rkey a) (rkey b) &&
  list_eqb (fun x y => (s_kid x =? s_kid y) && String.eqb (s_val x) (s_val y)) (rstring a) (rstring b) &&
  list_eqb (fun x y => (l_kid x =? l_kid y) && feqb (l_pos x) (l_pos y) && String.eqb (l_elem x) (l_elem y)) (rlist a) (rlist b) &&
  list_eqb (fun x y => (e_rid x =? e_rid y) && (e_kid x =? e_kid y) && String.eqb (e_elem x) (e_elem y)) (rset a) (rset b) &&
  list_eqb (fun x y => (h_rid x =? h_rid y) && (h_kid x =? h_kid y) && String.eqb (h_field x) (h_field y) && String.eqb (h_val x) (h_val y)) (rhash a) (rhash b) &&
  list_eqb (fun x y => (z_rid x =? z_rid y) && (z_kid x =? z_kid y) && String.eqb (z_elem x) (z_elem y) && feqb (z_score x) (z_score y)) (rzset a) (rzset b) &&
  Bool.eqb (fk_on a) (fk_on b).

(* C12 for one executed call: anything but a change leaves the state identical.
   KDeleteExpired is storage maintenance: it may remove rows but only expired ones. *)
Definition no_trace_ok (o : op) (r : out) (d d' : db) : bool :=
  match classify o r with
  | CChanged => true
  | _ => db_eqb d d'
  end.

(* ---------- C19: metadata rules for one executed call ---------- *)

(* for every key row that exists before and after under the same id and name:
   - version never decreases, mtime never decreases (now is monotone);
   - if anything of the row or of its elements changed, version strictly
     increased, unless the key was emptied and re-created by a store
     (version restarts at 1) *)
Definition meta_ok (now : Z) (d d' : db) : bool :=
  forallb (fun r' =>
    match find_id d (k_id r') with
    | Some r =>
        if String.eqb (k_key r) (k_key r') && (k_type r =? k_type r') then
          if keyrow_eqb r r' then true
          else ((k_ver r <? k_ver r') || (k_ver r' =? 1)) && ((k_mtime r <=? k_mtime r') || (k_ver r' =? 1))
        else true
    | None => true
    end) (rkey d').

(* C12 inside a caller-managed transaction: reads and nothing-to-do outcomes
   leave the state identical at the moment they return (refusals may have
   partial effects there; they are undone only if the callback aborts) *)
Fixpoint block_no_trace (now : Z) (ops : list op) (stop : bool) (d : db) : bool :=
  match ops with
  | [] => true
  | o :: rest =>
      let '(d1, r) := exec_tx true now o d in
      let ok := match classify o r with
                | CRead | CNothing => db_eqb d d1
                | _ => true
                end in
      if stop && is_err r then ok else ok && block_no_trace now rest stop d1
  end.

(* C19 inside a caller-managed transaction: the metadata rule holds call by call *)
Fixpoint block_meta_ok (now : Z) (ops : list op) (stop : bool) (d : db) : bool :=
  match ops with
  | [] => true
  | o :: rest =>
      let '(d1, r) := exec_tx true now o d in
      let ok := meta_ok now d d1 in
      if stop && is_err r then ok else ok && block_meta_ok now rest stop d1
  end.
