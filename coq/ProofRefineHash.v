(* ProofRefineHash.v — C04: the DB-level hash operations of the faithful model
   refine the abstract specification (a hash is a field-to-value map). *)
From Redka Require Import Base Db Glob ImplKey ImplString ImplList ImplSet ImplHash ImplZSet Ops Spec Abs Inv Excl Refine ProofNoTrace ProofInv ProofInv2 ProofRefineStr.
From Coq Require Import Permutation Lia ZifyBool.

Definition hash_op (o : op) : bool :=
  match o with
  | HDelete _ _ | HExists _ _ | HFields _ | HGet _ _ | HGetMany _ _ | HIncr _ _ _
  | HIncrFloat _ _ _ _ _ | HItems _ | HLen _ | HSet _ _ _ | HSetMany _ _ | HSetNX _ _ _ | HValues _ => true
  | _ => false
  end.   (* HScan is covered by the cursor-iteration theorems *)
(* SetMany takes a Go map (distinct fields); an integer delta is a Go int *)
Definition wf_hop (o : op) : Prop :=
  match o with
  | HSetMany _ items => NoDup (map fst items)
  | HIncr _ _ dl => in_int64 dl = true
  | _ => True
  end.

(* ================================================================== *)
(* Part 1: lists of (field, value) pairs                              *)
(* ================================================================== *)

Local Notation hpair := (fun x : hrow => (h_field x, h_val x)).

Definition hpairs (d : db) (id : Z) : list (bytes * bytes) :=
  map hpair (filter (fun x => h_kid x =? id) (rhash d)).

(* what a name reads as, seen as a hash *)
Definition hf (o : option entry) : list (bytes * bytes) :=
  match o with Some (mkEntry (AVHash l) _) => l | _ => [] end.
Definition ish (o : option entry) : bool :=
  match o with Some (mkEntry (AVHash _) _) => true | _ => false end.
Definition xp (o : option entry) : option Z :=
  match o with Some e => en_exp e | None => None end.
Definition okh (o : option entry) : bool :=
  match o with Some e => atype (en_val e) =? 4 | None => true end.
Definition hcur (o : option entry) (f : bytes) : bytes :=
  match hget (hf o) f with Some v => v | None => "" end.

Lemma ish_hf o : ish o = false -> hf o = [].
Proof. destruct o as [[[?|?|?|?|?] ?]|]; try reflexivity; discriminate. Qed.

Lemma okh_false_hf o : okh o = false -> hf o = [].
Proof. destruct o as [[[?|?|?|?|?] ?]|]; try reflexivity; discriminate. Qed.

Lemma ish_okh o : ish o = true -> okh o = true.
Proof. destruct o as [[[?|?|?|?|?] ?]|]; try reflexivity; discriminate. Qed.

Lemma find_hpair f rows :
  find (fun p : bytes * bytes => String.eqb (fst p) f) (map hpair rows) =
  match find (fun r => String.eqb (h_field r) f) rows with
  | Some r => Some (h_field r, h_val r)
  | None => None
  end.
Proof.
  induction rows as [|r rows IH]; [reflexivity|]. cbn [map find fst].
  destruct (String.eqb (h_field r) f); [reflexivity | exact IH].
Qed.

Lemma hget_cons (p : bytes * bytes) (L : list (bytes * bytes)) (f : bytes) :
  hget (p :: L) f = if String.eqb (fst p) f then Some (snd p) else hget L f.
Proof.
  change (hget (p :: L) f) with
    (match (if String.eqb (fst p) f then Some p
            else find (fun p0 : bytes * bytes => String.eqb (fst p0) f) L) with
     | Some q => Some (snd q) | None => None end).
  destruct (String.eqb (fst p) f); reflexivity.
Qed.

Lemma hget_count (L : list (bytes * bytes)) (f : bytes) :
  match hget L f with
  | Some _ => 0 < zlen (filter (fun p : bytes * bytes => str_in (fst p) [f]) L)
  | None => zlen (filter (fun p : bytes * bytes => str_in (fst p) [f]) L) = 0
  end.
Proof.
  induction L as [|p L IH]; [reflexivity|].
  rewrite hget_cons. cbn [filter str_in existsb]. rewrite orb_false_r.
  destruct (String.eqb (fst p) f); [| exact IH].
  rewrite zlen_cons. match goal with |- context [zlen ?x] => pose proof (zlen_nonneg x) end. lia.
Qed.

Lemma hget_count_pos (L : list (bytes * bytes)) (f : bytes) :
  (0 <? zlen (filter (fun p : bytes * bytes => str_in (fst p) [f]) L)) =
  match hget L f with Some _ => true | None => false end.
Proof.
  pose proof (hget_count L f) as H. destruct (hget L f); [apply Z.ltb_lt; exact H | rewrite H; reflexivity].
Qed.

Lemma hget_count_zero (L : list (bytes * bytes)) (f : bytes) :
  (zlen (filter (fun p : bytes * bytes => str_in (fst p) [f]) L) =? 0) =
  match hget L f with Some _ => false | None => true end.
Proof.
  pose proof (hget_count L f) as H. destruct (hget L f); [| rewrite H; reflexivity].
  apply Z.eqb_neq. intros E. rewrite E in H. discriminate H.
Qed.

Lemma hget_existsb (L : list (bytes * bytes)) (f : bytes) :
  match hget L f with Some _ => true | None => false end =
  existsb (fun p : bytes * bytes => String.eqb (fst p) f) L.
Proof.
  induction L as [|p L IH]; [reflexivity|]. rewrite hget_cons. cbn [existsb].
  destruct (String.eqb (fst p) f); [reflexivity | exact IH].
Qed.

Lemma hget_str_in (L : list (bytes * bytes)) (x : bytes) :
  match hget L x with Some _ => true | None => false end = str_in x (map fst L).
Proof.
  induction L as [|p L IH]; [reflexivity|]. rewrite hget_cons. cbn [map str_in existsb].
  rewrite (String.eqb_sym x (fst p)). destruct (String.eqb (fst p) x); [reflexivity | exact IH].
Qed.

Lemma zlen_filter_split {A} (p : A -> bool) l :
  zlen l = zlen (filter p l) + zlen (filter (fun x => negb (p x)) l).
Proof.
  induction l as [|x l IH]; [reflexivity|]. cbn [filter]. rewrite zlen_cons.
  destruct (p x); cbn [negb]; rewrite zlen_cons; lia.
Qed.

Lemma str_in_false x l : ~ In x l -> str_in x l = false.
Proof. intros H. destruct (str_in x l) eqn:E; [| reflexivity]. exfalso. apply H, str_in_In, E. Qed.

(* two duplicate-free lists hit each other equally often *)
Lemma count_sym_step a A' B :
  NoDup B -> ~ In a A' ->
  zlen (filter (fun b => str_in b (a :: A')) B) =
  (if str_in a B then 1 else 0) + zlen (filter (fun b => str_in b A') B).
Proof.
  intros NB Ha. induction B as [|b B IH]; [reflexivity|].
  inversion NB as [|? ? Hb NB']; subst. specialize (IH NB').
  cbn [filter]. cbn [str_in existsb] in *.
  destruct (String.eqb_spec b a) as [E|E].
  - subst b. cbn [orb]. rewrite String.eqb_refl. cbn [orb].
    rewrite (str_in_false a A' Ha), zlen_cons, IH, (str_in_false a B Hb). lia.
  - cbn [orb]. destruct (String.eqb_spec a b) as [E'|_]; [congruence|]. cbn [orb].
    change (existsb (String.eqb b) A') with (str_in b A').
    change (existsb (String.eqb a) B) with (str_in a B).
    destruct (str_in b A'); [rewrite !zlen_cons|]; rewrite IH; lia.
Qed.

Lemma count_sym (A B : list bytes) :
  NoDup A -> NoDup B ->
  zlen (filter (fun a => str_in a B) A) = zlen (filter (fun b => str_in b A) B).
Proof.
  intros NA NB. induction A as [|a A IH].
  - cbn [filter]. rewrite filter_none; [reflexivity | intros x _; reflexivity].
  - inversion NA as [|? ? Ha NA']; subst. rewrite count_sym_step by assumption.
    cbn [filter]. destruct (str_in a B); [rewrite zlen_cons|]; rewrite IH by exact NA'; lia.
Qed.

(* SetMany's answer: the number of fields that were not there *)
Lemma created_count (items : list (bytes * value)) (L : list (bytes * bytes)) :
  NoDup (map fst items) -> NoDup (map fst L) ->
  zlen items - zlen (filter (fun p : bytes * bytes => str_in (fst p) (map fst items)) L) =
  zlen (filter (fun fv : bytes * value => match hget L (fst fv) with None => true | Some _ => false end) items).
Proof.
  intros NI NL.
  rewrite (zlen_filter_split (fun fv : bytes * value => str_in (fst fv) (map fst L)) items).
  assert (E1 : filter (fun fv : bytes * value => match hget L (fst fv) with None => true | Some _ => false end) items =
               filter (fun fv : bytes * value => negb (str_in (fst fv) (map fst L))) items).
  { apply filter_ext. intros fv. rewrite <- hget_str_in. destruct (hget L (fst fv)); reflexivity. }
  rewrite E1.
  pose proof (count_sym (map fst items) (map fst L) NI NL) as C.
  rewrite !filter_map_comm, !zlen_map in C. rewrite C. lia.
Qed.

(* ---- the rows of one hash under the writes ---- *)

Lemma existsb_rows kid field rows :
  existsb (fun r => (h_kid r =? kid) && String.eqb (h_field r) field) rows =
  existsb (fun p : bytes * bytes => String.eqb (fst p) field)
          (map hpair (filter (fun x => h_kid x =? kid) rows)).
Proof.
  induction rows as [|r rows IH]; [reflexivity|]. cbn [existsb filter].
  destruct (h_kid r =? kid); cbn [andb map existsb fst]; rewrite IH; reflexivity.
Qed.

Lemma hput_map_rows kid field v rows :
  map hpair (filter (fun x => h_kid x =? kid)
     (map (fun r => if (h_kid r =? kid) && String.eqb (h_field r) field
                    then mkH (h_rid r) kid field v else r) rows)) =
  map (fun p : bytes * bytes => if String.eqb (fst p) field then (field, v) else p)
      (map hpair (filter (fun x => h_kid x =? kid) rows)).
Proof.
  induction rows as [|r rows IH]; [reflexivity|]. cbn [map filter].
  destruct (Z.eqb_spec (h_kid r) kid) as [E|E]; cbn [andb].
  - destruct (String.eqb (h_field r) field) eqn:F.
    + cbn [h_kid]. rewrite Z.eqb_refl. cbn [map fst h_field h_val]. rewrite F, IH. reflexivity.
    + destruct (Z.eqb_spec (h_kid r) kid); [| contradiction].
      cbn [map fst]. rewrite F, IH. reflexivity.
  - destruct (Z.eqb_spec (h_kid r) kid); [contradiction | exact IH].
Qed.

Lemma filter_other_map kid id field v rows :
  id <> kid ->
  filter (fun x => h_kid x =? id)
     (map (fun r => if (h_kid r =? kid) && String.eqb (h_field r) field
                    then mkH (h_rid r) kid field v else r) rows) =
  filter (fun x => h_kid x =? id) rows.
Proof.
  intros NE. induction rows as [|r rows IH]; [reflexivity|]. cbn [map filter].
  destruct (Z.eqb_spec (h_kid r) kid) as [E|E]; cbn [andb].
  - destruct (String.eqb (h_field r) field).
    + cbn [h_kid]. destruct (Z.eqb_spec kid id); [congruence|].
      destruct (Z.eqb_spec (h_kid r) id); [congruence | exact IH].
    + destruct (h_kid r =? id); [rewrite IH|]; auto.
  - destruct (h_kid r =? id); [rewrite IH|]; auto.
Qed.

Lemma nodup_fields rows id :
  nodup_by eqH rows = true -> NoDup (map h_field (filter (fun x => h_kid x =? id) rows)).
Proof.
  induction rows as [|x rows IH]; [constructor|]. cbn [nodup_by filter].
  intros H. apply andb_true_iff in H as [H1 H2]. apply negb_true_iff in H1.
  destruct (Z.eqb_spec (h_kid x) id) as [E|E]; [| auto].
  cbn [map]. constructor; [| auto]. intros Hin. apply in_map_iff in Hin as [y [Ey Hy]].
  apply filter_In in Hy as [Hy Ky]. apply Z.eqb_eq in Ky.
  assert (X : existsb (eqH x) rows = true); [| congruence].
  apply existsb_exists. exists y. split; [exact Hy|]. unfold eqH.
  rewrite Ey, String.eqb_refl, E, Ky, Z.eqb_refl. reflexivity.
Qed.

(* ================================================================== *)
(* Part 2: reading a hash through the view                            *)
(* ================================================================== *)

Lemma abs_val_hash d r : k_type r = 4 -> abs_val d r = Some (AVHash (hpairs d (k_id r))).
Proof. intros T. unfold abs_val. rewrite T. reflexivity. Qed.

Lemma live_key_hash now d key :
  match live_key now d key T_HASH with
  | Some k => In k (rkey d) /\ k_key k = key /\ k_type k = 4 /\ live now k = true /\
              view now d key = Some (mkEntry (AVHash (hpairs d (k_id k))) (k_etime k))
  | None => ish (view now d key) = false
  end.
Proof.
  destruct (live_key now d key T_HASH) as [k|] eqn:LK.
  - destruct (live_key_some _ _ _ _ _ LK) as [Hk [Kk [Tk Lk]]]. unfold T_HASH in Tk.
    repeat split; auto.
    unfold view, live_any. unfold live_key in LK. destruct (find_key d key) as [r|]; [| discriminate].
    destruct ((k_type r =? T_HASH) && live now r); [| discriminate]. injection LK as ->.
    rewrite Lk, (abs_val_hash _ _ Tk). reflexivity.
  - unfold view, live_any. unfold live_key in LK. destruct (find_key d key) as [r|]; [| reflexivity].
    destruct (live now r); [| reflexivity]. rewrite andb_true_r in LK.
    destruct (abs_val d r) as [v|] eqn:AV; [| reflexivity]. destruct v; try reflexivity.
    apply abs_val_type in AV. cbn in AV. unfold T_HASH in LK.
    destruct (Z.eqb_spec (k_type r) 4); [discriminate | congruence].
Qed.

Lemma hrows_view now d key : map hpair (live_hash_rows now d key) = hf (view now d key).
Proof.
  unfold live_hash_rows. pose proof (live_key_hash now d key) as H.
  destruct (live_key now d key T_HASH) as [k|].
  - destruct H as [_ [_ [_ [_ V]]]]. rewrite V. reflexivity.
  - rewrite (ish_hf _ H). reflexivity.
Qed.

Lemma hash_get_eq now d key f :
  hash_get now key f d =
  (d, match hget (hf (view now d key)) f with Some v => Ok v | None => Err ENotFound end).
Proof.
  unfold hash_get. rewrite <- hrows_view. unfold hget, opt_lookup. rewrite find_hpair.
  destruct (find (fun r => String.eqb (h_field r) f) (live_hash_rows now d key)); reflexivity.
Qed.

Lemma hash_count_eq now d key fields :
  hash_count now key fields d =
  (d, Ok (zlen (filter (fun p : bytes * bytes => str_in (fst p) fields) (hf (view now d key))))).
Proof.
  unfold hash_count, lift_read. rewrite <- hrows_view, filter_map_comm, zlen_map. reflexivity.
Qed.

Lemma hash_exists_eq now d key f :
  hash_exists now key f d =
  (d, Ok (match hget (hf (view now d key)) f with Some _ => true | None => false end)).
Proof.
  unfold hash_exists. erewrite bind_ok; [| apply hash_count_eq]. unfold ret.
  rewrite hget_count_pos. reflexivity.
Qed.

Lemma hpairs_len d id : zlen (hpairs d id) = cntz id (kidsOf d 4).
Proof.
  unfold hpairs. rewrite zlen_map. change (kidsOf d 4) with (map h_kid (rhash d)).
  apply cntz_map.
Qed.

Lemma hash_len_eq now d key :
  InvH None d -> hash_len now key d = (d, Ok (zlen (hf (view now d key)))).
Proof.
  intros I. unfold hash_len. pose proof (live_key_hash now d key) as H.
  destruct (live_key now d key T_HASH) as [k|].
  - destruct H as [Hk [_ [Tk [_ V]]]]. rewrite V. cbn [hf].
    pose proof (LenH_None _ _ (a_len _ _ _ (i_a _ _ I) k Hk)) as [[T1 _] | [_ L]]; [congruence|].
    rewrite L, Tk, hpairs_len. reflexivity.
  - rewrite (ish_hf _ H). reflexivity.
Qed.

Lemma hf_nodup now d key : InvH None d -> NoDup (map fst (hf (view now d key))).
Proof.
  intros I. pose proof (live_key_hash now d key) as H.
  destruct (live_key now d key T_HASH) as [k|].
  - destruct H as [_ [_ [_ [_ V]]]]. rewrite V. cbn [hf]. unfold hpairs. rewrite map_map.
    cbn [fst]. apply nodup_fields. exact (proj1 (i_h _ _ I)).
  - rewrite (ish_hf _ H). constructor.
Qed.

Lemma lv_xp now d k : lv now (xp (view now d k)) = true.
Proof.
  pose proof (purged_view now d k) as P. destruct (view now d k) as [e|]; [| reflexivity].
  cbn [purged xp] in *. destruct (lv now (en_exp e)); [reflexivity | discriminate].
Qed.

Lemma ent_xp now d k v : ent now v (xp (view now d k)) = Some (mkEntry v (xp (view now d k))).
Proof. unfold ent. rewrite lv_xp. reflexivity. Qed.

(* ================================================================== *)
(* Part 3: what the hash writes do to the view                        *)
(* ================================================================== *)

(* the key rows are rewritten by [G], which only touches the row [kk] *)
Lemma frame_mod d d' kk G :
  InvH None d -> In kk (rkey d) -> rkey d' = map G (rkey d) ->
  (forall r, In r (rkey d) -> k_id r <> k_id kk -> G r = r) ->
  k_key (G kk) = k_key kk ->
  (forall id, id <> k_id kk -> same_rows d d' id) ->
  frame (k_key kk) d d' /\ In (G kk) (rkey d').
Proof.
  intros I Hk RK Hoth Kk SR. split; [split|].
  - intros r Hr Kr.
    assert (Hid : k_id r <> k_id kk).
    { intros E. apply Kr. f_equal. apply (row_same_id _ d r kk I Hr Hk E). }
    split; [| apply SR; exact Hid].
    rewrite RK. apply in_map_iff. exists r. split; [apply Hoth; assumption | exact Hr].
  - intros r' Hr' Kr'. rewrite RK in Hr'. apply in_map_iff in Hr' as [r [<- Hr]].
    destruct (Z.eq_dec (k_id r) (k_id kk)) as [E|E].
    + assert (r = kk) by (apply (row_same_id _ d r kk I Hr Hk E)). subst r. congruence.
    + rewrite (Hoth r Hr E). exact Hr.
  - rewrite RK. apply in_map. exact Hk.
Qed.

Lemma map_id_if {A} (c : A -> bool) (l : list A) : map (fun r => if c r then r else r) l = l.
Proof. rewrite <- (map_id l) at 2. apply map_ext. intros r. destruct (c r); reflexivity. Qed.

(* sqlSet2 on the hash row [kk] *)
Lemma hash_set2_eff kid field v d kk :
  InvH None d -> In kk (rkey d) -> k_id kk = kid -> k_type kk = 4 ->
  exists d' kk', hash_set2 kid field (Some v) d = (d', Ok tt) /\ InvH None d' /\
    frame (k_key kk) d d' /\ In kk' (rkey d') /\
    k_id kk' = kid /\ k_key kk' = k_key kk /\ k_type kk' = 4 /\ k_etime kk' = k_etime kk /\
    hpairs d' kid = hput (hpairs d kid) field v.
Proof.
  intros I Hk Ek Tk.
  assert (Hex : exists r, In r (rkey d) /\ k_id r = kid /\ k_type r = 4) by (exists kk; auto).
  destruct (existsb (fun r => (h_kid r =? kid) && String.eqb (h_field r) field) (rhash d)) eqn:X.
  - set (g := fun r => if (h_kid r =? kid) && String.eqb (h_field r) field
                       then mkH (h_rid r) kid field v else r).
    set (d' := set_rhash d (map g (rhash d))).
    assert (E : hash_set2 kid field (Some v) d = (d', Ok tt)).
    { unfold hash_set2. rewrite X. reflexivity. }
    exists d', kk. split; [exact E|]. split; [exact (hash_set2_spec _ _ _ _ _ _ I Hex E)|].
    destruct (frame_mod d d' kk (fun r => r) I Hk) as [Fr Hin].
    + symmetry. apply map_id.
    + auto.
    + reflexivity.
    + intros id NE. subst kid. unfold same_rows, d'. cbn [rstring rlist rset rhash rzset set_rhash].
      unfold find_sval. cbn [rstring set_rhash]. repeat split. apply filter_other_map. exact NE.
    + split; [exact Fr|]. split; [exact Hin|]. repeat split; auto.
      unfold hpairs, d'. cbn [rhash set_rhash]. unfold g. rewrite hput_map_rows.
      unfold hput. rewrite <- existsb_rows, X. reflexivity.
  - set (F := fun r => with_len r (opt_add (k_len r) 1)).
    set (d1 := upd_key_id kid F d).
    set (d' := set_rhash d1 (rhash d1 ++ [mkH (next_hash_rid d1) kid field v])).
    assert (E : hash_set2 kid field (Some v) d = (d', Ok tt)).
    { unfold hash_set2. rewrite X. reflexivity. }
    exists d', (F kk). split; [exact E|]. split; [exact (hash_set2_spec _ _ _ _ _ _ I Hex E)|].
    destruct (frame_mod d d' kk (fun r => if k_id r =? kid then F r else r) I Hk) as [Fr Hin].
    + reflexivity.
    + intros r Hr NE. subst kid. destruct (Z.eqb_spec (k_id r) (k_id kk)); [contradiction | reflexivity].
    + destruct (k_id kk =? kid); reflexivity.
    + intros id NE. subst kid. unfold same_rows, d', d1.
      cbn [rstring rlist rset rhash rzset set_rhash upd_key_id upd_keys set_rkey].
      unfold find_sval. cbn [rstring set_rhash upd_key_id upd_keys set_rkey]. repeat split.
      rewrite filter_app. cbn [filter h_kid].
      destruct (Z.eqb_spec (k_id kk) id); [congruence | apply app_nil_r].
    + rewrite Ek, Z.eqb_refl in Hin. split; [exact Fr|]. split; [exact Hin|].
      repeat split; auto.
      unfold hpairs, d', d1. cbn [rhash set_rhash upd_key_id upd_keys set_rkey].
      rewrite filter_app, map_app. cbn [filter h_kid]. rewrite Z.eqb_refl. cbn [map h_field h_val].
      unfold hput. rewrite <- existsb_rows, X. reflexivity.
Qed.

(* the reset of an expired row by a hash write, structurally *)
Lemma reset_struct4 now key d r0 :
  find_key d key = Some r0 -> expired now r0 = true ->
  exists G,
    (forall x, k_id (G x) = k_id x /\ k_key (G x) = k_key x /\ k_type (G x) = 4 /\ k_etime (G x) = None) /\
    rkey (reset_expired now key 4 d) = map (fun x => if k_id x =? k_id r0 then G x else x) (rkey d) /\
    rstring (reset_expired now key 4 d) = filter (fun x => negb (s_kid x =? k_id r0)) (rstring d) /\
    rlist (reset_expired now key 4 d) = filter (fun x => negb (l_kid x =? k_id r0)) (rlist d) /\
    rset (reset_expired now key 4 d) = filter (fun x => negb (e_kid x =? k_id r0)) (rset d) /\
    rhash (reset_expired now key 4 d) = filter (fun x => negb (h_kid x =? k_id r0)) (rhash d) /\
    rzset (reset_expired now key 4 d) = filter (fun x => negb (z_kid x =? k_id r0)) (rzset d).
Proof.
  intros F X. unfold reset_expired. rewrite F, X. rewrite trig_list_delete_eq.
  set (nl := zlen (filter (fun x => l_kid x =? k_id r0) (rlist d))).
  exists (fun x => mkKey (k_id (trigG now nl x)) (k_key (trigG now nl x)) 4 (k_ver (trigG now nl x)) None
                         (k_mtime (trigG now nl x)) (Some 0)).
  assert (TG : forall x, k_id (trigG now nl x) = k_id x /\ k_key (trigG now nl x) = k_key x).
  { intros x. unfold trigG. destruct (nl =? 0); cbn; auto. }
  split; [intros x; cbn; destruct (TG x); auto|].
  split; [| repeat split].
  unfold upd_key_id, upd_keys, set_rkey. cbn [rkey]. rewrite map_map. apply map_ext. intros x.
  destruct (k_id x =? k_id r0) eqn:E.
  - rewrite (proj1 (TG x)), E. reflexivity.
  - rewrite E. reflexivity.
Qed.

(* the conflict branch of the upsert on the row found under [key] *)
Lemma conflict_h now key d1 r1 :
  InvH None d1 -> find_key d1 key = Some r1 ->
  frame key d1 (upd_key_id (k_id r1) (fun _ => with_mtime (with_ver r1 (k_ver r1 + 1)) now) d1) /\
  In (with_mtime (with_ver r1 (k_ver r1 + 1)) now)
     (rkey (upd_key_id (k_id r1) (fun _ => with_mtime (with_ver r1 (k_ver r1 + 1)) now) d1)).
Proof.
  intros I F. apply find_key_some in F as [H1 K1].
  set (r' := with_mtime (with_ver r1 (k_ver r1 + 1)) now).
  destruct (frame_mod d1 (upd_key_id (k_id r1) (fun _ => r') d1) r1
              (fun x => if k_id x =? k_id r1 then r' else x) I H1) as [Fr Hin].
  - reflexivity.
  - intros r Hr NE. destruct (Z.eqb_spec (k_id r) (k_id r1)); [contradiction | reflexivity].
  - rewrite Z.eqb_refl. reflexivity.
  - intros id NE. repeat split.
  - rewrite Z.eqb_refl in Hin. rewrite K1 in Fr. auto.
Qed.

(* sqlSet1: the type-guarded upsert of a hash key *)
Lemma hash_set1_eff now key d :
  InvH None d ->
  if okh (view now d key) then
    exists d1 k, hash_set1 now key d = (d1, Ok k) /\ InvH None d1 /\ frame key d d1 /\
      In k (rkey d1) /\ k_key k = key /\ k_type k = 4 /\
      k_etime k = xp (view now d key) /\ hpairs d1 (k_id k) = hf (view now d key)
  else hash_set1 now key d = (d, Err EKeyType).
Proof.
  intros I. pose proof (InvH_names _ _ I) as N.
  remember (view now d key) as V0 eqn:HV0.
  assert (Fin : forall d1 k, hash_set1 now key d = (d1, Ok k) -> frame key d d1 -> In k (rkey d1) ->
     k_key k = key -> k_type k = 4 -> k_etime k = xp V0 -> hpairs d1 (k_id k) = hf V0 ->
     exists d1 k, hash_set1 now key d = (d1, Ok k) /\ InvH None d1 /\ frame key d d1 /\
      In k (rkey d1) /\ k_key k = key /\ k_type k = 4 /\ k_etime k = xp V0 /\ hpairs d1 (k_id k) = hf V0).
  { intros d1 k E Fr Hk Kk Tk Ek Hp. exists d1, k.
    pose proof (hash_set1_spec now key d d1 k I E) as [I1 _].
    split; [exact E|]. split; [exact I1|]. split; [exact Fr|]. repeat split; assumption. }
  destruct (find_key_cases d key) as [[r0 [Hr0 [K0 F]]] | [Hno F]].
  - destruct (expired now r0) eqn:X.
    + assert (V : view now d key = None).
      { rewrite (view_row' now d r0 key N Hr0 K0), live_expired, X. reflexivity. }
      rewrite V in HV0. subst V0. cbn [okh xp hf] in *.
      pose proof (InvH_reset now key 4 d I ltac:(lia)) as I1.
      change (4 =? 1) with false in I1. cbv iota in I1.
      destruct (reset_struct4 now key d r0 F X) as [G [HG [E0 [E1 [E2 [E3 [E4 E5]]]]]]].
      set (d1 := reset_expired now key 4 d) in *.
      destruct (HG r0) as [G1 [G2 [G3 G4]]].
      destruct (frame_mod d d1 r0 (fun x => if k_id x =? k_id r0 then G x else x) I Hr0 E0) as [Fr1 In1].
      * intros r Hr NE. destruct (Z.eqb_spec (k_id r) (k_id r0)); [contradiction | reflexivity].
      * rewrite Z.eqb_refl. exact G2.
      * intros id NE. apply same_rows_filtered with (keep := fun k => negb (k =? k_id r0)); try assumption.
        apply negb_true_iff. lia.
      * rewrite Z.eqb_refl in In1. rewrite K0 in Fr1.
        assert (F1 : find_key d1 key = Some (G r0)).
        { rewrite <- K0, <- G2. apply find_key_in; [eapply InvH_names; exact I1 | exact In1]. }
        destruct (conflict_h now key d1 (G r0) I1 F1) as [Fr2 In2].
        apply (Fin (upd_key_id (k_id (G r0)) (fun _ => with_mtime (with_ver (G r0) (k_ver (G r0) + 1)) now) d1)
                   (with_mtime (with_ver (G r0) (k_ver (G r0) + 1)) now)).
        -- unfold hash_set1, typed_error, upsert_key, T_HASH. fold d1. rewrite F1, G3. reflexivity.
        -- eapply frame_trans; eassumption.
        -- exact In2.
        -- cbn. congruence.
        -- exact G3.
        -- exact G4.
        -- unfold hpairs.
           change (rhash (upd_key_id (k_id (G r0)) (fun _ => with_mtime (with_ver (G r0) (k_ver (G r0) + 1)) now) d1))
             with (rhash d1).
           change (k_id (with_mtime (with_ver (G r0) (k_ver (G r0) + 1)) now)) with (k_id (G r0)).
           rewrite E4, G1, filter_filter, filter_none; [reflexivity|].
           intros x _. destruct (h_kid x =? k_id r0); reflexivity.
    + assert (D1 : reset_expired now key 4 d = d) by (unfold reset_expired; rewrite F, X; reflexivity).
      destruct (abs_val_typed d r0 I Hr0) as [v [Ev Tv]].
      assert (V : view now d key = Some (mkEntry v (k_etime r0))).
      { rewrite (view_row' now d r0 key N Hr0 K0), live_expired, X, Ev. reflexivity. }
      rewrite V in HV0. subst V0. cbn [okh xp en_val en_exp] in *. rewrite Tv.
      destruct (Z.eqb_spec (k_type r0) 4) as [T4|T4].
      * rewrite abs_val_hash in Ev by exact T4. injection Ev as <-. cbn [hf] in *.
        destruct (conflict_h now key d r0 I F) as [Fr In2].
        apply (Fin (upd_key_id (k_id r0) (fun _ => with_mtime (with_ver r0 (k_ver r0 + 1)) now) d)
                   (with_mtime (with_ver r0 (k_ver r0 + 1)) now)).
        -- unfold hash_set1, typed_error, upsert_key, T_HASH. rewrite D1, F, T4. reflexivity.
        -- exact Fr.
        -- exact In2.
        -- exact K0.
        -- exact T4.
        -- reflexivity.
        -- reflexivity.
      * unfold hash_set1, typed_error, upsert_key, T_HASH. rewrite D1, F.
        destruct (Z.eqb_spec (k_type r0) 4); [contradiction | reflexivity].
  - assert (D1 : reset_expired now key 4 d = d) by (unfold reset_expired; rewrite F; reflexivity).
    rewrite (view_norow now d key Hno) in HV0. subst V0. cbn [okh xp hf] in *.
    set (rn := mkKey (next_key_id d) key 4 1 None now (Some 0)).
    apply (Fin (set_rkey d (rkey d ++ [rn])) rn).
    + unfold hash_set1, typed_error, upsert_key, T_HASH. rewrite D1, F. reflexivity.
    + split.
      * intros r Hr Hk. split; [cbn [rkey set_rkey]; apply in_or_app; left; exact Hr | repeat split].
      * intros r Hr Hk. cbn [rkey set_rkey] in Hr.
        apply in_app_iff in Hr as [Hr | [<- | []]]; [exact Hr|]. exfalso. apply Hk. reflexivity.
    + cbn [rkey set_rkey]. apply in_or_app. right. left. reflexivity.
    + reflexivity.
    + reflexivity.
    + reflexivity.
    + unfold hpairs. cbn [rhash set_rkey rn k_id]. rewrite filter_none; [reflexivity|].
      intros x Hx. apply Z.eqb_neq. intros E.
      destruct (a_own _ _ _ (i_a _ _ I) 4 (h_kid x)) as [r [Hr [Er _]]]; [lia | |].
      * change (kidsOf d 4) with (map h_kid (rhash d)). apply in_map. exact Hx.
      * assert (k_id r <= zmax_list (map k_id (rkey d))) by (apply zmax_ge, in_map; exact Hr).
        unfold next_key_id in E. lia.
Qed.

(* set(): one field of one hash *)
Lemma hash_set_raw_eff now key f v b d :
  InvH None d -> to_bytes v = Some (Some b) ->
  if okh (view now d key) then
    exists d', hash_set_raw now key f v d = (d', Ok tt) /\ InvH None d' /\
      forall k, view now d' k =
        if String.eqb key k
        then ent now (AVHash (hput (hf (view now d key)) f b)) (xp (view now d key))
        else view now d k
  else exists d', hash_set_raw now key f v d = (d', Err EKeyType).
Proof.
  intros I Tb. unfold hash_set_raw. rewrite Tb.
  pose proof (hash_set1_eff now key d I) as H1.
  pose proof (lv_xp now d key) as LX.
  destruct (okh (view now d key)).
  - destruct H1 as [d1 [k [E1 [I1 [Fr1 [Hk [Kk [Tk [Ek Hp]]]]]]]]].
    destruct (hash_set2_eff (k_id k) f b d1 k I1 Hk eq_refl Tk)
      as [d2 [k2 [E2 [I2 [Fr2 [Hk2 [Ik2 [Kk2 [Tk2 [Ek2 Hp2]]]]]]]]]].
    exists d2. split; [erewrite bind_ok; [exact E2 | exact E1]|]. split; [exact I2|].
    rewrite Kk in Fr2.
    apply (view_after now key d d2); [eapply InvH_names; exact I | eapply InvH_names; exact I2 | |].
    + eapply frame_trans; eassumption.
    + rewrite (view_row' now d2 k2 key (InvH_names _ _ I2) Hk2 (eq_trans Kk2 Kk)).
      rewrite live_lv, Ek2, Ek, LX, (abs_val_hash _ _ Tk2), Ik2, Hp2, Hp.
      unfold ent. rewrite LX. reflexivity.
  - exists d. erewrite bind_err; [reflexivity | exact H1].
Qed.

(* further fields of a key that already is a hash *)
Lemma hset_each_hash now key items : forall d l x,
  InvH None d -> forallb (fun fv : bytes * value => is_value_type (snd fv)) items = true ->
  view now d key = Some (mkEntry (AVHash l) x) ->
  exists d', hash_set_each now key items d = (d', Ok tt) /\ InvH None d' /\
    forall k, view now d' k =
      if String.eqb key k
      then Some (mkEntry (AVHash (fold_left (fun acc (fv : bytes * value) =>
                                    match bytes_of_value (snd fv) with
                                    | Some b => hput acc (fst fv) b
                                    | None => acc
                                    end) items l)) x)
      else view now d k.
Proof.
  induction items as [|[f v] items IH]; intros d l x I Hv V.
  - exists d. split; [reflexivity|]. split; [exact I|]. intros k. cbn [fold_left].
    destruct (String.eqb_spec key k); [subst; exact V | reflexivity].
  - cbn [forallb snd] in Hv. apply andb_true_iff in Hv as [Hv1 Hv2].
    destruct (to_bytes_cases v) as [[_ [_ C]] | [b [Tb [Bv _]]]]; [congruence|].
    pose proof (hash_set_raw_eff now key f v b d I Tb) as H.
    pose proof (lv_xp now d key) as LX.
    rewrite V in H, LX. cbn [okh en_val atype hf xp en_exp] in H, LX. change (4 =? 4) with true in H.
    cbv iota in H. destruct H as [d1 [E1 [I1 Hv1']]].
    unfold ent in Hv1'. rewrite LX in Hv1'.
    assert (V1 : view now d1 key = Some (mkEntry (AVHash (hput l f b)) x)).
    { rewrite Hv1', String.eqb_refl. reflexivity. }
    destruct (IH d1 (hput l f b) x I1 Hv2 V1) as [d2 [E2 [I2 Hv2']]].
    exists d2. split; [| split; [exact I2|]].
    + cbn [hash_set_each]. erewrite bind_ok; [exact E2 | exact E1].
    + intros k. rewrite Hv2'. cbn [fold_left fst snd]. rewrite Bv.
      destruct (String.eqb key k) eqn:EK; [reflexivity|]. rewrite Hv1', EK. reflexivity.
Qed.

(* Delete *)
Lemma hash_delete_eff now key fields d :
  InvH None d ->
  if zlen (filter (fun p : bytes * bytes => str_in (fst p) fields) (hf (view now d key))) =? 0
  then hash_delete now key fields d = (d, Ok 0)
  else exists d', hash_delete now key fields d =
                  (d', Ok (zlen (filter (fun p : bytes * bytes => str_in (fst p) fields) (hf (view now d key))))) /\
       InvH None d' /\
       forall k, view now d' k =
         if String.eqb key k
         then ent now (AVHash (filter (fun p : bytes * bytes => negb (str_in (fst p) fields)) (hf (view now d key))))
                  (xp (view now d key))
         else view now d k.
Proof.
  intros I. pose proof (live_key_hash now d key) as H. pose proof (lv_xp now d key) as LX.
  destruct (live_key now d key T_HASH) as [k|] eqn:LK.
  - destruct H as [Hk [Kk [Tk [Lk V]]]]. rewrite V in *. cbn [hf xp en_exp] in *.
    set (hit := fun r => (h_kid r =? k_id k) && str_in (h_field r) fields).
    assert (EN : zlen (filter (fun p : bytes * bytes => str_in (fst p) fields) (hpairs d (k_id k))) =
                 zlen (filter hit (rhash d))).
    { unfold hpairs. rewrite filter_map_comm, zlen_map, filter_filter. reflexivity. }
    rewrite EN.
    destruct (zlen (filter hit (rhash d)) =? 0) eqn:Z0.
    + unfold hash_delete. rewrite LK. fold hit. rewrite Z0. reflexivity.
    + set (n := zlen (filter hit (rhash d))) in *.
      set (d' := bump_key_len now key T_HASH n (set_rhash d (filter (fun r => negb (hit r)) (rhash d)))).
      assert (E : hash_delete now key fields d = (d', Ok n)).
      { unfold hash_delete. rewrite LK. fold hit. fold n. rewrite Z0. reflexivity. }
      exists d'. split; [exact E|].
      pose proof (pres_hash_delete now key fields d d' n I E) as I'. split; [exact I'|].
      set (G := fun r => if String.eqb (k_key r) key && (k_type r =? T_HASH) && live now r
                then with_len (with_mtime (with_ver r (k_ver r + 1)) now) (opt_add (k_len r) (- n))
                else r).
      assert (GK : forall r, k_id (G r) = k_id r /\ k_key (G r) = k_key r /\ k_type (G r) = k_type r /\
                             k_etime (G r) = k_etime r).
      { intros r. unfold G. destruct (String.eqb (k_key r) key && (k_type r =? T_HASH) && live now r); cbn; auto. }
      destruct (frame_mod d d' k G I Hk) as [Fr Hin].
      * reflexivity.
      * intros r Hr NE. unfold G. destruct (String.eqb_spec (k_key r) key) as [EK|EK]; [| reflexivity].
        exfalso. apply NE. f_equal. apply (row_same_key _ d r k I Hr Hk). congruence.
      * apply GK.
      * intros id NE. unfold same_rows, d'.
        cbn [rstring rlist rset rhash rzset set_rhash bump_key_len upd_keys set_rkey].
        unfold find_sval. cbn [rstring set_rhash bump_key_len upd_keys set_rkey]. repeat split.
        apply filter_absorb. intros x Hx. apply Z.eqb_eq in Hx. unfold hit.
        destruct (Z.eqb_spec (h_kid x) (k_id k)); [congruence | reflexivity].
      * rewrite Kk in Fr. destruct (GK k) as [G1 [G2 [G3 G4]]].
        apply (view_after now key d d'); [eapply InvH_names; exact I | eapply InvH_names; exact I' | exact Fr |].
        rewrite (view_row' now d' (G k) key (InvH_names _ _ I') Hin (eq_trans G2 Kk)).
        rewrite live_lv, G4, LX. rewrite abs_val_hash by (rewrite G3; exact Tk). rewrite G1.
        unfold ent. rewrite LX. repeat f_equal.
        unfold hpairs, d'. cbn [rhash set_rhash bump_key_len upd_keys set_rkey].
        rewrite filter_filter, filter_map_comm, filter_filter. f_equal. apply filter_ext. intros x.
        unfold hit. cbn [fst]. destruct (h_kid x =? k_id k); destruct (str_in (h_field x) fields); reflexivity.
  - rewrite (ish_hf _ H). cbn [filter]. change (zlen (@nil (bytes * bytes)) =? 0) with true. cbv iota.
    unfold hash_delete. rewrite LK. reflexivity.
Qed.

(* ================================================================== *)
(* Part 4: the steps                                                  *)
(* ================================================================== *)

Section HSteps.
Variable now : Z.
Variable d : db.
Variable s : sstate.
Hypothesis I : InvH None d.
Hypothesis HR : R now d s.

Let s1 := spurge now s.
Let N1' : NoDup (map fst s1) := N1 now d s I HR.
Let G1' : forall k, sget s1 k = view now d k := G1 now d s I HR.
Let R1' : R now d s1 := R1 now d s HR.

Lemma fields_view k : fields_of s1 k = hf (view now d k).
Proof.
  unfold fields_of, spec_hash. rewrite G1'.
  destruct (view now d k) as [[[?|?|?|?|?] ?]|]; reflexivity.
Qed.

Lemma other_type_okh k : other_type s1 k 4 = negb (okh (view now d k)).
Proof. unfold other_type, okh. rewrite G1'. destruct (view now d k); reflexivity. Qed.

Lemma keep_exp_view k : keep_exp s1 k = xp (view now d k).
Proof. unfold keep_exp, xp. rewrite G1'. reflexivity. Qed.

(* an operation that leaves both states alone *)
Lemma step_read {A} o (m : M A) f (rs : res A) r' :
  wrapped o = false -> exec_tx false now o d = run m f d -> m d = (d, rs) ->
  spec_step now o s = (s1, r') -> out_equiv o (res_out f rs) r' -> step_refines now o d s.
Proof.
  intros W E1 Em E2 OE. eapply step_intro;
    [eapply exec_unwrapped_run; eassumption | exact E2 | exact OE | exact R1'].
Qed.

Lemma fin_same {A} o (m : M A) f (rs : res A) :
  wrapped o = true -> exec_tx true now o d = run m f d -> m d = (d, rs) ->
  spec_step now o s = (s1, res_out f rs) ->
  (forall r, proj_result o r = r) -> step_refines now o d s.
Proof.
  intros W E1 Em E2 Pj. eapply step_intro.
  - eapply exec_wrapped_run; [exact W | exact E1 | exact Em].
  - exact E2.
  - destruct rs; apply out_equiv_refl; apply Pj.
  - destruct rs; exact R1'.
Qed.

(* ---- reads ---- *)

Lemma step_HGet k f : step_refines now (HGet k f) d s.
Proof.
  assert (SP : spec_step now (HGet k f) s =
    (s1, res_out VS (match hget (hf (view now d k)) f with Some v => Ok v | None => Err ENotFound end))).
  { cbn [spec_step]. fold s1. rewrite fields_view. destruct (hget (hf (view now d k)) f); reflexivity. }
  eapply step_read; [reflexivity | reflexivity | apply hash_get_eq | exact SP |].
  apply out_equiv_refl. reflexivity.
Qed.

Lemma step_HExists k f : step_refines now (HExists k f) d s.
Proof.
  assert (SP : spec_step now (HExists k f) s =
    (s1, out_ok (VB (match hget (hf (view now d k)) f with Some _ => true | None => false end)))).
  { cbn [spec_step]. fold s1. rewrite fields_view. reflexivity. }
  eapply step_read; [reflexivity | reflexivity | apply hash_exists_eq | exact SP |].
  apply out_equiv_refl. reflexivity.
Qed.

Lemma step_HLen k : step_refines now (HLen k) d s.
Proof.
  assert (SP : spec_step now (HLen k) s = (s1, out_ok (VI (zlen (hf (view now d k)))))).
  { cbn [spec_step]. fold s1. rewrite fields_view. reflexivity. }
  eapply step_read; [reflexivity | reflexivity | apply hash_len_eq; exact I | exact SP |].
  apply out_equiv_refl. reflexivity.
Qed.

Lemma step_HFields k : step_refines now (HFields k) d s.
Proof.
  assert (SP : spec_step now (HFields k) s =
    (s1, out_ok (VU (map (fun p : bytes * bytes => VS (fst p)) (hf (view now d k)))))).
  { cbn [spec_step]. fold s1. rewrite fields_view. reflexivity. }
  eapply (step_read _ (hash_fields now k) _ (Ok (map h_field (live_hash_rows now d k))));
    [reflexivity | reflexivity | reflexivity | exact SP |].
  split; [reflexivity|]. cbn [res_out out_ok o_val proj_result].
  rewrite <- hrows_view, !map_map. apply rve_refl.
Qed.

Lemma step_HValues k : step_refines now (HValues k) d s.
Proof.
  assert (SP : spec_step now (HValues k) s =
    (s1, out_ok (VU (map (fun p : bytes * bytes => VS (snd p)) (hf (view now d k)))))).
  { cbn [spec_step]. fold s1. rewrite fields_view. reflexivity. }
  eapply (step_read _ (hash_values now k) _ (Ok (map h_val (live_hash_rows now d k))));
    [reflexivity | reflexivity | reflexivity | exact SP |].
  split; [reflexivity|]. cbn [res_out out_ok o_val proj_result].
  rewrite <- hrows_view, !map_map. apply rve_refl.
Qed.

Lemma step_HItems k : step_refines now (HItems k) d s.
Proof.
  assert (SP : spec_step now (HItems k) s = (s1, out_ok (VU (map pair_rv (hf (view now d k)))))).
  { cbn [spec_step]. fold s1. rewrite fields_view. reflexivity. }
  eapply (step_read _ (hash_items now k) _ (Ok (map hpair (live_hash_rows now d k))));
    [reflexivity | reflexivity | reflexivity | exact SP |].
  split; [reflexivity|]. cbn [res_out out_ok o_val proj_result].
  rewrite <- hrows_view. apply rve_refl.
Qed.

Lemma step_HGetMany k fs : step_refines now (HGetMany k fs) d s.
Proof.
  assert (SP : spec_step now (HGetMany k fs) s =
    (s1, out_ok (VU (map pair_rv (filter (fun p : bytes * bytes => str_in (fst p) fs) (hf (view now d k))))))).
  { cbn [spec_step]. fold s1. rewrite fields_view. reflexivity. }
  eapply (step_read _ (hash_get_many now k fs) _
            (Ok (map hpair (filter (fun r => str_in (h_field r) fs) (live_hash_rows now d k)))));
    [reflexivity | reflexivity | reflexivity | exact SP |].
  split; [reflexivity|]. cbn [res_out out_ok o_val proj_result].
  rewrite <- hrows_view, filter_map_comm. apply rve_refl.
Qed.

End HSteps.

Section HSteps2.
Variable now : Z.
Variable d : db.
Variable s : sstate.
Hypothesis I : InvH None d.
Hypothesis HR : R now d s.

Let s1 := spurge now s.
Let N1' : NoDup (map fst s1) := N1 now d s I HR.
Let G1' : forall k, sget s1 k = view now d k := G1 now d s I HR.
Let R1' : R now d s1 := R1 now d s HR.

Definition hfold (items : list (bytes * value)) (l : list (bytes * bytes)) : list (bytes * bytes) :=
  fold_left (fun acc (fv : bytes * value) =>
               match bytes_of_value (snd fv) with
               | Some b => hput acc (fst fv) b
               | None => acc
               end) items l.

Lemma spec_hset_many_eq k items :
  items <> [] ->
  spec_hset_many s1 k items =
  if negb (forallb (fun fv : bytes * value => is_value_type (snd fv)) items) then (s1, out_err EValueType) else
  if negb (okh (view now d k)) then (s1, out_err EKeyType) else
  (sput k (mkEntry (AVHash (hfold items (hf (view now d k)))) (xp (view now d k))) s1,
   out_ok (VI (zlen (filter (fun fv : bytes * value =>
                               match hget (hf (view now d k)) (fst fv) with None => true | Some _ => false end)
                            items)))).
Proof.
  intros NE. unfold spec_hset_many. destruct items as [|it items]; [congruence|].
  rewrite (other_type_okh now d s I HR), (fields_view now d s I HR). unfold sput_val.
  rewrite (keep_exp_view now d s I HR). reflexivity.
Qed.

(* a write that ends in one set() *)
Lemma fin_hset {A} o (m : M A) f key fld v b (a : A) :
  wrapped o = true -> exec_tx true now o d = run m f d ->
  to_bytes v = Some (Some b) ->
  m d = bind (hash_set_raw now key fld v) (fun _ => ret a) d ->
  (okh (view now d key) = true ->
   spec_step now o s =
     (sput key (mkEntry (AVHash (hput (hf (view now d key)) fld b)) (xp (view now d key))) s1, out_ok (f a))) ->
  (okh (view now d key) = false -> spec_step now o s = (s1, out_err EKeyType)) ->
  (forall r, proj_result o r = r) -> step_refines now o d s.
Proof.
  intros W E1 Tb Em E2 E3 Pj. pose proof (hash_set_raw_eff now key fld v b d I Tb) as H.
  destruct (okh (view now d key)).
  - destruct H as [d' [Ed [I' Hv]]]. eapply step_intro.
    + eapply exec_wrapped_run; [exact W | exact E1 |]. rewrite Em. erewrite bind_ok; [| exact Ed]. reflexivity.
    + apply E2. reflexivity.
    + apply out_equiv_refl. apply Pj.
    + apply (R_put now d s I HR); [exact I' | exact Hv].
  - destruct H as [d' Ed]. eapply step_intro.
    + eapply exec_wrapped_run; [exact W | exact E1 |]. rewrite Em. erewrite bind_err; [| exact Ed]. reflexivity.
    + apply E3. reflexivity.
    + apply out_equiv_refl. apply Pj.
    + exact R1'.
Qed.

(* ---- HSet ---- *)

Lemma hash_set_eq k f v :
  is_value_type v = true ->
  hash_set now k f v d =
  bind (hash_set_raw now k f v)
       (fun _ => ret (match hget (hf (view now d k)) f with Some _ => false | None => true end)) d.
Proof.
  intros Hv. unfold hash_set. rewrite Hv. cbn [negb].
  erewrite bind_ok; [| apply hash_count_eq]. rewrite hget_count_zero. reflexivity.
Qed.

Lemma step_HSet k f v : step_refines now (HSet k f v) d s.
Proof.
  destruct (to_bytes_cases v) as [[Tb [Bv Hv]] | [b [Tb [Bv Hv]]]].
  - apply (fin_same now d s HR _ (hash_set now k f v) VB (Err EValueType)); try reflexivity.
    + unfold hash_set. rewrite Hv. reflexivity.
    + cbn [spec_step]. fold s1. unfold spec_hset. rewrite spec_hset_many_eq by discriminate.
      cbn [forallb snd]. rewrite Hv. reflexivity.
  - apply (fin_hset _ (hash_set now k f v) VB k f v b
             (match hget (hf (view now d k)) f with Some _ => false | None => true end)); try reflexivity.
    + exact Tb.
    + apply hash_set_eq. exact Hv.
    + intros OK. cbn [spec_step]. fold s1. unfold spec_hset. rewrite spec_hset_many_eq by discriminate.
      cbn [forallb snd]. rewrite Hv, OK. unfold hfold. cbn [negb andb fold_left fst snd filter]. rewrite Bv.
      destruct (hget (hf (view now d k)) f); reflexivity.
    + intros OK. cbn [spec_step]. fold s1. unfold spec_hset. rewrite spec_hset_many_eq by discriminate.
      cbn [forallb snd]. rewrite Hv, OK. reflexivity.
Qed.

(* ---- HSetNX ---- *)

Lemma hash_set_nx_eq k f v :
  is_value_type v = true ->
  hash_set_nx now k f v d =
  match hget (hf (view now d k)) f with
  | Some _ => (d, Ok false)
  | None => bind (hash_set_raw now k f v) (fun _ => ret true) d
  end.
Proof.
  intros Hv. unfold hash_set_nx. rewrite Hv. cbn [negb].
  erewrite bind_ok; [| apply hash_exists_eq]. destruct (hget (hf (view now d k)) f); reflexivity.
Qed.

Lemma step_HSetNX k f v : step_refines now (HSetNX k f v) d s.
Proof.
  destruct (to_bytes_cases v) as [[Tb [Bv Hv]] | [b [Tb [Bv Hv]]]].
  - apply (fin_same now d s HR _ (hash_set_nx now k f v) VB (Err EValueType)); try reflexivity.
    + unfold hash_set_nx. rewrite Hv. reflexivity.
    + cbn [spec_step]. fold s1. unfold spec_hset_nx. rewrite Hv. reflexivity.
  - destruct (hget (hf (view now d k)) f) as [old|] eqn:HG.
    + apply (fin_same now d s HR _ (hash_set_nx now k f v) VB (Ok false)); try reflexivity.
      * rewrite hash_set_nx_eq by exact Hv. rewrite HG. reflexivity.
      * cbn [spec_step]. fold s1. unfold spec_hset_nx. rewrite Hv, (fields_view now d s I HR), HG. reflexivity.
    + apply (fin_hset _ (hash_set_nx now k f v) VB k f v b true); try reflexivity.
      * exact Tb.
      * rewrite hash_set_nx_eq by exact Hv. rewrite HG. reflexivity.
      * intros OK. cbn [spec_step]. fold s1. unfold spec_hset_nx.
        rewrite Hv, (fields_view now d s I HR), HG. cbn [negb].
        rewrite spec_hset_many_eq by discriminate.
        cbn [forallb snd]. rewrite Hv, OK. unfold hfold. cbn [negb andb fold_left fst snd]. rewrite Bv.
        reflexivity.
      * intros OK. cbn [spec_step]. fold s1. unfold spec_hset_nx.
        rewrite Hv, (fields_view now d s I HR), HG. cbn [negb].
        rewrite spec_hset_many_eq by discriminate.
        cbn [forallb snd]. rewrite Hv, OK. reflexivity.
Qed.

(* ---- HIncr / HIncrFloat ---- *)

Lemma hash_incr_eq key f delta :
  hash_incr now key f delta d =
  match value_int (hcur (view now d key) f) with
  | None => (d, Err EValueType)
  | Some n =>
      if negb (in_int64 (n + delta)) then (d, Err EValueType)
      else bind (hash_set_raw now key f (AInt (n + delta))) (fun _ => ret (n + delta)) d
  end.
Proof.
  unfold hash_incr, try_, hcur. rewrite hash_get_eq.
  destruct (hget (hf (view now d key)) f) as [v|]; cbv beta iota;
    match goal with |- context [value_int ?c] => destruct (value_int c) as [n|] end;
    try reflexivity; destruct (negb (in_int64 (n + delta))); reflexivity.
Qed.

Lemma spec_hincr_eq k f delta :
  spec_step now (HIncr k f delta) s =
  match value_int (hcur (view now d k) f) with
  | None => (s1, out_err EValueType)
  | Some n =>
      if negb (okh (view now d k)) then (s1, out_err EKeyType) else
      if negb (in_int64 (n + delta)) then (s1, out_err EValueType) else
      (sput k (mkEntry (AVHash (hput (hf (view now d k)) f (itoa (n + delta)))) (xp (view now d k))) s1,
       out_ok (VI (n + delta)))
  end.
Proof.
  cbn [spec_step]. fold s1. unfold spec_hincr, sput_val, hcur.
  rewrite (other_type_okh now d s I HR), (fields_view now d s I HR), (keep_exp_view now d s I HR).
  reflexivity.
Qed.

Lemma step_HIncr key f delta : in_int64 delta = true -> step_refines now (HIncr key f delta) d s.
Proof.
  intros Hd. pose proof (spec_hincr_eq key f delta) as SP.
  destruct (okh (view now d key)) eqn:OK; cbn [negb] in SP.
  - destruct (value_int (hcur (view now d key) f)) as [n|] eqn:VIN.
    + destruct (negb (in_int64 (n + delta))) eqn:IN.
      * apply (fin_same now d s HR _ (hash_incr now key f delta) VI (Err EValueType)); try reflexivity; [| exact SP].
        rewrite hash_incr_eq, VIN, IN. reflexivity.
      * apply (fin_hset _ (hash_incr now key f delta) VI key f (AInt (n + delta)) (itoa (n + delta)) (n + delta));
          try reflexivity.
        -- rewrite hash_incr_eq, VIN, IN. reflexivity.
        -- intros _. exact SP.
        -- congruence.
    + apply (fin_same now d s HR _ (hash_incr now key f delta) VI (Err EValueType)); try reflexivity; [| exact SP].
      rewrite hash_incr_eq, VIN. reflexivity.
  - assert (C : hcur (view now d key) f = "").
    { unfold hcur. rewrite (okh_false_hf _ OK). reflexivity. }
    rewrite C in SP. cbn [value_int] in SP.
    apply (fin_hset _ (hash_incr now key f delta) VI key f (AInt delta) (itoa delta) delta); try reflexivity.
    + rewrite hash_incr_eq, C. cbn [value_int]. change (0 + delta) with delta. rewrite Hd. reflexivity.
    + congruence.
    + intros _. exact SP.
Qed.

Lemma hash_incr_float_eq key f delta parsed sumtext :
  hash_incr_float now key f delta
    (fun t => match opt_lookup parsed t with Some r => r | None => None end) (fun _ => sumtext) d =
  match parse_of parsed (hcur (view now d key) f) with
  | None => (d, Err EValueType)
  | Some x =>
      bind (hash_set_raw now key f (AFloat (x + delta)%float sumtext)) (fun _ => ret (x + delta)%float) d
  end.
Proof.
  unfold hash_incr_float, try_, hcur. rewrite hash_get_eq.
  destruct (hget (hf (view now d key)) f) as [v|]; cbv beta iota; try reflexivity.
  unfold parse_of. destruct v; [reflexivity|].
  destruct (opt_lookup parsed (String a v)) as [[x|]|]; reflexivity.
Qed.

Lemma spec_hincr_float_eq k f delta parsed sumtext :
  spec_step now (HIncrFloat k f delta parsed sumtext) s =
  match parse_of parsed (hcur (view now d k) f) with
  | None => (s1, out_err EValueType)
  | Some x =>
      if negb (okh (view now d k)) then (s1, out_err EKeyType) else
      (sput k (mkEntry (AVHash (hput (hf (view now d k)) f sumtext)) (xp (view now d k))) s1,
       out_ok (VF (x + delta)%float))
  end.
Proof.
  cbn [spec_step]. fold s1. unfold spec_hincr_float, sput_val, hcur, parse_of.
  rewrite (other_type_okh now d s I HR), (fields_view now d s I HR), (keep_exp_view now d s I HR).
  reflexivity.
Qed.

Lemma step_HIncrFloat key f delta parsed sumtext :
  step_refines now (HIncrFloat key f delta parsed sumtext) d s.
Proof.
  pose proof (spec_hincr_float_eq key f delta parsed sumtext) as SP.
  destruct (okh (view now d key)) eqn:OK; cbn [negb] in SP.
  - destruct (parse_of parsed (hcur (view now d key) f)) as [x|] eqn:PF.
    + eapply (fin_hset _ _ VF key f (AFloat (x + delta)%float sumtext) sumtext (x + delta)%float);
        try reflexivity.
      * rewrite hash_incr_float_eq, PF. reflexivity.
      * intros _. exact SP.
      * congruence.
    + eapply (fin_same now d s HR _ _ VF (Err EValueType)); try reflexivity; [| exact SP].
      rewrite hash_incr_float_eq, PF. reflexivity.
  - assert (C : hcur (view now d key) f = "").
    { unfold hcur. rewrite (okh_false_hf _ OK). reflexivity. }
    rewrite C in SP. cbn [parse_of] in SP.
    eapply (fin_hset _ _ VF key f (AFloat (zero + delta)%float sumtext) sumtext (zero + delta)%float);
      try reflexivity.
    + rewrite hash_incr_float_eq, C. reflexivity.
    + congruence.
    + intros _. exact SP.
Qed.

End HSteps2.

Section HSteps3.
Variable now : Z.
Variable d : db.
Variable s : sstate.
Hypothesis I : InvH None d.
Hypothesis HR : R now d s.

Let s1 := spurge now s.
Let N1' : NoDup (map fst s1) := N1 now d s I HR.
Let G1' : forall k, sget s1 k = view now d k := G1 now d s I HR.
Let R1' : R now d s1 := R1 now d s HR.

(* ---- HSetMany ---- *)

Lemma hash_set_many_eq k items :
  forallb (fun fv : bytes * value => is_value_type (snd fv)) items = true ->
  hash_set_many now k items d =
  bind (hash_set_each now k items)
       (fun _ => ret (zlen items -
                      zlen (filter (fun p : bytes * bytes => str_in (fst p) (map fst items))
                                   (hf (view now d k))))) d.
Proof.
  intros Hv. unfold hash_set_many. rewrite Hv. cbn [negb].
  erewrite bind_ok; [| apply hash_count_eq]. reflexivity.
Qed.

Lemma step_HSetMany k items : NoDup (map fst items) -> step_refines now (HSetMany k items) d s.
Proof.
  intros ND. destruct items as [|[f v] items].
  - apply (fin_same now d s HR _ (hash_set_many now k []) VI (Ok 0)); try reflexivity.
    rewrite hash_set_many_eq by reflexivity. cbn [hash_set_each map]. unfold bind, ret.
    rewrite filter_none; [reflexivity | intros x _; reflexivity].
  - destruct (forallb (fun fv : bytes * value => is_value_type (snd fv)) ((f, v) :: items)) eqn:Hv.
    2:{ apply (fin_same now d s HR _ (hash_set_many now k ((f, v) :: items)) VI (Err EValueType)); try reflexivity.
        - unfold hash_set_many. rewrite Hv. reflexivity.
        - cbn [spec_step]. fold s1. rewrite (spec_hset_many_eq now d s I HR) by discriminate.
          rewrite Hv. reflexivity. }
    pose proof Hv as Hv'. cbn [forallb snd] in Hv'. apply andb_true_iff in Hv' as [Hv1 Hv2].
    destruct (to_bytes_cases v) as [[_ [_ C]] | [b [Tb [Bv _]]]]; [congruence|].
    pose proof (hash_set_raw_eff now k f v b d I Tb) as H.
    destruct (okh (view now d k)) eqn:OK.
    + destruct H as [d1 [E1 [I1 V1]]].
      assert (V1k : view now d1 k =
                    Some (mkEntry (AVHash (hput (hf (view now d k)) f b)) (xp (view now d k)))).
      { rewrite V1, String.eqb_refl. apply ent_xp. }
      destruct (hset_each_hash now k items d1 _ _ I1 Hv2 V1k) as [d2 [E2 [I2 V2]]].
      eapply step_intro.
      * eapply exec_wrapped_run; [reflexivity | reflexivity |].
        rewrite hash_set_many_eq by exact Hv.
        erewrite bind_ok; [| cbn [hash_set_each]; erewrite bind_ok; [exact E2 | exact E1]]. reflexivity.
      * cbn [spec_step]. fold s1. rewrite (spec_hset_many_eq now d s I HR) by discriminate.
        rewrite Hv, OK. reflexivity.
      * split; [reflexivity|]. cbn [res_out out_ok o_val proj_result negb]. apply VI_equiv.
        apply created_count; [exact ND | apply hf_nodup; exact I].
      * apply (R_put now d s I HR); [exact I2|]. intros k'. rewrite V2.
        destruct (String.eqb k k') eqn:EK.
        -- unfold hfold. cbn [fold_left fst snd]. rewrite Bv. symmetry. apply ent_xp.
        -- rewrite V1, EK. reflexivity.
    + destruct H as [d1 E1]. eapply step_intro.
      * eapply exec_wrapped_run; [reflexivity | reflexivity |].
        rewrite hash_set_many_eq by exact Hv.
        erewrite bind_err; [| cbn [hash_set_each]; erewrite bind_err; [reflexivity | exact E1]]. reflexivity.
      * cbn [spec_step]. fold s1. rewrite (spec_hset_many_eq now d s I HR) by discriminate.
        rewrite Hv, OK. reflexivity.
      * apply out_equiv_refl. reflexivity.
      * exact R1'.
Qed.

(* ---- HDelete ---- *)

Lemma spec_hdelete_eq k fs :
  spec_step now (HDelete k fs) s =
  if zlen (filter (fun p : bytes * bytes => str_in (fst p) fs) (hf (view now d k))) =? 0
  then (s1, out_ok (VI 0))
  else (sput k (mkEntry (AVHash (filter (fun p : bytes * bytes => negb (str_in (fst p) fs)) (hf (view now d k))))
                        (xp (view now d k))) s1,
        out_ok (VI (zlen (filter (fun p : bytes * bytes => str_in (fst p) fs) (hf (view now d k)))))).
Proof.
  cbn [spec_step]. fold s1. unfold spec_hdelete, spec_hash, sput_val.
  rewrite (keep_exp_view now d s I HR), G1'.
  destruct (view now d k) as [[[?|?|?|l|?] x]|]; try reflexivity.
  cbn [hf xp en_exp]. cbv zeta.
  assert (E : zlen l - zlen (filter (fun p : string * bytes => negb (str_in (fst p) fs)) l) =
              zlen (filter (fun p : string * bytes => str_in (fst p) fs) l)).
  { rewrite (zlen_filter_split (fun p : string * bytes => str_in (fst p) fs) l) at 1. lia. }
  rewrite E. reflexivity.
Qed.

Lemma step_HDelete k fs : step_refines now (HDelete k fs) d s.
Proof.
  pose proof (spec_hdelete_eq k fs) as SP. pose proof (hash_delete_eff now k fs d I) as H.
  destruct (zlen (filter (fun p : bytes * bytes => str_in (fst p) fs) (hf (view now d k))) =? 0).
  - apply (fin_same now d s HR _ (hash_delete now k fs) VI (Ok 0)); try reflexivity; [exact H | exact SP].
  - destruct H as [d' [E [I' V']]]. eapply step_intro.
    + eapply exec_wrapped_run; [reflexivity | reflexivity | exact E].
    + exact SP.
    + apply out_equiv_refl. reflexivity.
    + apply (R_put now d s I HR); [exact I' | exact V'].
Qed.

End HSteps3.

(* ================================================================== *)
(* Part 5: the theorems                                               *)
(* ================================================================== *)

Theorem C04_hash_step_refines : forall now o d s,
  hash_op o = true -> wf_hop o -> Inv d -> R now d s -> step_refines now o d s.
Proof.
  intros now o d s Ho Wf I HR. apply Inv_iff in I.
  destruct o; try discriminate Ho.
  - apply step_HDelete; assumption.
  - apply step_HExists; assumption.
  - apply step_HFields; assumption.
  - apply step_HGet; assumption.
  - apply step_HGetMany; assumption.
  - apply step_HIncr; assumption.
  - apply step_HIncrFloat; assumption.
  - apply step_HItems; assumption.
  - apply step_HLen; assumption.
  - apply step_HSet; assumption.
  - apply step_HSetMany; assumption.
  - apply step_HSetNX; assumption.
  - apply step_HValues; assumption.
Qed.

(* whole histories of hash, string and key operations *)
Theorem C04_history_refines : forall h t0 d s,
  (forall p, In p h -> (hash_op (snd p) || str_op (snd p) || key_op (snd p)) = true /\ wf_hop (snd p) /\ wf_op (snd p) /\ int_ok (snd p)) ->
  times_ok t0 h -> Inv d -> R t0 d s ->
  Forall2 (fun (po : (Z * op) * out) (so : out) => out_equiv (snd (fst po)) (snd po) so)
          (combine h (snd (run_impl h d))) (snd (run_spec h s))
  /\ (forall tl, (match rev h with (t, _) :: _ => t | [] => t0 end) = tl -> R tl (fst (run_impl h d)) (fst (run_spec h s))).
Proof.
  induction h as [|[t o] h IH]; intros t0 d s Hall Ht I HR.
  - cbn. split; [constructor | intros tl <-; exact HR].
  - cbn [times_ok] in Ht. destruct Ht as [Hle Ht].
    assert (HR' : R t d s) by (eapply R_mono_partial; eauto).
    destruct (Hall (t, o) (or_introl eq_refl)) as [Hop [Hwh [Hwf Hint]]]. cbn [snd] in Hop, Hwh, Hwf, Hint.
    assert (ST : step_refines t o d s).
    { destruct (hash_op o) eqn:Hh.
      - apply C04_hash_step_refines; assumption.
      - destruct (str_op o) eqn:So.
        + apply C01_string_step_refines_partial; assumption.
        + apply C06_key_step_refines; assumption. }
    assert (I1 : Inv (fst (exec_db t o d))) by (apply C11_inv_preserved; exact I).
    unfold step_refines in ST. cbn [run_impl run_spec].
    destruct (exec_db t o d) as [d1 x]. destruct (spec_step t o s) as [s1 y].
    destruct ST as [OE HR1]. cbn [fst] in I1.
    specialize (IH t d1 s1 (fun p Hp => Hall p (or_intror Hp)) Ht I1 HR1).
    destruct (run_impl h d1) as [d2 xs]. destruct (run_spec h s1) as [s2 ys].
    cbn [fst snd combine] in *. destruct IH as [F Rl]. split.
    + constructor; [exact OE | exact F].
    + intros tl Etl. apply Rl. rewrite <- Etl. cbn [rev].
      destruct (rev h) as [|[t' o'] r']; reflexivity.
Qed.

(* the readers agree with one another: all are images of the same field map *)
Theorem C04_readers_agree : forall now d key,
  Inv d ->
  let items := snd (hash_items now key d) in
  match items with
  | Ok l =>
      snd (hash_len now key d) = Ok (zlen l) /\
      snd (hash_fields now key d) = Ok (map fst l) /\
      snd (hash_values now key d) = Ok (map snd l) /\
      (forall f, snd (hash_exists now key f d) = Ok (existsb (fun p => String.eqb (fst p) f) l)) /\
      (forall f, snd (hash_get now key f d) = match find (fun p => String.eqb (fst p) f) l with Some p => Ok (snd p) | None => Err ENotFound end)
  | Err _ => False
  end.
Proof.
  intros now d key I. apply Inv_iff in I. unfold hash_items, lift_read. cbn [snd].
  split; [| split; [| split; [| split]]].
  - rewrite hash_len_eq by exact I. cbn [snd]. rewrite <- hrows_view. reflexivity.
  - unfold hash_fields, lift_read. cbn [snd]. rewrite map_map. reflexivity.
  - unfold hash_values, lift_read. cbn [snd]. rewrite map_map. reflexivity.
  - intros f. rewrite hash_exists_eq. cbn [snd]. rewrite <- hrows_view, hget_existsb. reflexivity.
  - intros f. rewrite hash_get_eq. cbn [snd]. rewrite <- hrows_view. unfold hget, opt_lookup.
    match goal with |- context [find ?p ?l] => destruct (find p l) end; reflexivity.
Qed.

Print Assumptions C04_hash_step_refines.
Print Assumptions C04_history_refines.
Print Assumptions C04_readers_agree.
