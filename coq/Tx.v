(* Tx.v — a small model of one caller-managed write transaction (sqlx.DB.Update
   with a callback) run with an injected fault, and of the read-only handle.
   It sits on top of the faithful model: the body is a list of Tx-level calls
   ([Ops.exec_tx true]), which keep their partial effects when they fail.
   Definitions only; the theorems are in ProofTx.v (property C07). *)
From Redka Require Import Base Db Ops.

(* where the run is hit *)
Inductive fault :=
| NoFault
| FailBegin              (* BEGIN fails: the body never runs *)
| FailAt (k : nat)       (* the k-th Tx-level call of the body fails with a storage error *)
| FailCommit             (* the body ran, COMMIT fails *)
| Panic (k : nat)        (* the callback panics after k calls *)
| Cancel (k : nat).      (* the callback's context is cancelled after k calls *)
(* A position k beyond the end of the body means: after the last call and
   before the commit.  Every fault aborts the transaction. *)

(* The body: at most [limit] calls ([None] = no limit), stopping at the first
   call that reports an error (the callback returns it).  Gives the WORKING
   state with all partial effects, the results so far, and whether the body ran
   to its end without an error. *)
Fixpoint run_body (now : Z) (ops : list op) (d : db) (limit : option nat)
  : db * list out * bool :=
  match ops, limit with
  | [], _ => (d, [], true)
  | _ :: _, Some O => (d, [], false)
  | o :: rest, _ =>
      let '(d1, r) := exec_tx true now o d in
      if is_err r then (d1, [r], false)
      else let '(d2, rs, fin) := run_body now rest d1 (option_map Nat.pred limit) in
           (d2, r :: rs, fin)
  end.

(* a transaction in progress: the state it started from, and its working state *)
Record txn := mkTxn { t_snapshot : db; t_working : db }.
Definition rollback (t : txn) : db := t_snapshot t.
Definition commit (t : txn) : db := t_working t.

(* the position a fault strikes the body at *)
Definition fault_limit (f : fault) : option nat :=
  match f with
  | FailAt k | Panic k | Cancel k => Some k
  | _ => None
  end.

(* DB.Update under fault [f]: the resulting durable state and "committed?" *)
Definition update_with_fault (now : Z) (ops : list op) (f : fault) (d : db) : db * bool :=
  match f with
  | FailBegin => (d, false)
  | _ =>
      let '(w, _, finished) := run_body now ops d (fault_limit f) in
      let t := mkTxn d w in
      match f with
      | NoFault => if finished then (commit t, true) else (rollback t, false)
      | _ => (rollback t, false)       (* fault in the body, or at COMMIT *)
      end
  end.

(* a read-only handle (the read-only connection pool): a read is executed, any
   other operation is refused by the storage and nothing changes *)
Definition read_only_handle (now : Z) (o : op) (d : db) : db * out :=
  if is_read o then exec_tx false now o d
  else (d, out_err (ESql SqReadOnly)).
