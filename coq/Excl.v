(* Excl.v — the recorded known findings as a predicate on (state, operation).
   It is a hypothesis of the refinement theorems and, extracted with the
   model, what the correspondence check evaluates: a deviation from the
   specification is "listed" exactly when this predicate names it.
   One disjunct per data-level entry of /verif/KNOWN_FINDINGS.jsonl with status "known". *)
From Redka Require Import Base Db Ops.

Definition excluded (now : Z) (d : db) (o : op) : option string :=
  match o with
  (* Key.Len / DBSIZE is "select count( * ) from rkey": it counts keys that have
     expired but have not been removed yet (documented so in the Go comment) *)
  | KLen => if existsb (expired now) (rkey d) then Some "kf_keylen_counts_expired" else None
  (* list positions are binary64 values: an insert takes the midpoint of two neighbouring
     positions, a push max+1 / min-1.  After 52 inserts before one element the midpoint coincides
     with a neighbour (and at 2^53 x+1 = x): the UNIQUE (kid, pos) index refuses the write, nothing
     changes - the list no longer "accepts inserts at any position" *)
  | LInsertAfter _ _ _ | LInsertBefore _ _ _ | LPushBack _ _ | LPushFront _ _ | LPopBackPushFront _ _ =>
      match o_err (snd (exec_db now o d)) with
      | Some (ESql (SqUnique _)) => Some "kf_list_position_exhausted"
      | _ => None
      end
  | _ => None
  end.

(* inside a caller-managed transaction: the first listed finding met while the
   operations run in order *)
Fixpoint excluded_block (now : Z) (d : db) (ops : list op) : option string :=
  match ops with
  | [] => None
  | o :: rest =>
      match excluded now d o with
      | Some n => Some n
      | None => excluded_block now (fst (exec_tx true now o d)) rest
      end
  end.
