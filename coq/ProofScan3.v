(* ProofScan3.v — property C16, continued: the id of a key is stable.

   C16_key_present_throughout_exactly_once (ProofScan2.v) assumes that the
   iterated key is present UNDER THE SAME ID whenever a page is fetched.  Here
   the "same id" part is discharged from a condition on the operations of the
   other clients:

   Part A  one sweep over all operations that do not delete rows of rkey: the
           table of (id, name) pairs of rkey only grows at its end
           (exec_db_names_prefix).
   Part B  key_id_stable: a key that is stored before and after an operation
           has kept its id, for every operation except a rename ONTO its name
           (and, when the key is stored but expired, a rename-nx onto its
           name); the exclusions are justified by refutations.
   Part C  the corollary for interleaved keyspace iterations.
   Part D  non-vacuity examples. *)
From Redka Require Import Base Db Glob ImplKey ImplString ImplList ImplSet ImplHash ImplZSet Ops Inv Refine.
From Redka Require Import ProofInv ProofInv2 ProofScan ProofRefineStr ProofNoTrace ProofScan2.
From Coq Require Import Lia ZifyBool Sorted.

(* ================================================================== *)
(* Part A: operations that delete no key row keep every (id, name)     *)
(* ================================================================== *)

(* the pair the unique indexes of rkey are about *)
Definition idn (r : keyrow) : Z * bytes := (k_id r, k_key r).

(* the operations whose statements delete rows of rkey: the three deletes and
   "update or replace" of the renames.  Nothing outside internal/rkey does
   (stores empty the destination's ELEMENT rows and keep its key row). *)
Definition deletes_keys (o : op) : bool :=
  match o with
  | KDelete _ | KDeleteAll | KDeleteExpired _ | KRename _ _ | KRenameNX _ _ => true
  | _ => false
  end.

Lemma NoDup_snoc {A} (l : list A) x : NoDup l -> ~ In x l -> NoDup (l ++ [x]).
Proof.
  induction l as [|a l IH]; intros ND Hx; cbn [app].
  - constructor; [intros [] | constructor].
  - inversion ND as [|? ? Ha Hl]; subst. constructor.
    + intros Hin. apply in_app_or in Hin as [Hin|[E|[]]]; [exact (Ha Hin)|].
      apply Hx. left. symmetry; exact E.
    + apply IH; [exact Hl|]. intros Hin. apply Hx. right. exact Hin.
Qed.

Section NameSweep.
  Variable ks0 : list keyrow.

  (* ids are distinct, and the (id, name) table starts with that of [ks0] *)
  Definition K (d : db) : Prop :=
    NoDup (map k_id (rkey d)) /\ exists extra, map idn (rkey d) = map idn ks0 ++ extra.

  Lemma K_ext d d' : rkey d' = rkey d -> K d -> K d'.
  Proof. unfold K. intros E. rewrite E. auto. Qed.

  Lemma idn_id a b : idn a = idn b -> k_id a = k_id b.
  Proof. unfold idn. intros E. injection E as E _. exact E. Qed.

  Lemma K_map d f :
    (forall r, In r (rkey d) -> idn (f r) = idn r) -> K d -> K (set_rkey d (map f (rkey d))).
  Proof.
    intros Hf [ND [extra HE]]. unfold K. cbn [rkey set_rkey]. split.
    - rewrite map_map. rewrite (map_ext_in _ k_id); [exact ND|].
      intros r Hr. apply idn_id, Hf, Hr.
    - exists extra. rewrite map_map. rewrite (map_ext_in _ idn); [exact HE | exact Hf].
  Qed.

  Lemma K_add d r : k_id r = next_key_id d -> K d -> K (set_rkey d (rkey d ++ [r])).
  Proof.
    intros Hid [ND [extra HE]]. unfold K. cbn [rkey set_rkey]. rewrite !map_app. cbn [map]. split.
    - apply NoDup_snoc; [exact ND|]. intros Hin. apply zmax_ge_in in Hin.
      unfold next_key_id in Hid. lia.
    - exists (extra ++ [idn r]). rewrite HE, app_assoc. reflexivity.
  Qed.

  (* ---- the primitives of Db.v ---- *)

  Lemma N_upd_keys p f d :
    (forall x, In x (rkey d) -> p x = true -> idn (f x) = idn x) -> K d -> K (upd_keys p f d).
  Proof.
    intros Hf Hd. unfold upd_keys. apply K_map; [|exact Hd].
    intros r Hr. destruct (p r) eqn:E; [apply Hf; assumption | reflexivity].
  Qed.

  Lemma N_upd_key_id_same id f d :
    (forall x, idn (f x) = idn x) -> K d -> K (upd_key_id id f d).
  Proof. intros Hf Hd. unfold upd_key_id. apply N_upd_keys; [|exact Hd]. intros x _ _. apply Hf. Qed.

  (* "update ... where id = r.id" with the new row computed from [r]: the only
     row it hits is [r] itself because ids are distinct *)
  Lemma N_upd_key_id_const r r' d :
    In r (rkey d) -> idn r' = idn r -> K d -> K (upd_key_id (k_id r) (fun _ => r') d).
  Proof.
    intros Hr Hr' Hd. unfold upd_key_id. apply N_upd_keys; [|exact Hd].
    intros x Hx E. apply Z.eqb_eq in E. destruct Hd as [ND _].
    rewrite (NoDup_map_inj k_id (rkey d) x r ND Hx Hr E). exact Hr'.
  Qed.

  Lemma N_bump now key typ n d : K d -> K (bump_key_len now key typ n d).
  Proof. intros Hd. unfold bump_key_len. apply N_upd_keys; [reflexivity | exact Hd]. Qed.

  Lemma N_trig_del now kid n d : K d -> K (trig_list_delete now kid n d).
  Proof.
    intros Hd. unfold trig_list_delete. destruct (n =? 0); [exact Hd|].
    apply N_upd_key_id_same; [reflexivity | exact Hd].
  Qed.

  Lemma N_trig_upd now kid n d : K d -> K (trig_list_update now kid n d).
  Proof.
    intros Hd. unfold trig_list_update. destruct (n =? 0); [exact Hd|].
    apply N_upd_key_id_same; [reflexivity | exact Hd].
  Qed.

  Lemma N_reset now key typ d : K d -> K (reset_expired now key typ d).
  Proof.
    intros Hd. unfold reset_expired. destruct (find_key d key) as [r|]; [|exact Hd].
    destruct (expired now r); [|exact Hd].
    apply N_upd_key_id_same; [reflexivity|].
    apply N_trig_del. eapply K_ext; [|exact Hd]. reflexivity.
  Qed.

  (* the type-guarded upsert: the conflict branch rewrites the row in place,
     the insert branch appends a row with a fresh id *)
  Lemma keepsN_upsert now key typ ne nl oc :
    (forall r, idn (oc r) = idn r) -> keeps K (upsert_key now key typ ne nl oc).
  Proof.
    intros Hoc d Hd. unfold upsert_key.
    pose proof (N_reset now key typ d Hd) as H1.
    destruct (find_key (reset_expired now key typ d) key) as [r|] eqn:F.
    - destruct (k_type r =? typ); cbn [fst]; [|exact Hd].
      apply find_key_some in F as [Hr _].
      apply N_upd_key_id_const; [exact Hr | rewrite Hoc; reflexivity | exact H1].
    - cbn [fst]. apply K_add; [reflexivity | exact H1].
  Qed.

  Lemma N_efilter d p : K d -> K (set_rset d (filter p (rset d))).
  Proof. apply K_ext. reflexivity. Qed.
  Lemma N_hfilter d p : K d -> K (set_rhash d (filter p (rhash d))).
  Proof. apply K_ext. reflexivity. Qed.
  Lemma N_zfilter d p : K d -> K (set_rzset d (filter p (rzset d))).
  Proof. apply K_ext. reflexivity. Qed.
  Lemma N_str d x : K d -> K (set_rstring d x).
  Proof. apply K_ext. reflexivity. Qed.
  Lemma N_list d x : K d -> K (set_rlist d x).
  Proof. apply K_ext. reflexivity. Qed.
  Lemma N_set d x : K d -> K (set_rset d x).
  Proof. apply K_ext. reflexivity. Qed.
  Lemma N_hash d x : K d -> K (set_rhash d x).
  Proof. apply K_ext. reflexivity. Qed.
  Lemma N_zset d x : K d -> K (set_rzset d x).
  Proof. apply K_ext. reflexivity. Qed.

  Create HintDb nprim.
  Create HintDb ndb.
  #[local] Hint Resolve N_bump N_trig_del N_trig_upd N_efilter N_hfilter N_zfilter N_str N_list
    N_set N_hash N_zset N_reset : nprim.
  #[local] Hint Extern 2 (K (upd_key_id _ _ _)) => (apply N_upd_key_id_same; [intros; reflexivity|]) : nprim.
  #[local] Hint Extern 2 (K (upd_keys _ _ _)) => (apply N_upd_keys; [intros; reflexivity|]) : nprim.

  Ltac nd :=
    unfold keeps; intros ? ?;
    repeat (cbv beta iota zeta; dm); cbv beta iota zeta; cbn [fst]; eauto 6 with nprim.

  Ltac np :=
    cbv beta iota zeta;
    first
      [ solve [auto with ndb]
      | solve [apply keeps_RO; auto with mdb]
      | lazymatch goal with
        | |- keeps _ (bind _ _) => apply keeps_bind; [np | intro; np]
        | |- keeps _ (try_ _ _) => apply keeps_try; [np | intro; np]
        | |- keeps _ (typed_error _) => apply keeps_typed; np
        | |- keeps _ (ret _) => apply keeps_RO, RO_ret
        | |- keeps _ (fail _) => apply keeps_RO, RO_fail
        | |- keeps _ (lift_read _) => apply keeps_RO, RO_lift_read
        | |- keeps _ get_db => apply keeps_RO, RO_get_db
        | |- keeps _ (match ?x with _ => _ end) => destruct x eqn:?; np
        | |- keeps _ (fun _ => _) => idtac
        | |- keeps _ ?m => let h := head m in unfold h; np
        end ].

  Lemma fst_pair_eq3 {X} (pr : db * X) d' n : pr = (d', n) -> d' = fst pr.
  Proof. intros ->. reflexivity. Qed.

  (* ---- rkey: the two updates that delete nothing ---- *)

  Lemma keepsN_key_expire_at now key a : keeps K (key_expire_at now key a).
  Proof. unfold key_expire_at. nd. Qed.
  Lemma keepsN_key_persist now key : keeps K (key_persist now key).
  Proof. unfold key_persist. nd. Qed.
  #[local] Hint Resolve keepsN_key_expire_at keepsN_key_persist : ndb.

  (* ---- rstring ---- *)

  Lemma keepsN_sql_set2 key v : keeps K (sql_set2 key v).
  Proof. unfold sql_set2. nd. Qed.
  Lemma keepsN_upsert_etime now key typ ne nl at_ :
    keeps K (upsert_key now key typ ne nl (fun r => with_etime r at_)).
  Proof. apply keepsN_upsert. reflexivity. Qed.
  Lemma keepsN_upsert_id now key typ ne nl : keeps K (upsert_key now key typ ne nl (fun r => r)).
  Proof. apply keepsN_upsert. reflexivity. Qed.
  Lemma keepsN_upsert_len now key typ ne nl :
    keeps K (upsert_key now key typ ne nl (fun r => with_len r (opt_add (k_len r) 1))).
  Proof. apply keepsN_upsert. reflexivity. Qed.
  #[local] Hint Resolve keepsN_sql_set2 keepsN_upsert_etime keepsN_upsert_id keepsN_upsert_len : ndb.

  Lemma keepsN_str_set_at now key v a : keeps K (str_set_at now key v a).
  Proof. np. Qed.
  Lemma keepsN_str_update now key v : keeps K (str_update now key v).
  Proof. np. Qed.
  #[local] Hint Resolve keepsN_str_set_at keepsN_str_update : ndb.
  Lemma keepsN_str_set_expires now key v t : keeps K (str_set_expires now key v t).
  Proof. np. Qed.
  Lemma keepsN_str_set_each now items : keeps K (str_set_each now items).
  Proof. induction items as [|[k v] r IH]; cbn [str_set_each]; np. Qed.
  #[local] Hint Resolve keepsN_str_set_expires keepsN_str_set_each : ndb.
  Lemma keepsN_str_set_many now items : keeps K (str_set_many now items).
  Proof. np. Qed.
  Lemma keepsN_str_incr now key dl : keeps K (str_incr now key dl).
  Proof. np. Qed.
  Lemma keepsN_str_incr_float now key dl p f : keeps K (str_incr_float now key dl p f).
  Proof. np. Qed.

  Lemma N_str_set_with now key v o d : K d -> K (fst (str_set_with now key v o d)).
  Proof.
    intros Hd. unfold str_set_with.
    destruct (negb (is_value_type v)); [exact Hd|].
    destruct (str_get now key d) as [d0 r].
    destruct (so_ifx o && negb match r with Err ENotFound => false | _ => true end); [exact Hd|].
    destruct (so_ifnx o && match r with Err ENotFound => false | _ => true end); [exact Hd|].
    assert (H : K (fst ((if so_keep o then str_update now key v
                         else str_set_at now key v (if 0 <? so_ttl o then Some (now + so_ttl o) else so_at o)) d))).
    { destruct (so_keep o); [apply keepsN_str_update | apply keepsN_str_set_at]; exact Hd. }
    match goal with |- context [let '(d', w) := ?m in _] => destruct m as [d' w] end.
    cbn [fst] in H. destruct w; exact H.
  Qed.

  (* ---- rlist ---- *)

  Lemma N_delete_rows now kid vs d : K d -> K (fst (delete_rows now kid vs d)).
  Proof. intros Hd. unfold delete_rows. cbn [fst]. eauto with nprim. Qed.
  #[local] Hint Resolve N_delete_rows : nprim.

  Lemma keepsN_insert_row kid pos e : keeps K (insert_row kid pos e).
  Proof. unfold insert_row. nd. Qed.
  Lemma keepsN_sql_insert now key : keeps K (sql_insert now key).
  Proof.
    intros d Hd. unfold sql_insert. destruct (live_key now d key T_LIST) as [r|] eqn:L; [|exact Hd].
    cbn [fst]. apply live_key_some in L as [Hr _].
    apply N_upd_key_id_const; [exact Hr | reflexivity | exact Hd].
  Qed.
  #[local] Hint Resolve keepsN_insert_row keepsN_sql_insert : ndb.

  Lemma keepsN_list_push now key v front : keeps K (list_push now key v front).
  Proof. np. Qed.

  Lemma keepsN_list_pop now key back : keeps K (list_pop now key back).
  Proof.
    intros d Hd. unfold list_pop. destruct (live_key now d key T_LIST) as [k|]; [|exact Hd].
    destruct (if back then rows_desc d (k_id k) else rows_asc d (k_id k)) as [|r rs]; [exact Hd|].
    destruct (delete_rows now (k_id k) [r] d) as [d' n] eqn:E. cbn [fst].
    rewrite (fst_pair_eq3 _ _ _ E). apply N_delete_rows; exact Hd.
  Qed.
  #[local] Hint Resolve keepsN_list_push keepsN_list_pop : ndb.

  Lemma keepsN_list_delete now key v : keeps K (list_delete now key v).
  Proof.
    unfold list_delete. apply keeps_bind; [np|]. intros eb d Hd.
    destruct (live_key now d key T_LIST) as [k|]; [|exact Hd].
    destruct eb as [e|]; [|exact Hd].
    match goal with |- context [delete_rows ?a ?b ?c d] => destruct (delete_rows a b c d) as [d' n] eqn:E end.
    cbn [fst]. rewrite (fst_pair_eq3 _ _ _ E). apply N_delete_rows; exact Hd.
  Qed.

  Lemma keepsN_list_delete_n now key v count back : keeps K (list_delete_n now key v count back).
  Proof.
    unfold list_delete_n. destruct (count <=? 0); [np|]. apply keeps_bind; [np|]. intros eb d Hd.
    destruct (live_key now d key T_LIST) as [k|]; [|exact Hd].
    destruct eb as [e|]; [|exact Hd].
    match goal with |- context [delete_rows ?a ?b ?c d] => destruct (delete_rows a b c d) as [d' n] eqn:E end.
    cbn [fst]. rewrite (fst_pair_eq3 _ _ _ E). apply N_delete_rows; exact Hd.
  Qed.

  Lemma keepsN_list_set now key idx v : keeps K (list_set now key idx v).
  Proof.
    unfold list_set. apply keeps_bind; [np|]. intros eb d Hd.
    destruct (norm_idx idx) as [rv i].
    destruct (live_key now d key T_LIST) as [k|]; [|exact Hd].
    destruct (znth i _) as [r|]; [|exact Hd].
    destruct eb as [e|]; [|exact Hd]. cbn [fst]. eauto with nprim.
  Qed.

  Lemma keepsN_list_trim now key start stop : keeps K (list_trim now key start stop).
  Proof.
    intros d Hd. unfold list_trim. destruct (live_key now d key T_LIST) as [r|]; [|exact Hd].
    destruct (range_window (k_len r) start stop) as [off cnt].
    match goal with |- context [delete_rows ?a ?b ?c d] => destruct (delete_rows a b c d) as [d' n] eqn:E end.
    cbn [fst]. rewrite (fst_pair_eq3 _ _ _ E). apply N_delete_rows; exact Hd.
  Qed.

  Lemma N_list_insert now key pivot elem after d : K d -> K (fst (list_insert now key pivot elem after d)).
  Proof.
    intros Hd. unfold list_insert.
    destruct (to_bytes pivot) as [pb|]; [|exact Hd].
    destruct (to_bytes elem) as [eb|]; [|exact Hd].
    destruct (live_key now d key T_LIST) as [k0|]; [|exact Hd].
    destruct (list_rows d (k_id k0)) as [|x xs]; [exact Hd|].
    pose proof (keepsN_insert_row (k_id k0) (insert_pos d (k_id k0) pb after) eb d Hd) as H1.
    destruct (insert_row (k_id k0) (insert_pos d (k_id k0) pb after) eb d) as [d1 w].
    cbn [fst] in H1. destruct w as [u|e].
    - pose proof (keepsN_sql_insert now key d1 H1) as H2.
      destruct (sql_insert now key d1) as [d2 r]. cbn [fst] in H2.
      repeat match goal with |- context [match ?x with _ => _ end] => destruct x end; exact H2.
    - repeat match goal with |- context [match ?x with _ => _ end] => destruct x end; exact H1.
  Qed.

  Lemma N_list_pop_push now src dest d : K d -> K (fst (list_pop_push now src dest d)).
  Proof.
    intros Hd. unfold list_pop_push.
    pose proof (keepsN_list_pop now src true d Hd) as H1.
    destruct (list_pop now src true d) as [d1 r]. cbn [fst] in H1.
    destruct r as [e|er]; [|exact H1].
    pose proof (keepsN_list_push now dest (ABytes e) true d1 H1) as H2.
    destruct (list_push now dest (ABytes e) true d1) as [d2 w]. cbn [fst] in H2.
    destruct w; exact H2.
  Qed.

  (* ---- rset ---- *)

  Lemma keepsN_set_add2 kid e : keeps K (set_add2 kid e).
  Proof.
    intros d Hd. unfold set_add2. destruct e as [e|]; [|exact Hd].
    destruct (existsb _ (rset d)); [exact Hd|]. cbn [fst].
    apply N_upd_key_id_same; [reflexivity|]. apply N_set. exact Hd.
  Qed.

  Lemma keepsN_set_add_each kid es : forall n, keeps K (set_add_each kid es n).
  Proof.
    induction es as [|e r IH]; intros n; cbn [set_add_each]; [np|].
    apply keeps_bind; [apply keepsN_set_add2 | intros c; apply IH].
  Qed.

  Lemma keepsN_set_add_all kid es : keeps K (set_add_all kid es).
  Proof.
    induction es as [|e r IH]; cbn [set_add_all]; [np|].
    apply keeps_bind; [apply keepsN_set_add2 | intros c; apply IH].
  Qed.

  Lemma keepsN_set_add1 now key : keeps K (set_add1 now key).
  Proof. np. Qed.
  #[local] Hint Resolve keepsN_set_add1 : ndb.

  Lemma keepsN_set_add now key vs : keeps K (set_add now key vs).
  Proof.
    unfold set_add. apply keeps_bind; [np|]. intros eb.
    apply keeps_bind; [np|]. intros k. apply keepsN_set_add_each.
  Qed.

  Lemma keepsN_set_delete now key vs : keeps K (set_delete now key vs).
  Proof. unfold set_delete. apply keeps_bind; [np|]. intros eb. nd. Qed.
  Lemma keepsN_set_delete_key now key : keeps K (set_delete_key now key).
  Proof. unfold set_delete_key. nd. Qed.
  Lemma keepsN_set_pop now key c : keeps K (set_pop now key c).
  Proof. unfold set_pop. nd. Qed.
  #[local] Hint Resolve keepsN_set_delete keepsN_set_delete_key keepsN_set_pop : ndb.

  Lemma keepsN_set_replace now dest elems : keeps K (set_replace now dest elems).
  Proof.
    unfold set_replace. apply keeps_bind; [np|]. intros _.
    apply keeps_bind; [np|]. intros k.
    apply keeps_bind; [apply keepsN_set_add_all|]. intros _. np.
  Qed.

  Lemma keepsN_set_store a now dest keys : keeps K (set_store a now dest keys).
  Proof.
    unfold set_store. destruct keys as [|k0 ks]; [np|].
    apply keeps_bind; [np|]. intros elems. apply keepsN_set_replace.
  Qed.

  Lemma keepsN_set_move now src dest v : keeps K (set_move now src dest v).
  Proof.
    unfold set_move. apply keeps_bind; [np|]. intros n.
    destruct (n =? 0); [np|]. apply keeps_bind; [apply keepsN_set_add|]. intros _. np.
  Qed.

  (* ---- rhash ---- *)

  Lemma keepsN_hash_set2 kid field v : keeps K (hash_set2 kid field v).
  Proof.
    intros d Hd. unfold hash_set2. destruct v as [v|]; [|exact Hd].
    destruct (existsb _ (rhash d)); cbn [fst].
    - apply N_hash. exact Hd.
    - apply N_hash. apply N_upd_key_id_same; [reflexivity | exact Hd].
  Qed.

  Lemma keepsN_hash_set1 now key : keeps K (hash_set1 now key).
  Proof. np. Qed.
  #[local] Hint Resolve keepsN_hash_set1 : ndb.

  Lemma keepsN_hash_set_raw now key field v : keeps K (hash_set_raw now key field v).
  Proof.
    unfold hash_set_raw. destruct (to_bytes v); [|np].
    apply keeps_bind; [np|]. intros k. apply keepsN_hash_set2.
  Qed.

  Lemma keepsN_hash_delete now key fields : keeps K (hash_delete now key fields).
  Proof. unfold hash_delete. nd. Qed.

  (* ---- rzset ---- *)

  Lemma keepsN_zset_upsert kid elem score comb : keeps K (zset_upsert kid elem score comb).
  Proof.
    intros d Hd. unfold zset_upsert. destruct elem as [e|]; [|exact Hd].
    destruct (find _ (rzset d)) as [old|].
    - destruct (negb _); [exact Hd|]. cbn [fst]. apply N_zset. exact Hd.
    - destruct (negb _); [exact Hd|]. cbn [fst].
      apply N_zset. apply N_upd_key_id_same; [reflexivity | exact Hd].
  Qed.

  Lemma keepsN_zset_add1 now key : keeps K (zset_add1 now key).
  Proof. np. Qed.
  #[local] Hint Resolve keepsN_zset_add1 : ndb.

  Lemma keepsN_zset_add_raw now key v score : keeps K (zset_add_raw now key v score).
  Proof.
    unfold zset_add_raw. destruct (to_bytes v); [|np].
    apply keeps_bind; [np|]. intros k.
    apply keeps_bind; [apply keepsN_zset_upsert|]. intros _. np.
  Qed.

  Lemma keepsN_zset_add now key v score : keeps K (zset_add now key v score).
  Proof.
    unfold zset_add. apply keeps_bind; [np|]. intros eb.
    apply keeps_bind; [np|]. intros c.
    apply keeps_bind; [apply keepsN_zset_add_raw|]. intros _. np.
  Qed.

  Lemma keepsN_zset_add_each now key items : keeps K (zset_add_each now key items).
  Proof.
    induction items as [|[v s] r IH]; cbn [zset_add_each]; [np|].
    apply keeps_bind; [apply keepsN_zset_add_raw | intros _; exact IH].
  Qed.

  Lemma keepsN_zset_add_many now key items : keeps K (zset_add_many now key items).
  Proof.
    unfold zset_add_many. apply keeps_bind; [np|]. intros eb.
    apply keeps_bind; [np|]. intros c.
    apply keeps_bind; [apply keepsN_zset_add_each|]. intros _. np.
  Qed.

  Lemma keepsN_zset_delete now key vs : keeps K (zset_delete now key vs).
  Proof. unfold zset_delete. apply keeps_bind; [np|]. intros eb. nd. Qed.
  Lemma keepsN_delete_zrows now key vs : keeps K (delete_zrows now key vs).
  Proof. unfold delete_zrows. nd. Qed.
  Lemma keepsN_zset_delete_key now key : keeps K (zset_delete_key now key).
  Proof. unfold zset_delete_key. nd. Qed.
  #[local] Hint Resolve keepsN_zset_delete keepsN_delete_zrows keepsN_zset_delete_key : ndb.

  Lemma keepsN_zset_delete_rank now key a b : keeps K (zset_delete_rank now key a b).
  Proof. np. Qed.
  Lemma keepsN_zset_delete_score now key lo hi : keeps K (zset_delete_score now key lo hi).
  Proof. np. Qed.

  Lemma keepsN_zset_incr now key v dl : keeps K (zset_incr now key v dl).
  Proof.
    unfold zset_incr. apply keeps_bind; [np|]. intros eb.
    apply keeps_bind; [np|]. intros k. apply keepsN_zset_upsert.
  Qed.

  Lemma keepsN_zset_add_all kid rows : keeps K (zset_add_all kid rows).
  Proof.
    induction rows as [|r rest IH]; cbn [zset_add_all]; [np|].
    apply keeps_bind; [apply keepsN_zset_upsert | intros _; exact IH].
  Qed.

  Lemma keepsN_zset_store inter g now dest keys : keeps K (zset_store inter g now dest keys).
  Proof.
    unfold zset_store. apply keeps_bind; [np|]. intros items.
    apply keeps_bind; [np|]. intros _. apply keeps_bind; [np|]. intros k.
    apply keeps_bind; [apply keepsN_zset_add_all|]. intros _. np.
  Qed.

  (* ---- every operation that deletes no key row ---- *)

  Lemma wrapped_keepsN {A} (m : M A) f d :
    keeps K m -> K d -> K (if is_err (snd (run m f d)) then d else fst (run m f d)).
  Proof.
    intros Hm Hd. destruct (is_err _); [exact Hd|]. rewrite run_fst. apply Hm; exact Hd.
  Qed.

  Lemma exec_db_keepsN now o d : deletes_keys o = false -> K d -> K (fst (exec_db now o d)).
  Proof.
    intros HD Hd.
    destruct (is_read o) eqn:R.
    { assert (W : wrapped o = false) by (destruct o; try discriminate R; reflexivity).
      rewrite exec_unwrapped_fst by exact W. rewrite read_no_trace by exact R. exact Hd. }
    pose proof (fun key field v => keepsN_hash_set_raw now key field v) as Hraw.
    destruct o; try discriminate R; try discriminate HD;
      first [ rewrite exec_unwrapped_fst by reflexivity; cbn [exec_tx]; rewrite run_fst
            | rewrite exec_wrapped_fst by reflexivity; cbn [exec_tx];
              first [ apply wrapped_keepsN; [|exact Hd]
                    | match goal with |- K (if ?c then _ else _) => destruct c; [exact Hd|] end ] ].
    all: try (solve [ auto with ndb ]).
    all: first
      [ apply keepsN_key_expire_at | apply keepsN_key_persist
      | apply keepsN_str_incr | apply keepsN_str_incr_float
      | apply keepsN_str_set_many | apply N_str_set_with | apply keepsN_list_delete
      | apply keepsN_list_delete_n | apply N_list_insert | apply N_list_pop_push
      | apply keepsN_list_set | apply keepsN_list_trim | apply keepsN_set_add | apply keepsN_set_store
      | apply keepsN_set_move | apply keepsN_hash_delete
      | apply (HO_incr K now Hraw) | apply (HO_incr_float K now Hraw)
      | apply (HO_set K now Hraw) | apply (HO_set_many K now Hraw) | apply (HO_set_nx K now Hraw)
      | apply keepsN_zset_add | apply keepsN_zset_add_many
      | apply keepsN_zset_delete_rank | apply keepsN_zset_delete_score | apply keepsN_zset_incr
      | apply keepsN_zset_store ]; assumption.
  Qed.
End NameSweep.


(* The sweep, stated without the auxiliary predicate: an operation that deletes
   no key row leaves the (id, name) table of rkey as it was and may only append
   to it.  In particular the stores (EStore, ZStore), every write to a key whose
   row is stored but EXPIRED (the rkey_on_insert trigger resets that row in
   place; the upsert then merges into it) and the list / set / hash / zset
   writes never re-create a key row. *)
Theorem exec_db_names_prefix : forall now o d,
  NoDup (map k_id (rkey d)) -> deletes_keys o = false ->
  exists extra, map idn (rkey (fst (exec_db now o d))) = map idn (rkey d) ++ extra.
Proof.
  intros now o d ND HD.
  apply (exec_db_keepsN (rkey d) now o d HD). split; [exact ND|].
  exists []. rewrite app_nil_r. reflexivity.
Qed.

(* ================================================================== *)
(* Part B: the id of a key is stable                                   *)
(* ================================================================== *)

(* a key named [n] is stored with id [i] (whether live or expired) *)
Definition key_stored (d : db) (n : bytes) (i : Z) : Prop :=
  exists k, In k (rkey d) /\ k_key k = n /\ k_id k = i.
(* a live key named [n] is stored (of any type) / with id [i] *)
Definition live_named (now : Z) (d : db) (n : bytes) : Prop :=
  exists k, In k (rkey d) /\ k_key k = n /\ live now k = true.
Definition live_named_id (now : Z) (d : db) (n : bytes) (i : Z) : Prop :=
  exists k, In k (rkey d) /\ k_key k = n /\ k_id k = i /\ live now k = true.

(* [a] is renamed to the different name [b] = [n]: "update or replace" deletes
   the row that holds [n] and gives the name to the row of [a] *)
Definition renames_onto (n a b : bytes) : bool := String.eqb b n && negb (String.eqb a b).

(* for a key that is LIVE: only Rename onto its name is excluded (RenameNX
   refuses when the new name is live) *)
Definition safe_for_key (n : bytes) (o : op) : bool :=
  match o with
  | KRename a b => negb (renames_onto n a b)
  | _ => true
  end.
(* for a key that is stored, live or not: RenameNX onto its name is excluded as
   well (it only looks for a LIVE holder of the new name) *)
Definition safe_for_row (n : bytes) (o : op) : bool :=
  match o with
  | KRename a b | KRenameNX a b => negb (renames_onto n a b)
  | _ => true
  end.

Lemma Inv_names d : Inv d -> NoDup (map k_key (rkey d)).
Proof. intros I. apply Inv_iff in I. exact (a_names _ _ _ (i_a _ _ I)). Qed.

Lemma delete_keys_sub p d r : In r (rkey (fst (delete_keys p d))) -> In r (rkey d).
Proof.
  unfold delete_keys. cbv zeta. cbn [fst].
  destruct (fk_on d); cbn [rkey set_rkey]; intros H; apply filter_In in H; tauto.
Qed.

Lemma key_delete_sub now keys d r : In r (rkey (fst (key_delete now keys d))) -> In r (rkey d).
Proof.
  unfold key_delete.
  match goal with |- context [delete_keys ?p d] => destruct (delete_keys p d) as [d' c] eqn:E end.
  cbn [fst]. rewrite (fst_pair_eq3 _ _ _ E). apply delete_keys_sub.
Qed.

Lemma key_delete_all_sub b d r : In r (rkey (fst (key_delete_all b d))) -> In r (rkey d).
Proof.
  unfold key_delete_all.
  match goal with |- context [delete_keys ?p d] => destruct (delete_keys p d) as [d' c] eqn:E end.
  rewrite (fst_pair_eq3 _ _ _ E). destruct b; cbn [fst]; apply delete_keys_sub.
Qed.

Lemma key_delete_expired_sub now n d r :
  In r (rkey (fst (key_delete_expired now n d))) -> In r (rkey d).
Proof.
  unfold key_delete_expired. destruct (0 <? n);
  match goal with |- context [delete_keys ?p d] => destruct (delete_keys p d) as [d' c] eqn:E end;
  cbn [fst]; rewrite (fst_pair_eq3 _ _ _ E); apply delete_keys_sub.
Qed.

(* after a rename to [b], every row that is not named [b] is a row of before *)
Definition OldRows (d0 : db) (b : bytes) (d : db) : Prop :=
  forall r, In r (rkey d) -> k_key r <> b -> In r (rkey d0).

Lemma OldRows_sql_rename d0 now a b : keeps (OldRows d0 b) (sql_rename now a b).
Proof.
  intros d Hd. unfold sql_rename. destruct (live_any now d a) as [old|]; [|exact Hd].
  match goal with |- context [delete_keys ?p d] => destruct (delete_keys p d) as [d1 c] eqn:E end.
  cbn [fst]. apply fst_pair_eq3 in E. intros r Hr Hn.
  unfold upd_key_id, upd_keys in Hr. cbn [rkey set_rkey] in Hr.
  apply in_map_iff in Hr as [x [Ex Hx]].
  destruct (k_id x =? k_id old).
  - exfalso. apply Hn. rewrite <- Ex. reflexivity.
  - subst r. apply Hd; [|exact Hn]. rewrite E in Hx. eapply delete_keys_sub; exact Hx.
Qed.

Lemma OldRows_key_rename d0 now a b : keeps (OldRows d0 b) (key_rename now a b).
Proof. pose proof (OldRows_sql_rename d0 now a b) as Hs. kq. Qed.
Lemma OldRows_key_rename_nx d0 now a b : keeps (OldRows d0 b) (key_rename_nx now a b).
Proof. pose proof (OldRows_sql_rename d0 now a b) as Hs. kq. Qed.

Lemma key_rename_same now a d : fst (key_rename now a a d) = d.
Proof.
  unfold key_rename, bind, key_get. destruct (live_any now d a) as [k|]; [|reflexivity].
  destruct (negb (key_struct_exists k)); [reflexivity|]. rewrite String.eqb_refl. reflexivity.
Qed.

Lemma key_rename_nx_same now a d : fst (key_rename_nx now a a d) = d.
Proof.
  unfold key_rename_nx, bind, key_get. destruct (live_any now d a) as [k|]; [|reflexivity].
  destruct (negb (key_struct_exists k)); [reflexivity|]. rewrite String.eqb_refl. reflexivity.
Qed.

(* RenameNX refuses when the new name is held by a live key *)
Lemma key_rename_nx_live now a b d : live_named now d b -> fst (key_rename_nx now a b d) = d.
Proof.
  intros [k [Hk [Hn Hl]]].
  assert (Hc : 0 <? count_keys (fun r => key_in [b] r && live now r) d = true).
  { unfold count_keys, zlen.
    assert (Hin : In k (filter (fun r => key_in [b] r && live now r) (rkey d))).
    { apply filter_In. split; [exact Hk|]. unfold key_in, str_in. cbn [existsb].
      rewrite Hn, String.eqb_refl, Hl. reflexivity. }
    destruct (filter _ (rkey d)) as [|x l]; [destruct Hin|]. cbn [List.length]. lia. }
  unfold key_rename_nx, bind, key_get. destruct (live_any now d a) as [ka|]; [|reflexivity].
  destruct (negb (key_struct_exists ka)); [reflexivity|].
  destruct (String.eqb a b); [reflexivity|].
  unfold key_exists, key_count, bind, lift_read, ret. rewrite Hc. reflexivity.
Qed.

Lemma exec_db_wrapped_run {A} (P : db -> Prop) now o (m : M A) f d :
  wrapped o = true -> exec_tx true now o = run m f -> keeps P m -> P d -> P (fst (exec_db now o d)).
Proof.
  intros W E Hm Hd. rewrite exec_wrapped_fst by exact W. rewrite E.
  destruct (is_err _); [exact Hd|]. rewrite run_fst. apply Hm. exact Hd.
Qed.

Lemma exec_db_wrapped_id {A} now o (m : M A) f d :
  wrapped o = true -> exec_tx true now o = run m f -> fst (m d) = d -> fst (exec_db now o d) = d.
Proof.
  intros W E Hm. rewrite exec_wrapped_fst by exact W. rewrite E.
  destruct (is_err _); [reflexivity|]. rewrite run_fst. exact Hm.
Qed.

(* The general form.  [d] may hold the key expired; the conclusion is about
   every row named [n] afterwards (there is at most one), live or not. *)
Theorem key_row_id_stable : forall now o d n i,
  Inv d -> safe_for_row n o = true -> key_stored d n i ->
  forall k', In k' (rkey (fst (exec_db now o d))) -> k_key k' = n -> k_id k' = i.
Proof.
  intros now o d n i I Hs [k [Hk [Hn Hi]]] k' Hk' Hn'.
  pose proof (Inv_names d I) as NDn.
  (* a row named [n] that was already there is the row [k] *)
  assert (Hold : In k' (rkey d) -> k_id k' = i).
  { intros Hin. rewrite (NoDup_map_inj k_key (rkey d) k' k NDn Hin Hk) by congruence. exact Hi. }
  destruct (deletes_keys o) eqn:HD.
  - destruct o; try discriminate HD; apply Hold.
    + (* KDelete *)
      rewrite exec_unwrapped_fst in Hk' by reflexivity. cbn [exec_tx] in Hk'. rewrite run_fst in Hk'.
      eapply key_delete_sub; exact Hk'.
    + rewrite exec_unwrapped_fst in Hk' by reflexivity. cbn [exec_tx] in Hk'. rewrite run_fst in Hk'.
      eapply key_delete_all_sub; exact Hk'.
    + rewrite exec_unwrapped_fst in Hk' by reflexivity. cbn [exec_tx] in Hk'. rewrite run_fst in Hk'.
      eapply key_delete_expired_sub; exact Hk'.
    + (* KRename key newkey *)
      cbn [safe_for_row] in Hs. unfold renames_onto in Hs.
      destruct (String.eqb_spec key newkey) as [E|E].
      * subst newkey.
        rewrite (exec_db_wrapped_id now (KRename key key) (key_rename now key key) unit_rv d
                   eq_refl eq_refl (key_rename_same now key d)) in Hk'. exact Hk'.
      * destruct (String.eqb_spec newkey n) as [E'|E']; [discriminate Hs|].
        apply (exec_db_wrapped_run (OldRows d newkey) now (KRename key newkey) (key_rename now key newkey)
                 unit_rv d eq_refl eq_refl (OldRows_key_rename d now key newkey)); auto.
        { intros r Hr _. exact Hr. }
        congruence.
    + (* KRenameNX key newkey *)
      cbn [safe_for_row] in Hs. unfold renames_onto in Hs.
      destruct (String.eqb_spec key newkey) as [E|E].
      * subst newkey.
        rewrite (exec_db_wrapped_id now (KRenameNX key key) (key_rename_nx now key key) VB d
                   eq_refl eq_refl (key_rename_nx_same now key d)) in Hk'. exact Hk'.
      * destruct (String.eqb_spec newkey n) as [E'|E']; [discriminate Hs|].
        apply (exec_db_wrapped_run (OldRows d newkey) now (KRenameNX key newkey) (key_rename_nx now key newkey)
                 VB d eq_refl eq_refl (OldRows_key_rename_nx d now key newkey)); auto.
        { intros r Hr _. exact Hr. }
        congruence.
  - (* no key row is deleted: the row [k] is still there under its id and name *)
    destruct (exec_db_names_prefix now o d (Inv_ids d I) HD) as [extra HE].
    assert (Hin : In (idn k) (map idn (rkey (fst (exec_db now o d))))).
    { rewrite HE. apply in_or_app. left. apply in_map. exact Hk. }
    apply in_map_iff in Hin as [k2 [E2 Hk2]]. unfold idn in E2. injection E2 as Ei En.
    pose proof (Inv_names _ (C11_inv_preserved now o d I)) as NDn'.
    rewrite (NoDup_map_inj k_key _ k' k2 NDn' Hk' Hk2) by congruence. congruence.
Qed.

(* For a key that is live before the operation only Rename onto its name has
   to be excluded. *)
Theorem key_id_stable_strong : forall now o d n i,
  Inv d -> safe_for_key n o = true -> live_named_id now d n i ->
  forall k', In k' (rkey (fst (exec_db now o d))) -> k_key k' = n -> k_id k' = i.
Proof.
  intros now o d n i I Hs [k [Hk [Hn [Hi Hl]]]] k' Hk' Hn'.
  assert (St : key_stored d n i) by (exists k; auto).
  destruct (safe_for_row n o) eqn:Hr; [eapply key_row_id_stable; eauto|].
  destruct o; try discriminate Hr; [cbn [safe_for_key safe_for_row] in Hs, Hr; congruence|].
  (* KRenameNX key n with n live: refused, nothing changes *)
  cbn [safe_for_row] in Hr. unfold renames_onto in Hr.
  destruct (String.eqb_spec newkey n) as [E|E]; [|discriminate Hr]. subst newkey.
  rewrite (exec_db_wrapped_id now (KRenameNX key n) (key_rename_nx now key n) VB d eq_refl eq_refl) in Hk'.
  - rewrite (NoDup_map_inj k_key (rkey d) k' k (Inv_names d I) Hk' Hk) by congruence. exact Hi.
  - apply key_rename_nx_live. exists k. auto.
Qed.

(* The statement in the form the iteration theorem needs it. *)
Theorem key_id_stable : forall now o d n i,
  Inv d -> ids_ascending d = true -> safe_for_key n o = true ->
  live_named_id now d n i ->
  live_named now (fst (exec_db now o d)) n ->
  live_named_id now (fst (exec_db now o d)) n i.
Proof.
  intros now o d n i I _ Hs Hd [k' [Hk' [Hn' Hl']]].
  exists k'. repeat split; auto. eapply key_id_stable_strong; eauto.
Qed.

(* the same through the lookups of the model *)
Corollary key_id_stable_live_any : forall now o d n k k',
  Inv d -> safe_for_key n o = true ->
  live_any now d n = Some k -> live_any now (fst (exec_db now o d)) n = Some k' -> k_id k' = k_id k.
Proof.
  intros now o d n k k' I Hs L L'.
  apply live_any_some in L as [Hk [Hn Hl]]. apply live_any_some in L' as [Hk' [Hn' _]].
  eapply key_id_stable_strong; eauto. exists k. auto.
Qed.

Corollary key_id_stable_live_key : forall now o d n T k k',
  Inv d -> safe_for_key n o = true ->
  live_key now d n T = Some k -> live_key now (fst (exec_db now o d)) n T = Some k' -> k_id k' = k_id k.
Proof.
  intros now o d n T k k' I Hs L L'.
  apply live_key_some in L as [Hk [Hn [_ Hl]]]. apply live_key_some in L' as [Hk' [Hn' _]].
  eapply key_id_stable_strong; eauto. exists k. auto.
Qed.

(* ---------- the exclusions are necessary ---------- *)

(* two string keys: "a" has id 1, "n" has id 2 *)
Definition cex_keys_db : db :=
  fst (run_impl [(0, SSet "a" (AStr "1")); (0, SSet "n" (AStr "2"))] empty_db).
(* the same with "n" expired at time 5 (its row stays in rkey) *)
Definition cex_keys_expired_db : db :=
  fst (run_impl [(0, SSet "a" (AStr "1")); (0, SSet "n" (AStr "2")); (0, KExpireAt "n" 5)] empty_db).

Lemma cex_keys_db_inv : Inv cex_keys_db /\ ids_ascending cex_keys_db = true.
Proof. split; [split|]; vm_compute; reflexivity. Qed.
Lemma cex_keys_expired_db_inv : Inv cex_keys_expired_db /\ ids_ascending cex_keys_expired_db = true.
Proof. split; [split|]; vm_compute; reflexivity. Qed.

(* Rename "a" -> "n" while "n" is live: the key "n" is live before and after,
   its id changes from 2 to 1 (the row of "n" is deleted, the row of "a" takes
   the name). *)
Example KRename_refuted :
  safe_for_key "n" (KRename "a" "n") = false /\
  option_map k_id (live_any 0 cex_keys_db "n") = Some 2 /\
  option_map k_id (live_any 0 (fst (exec_db 0 (KRename "a" "n") cex_keys_db)) "n") = Some 1 /\
  map idn (rkey (fst (exec_db 0 (KRename "a" "n") cex_keys_db))) = [(1, "n")].
Proof. repeat split; vm_compute; reflexivity. Qed.

(* hence key_id_stable is false without its [safe_for_key] premise *)
Example key_id_stable_unrestricted_refuted :
  ~ (forall now o d n i, Inv d -> ids_ascending d = true ->
       live_named_id now d n i -> live_named now (fst (exec_db now o d)) n ->
       live_named_id now (fst (exec_db now o d)) n i).
Proof.
  intros H. destruct cex_keys_db_inv as [I A].
  specialize (H 0 (KRename "a" "n") cex_keys_db "n" 2 I A).
  destruct H as [k [Hk [_ [Hi _]]]].
  - exists (mkKey 2 "n" 1 1 None 0 None). vm_compute. intuition.
  - exists (mkKey 1 "n" 1 2 None 0 None). vm_compute. intuition.
  - vm_compute in Hk. destruct Hk as [<-|[]]. discriminate Hi.
Qed.

(* RenameNX "a" -> "n" while "n" is stored but EXPIRED (now = 10): it only
   looks for a live holder of the new name, finds none and replaces the row.
   So "live before" cannot be weakened to "stored before" in key_id_stable, and
   key_row_id_stable has to exclude RenameNX as well ... *)
Example KRenameNX_expired_refuted :
  safe_for_row "n" (KRenameNX "a" "n") = false /\
  option_map k_id (find_key cex_keys_expired_db "n") = Some 2 /\
  option_map k_id (live_any 10 cex_keys_expired_db "n") = None /\
  option_map k_id (live_any 10 (fst (exec_db 10 (KRenameNX "a" "n") cex_keys_expired_db)) "n") = Some 1.
Proof. repeat split; vm_compute; reflexivity. Qed.

(* ... and Rename, which does the same *)
Example KRename_expired_refuted :
  safe_for_row "n" (KRename "a" "n") = false /\
  option_map k_id (find_key cex_keys_expired_db "n") = Some 2 /\
  option_map k_id (live_any 10 (fst (exec_db 10 (KRename "a" "n") cex_keys_expired_db)) "n") = Some 1.
Proof. repeat split; vm_compute; reflexivity. Qed.

Example key_row_id_stable_unrestricted_refuted :
  ~ (forall now o d n i, Inv d -> safe_for_key n o = true -> key_stored d n i ->
       forall k', In k' (rkey (fst (exec_db now o d))) -> k_key k' = n -> k_id k' = i).
Proof.
  intros H. destruct cex_keys_expired_db_inv as [I _].
  specialize (H 10 (KRenameNX "a" "n") cex_keys_expired_db "n" 2 I eq_refl).
  assert (E : 1 = 2); [|discriminate E].
  apply (H ltac:(exists (mkKey 2 "n" 1 2 (Some 5) 0 None); vm_compute; intuition)
           (mkKey 1 "n" 1 2 None 10 None)); vm_compute; intuition.
Qed.

(* RenameNX onto a LIVE name is refused (so it is not excluded by safe_for_key) *)
Example KRenameNX_live_refused :
  fst (exec_db 0 (KRenameNX "a" "n") cex_keys_db) = cex_keys_db.
Proof. vm_compute. reflexivity. Qed.

(* What is NOT excluded, on the same databases: a write to the expired key
   re-creates it as a new key (version restarts, type may change) but in the
   SAME row; deleting other keys, and a delete of the key itself (it is then
   simply absent), are harmless. *)
Example write_to_expired_in_place :
  map idn (rkey (fst (exec_db 10 (SSet "n" (AStr "3")) cex_keys_expired_db))) = [(1, "a"); (2, "n")] /\
  map idn (rkey (fst (exec_db 10 (EAdd "n" [AStr "x"]) cex_keys_expired_db))) = [(1, "a"); (2, "n")] /\
  option_map k_type (live_any 10 (fst (exec_db 10 (EAdd "n" [AStr "x"]) cex_keys_expired_db)) "n") = Some 3.
Proof. repeat split; vm_compute; reflexivity. Qed.

(* Across TWO steps an id can come back: ids are max+1 over the current table,
   so deleting the newest key and creating another one reuses its id -- for a
   different name.  (Not a counter-example to anything here: the key is absent
   in between.) *)
Example key_id_reused_after_delete :
  map idn (rkey (fst (run_impl [(0, KDelete ["n"]); (0, SSet "m" (AStr "3"))] cex_keys_db)))
  = [(1, "a"); (2, "m")].
Proof. vm_compute. reflexivity. Qed.

(* ================================================================== *)
(* Part C: the keyspace iteration                                      *)
(* ================================================================== *)

(* every operation of the other clients is safe for the key [n] *)
Definition safe_steps_for_key (n : bytes) (steps : list (option op)) : Prop :=
  safe_steps (safe_for_key n) steps.

(* the key [name] exists, is live and passes the filters of the scan (under
   whatever id) *)
Definition key_matching (now : Z) (pat : bytes) (ktype : Z) (name : bytes) (d : db) : Prop :=
  exists k, In k (rkey d) /\ k_key k = name /\ key_matches now pat ktype k = true.

Lemma key_matches_live now pat ktype k : key_matches now pat ktype k = true -> live now k = true.
Proof. unfold key_matches. intros H. apply andb_true_iff in H. tauto. Qed.

Lemma key_present_matching now pat ktype name kid d :
  key_present now pat ktype name kid d -> key_matching now pat ktype name d.
Proof. intros [k [Hk [_ [Hn Hm]]]]. exists k. auto. Qed.

(* the id found in the first state is the id in every state of the run *)
Lemma key_stable_run now pat ktype name kid : forall steps d,
  Inv d -> safe_steps_for_key name steps ->
  Forall (key_matching now pat ktype name) (run_dbs now steps d) ->
  key_present now pat ktype name kid d ->
  Forall (key_present now pat ktype name kid) (run_dbs now steps d).
Proof.
  induction steps as [|[o|] rest IH]; intros d I Hs Hm Hp; cbn [run_dbs] in *.
  - constructor; [exact Hp | constructor].
  - inversion Hm as [|? ? Hm0 Hm1]; subst. inversion Hs as [|? ? Hs0 Hs1]; subst.
    constructor; [exact Hp|].
    apply IH; auto.
    + apply C11_inv_preserved; exact I.
    + assert (Hm1' : key_matching now pat ktype name (fst (exec_db now o d))).
      { destruct (run_dbs_head now rest (fst (exec_db now o d))) as [tl Htl].
        rewrite Htl in Hm1. inversion Hm1; assumption. }
      destruct Hm1' as [k' [Hk' [Hn' Hmt']]].
      exists k'. split; [exact Hk'|]. split; [|split; [exact Hn' | exact Hmt']].
      destruct Hp as [k [Hk [Hi [Hn Hmt]]]].
      eapply key_id_stable_strong; eauto.
      exists k. repeat split; auto. eapply key_matches_live; exact Hmt.
  - inversion Hm as [|? ? Hm0 Hm1]; subst. inversion Hs as [|? ? Hs0 Hs1]; subst.
    constructor; [exact Hp|]. apply IH; auto.
Qed.

(* The iteration theorem with the "same id" premise discharged: the key has to
   be there (live, matching) in every state of the run, the other clients may
   do everything except rename another key onto its name, and the scan then
   returns it exactly once. *)
Theorem C16_key_present_throughout_exactly_once_ids : forall now pat ktype count steps d name kid,
  Inv d -> ids_ascending d = true ->
  safe_steps_for_key name steps ->
  Forall (key_matching now pat ktype name) (run_dbs now steps d) ->
  key_present now pat ktype name kid d ->
  snd (key_iter_with now pat ktype count steps d 0) = true ->
  List.length (filter (fun k => String.eqb (k_key k) name)
                      (fst (key_iter_with now pat ktype count steps d 0))) = 1%nat.
Proof.
  intros now pat ktype count steps d name kid I H Hs Hm Hp Hfin.
  apply (C16_key_present_throughout_exactly_once now pat ktype count steps d name kid I H); [|exact Hfin].
  pose proof (key_stable_run now pat ktype name kid steps d I Hs Hm Hp) as Hall.
  rewrite Forall_forall in Hall |- *. intros D HD. apply Hall, page_dbs_incl, HD.
Qed.

(* the id need not be mentioned at all *)
Corollary C16_key_matching_throughout_exactly_once : forall now pat ktype count steps d name,
  Inv d -> ids_ascending d = true ->
  safe_steps_for_key name steps ->
  Forall (key_matching now pat ktype name) (run_dbs now steps d) ->
  snd (key_iter_with now pat ktype count steps d 0) = true ->
  List.length (filter (fun k => String.eqb (k_key k) name)
                      (fst (key_iter_with now pat ktype count steps d 0))) = 1%nat.
Proof.
  intros now pat ktype count steps d name I H Hs Hm Hfin.
  destruct (run_dbs_head now steps d) as [tl Htl].
  assert (Hm0 : key_matching now pat ktype name d) by (rewrite Htl in Hm; inversion Hm; assumption).
  destruct Hm0 as [k [Hk [Hn Hmt]]].
  apply (C16_key_present_throughout_exactly_once_ids now pat ktype count steps d name (k_id k)); auto.
  exists k. auto.
Qed.

(* The exclusion is needed for the iteration itself, not only for the lemma:
   "n" is live and matching in every state of this run, yet the scan returns
   it twice -- Rename "a" -> "n" moves the name to a row ... *)
Definition cex_rename_db : db :=
  fst (run_impl [(0, SSet "n" (AStr "1")); (0, SSet "a" (AStr "2"))] empty_db).
Example cex_rename_onto_during_iteration :
  map k_key (fst (key_iter_with 0 "*" 0 1 [None; Some (KRename "a" "n"); None; None] cex_rename_db 0))
  = ["n"; "n"] /\
  snd (key_iter_with 0 "*" 0 1 [None; Some (KRename "a" "n"); None; None] cex_rename_db 0) = true /\
  map (fun D => map idn (rkey D)) (run_dbs 0 [None; Some (KRename "a" "n"); None; None] cex_rename_db)
  = [[(1, "n"); (2, "a")]; [(1, "n"); (2, "a")]; [(2, "n")]; [(2, "n")]; [(2, "n")]].
Proof. repeat split; vm_compute; reflexivity. Qed.
(* ... and with the ids the other way round it is never returned: *)
Example cex_rename_onto_during_iteration_missed :
  map k_key (fst (key_iter_with 0 "*" 0 1 [None; Some (KRename "a" "n"); None] cex_keys_db 0))
  = ["a"] /\
  snd (key_iter_with 0 "*" 0 1 [None; Some (KRename "a" "n"); None] cex_keys_db 0) = true.
Proof. repeat split; vm_compute; reflexivity. Qed.

(* ================================================================== *)
(* Part D: the premises can be met                                     *)
(* ================================================================== *)

Definition key_matching_b (now : Z) (pat : bytes) (ktype : Z) (name : bytes) (d : db) : bool :=
  existsb (fun k => String.eqb (k_key k) name && key_matches now pat ktype k) (rkey d).
Definition key_present_b (now : Z) (pat : bytes) (ktype : Z) (name : bytes) (kid : Z) (d : db) : bool :=
  existsb (fun k => (k_id k =? kid) && String.eqb (k_key k) name && key_matches now pat ktype k) (rkey d).

Lemma key_matching_b_ok now pat ktype name d :
  key_matching_b now pat ktype name d = true -> key_matching now pat ktype name d.
Proof.
  unfold key_matching_b. intros H. apply existsb_exists in H as [k [Hk Hc]].
  apply andb_true_iff in Hc as [Hn Hm]. apply String.eqb_eq in Hn. exists k. auto.
Qed.

Lemma key_present_b_ok now pat ktype name kid d :
  key_present_b now pat ktype name kid d = true -> key_present now pat ktype name kid d.
Proof.
  unfold key_present_b. intros H. apply existsb_exists in H as [k [Hk Hc]].
  apply andb_true_iff in Hc as [Hc Hm]. apply andb_true_iff in Hc as [Hi Hn].
  apply String.eqb_eq in Hn. apply Z.eqb_eq in Hi. exists k. auto.
Qed.

Lemma key_matching_all_b now pat ktype name l :
  forallb (key_matching_b now pat ktype name) l = true -> Forall (key_matching now pat ktype name) l.
Proof.
  intros H. apply Forall_forall. intros D HD. apply key_matching_b_ok.
  exact (proj1 (forallb_forall _ _) H D HD).
Qed.

(* a reachable database: x = 1 (string), h = 2 (hash), name = 3 (string), s = 4 (set) *)
Definition ex_db : db :=
  fst (run_impl [(0, SSet "x" (AStr "1")); (0, HSet "h" "f" (AStr "1"));
                 (0, SSet "name" (AStr "v1")); (0, EAdd "s" [AStr "e"])] empty_db).

(* one key per page; in between the other clients overwrite the iterated key
   (before and after the scan has reached it), change its expiry, delete and
   re-create ANOTHER key (it comes back with a new id), store into another key,
   write a hash, rename another key -- not onto "name" *)
Definition ex_steps : list (option op) :=
  [ None;                                        (* page: x *)
    Some (SSet "name" (AStr "v2"));
    Some (KDelete ["x"]);
    Some (SSet "x" (AStr "2"));                  (* x is back, with id 5 *)
    None;                                        (* page: h *)
    Some (HSet "h" "g" (AStr "2"));
    Some (EStore AUnion "dst" ["s"]);            (* creates dst = 6 *)
    Some (KExpire "name" 1000);
    None;                                        (* page: name *)
    Some (SSet "name" (AStr "v3"));
    Some (KRename "x" "y");
    Some (KDeleteExpired 0);
    None; None; None; None ].                    (* pages: s, y, dst, and the empty one *)

Example ex_run_shape :
  map idn (rkey ex_db) = [(1, "x"); (2, "h"); (3, "name"); (4, "s")] /\
  map k_key (fst (key_iter_with 0 "*" 0 1 ex_steps ex_db 0)) = ["x"; "h"; "name"; "s"; "y"; "dst"] /\
  map k_id (fst (key_iter_with 0 "*" 0 1 ex_steps ex_db 0)) = [1; 2; 3; 4; 5; 6].
Proof. repeat split; vm_compute; reflexivity. Qed.

Example ex_name_exactly_once :
  List.length (filter (fun k => String.eqb (k_key k) "name")
                      (fst (key_iter_with 0 "*" 0 1 ex_steps ex_db 0))) = 1%nat.
Proof.
  apply (C16_key_present_throughout_exactly_once_ids 0 "*" 0 1 ex_steps ex_db "name" 3).
  - split; vm_compute; reflexivity.
  - vm_compute. reflexivity.
  - unfold safe_steps_for_key, safe_steps, ex_steps. repeat constructor.
  - apply key_matching_all_b. vm_compute. reflexivity.
  - apply key_present_b_ok. vm_compute. reflexivity.
  - vm_compute. reflexivity.
Qed.

(* the same for a hash key, scanned with the type filter, while its fields are
   written and deleted (HSet on the iterated key; HDelete leaves one field) *)
Definition ex_steps_hash : list (option op) :=
  [ Some (HSet "h" "g" (AStr "2"));
    None;
    Some (HSet "h" "f" (AStr "3"));
    Some (HDelete "h" ["g"]);
    Some (KDelete ["name"; "s"]);
    Some (HSetNX "h2" "f" (AStr "1"));           (* another hash appears: id 5 *)
    None; None; None ].

Example ex_hash_exactly_once :
  map k_key (fst (key_iter_with 0 "*" T_HASH 1 ex_steps_hash ex_db 0)) = ["h"; "h2"] /\
  List.length (filter (fun k => String.eqb (k_key k) "h")
                      (fst (key_iter_with 0 "*" T_HASH 1 ex_steps_hash ex_db 0))) = 1%nat.
Proof.
  split; [vm_compute; reflexivity|].
  apply (C16_key_matching_throughout_exactly_once 0 "*" T_HASH 1 ex_steps_hash ex_db "h").
  - split; vm_compute; reflexivity.
  - vm_compute. reflexivity.
  - unfold safe_steps_for_key, safe_steps, ex_steps_hash. repeat constructor.
  - apply key_matching_all_b. vm_compute. reflexivity.
  - vm_compute. reflexivity.
Qed.

Print Assumptions exec_db_names_prefix.
Print Assumptions key_row_id_stable.
Print Assumptions key_id_stable_strong.
Print Assumptions key_id_stable.
Print Assumptions C16_key_present_throughout_exactly_once_ids.
Print Assumptions C16_key_matching_throughout_exactly_once.
Print Assumptions KRename_refuted.
Print Assumptions KRenameNX_expired_refuted.
Print Assumptions ex_name_exactly_once.
