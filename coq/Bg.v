(* Bg.v — the background cleaner (property C20).  redka starts a goroutine
   that, on every tick of a timer, calls Key.DeleteExpired(0) on the read-write
   handle: "delete from rkey where etime <= now", with the foreign keys
   cascading to the five element tables.  The tick is ONE DB-level statement,
   so in the interleaving model of Lin.v it is one atomic effect like any other
   call.  Definitions only; the theorems are in ProofBg.v.

   Not modelled: the timer itself (that a tick does occur at least every T is
   an assumption about the Go runtime), and the goroutine's error handling. *)
From Redka Require Import Base Db ImplKey.

Definition tick (now : Z) (d : db) : db := fst (key_delete_expired now 0 d).

(* the number of keys a tick reports as removed *)
Definition tick_count (now : Z) (d : db) : res Z := snd (key_delete_expired now 0 d).

(* a run of the cleaner alone: ticks at the given times, in order *)
Definition ticks (times : list Z) (d : db) : db :=
  fold_left (fun acc t => tick t acc) times d.
