(* Glob.v — SQLite's GLOB operator (func.c: patternCompare with
   matchAll = star, matchOne = question mark, matchSet = left bracket, case-sensitive, no escape), as used
   by the five pattern-taking statements.  Semantics, not control flow:
   both operands are cut at the first NUL, decoded with a port of
   sqlite3Utf8Read, the pattern is tokenised, and matching is ordinary
   backtracking.  No proofs here. *)
From Redka Require Import Base.
From Coq Require Import NArith.
Local Open Scope N_scope.

Definition byte_of (c : ascii) : N := N_of_ascii c.

(* bytes of a C string: everything before the first NUL *)
Fixpoint cstring (s : string) : list N :=
  match s with
  | EmptyString => []
  | String c r => if byte_of c =? 0 then [] else byte_of c :: cstring r
  end.

Definition is_cont (b : N) : bool := (128 <=? b) && (b <=? 191).

(* sqlite3Utf8Trans1[b - 0xC0] *)
Definition utf8_trans1 (b : N) : N :=
  if b <? 224 then b - 192
  else if b <? 240 then b - 224
  else if b <? 248 then b - 240
  else if b <? 252 then b - 248
  else if b <? 254 then b - 252
  else 0.

Definition u32 (n : N) : N := n mod 4294967296.

(* absorb continuation bytes: c = (c<<6) + (0x3f & byte) while the next byte is 10xxxxxx *)
Fixpoint absorb (c : N) (l : list N) : N * list N :=
  match l with
  | b :: r => if is_cont b then absorb (u32 (c * 64 + (b mod 64))) r else (c, l)
  | [] => (c, [])
  end.

Definition fix_cp (c : N) : N :=
  if (c <? 128) || ((c / 2048) * 2048 =? 55296) || ((c / 2) * 2 =? 65534)
  then 65533 else c.

Fixpoint decode_fuel (fuel : nat) (l : list N) : list N :=
  match fuel with
  | O => []
  | S f =>
      match l with
      | [] => []
      | b :: r =>
          if b <? 192 then b :: decode_fuel f r
          else let '(c, r') := absorb (utf8_trans1 b) r in
               fix_cp c :: decode_fuel f r'
      end
  end.

Definition decode (s : string) : list N :=
  let l := cstring s in decode_fuel (List.length l) l.

(* ---------- pattern tokens ---------- *)

Inductive citem := CLit (c : N) | CRange (lo hi : N).
Inductive ptok :=
| PStar | POne | PLit (c : N)
| PSet (invert : bool) (items : list citem)
| PBad.   (* unterminated '[': never matches *)

Definition cSTAR := 42. Definition cQUEST := 63. Definition cLBR := 91.
Definition cRBR := 93. Definition cCARET := 94. Definition cDASH := 45.

(* the body of a bracket expression after the optional '^' and leading ']' *)
Fixpoint class_items (fuel : nat) (prior : N) (acc : list citem) (p : list N)
  : option (list citem * list N) :=
  match fuel with
  | O => None
  | S f =>
      match p with
      | [] => None
      | c2 :: r =>
          if c2 =? cRBR then Some (rev acc, r)
          else
            match r with
            | hi :: r' =>
                if (c2 =? cDASH) && negb (hi =? cRBR) && (0 <? prior)
                then class_items f 0 (CRange prior hi :: acc) r'
                else class_items f c2 (CLit c2 :: acc) r
            | [] => class_items f c2 (CLit c2 :: acc) r
            end
      end
  end.

Definition parse_class (p : list N) : option (bool * list citem * list N) :=
  let '(inv, p1) := match p with c :: r => if c =? cCARET then (true, r) else (false, p) | [] => (false, p) end in
  let '(acc, p2) := match p1 with c :: r => if c =? cRBR then ([CLit cRBR], r) else ([], p1) | [] => ([], p1) end in
  match class_items (S (List.length p2)) 0 acc p2 with
  | Some (items, rest) => Some (inv, items, rest)
  | None => None
  end.

Fixpoint tokenize (fuel : nat) (p : list N) : list ptok :=
  match fuel with
  | O => []
  | S f =>
      match p with
      | [] => []
      | c :: r =>
          if c =? cSTAR then PStar :: tokenize f r
          else if c =? cLBR then
                 match parse_class r with
                 | Some (inv, items, rest) => PSet inv items :: tokenize f rest
                 | None => [PBad]
                 end
          else if c =? cQUEST then POne :: tokenize f r
          else PLit c :: tokenize f r
      end
  end.

Definition item_match (c : N) (it : citem) : bool :=
  match it with
  | CLit x => c =? x
  | CRange lo hi => (lo <=? c) && (c <=? hi)
  end.

Fixpoint gmatch (p : list ptok) : list N -> bool :=
  match p with
  | [] => fun s => match s with [] => true | _ => false end
  | PStar :: p' =>
      fix try (s : list N) : bool :=
        gmatch p' s || match s with [] => false | _ :: s' => try s' end
  | POne :: p' => fun s => match s with _ :: s' => gmatch p' s' | [] => false end
  | PLit c :: p' => fun s => match s with x :: s' => (x =? c) && gmatch p' s' | [] => false end
  | PSet inv items :: p' =>
      fun s => match s with
               | x :: s' => xorb (existsb (item_match x) items) inv && gmatch p' s'
               | [] => false
               end
  | PBad :: _ => fun _ => false
  end.

Definition glob (pat s : string) : bool :=
  let p := decode pat in
  gmatch (tokenize (S (List.length p)) p) (decode s).
