(* ProofRefineAll.v — one history theorem over the operations of all five data types and the key
   operations: the step theorems of ProofRefineStr / Hash / Set / List / ZSet put together. *)
From Redka Require Import Base Db ImplZSet Ops Spec Abs Inv Refine ProofInv2 ProofRefineStr ProofRefineHash ProofRefineSet ProofRefineList ProofRefineZSet ProofRefineZAlg.
From Coq Require Import Floats Lia.
From Redka Require ProofFloat ProofFloatMid.

Definition linsert_op (o : op) : bool :=
  match o with LInsertAfter _ _ _ | LInsertBefore _ _ _ => true | _ => false end.
(* a pivot insert takes the midpoint of two neighbouring positions: all stored positions are at most
   2^1022 in magnitude (so that the sum of two is finite), and the midpoint was a new position *)
Definition wf_linsert (now : Z) (o : op) (d : db) : Prop :=
  linsert_op o = true ->
  (forall x, In x (rlist d) -> ProofFloatMid.small (l_pos x) = true) /\ insert_free now o d.

(* the operations that have a step theorem *)
Definition covered (o : op) : bool :=
  str_op o || key_op o || hash_op o || set_op o || list_op o || zset_op o || zalg_op o || linsert_op o.

(* the side conditions of the step theorems, at the state the operation runs in:
   arguments are Go values (ints in range, maps with distinct keys, scores that are numbers),
   a random choice made for SPOP/SRANDMEMBER is a member, a push did not collide at 2^53,
   rank lookups see number scores, rank deletion a table below 2^63 rows *)
Definition step_ok (now : Z) (o : op) (d : db) : Prop :=
  wf_op o /\ int_ok o /\ wf_hop o /\ legal_choice now d o /\ wf_lop o /\
  (is_push o = true -> push_free now o d) /\ wf_zop o /\ wf_zdb o d /\ wf_zalg o d /\ wf_linsert now o d.

(* ... holding at every state the implementation reaches along the history *)
Fixpoint side_ok (h : list (Z * op)) (d : db) : Prop :=
  match h with
  | [] => True
  | (t, o) :: r => covered o = true /\ step_ok t o d /\ side_ok r (fst (exec_db t o d))
  end.

Section FloatFacts.
  Hypothesis fle_refl : forall x, (x =? x)%float = true -> (x <=? x)%float = true.
  Hypothesis fle_trans : forall x y z, (x <=? y)%float = true -> (y <=? z)%float = true -> (x <=? z)%float = true.
  Hypothesis fle_total : forall x y, (x =? x)%float = true -> (y =? y)%float = true -> (x <=? y)%float = true \/ (y <=? x)%float = true.
  Hypothesis flt_le : forall x y, (x <? y)%float = true <-> ((x <=? y)%float = true /\ (y <=? x)%float = false).
  Hypothesis feq_le : forall x y, (x =? y)%float = true <-> ((x <=? y)%float = true /\ (y <=? x)%float = true).
  Hypothesis fle_num : forall x y, (x <=? y)%float = true -> (x =? x)%float = true /\ (y =? y)%float = true.
  Hypothesis fadd1_ge : forall x, (x =? x)%float = true -> (x <=? x + 1)%float = true.
  Hypothesis fsub1_le : forall x, (x =? x)%float = true -> (x - 1 <=? x)%float = true.
  Hypothesis fzero_num : (zero =? zero)%float = true.

  Theorem all_step_refines : forall now o d s,
    covered o = true -> step_ok now o d -> Inv d -> R now d s -> step_refines now o d s.
  Proof.
    intros now o d s Hc (W1 & W2 & W3 & W4 & W5 & W6 & W7 & W8 & W9 & W10) I HR.
    unfold covered in Hc.
    destruct (str_op o) eqn:E1; [apply C01_string_step_refines_partial; assumption|].
    destruct (key_op o) eqn:E2; [apply C06_key_step_refines; assumption|].
    destruct (hash_op o) eqn:E3; [apply C04_hash_step_refines; assumption|].
    destruct (set_op o) eqn:E4; [apply C03_set_step_refines; assumption|].
    destruct (list_op o) eqn:E5;
      [apply (C02_list_step_refines_partial fle_refl fle_trans fle_total flt_le feq_le fle_num fadd1_ge fsub1_le fzero_num); assumption|].
    destruct (zset_op o) eqn:E6; [apply C05_zset_step_refines_partial; assumption|].
    destruct (zalg_op o) eqn:E7; [apply C05_zalg_step_refines_partial; assumption|].
    destruct (linsert_op o) eqn:E8; [|discriminate Hc].
    { destruct (W10 E8) as [Hsm Hfree].
      apply (C02_linsert_step_refines_bounded fle_refl fle_trans fle_total flt_le feq_le fle_num fadd1_ge fsub1_le
               fzero_num ProofFloatMid.small ProofFloatMid.fmid_small); try assumption.
      destruct o; try discriminate E8; exact Logic.I. }
  Qed.

  (* whole histories over all six families: same outputs, and the abstraction relation at the end *)
  Theorem all_history_refines : forall h t0 d s,
    side_ok h d -> times_ok t0 h -> Inv d -> R t0 d s ->
    Forall2 (fun (po : (Z * op) * out) (so : out) => out_equiv (snd (fst po)) (snd po) so)
            (combine h (snd (run_impl h d))) (snd (run_spec h s))
    /\ (forall tl, (match rev h with (t, _) :: _ => t | [] => t0 end) = tl -> R tl (fst (run_impl h d)) (fst (run_spec h s)))
    /\ Inv (fst (run_impl h d)).
  Proof.
    induction h as [|[t o] h IH]; intros t0 d s Hs Ht I HR.
    - cbn. split; [constructor | split; [intros tl <-; exact HR | exact I]].
    - cbn [times_ok] in Ht. destruct Ht as [Hle Ht].
      cbn [side_ok] in Hs. destruct Hs as [Hc [Hk Hs]].
      assert (HR' : R t d s) by (eapply R_mono_partial; eauto).
      assert (ST : step_refines t o d s) by (apply all_step_refines; assumption).
      assert (I1 : Inv (fst (exec_db t o d))) by (apply C11_inv_preserved; exact I).
      unfold step_refines in ST. cbn [run_impl run_spec].
      destruct (exec_db t o d) as [d1 x]. destruct (spec_step t o s) as [s1 y].
      destruct ST as [OE HR1]. cbn [fst] in I1, Hs.
      specialize (IH t d1 s1 Hs Ht I1 HR1).
      destruct (run_impl h d1) as [d2 xs]. destruct (run_spec h s1) as [s2 ys].
      cbn [fst snd combine] in *. destruct IH as [F [Rl I2]]. split; [|split].
      + constructor; [exact OE | exact F].
      + intros tl Etl. apply Rl. rewrite <- Etl. cbn [rev].
        destruct (rev h) as [|[t' o'] r']; reflexivity.
      + exact I2.
  Qed.
End FloatFacts.

(* the nine order facts are theorems (ProofFloat.v: from the standard library's specification of
   primitive floats, Coq.Floats.FloatAxioms, and Flocq's rounding theory), so the premises go away *)
Theorem all_step_refines_closed : forall now o d s,
  covered o = true -> step_ok now o d -> Inv d -> R now d s -> step_refines now o d s.
Proof.
  exact (all_step_refines ProofFloat.fle_refl ProofFloat.fle_trans ProofFloat.fle_total ProofFloat.flt_le
           ProofFloat.feq_le ProofFloat.fle_num ProofFloat.fadd1_ge ProofFloat.fsub1_le ProofFloat.fzero_num).
Qed.

Theorem all_history_refines_closed : forall h t0 d s,
  side_ok h d -> times_ok t0 h -> Inv d -> R t0 d s ->
  Forall2 (fun (po : (Z * op) * out) (so : out) => out_equiv (snd (fst po)) (snd po) so)
          (combine h (snd (run_impl h d))) (snd (run_spec h s))
  /\ (forall tl, (match rev h with (t, _) :: _ => t | [] => t0 end) = tl -> R tl (fst (run_impl h d)) (fst (run_spec h s)))
  /\ Inv (fst (run_impl h d)).
Proof.
  exact (all_history_refines ProofFloat.fle_refl ProofFloat.fle_trans ProofFloat.fle_total ProofFloat.flt_le
           ProofFloat.feq_le ProofFloat.fle_num ProofFloat.fadd1_ge ProofFloat.fsub1_le ProofFloat.fzero_num).
Qed.

(* the premises are satisfiable on a history that touches every family *)
Definition demo_history : list (Z * op) :=
  [ (10, SSet "s" (AStr "v"));
    (11, HSet "h" "f" (AStr "1"));
    (12, EAdd "e" [AStr "a"; AStr "b"]);
    (13, LPushBack "l" (AStr "x"));
    (14, LPushFront "l" (AStr "w"));
    (15, ZAdd "z" (AStr "m") one);
    (16, ZGetRank "z" (AStr "m") false);
    (16, ZAdd "y" (AStr "m") one);
    (16, ZStore false GSum "x" ["z"; "y"]);
    (16, LInsertAfter "l" (AStr "w") (AStr "mid"));
    (17, LPopBack "l");
    (18, KExpire "s" 5);
    (30, KExists "s");
    (31, KDelete ["h"; "e"]) ].

Example demo_history_outputs :
  map (fun x => o_err x) (snd (run_impl demo_history empty_db)) = repeat None 14
  /\ snd (run_impl demo_history empty_db) = snd (run_spec demo_history []).
Proof. vm_compute. split; reflexivity. Qed.

Example demo_history_side_ok : side_ok demo_history empty_db /\ times_ok 0 demo_history /\ Inv empty_db.
Proof.
  split; [|split; [cbn; lia | split; vm_compute; reflexivity]].
  cbn [demo_history side_ok].
  repeat match goal with
  | |- _ /\ _ => split
  | |- covered _ = true => reflexivity
  | |- True => exact Logic.I
  end.
  all: unfold step_ok; repeat match goal with |- _ /\ _ => split end.
  all: try exact Logic.I; try reflexivity.
  (* wf_linsert *)
  all: try (intros HH; discriminate HH).
  all: try (intros _; split;
            [ intros x Hx; vm_compute in Hx; repeat (destruct Hx as [<-|Hx]; [vm_compute; reflexivity|]); destruct Hx
            | intros c; vm_compute; discriminate ]).
  (* wf_zalg *)
  all: try (apply C05_wf_zalg_two_keys;
            [ reflexivity | split; vm_compute; reflexivity
            | vm_compute; repeat constructor | vm_compute; repeat constructor
            | vm_compute; intros HH; discriminate HH ]).
  (* push_free, legal_choice, wf_zop, wf_zdb *)
  all: try (intros _ c; vm_compute; discriminate).
  all: try (vm_compute; exact Logic.I).
  all: try (vm_compute; constructor).
  all: try (vm_compute; repeat constructor; intros []).
Qed.

Print Assumptions all_history_refines_closed.

(* ================================================================== *)
(* From the empty database: the score premises are invariants         *)
(* ================================================================== *)

(* the side conditions that are NOT consequences of reachability: what is left of wf_zdb / wf_zalg
   once "stored scores are numbers, none is -0" is known *)
Definition wf_zdb' (o : op) (d : db) : Prop :=
  match o with
  | ZDeleteRank _ _ _ => zlen (rzset d) <= int64_max
  | _ => True
  end.
Definition wf_zalg' (o : op) (d : db) : Prop :=
  match o with
  | ZAlg _ GSum _ | ZStore _ GSum _ _ => wf_zalg o d
  | _ => True
  end.
Definition step_ok' (now : Z) (o : op) (d : db) : Prop :=
  wf_op o /\ int_ok o /\ wf_hop o /\ legal_choice now d o /\ wf_lop o /\
  (is_push o = true -> push_free now o d) /\ wf_zop o /\ wf_zdb' o d /\ wf_zalg' o d /\ wf_linsert now o d.
Fixpoint side_ok' (h : list (Z * op)) (d : db) : Prop :=
  match h with
  | [] => True
  | (t, o) :: r => covered o = true /\ step_ok' t o d /\ side_ok' r (fst (exec_db t o d))
  end.

Lemma step_ok_of' now o d : nums d -> normals d -> step_ok' now o d -> step_ok now o d.
Proof.
  intros N M (W1 & W2 & W3 & W4 & W5 & W6 & W7 & W8 & W9 & W10).
  unfold step_ok.
  assert (Z1 : wf_zdb o d).
  { destruct o; cbn [wf_zdb wf_zdb'] in *; try exact Logic.I; try assumption; exact N. }
  assert (Z2 : wf_zalg o d).
  { destruct o; cbn [wf_zalg wf_zalg'] in *; try exact Logic.I.
    - destruct g; cbn [wf_zalg wf_zalg'] in *; try assumption; split; assumption.
    - destruct g; cbn [wf_zalg wf_zalg'] in *; try assumption. }
  repeat match goal with |- _ /\ _ => split end; assumption.
Qed.

Lemma side_ok_of' : forall h d, nums d -> normals d -> side_ok' h d -> side_ok h d.
Proof.
  induction h as [|[t o] h IH]; intros d N M H; [exact Logic.I|].
  cbn [side_ok' side_ok] in *. destruct H as [Hc [Hs Hr]].
  split; [exact Hc|]. split; [apply step_ok_of'; assumption|].
  apply IH; [apply C05_scores_stay_numbers_all; exact N | apply C05_scores_stay_normal_all; exact M | exact Hr].
Qed.

(* every history from the empty database: the score conditions need not be assumed *)
Theorem history_from_empty_refines : forall h t0,
  side_ok' h empty_db -> times_ok t0 h ->
  Forall2 (fun (po : (Z * op) * out) (so : out) => out_equiv (snd (fst po)) (snd po) so)
          (combine h (snd (run_impl h empty_db))) (snd (run_spec h []))
  /\ (forall tl, (match rev h with (t, _) :: _ => t | [] => t0 end) = tl ->
        R tl (fst (run_impl h empty_db)) (fst (run_spec h [])))
  /\ Inv (fst (run_impl h empty_db)).
Proof.
  intros h t0 Hs Ht.
  apply all_history_refines_closed; [| exact Ht | split; vm_compute; reflexivity | apply R_empty].
  apply side_ok_of'; [constructor | constructor | exact Hs].
Qed.
Print Assumptions history_from_empty_refines.

(* ================================================================== *)
(* C10 for writes: an expired key, stored or already removed, makes no difference *)
(* ================================================================== *)
From Redka Require Import ProofExpiry.

Lemma R_purge now d s : Inv d -> R now d s -> R now (purge now d) s.
Proof.
  intros I [N H]. split; [exact N|]. intros k. rewrite (C10_purge_abs now d I). apply H.
Qed.

(* every covered operation - writes included - run on a database that still stores expired keys and
   run on the same database with those keys physically removed answers with the specification's
   answer and ends in a state with the specification's abstraction: what a client can observe does
   not depend on whether the cleaner has run *)
Theorem expired_keys_make_no_difference : forall now o d s,
  covered o = true -> step_ok now o d -> step_ok now o (purge now d) -> Inv d -> R now d s ->
  let '(d1, x1) := exec_db now o d in
  let '(d2, x2) := exec_db now o (purge now d) in
  let '(s', y) := spec_step now o s in
  out_equiv o x1 y /\ out_equiv o x2 y /\ R now d1 s' /\ R now d2 s'.
Proof.
  intros now o d s Hc K1 K2 I HR.
  pose proof (all_step_refines_closed now o d s Hc K1 I HR) as S1.
  pose proof (all_step_refines_closed now o (purge now d) s Hc K2 (C10_purge_inv now d I) (R_purge now d s I HR)) as S2.
  unfold step_refines in S1, S2. revert S1 S2.
  destruct (exec_db now o d) as [d1 x1]. destruct (exec_db now o (purge now d)) as [d2 x2].
  destruct (spec_step now o s) as [s' y]. intros [E1 R1] [E2 R2].
  split; [exact E1 | split; [exact E2 | split; [exact R1 | exact R2]]].
Qed.
Print Assumptions expired_keys_make_no_difference.
