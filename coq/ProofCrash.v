(* ProofCrash.v — property C09: acknowledged writes survive process death and
   what is recovered is consistent.  Theorems about the definitions of Crash.v
   (see there for what the model cannot exhibit). *)
From Redka Require Import Base Db Ops Inv Refine ProofInv ProofInv2 Crash.

(* ---------- run_prefix ---------- *)

Lemma run_prefix_nil n d : run_prefix [] n d = d.
Proof. destruct n; reflexivity. Qed.

(* the whole workload is the fold used by C11_inv_reachable *)
Lemma run_prefix_all h : forall d,
  run_prefix h (List.length h) d =
  fold_left (fun acc p => fst (exec_db (fst p) (snd p) acc)) h d.
Proof.
  induction h as [|[t o] rest IH]; intros d; cbn [run_prefix List.length fold_left fst snd].
  - reflexivity.
  - apply IH.
Qed.

Lemma run_prefix_inv h : forall n d, Inv d -> Inv (run_prefix h n d).
Proof.
  induction h as [|[t o] rest IH]; intros n d I.
  - rewrite run_prefix_nil. exact I.
  - destruct n as [|n]; cbn [run_prefix]; [exact I|].
    apply IH. apply C11_inv_preserved. exact I.
Qed.

(* ---------- C09 ---------- *)

Theorem C09_recovered_is_prefix : forall h n d d',
  recovered h n d d' -> d' = run_prefix h n d \/ d' = run_prefix h (S n) d.
Proof. intros h n d d' R. destruct R; [left | right]; reflexivity. Qed.

Theorem C09_recovered_consistent : forall h n d d',
  Inv d -> recovered h n d d' -> Inv d'.
Proof. intros h n d d' I R. destruct R; apply run_prefix_inv; exact I. Qed.

(* prefix composition: the state after n operations is the state after the
   first m of them, continued with the next n - m *)
Theorem C09_acknowledged_survive : forall h n d m, (m <= n)%nat ->
  run_prefix h n d = run_prefix (skipn m h) (n - m) (run_prefix h m d).
Proof.
  induction h as [|[t o] rest IH]; intros n d m Le.
  - rewrite skipn_nil, !run_prefix_nil. reflexivity.
  - destruct m as [|m].
    + cbn [skipn]. rewrite Nat.sub_0_r. reflexivity.
    + destruct n as [|n]; [lia|].
      cbn [run_prefix skipn]. rewrite Nat.sub_succ. apply IH. lia.
Qed.

(* so whatever is recovered after a crash at n is the acknowledged state after
   any m <= n operations, followed by further whole operations of the workload
   and nothing else *)
Theorem C09_recovered_extends_acknowledged : forall h n d d' m, (m <= n)%nat ->
  recovered h n d d' ->
  exists j, d' = run_prefix (skipn m h) j (run_prefix h m d).
Proof.
  intros h n d d' m Le R. destruct R.
  - exists (n - m)%nat. apply C09_acknowledged_survive. exact Le.
  - exists (S n - m)%nat. apply C09_acknowledged_survive. lia.
Qed.

Theorem C09_reopen_identity : forall k d, Nat.iter k reopen d = d.
Proof.
  induction k as [|k IH]; intros d; [reflexivity|].
  change (Nat.iter (S k) reopen d) with (reopen (Nat.iter k reopen d)).
  rewrite IH. reflexivity.
Qed.

(* from an empty database, crash anywhere, reopen any number of times: consistent *)
Theorem C09_crash_reopen_consistent : forall h n d' k,
  recovered h n empty_db d' -> Inv (Nat.iter k reopen d').
Proof.
  intros h n d' k R. rewrite C09_reopen_identity.
  apply (C09_recovered_consistent h n empty_db d'); [apply inv_empty | exact R].
Qed.

Print Assumptions C09_recovered_is_prefix.
Print Assumptions C09_recovered_consistent.
Print Assumptions C09_acknowledged_survive.
Print Assumptions C09_recovered_extends_acknowledged.
Print Assumptions C09_reopen_identity.
Print Assumptions C09_crash_reopen_consistent.
