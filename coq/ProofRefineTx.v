(* ProofRefineTx.v — a caller-managed transaction refines the specification's transaction.

   ProofRefineEvery.v relates ONE DB-level method call ([exec_db]) to one specification step.
   The Go API also offers DB.Update(func(tx) error {...}): a transaction managed by the caller, in
   which Tx-level methods ([exec_tx true]) run one after the other on the working state of the
   transaction, and which is committed when the callback returns nil and rolled back when it returns an
   error.  [Ops.exec_update] models it, [Spec.spec_update] is what the specification says about it.
   This file proves that the first refines the second.

   Part 1  the Tx-level call against the DB-level method: apart from KDeleteAll (the only operation that
           looks at the [in_tx] flag) they compute the same result, and the same state whenever the
           result is not an error; on an error the DB-level method rolls back (when it is wrapped in a
           transaction) while the Tx-level call keeps what it has done so far.
   Part 2  one Tx-level step against one specification step, and the block theorems [tx_refines]
           (the callback returns the first error) and [tx_refines_no_error] (the callback ignores
           errors, and none happens).  Two things are REFUTED and recorded as such:
           - a block that ignores an error and commits keeps the partial effects of the failed call,
             which the specification does not describe ([tx_ignored_error_refuted]);
           - KDeleteAll inside a block always fails (vacuum inside a transaction) and the block is
             rolled back, while the specification empties the keyspace ([tx_delete_all_refuted]);
             [spec_mode true KDeleteAll = CmpNone] says exactly that this is outside the specification.
   Part 3  histories whose items are single DB-level calls or whole transactions.
   Part 4  a concrete history to which the theorem applies (non-vacuity). *)
From Coq Require Import Permutation Lia ZifyBool Floats.
From Redka Require Import Base Db Glob ImplKey ImplString ImplSet ImplHash ImplZSet Ops Spec Abs Inv Excl Refine
  ProofNoTrace ProofInv ProofInv2 ProofExpiry ProofRefineStr ProofRefineHash ProofRefineSet
  ProofRefineList ProofRefineZSet ProofRefineZAlg ProofRefineAll ProofRefineEvery.

(* NoDup of a concrete list of names *)
Ltac nodup_names :=
  vm_compute; repeat (constructor; [cbn; intuition discriminate|]); constructor.

(* ================================================================== *)
(* Part 1: the Tx-level call and the DB-level method                  *)
(* ================================================================== *)

(* only KDeleteAll looks at the flag *)
Lemma exec_tx_flag_irrelevant : forall b b' now o, o <> KDeleteAll -> exec_tx b now o = exec_tx b' now o.
Proof. intros b b' now o Hn. destruct o; try reflexivity. exfalso. apply Hn. reflexivity. Qed.

Theorem exec_tx_true_wrapped : forall now o,
  o <> KDeleteAll -> exec_tx true now o = exec_tx (wrapped o) now o.
Proof. intros now o Hn. apply exec_tx_flag_irrelevant. exact Hn. Qed.

(* ... and it does: inside a transaction KDeleteAll fails after having deleted, outside it succeeds *)
Example KDeleteAll_flag_matters :
  let d := fst (run_impl [(1, SSet "k" (AStr "v"))] empty_db) in
  snd (exec_tx true 2 KDeleteAll d) = out_err (ESql SqVacuum)
  /\ snd (exec_tx false 2 KDeleteAll d) = out_ok VNone
  /\ snd (exec_db 2 KDeleteAll d) = out_ok VNone
  /\ rkey (fst (exec_tx true 2 KDeleteAll d)) = [].
Proof. vm_compute. repeat split. Qed.

(* the result (value and error) is the same at both levels *)
Theorem exec_tx_out_is_db : forall now o d,
  o <> KDeleteAll -> snd (exec_db now o d) = snd (exec_tx true now o d).
Proof.
  intros now o d Hn. unfold exec_db. rewrite (exec_tx_true_wrapped now o Hn).
  destruct (exec_tx (wrapped o) now o d) as [d1 r]. destruct (wrapped o && is_err r); reflexivity.
Qed.

(* when the result is not an error, so is the state *)
Theorem exec_tx_ok_is_db : forall now o d,
  o <> KDeleteAll -> is_err (snd (exec_tx true now o d)) = false -> exec_tx true now o d = exec_db now o d.
Proof.
  intros now o d Hn He. unfold exec_db. rewrite (exec_tx_true_wrapped now o Hn) in *.
  destruct (exec_tx (wrapped o) now o d) as [d1 r]. cbn [snd] in He. rewrite He.
  rewrite Bool.andb_false_r. reflexivity.
Qed.

(* when it is an error: a wrapped DB-level method rolls back ... *)
Theorem exec_db_err_rolled_back : forall now o d,
  wrapped o = true -> is_err (snd (exec_tx true now o d)) = true -> exec_db now o d = (d, snd (exec_tx true now o d)).
Proof.
  intros now o d W He.
  assert (Hn : o <> KDeleteAll) by (intros ->; discriminate W).
  unfold exec_db. rewrite (exec_tx_true_wrapped now o Hn) in *.
  destruct (exec_tx (wrapped o) now o d) as [d1 r]. cbn [snd] in *. rewrite W, He. reflexivity.
Qed.

(* ... an unwrapped one is the single statement itself, error or not *)
Theorem exec_db_unwrapped_is_tx : forall now o d,
  o <> KDeleteAll -> wrapped o = false -> exec_db now o d = exec_tx true now o d.
Proof.
  intros now o d Hn W. rewrite exec_db_unwrapped by exact W.
  rewrite (exec_tx_flag_irrelevant true false now o Hn). reflexivity.
Qed.

(* ... while the Tx-level call keeps what it did before failing: SetMany has stored "a" when it
   finds that "l" is a list *)
Definition partial_d : db := fst (run_impl [(1, LPushBack "l" (AStr "x"))] empty_db).
Definition partial_op : op := SSetMany [("a", AStr "1"); ("l", AStr "2")].

Example exec_tx_keeps_partial_effects :
  snd (exec_tx true 2 partial_op partial_d) = out_err EKeyType
  /\ map k_key (rkey partial_d) = ["l"]
  /\ map k_key (rkey (fst (exec_tx true 2 partial_op partial_d))) = ["l"; "a"]
  /\ exec_db 2 partial_op partial_d = (partial_d, out_err EKeyType).
Proof. vm_compute. repeat split. Qed.

(* ================================================================== *)
(* Part 2: blocks                                                     *)
(* ================================================================== *)

(* ---- 2a. both sides fail together ---- *)

(* [step_refines_m] promises the same error only when the mode is CmpFull.  Under the side conditions
   the other modes are: CmpNone never (a covered operation under [wf_zop] has mode CmpFull), CmpState
   for the four cursor scans and DeleteExpired - and those five fail on neither side.  So the error
   ALWAYS agrees: this is what makes "the block fails in the code iff it fails in the specification,
   and at the same call, with the same error" true. *)
Theorem every_step_err_agrees : forall now o d s,
  step_ok_every now o d -> Inv d -> R now d s ->
  o_err (snd (exec_db now o d)) = o_err (snd (spec_step now o s)).
Proof.
  intros now o d s Hk I HR.
  pose proof (every_step_refines now o d s Hk I HR) as ST.
  assert (Full : spec_mode false o = CmpFull ->
                 o_err (snd (exec_db now o d)) = o_err (snd (spec_step now o s))).
  { intros M. unfold step_refines_m in ST.
    destruct (exec_db now o d) as [d1 r]. destruct (spec_step now o s) as [s1 r'].
    destruct ST as [_ OE]. destruct (OE M) as [E _]. exact E. }
  unfold step_ok_every in Hk. destruct (covered o) eqn:Hc.
  - apply Full. apply covered_mode_full; [exact Hc|].
    destruct Hk as (_ & _ & _ & _ & _ & _ & Wz & _). exact Wz.
  - destruct o; try discriminate Hc; try (apply Full; reflexivity).
    + (* KDeleteExpired *)
      rewrite exec_db_unwrapped by reflexivity. cbn [exec_tx spec_step snd]. unfold run.
      rewrite key_delete_expired_eq. reflexivity.
    + rewrite exec_db_unwrapped by reflexivity. cbn [exec_tx spec_step snd]. unfold key_scan.
      rewrite run_lift_read_eq. reflexivity.
    + rewrite exec_db_unwrapped by reflexivity. cbn [exec_tx spec_step snd]. unfold set_scan.
      rewrite run_lift_read_eq. reflexivity.
    + rewrite exec_db_unwrapped by reflexivity. cbn [exec_tx spec_step snd]. unfold hash_scan.
      rewrite run_lift_read_eq. reflexivity.
    + rewrite exec_db_unwrapped by reflexivity. cbn [exec_tx spec_step snd]. unfold zset_scan.
      rewrite run_lift_read_eq. reflexivity.
Qed.

Lemma is_err_o_err r r' : o_err r = o_err r' -> is_err r = is_err r'.
Proof. unfold is_err. intros ->. reflexivity. Qed.

(* ---- 2b. one Tx-level call against one specification step ---- *)

(* the comparison of one result, mode-aware as in [step_refines_m]; [in_tx] is the flag of
   [spec_mode]: true for a call inside a block, false for a DB-level call (the two differ on
   KDeleteAll only) *)
Definition res_agree (in_tx : bool) (o_r : op * out) (r' : out) : Prop :=
  spec_mode in_tx (fst o_r) = CmpFull -> out_equiv (fst o_r) (snd o_r) r'.

Lemma spec_mode_flag o : o <> KDeleteAll -> spec_mode true o = spec_mode false o.
Proof. intros Hn. destruct o; try reflexivity. exfalso. apply Hn. reflexivity. Qed.

Theorem tx_step_refines : forall now o d s,
  o <> KDeleteAll -> step_ok_every now o d -> Inv d -> R now d s ->
  let '(d1, r) := exec_tx true now o d in
  let '(s1, r') := spec_step now o s in
  o_err r = o_err r'
  /\ res_agree true (o, r) r'
  /\ (is_err r = false -> R now d1 s1 /\ Inv d1 /\ exec_db now o d = (d1, r)).
Proof.
  intros now o d s Hn Hk I HR.
  pose proof (every_step_refines now o d s Hk I HR) as ST.
  pose proof (every_step_err_agrees now o d s Hk I HR) as EE.
  pose proof (exec_tx_out_is_db now o d Hn) as EO.
  pose proof (exec_tx_ok_is_db now o d Hn) as ES.
  pose proof (C11_inv_preserved now o d I) as I1.
  unfold step_refines_m in ST.
  destruct (exec_tx true now o d) as [d1 r]. destruct (spec_step now o s) as [s1 r'].
  cbn [snd] in *.
  split; [rewrite <- EO; exact EE|]. split.
  - unfold res_agree. cbn [fst snd]. rewrite (spec_mode_flag o Hn). intros M.
    destruct (exec_db now o d) as [d2 r2]. cbn [snd] in EO. subst r2.
    destruct ST as [_ OE]. exact (OE M).
  - intros He. specialize (ES He). rewrite <- ES in ST, I1. cbn [fst] in I1.
    destruct ST as [HR1 _]. split; [exact HR1 | split; [exact I1 | symmetry; exact ES]].
Qed.

(* ---- 2c. the side conditions along a block ---- *)

Definition no_delete_all (ops : list op) : Prop := Forall (fun o => o <> KDeleteAll) ops.

(* [step_ok_every] at every working state of the block, up to and including the first failing call
   (all calls of one block run at the same [now]) *)
Fixpoint block_ok (now : Z) (ops : list op) (d : db) : Prop :=
  match ops with
  | [] => True
  | o :: rest =>
      step_ok_every now o d /\
      (is_err (snd (exec_tx true now o d)) = false -> block_ok now rest (fst (exec_tx true now o d)))
  end.

(* ---- 2d. the block, callback returning the first error ---- *)

Lemma block_refines : forall now ops d s,
  no_delete_all ops -> block_ok now ops d -> Inv d -> R now d s ->
  let '(d1, rs, f) := exec_block now ops true d in
  let '(s1, rs', f') := spec_block now ops true s in
  f = f'
  /\ (f = false -> R now d1 s1 /\ Inv d1)
  /\ Forall2 (res_agree true) (combine ops rs) rs'
  /\ map o_err rs = map o_err rs'.
Proof.
  intros now ops. induction ops as [|o rest IH]; intros d s Hn Hb I HR.
  - cbn. split; [reflexivity|]. split; [intros _; split; assumption|]. split; [constructor | reflexivity].
  - inversion Hn as [|o0 l0 Ho Hrest]; subst o0 l0.
    cbn [block_ok] in Hb. destruct Hb as [Hk Hb].
    pose proof (tx_step_refines now o d s Ho Hk I HR) as ST.
    cbn [exec_block spec_block].
    destruct (exec_tx true now o d) as [d1 r]. destruct (spec_step now o s) as [s1 r'].
    cbn [fst snd] in Hb. destruct ST as [EE [RA OK]].
    rewrite <- (is_err_o_err r r' EE). cbn [andb].
    destruct (is_err r) eqn:He.
    + (* the call fails on both sides: the block ends here *)
      split; [reflexivity|]. split; [intros H; discriminate H|].
      cbn [combine map]. split; [constructor; [exact RA | destruct rest; constructor] | rewrite EE; reflexivity].
    + destruct (OK eq_refl) as [HR1 [I1 _]].
      specialize (IH d1 s1 Hrest (Hb eq_refl) I1 HR1).
      destruct (exec_block now rest true d1) as [[d2 rs] f].
      destruct (spec_block now rest true s1) as [[s2 rs'] f'].
      destruct IH as [Ef [Hst [F Em]]].
      split; [exact Ef|]. split; [exact Hst|].
      cbn [combine map]. split; [constructor; [exact RA | exact F] | rewrite EE, Em; reflexivity].
Qed.

(* MAIN THEOREM (blocks).  A transaction whose callback returns the first error it sees refines the
   specification's transaction: the same number of calls ran; every result agrees with the
   specification's wherever the specification determines it; every result has the same error,
   the failing one included; both sides end the same way (failed = rolled back, or committed); the
   final states are related; the invariant is kept.
   ([combine ops rs] pairs the calls THAT RAN with their results: [rs] is as long as the prefix of
   [ops] that was executed.) *)
Theorem tx_refines : forall now ops d s,
  no_delete_all ops -> block_ok now ops d -> Inv d -> R now d s ->
  let '(d', rs) := exec_update now ops true d in
  let '(s', rs') := spec_update now ops true s in
  R now d' s' /\ Inv d'
  /\ Forall2 (res_agree true) (combine ops rs) rs'
  /\ map o_err rs = map o_err rs'
  /\ snd (exec_block now ops true d) = snd (spec_block now ops true s).
Proof.
  intros now ops d s Hn Hb I HR.
  pose proof (block_refines now ops d s Hn Hb I HR) as B.
  unfold exec_update, spec_update.
  destruct (exec_block now ops true d) as [[d1 rs] f].
  destruct (spec_block now ops true s) as [[s1 rs'] f'].
  destruct B as [Ef [Hst [F Em]]]. subst f'. cbn [snd].
  destruct f.
  - (* rolled back on both sides *)
    split; [exact HR|]. split; [exact I|]. split; [exact F|]. split; [exact Em | reflexivity].
  - destruct (Hst eq_refl) as [HR1 I1].
    split; [exact HR1|]. split; [exact I1|]. split; [exact F|]. split; [exact Em | reflexivity].
Qed.

(* the lengths, spelled out *)
Corollary tx_same_number_of_results : forall now ops d s,
  no_delete_all ops -> block_ok now ops d -> Inv d -> R now d s ->
  List.length (snd (exec_update now ops true d)) = List.length (snd (spec_update now ops true s)).
Proof.
  intros now ops d s Hn Hb I HR. pose proof (tx_refines now ops d s Hn Hb I HR) as T.
  destruct (exec_update now ops true d) as [d' rs]. destruct (spec_update now ops true s) as [s' rs'].
  destruct T as (_ & _ & _ & Em & _). cbn [snd].
  rewrite <- (map_length o_err rs), Em. apply map_length.
Qed.

(* ---- 2e. a committed block is the sequence of its calls as DB-level methods ---- *)

Theorem committed_block_is_singles : forall now ops d,
  no_delete_all ops -> snd (exec_block now ops true d) = false ->
  exec_update now ops true d = run_impl (map (fun o => (now, o)) ops) d.
Proof.
  intros now ops d Hn Hf.
  assert (G : forall ops d, no_delete_all ops -> snd (exec_block now ops true d) = false ->
              exec_block now ops true d =
              (fst (run_impl (map (fun o => (now, o)) ops) d), snd (run_impl (map (fun o => (now, o)) ops) d), false)).
  { clear. induction ops as [|o rest IH]; intros d Hn Hf; [reflexivity|].
    inversion Hn as [|o0 l0 Ho Hrest]; subst o0 l0.
    cbn [exec_block map run_impl] in *.
    pose proof (exec_tx_ok_is_db now o d Ho) as ES.
    destruct (exec_tx true now o d) as [d1 r]. cbn [snd andb] in *.
    destruct (is_err r) eqn:He; [discriminate Hf|].
    rewrite <- (ES eq_refl).
    specialize (IH d1 Hrest).
    destruct (exec_block now rest true d1) as [[d2 rs] f]. cbn [snd] in *.
    specialize (IH Hf). destruct (run_impl (map (fun o => (now, o)) rest) d1) as [d3 xs].
    cbn [fst snd] in *. inversion IH. reflexivity. }
  unfold exec_update. rewrite (G ops d Hn Hf).
  destruct (run_impl (map (fun o => (now, o)) ops) d). reflexivity.
Qed.

(* ---- 2f. the callback ignores errors ---- *)

Definition no_err (r : out) : Prop := is_err r = false.

(* whatever the callback does, the results are those of the block; a block that ignores errors
   never "fails" *)
Lemma exec_update_results now ops stop d :
  snd (exec_update now ops stop d) = snd (fst (exec_block now ops stop d)).
Proof. unfold exec_update. destruct (exec_block now ops stop d) as [[d1 rs] f]. destruct f; reflexivity. Qed.

Lemma exec_block_ignore_never_fails : forall now ops d, snd (exec_block now ops false d) = false.
Proof.
  intros now ops. induction ops as [|o rest IH]; intros d; [reflexivity|].
  cbn [exec_block]. destruct (exec_tx true now o d) as [d1 r]. cbn [andb].
  specialize (IH d1). destruct (exec_block now rest false d1) as [[d2 rs] f]. exact IH.
Qed.

(* when no call fails it makes no difference whether the callback would have stopped *)
Lemma exec_block_no_error : forall now ops d,
  Forall no_err (snd (fst (exec_block now ops false d))) ->
  exec_block now ops true d = exec_block now ops false d.
Proof.
  intros now ops. induction ops as [|o rest IH]; intros d H; [reflexivity|].
  cbn [exec_block] in *. destruct (exec_tx true now o d) as [d1 r]. cbn [andb] in *.
  specialize (IH d1). destruct (exec_block now rest false d1) as [[d2 rs] f]. cbn [fst snd] in *.
  inversion H as [|x l Hx Hl]; subst x l. unfold no_err in Hx. rewrite Hx.
  rewrite (IH Hl). reflexivity.
Qed.

Lemma spec_block_no_failure : forall now ops s,
  snd (spec_block now ops true s) = false -> spec_block now ops false s = spec_block now ops true s.
Proof.
  intros now ops. induction ops as [|o rest IH]; intros s H; [reflexivity|].
  cbn [spec_block] in *. destruct (spec_step now o s) as [s1 r]. cbn [andb] in *.
  destruct (is_err r); [discriminate H|].
  specialize (IH s1). destruct (spec_block now rest true s1) as [[s2 rs] f]. cbn [snd] in H.
  rewrite (IH H). reflexivity.
Qed.

(* a block that ignores errors, in a run where no call fails: as above *)
Theorem tx_refines_no_error : forall now ops d s,
  no_delete_all ops -> block_ok now ops d ->
  Forall no_err (snd (exec_update now ops false d)) ->
  Inv d -> R now d s ->
  let '(d', rs) := exec_update now ops false d in
  let '(s', rs') := spec_update now ops false s in
  R now d' s' /\ Inv d'
  /\ Forall2 (res_agree true) (combine ops rs) rs'
  /\ map o_err rs = map o_err rs'
  /\ Forall no_err rs'.
Proof.
  intros now ops d s Hn Hb Hne I HR.
  rewrite exec_update_results in Hne.
  pose proof (exec_block_no_error now ops d Hne) as EB.
  pose proof (exec_block_ignore_never_fails now ops d) as NF.
  pose proof (tx_refines now ops d s Hn Hb I HR) as T.
  assert (SF : snd (spec_block now ops true s) = false).
  { destruct (exec_update now ops true d) as [d' rs]. destruct (spec_update now ops true s) as [s' rs'].
    destruct T as (_ & _ & _ & _ & Ef). rewrite <- Ef, EB. exact NF. }
  unfold exec_update, spec_update in *.
  rewrite (spec_block_no_failure now ops s SF). rewrite <- EB in *.
  destruct (exec_block now ops true d) as [[d1 rs] f]. destruct (spec_block now ops true s) as [[s1 rs'] f'].
  cbn [fst snd] in *. subst f f'.
  destruct T as (HR1 & I1 & F & Em & _).
  split; [exact HR1|]. split; [exact I1|]. split; [exact F|]. split; [exact Em|].
  (* the specification's results carry no error either *)
  clear - Hne Em. revert rs' Em. induction Hne as [|r rs Hr _ IH]; intros rs' Em.
  - destruct rs'; [constructor | discriminate Em].
  - destruct rs' as [|r' rs']; [discriminate Em|]. cbn [map] in Em. inversion Em as [[E1 E2]].
    constructor; [| apply IH; exact E2]. unfold no_err in *. rewrite <- (is_err_o_err r r' E1). exact Hr.
Qed.

(* ---- 2g. what is NOT true ---- *)

(* (i) A block whose callback IGNORES an error and commits.  The failed Tx-level call keeps its
   partial effects (Part 1), the commit makes them durable; the specification's step either happens
   or does not.  Here: Update(func(tx){ tx.Str().SetMany({"a":1,"l":2}); return nil }) with "l" a
   list.  The side conditions hold, the results agree (both: EKeyType) - and afterwards the code has
   a key "a" that the specification does not have.  So [tx_refines_no_error] cannot drop its
   "no call fails" premise. *)
Definition ignored_s : sstate := fst (run_spec [(1, LPushBack "l" (AStr "x"))] []).

Example tx_ignored_error_refuted :
  Inv partial_d /\ R 2 partial_d ignored_s
  /\ no_delete_all [partial_op] /\ block_ok 2 [partial_op] partial_d
  /\ snd (exec_update 2 [partial_op] false partial_d) = [out_err EKeyType]
  /\ snd (spec_update 2 [partial_op] false ignored_s) = [out_err EKeyType]
  /\ ~ R 2 (fst (exec_update 2 [partial_op] false partial_d)) (fst (spec_update 2 [partial_op] false ignored_s))
  /\ ~ (forall now ops d s, no_delete_all ops -> block_ok now ops d -> Inv d -> R now d s ->
          R now (fst (exec_update now ops false d)) (fst (spec_update now ops false s))).
Proof.
  assert (I : Inv partial_d) by (split; vm_compute; reflexivity).
  assert (HR : R 2 partial_d ignored_s).
  { split; [nodup_names |].
    intros k. vm_compute. reflexivity. }
  assert (Hn : no_delete_all [partial_op]) by (repeat constructor; discriminate).
  assert (Hb : block_ok 2 [partial_op] partial_d).
  { cbn [block_ok]. split; [| intros H; vm_compute in H; discriminate H].
    unfold step_ok_every, partial_op. cbn [covered str_op key_op hash_op set_op list_op zset_op zalg_op linsert_op orb uncovered_ok]. unfold step_ok. repeat match goal with |- _ /\ _ => split end.
    all: try exact Logic.I; try reflexivity.
    all: try (intros HH; discriminate HH).
    all: try (vm_compute; exact Logic.I).
    nodup_names. }
  assert (N : ~ R 2 (fst (exec_update 2 [partial_op] false partial_d))
                    (fst (spec_update 2 [partial_op] false ignored_s))).
  { intros [_ H]. specialize (H "a"). vm_compute in H. discriminate H. }
  split; [exact I|]. split; [exact HR|]. split; [exact Hn|]. split; [exact Hb|].
  split; [vm_compute; reflexivity|]. split; [vm_compute; reflexivity|]. split; [exact N|].
  intros H. exact (N (H 2 [partial_op] partial_d ignored_s Hn Hb I HR)).
Qed.

(* (ii) KDeleteAll inside a block: the code's call fails (and the block is rolled back), the
   specification's succeeds and empties the keyspace.  Neither the failed flag nor the final states
   agree; this is why [no_delete_all] is a premise ([spec_mode true KDeleteAll = CmpNone]). *)
Definition delall_d : db := fst (run_impl [(1, SSet "k" (AStr "v"))] empty_db).
Definition delall_s : sstate := fst (run_spec [(1, SSet "k" (AStr "v"))] []).

Example tx_delete_all_refuted :
  Inv delall_d /\ R 2 delall_d delall_s
  /\ spec_mode true KDeleteAll = CmpNone
  /\ exec_update 2 [KDeleteAll] true delall_d = (delall_d, [out_err (ESql SqVacuum)])
  /\ spec_update 2 [KDeleteAll] true delall_s = ([], [out_ok VNone])
  /\ snd (exec_block 2 [KDeleteAll] true delall_d) <> snd (spec_block 2 [KDeleteAll] true delall_s)
  /\ ~ R 2 (fst (exec_update 2 [KDeleteAll] true delall_d)) (fst (spec_update 2 [KDeleteAll] true delall_s)).
Proof.
  split; [split; vm_compute; reflexivity|].
  split; [split; [nodup_names | intros k; vm_compute; reflexivity]|].
  split; [reflexivity|]. split; [vm_compute; reflexivity|]. split; [vm_compute; reflexivity|].
  split; [vm_compute; intros H; discriminate H|].
  intros [_ H]. specialize (H "k"). vm_compute in H. discriminate H.
Qed.

(* ================================================================== *)
(* Part 3: histories with transactions                                *)
(* ================================================================== *)

Inductive item :=
| Single (o : op)                          (* one DB-level method call *)
| Block (ops : list op) (stop : bool).     (* DB.Update with a callback making these Tx-level calls *)

Definition item_ops (i : item) : list op :=
  match i with Single o => [o] | Block ops _ => ops end.
Definition item_in_tx (i : item) : bool :=
  match i with Single _ => false | Block _ _ => true end.

(* every item answers with the list of the results of its calls *)
Definition run_item_impl (t : Z) (i : item) (d : db) : db * list out :=
  match i with
  | Single o => let '(d1, r) := exec_db t o d in (d1, [r])
  | Block ops stop => exec_update t ops stop d
  end.
Definition run_item_spec (t : Z) (i : item) (s : sstate) : sstate * list out :=
  match i with
  | Single o => let '(s1, r) := spec_step t o s in (s1, [r])
  | Block ops stop => spec_update t ops stop s
  end.

Fixpoint run_impl_items (h : list (Z * item)) (d : db) : db * list (list out) :=
  match h with
  | [] => (d, [])
  | (t, i) :: r =>
      let '(d1, x) := run_item_impl t i d in let '(d2, xs) := run_impl_items r d1 in (d2, x :: xs)
  end.
Fixpoint run_spec_items (h : list (Z * item)) (s : sstate) : sstate * list (list out) :=
  match h with
  | [] => (s, [])
  | (t, i) :: r =>
      let '(s1, x) := run_item_spec t i s in let '(s2, xs) := run_spec_items r s1 in (s2, x :: xs)
  end.

Fixpoint times_ok_items (t : Z) (h : list (Z * item)) : Prop :=
  match h with [] => True | (t', _) :: r => t <= t' /\ times_ok_items t' r end.

(* the side conditions of one item at the state it starts in.  A block that ignores errors is
   covered when none of its calls fails (2g (i)). *)
Definition item_ok (t : Z) (i : item) (d : db) : Prop :=
  match i with
  | Single o => step_ok_every t o d
  | Block ops stop =>
      no_delete_all ops /\ block_ok t ops d /\
      (stop = false -> Forall no_err (snd (exec_update t ops false d)))
  end.

Fixpoint side_ok_items (h : list (Z * item)) (d : db) : Prop :=
  match h with
  | [] => True
  | (t, i) :: r => item_ok t i d /\ side_ok_items r (fst (run_item_impl t i d))
  end.

(* the results of one item against the specification's: as many, each with the same error, each
   agreeing wherever the specification determines it *)
Definition item_agree (i : item) (rs rs' : list out) : Prop :=
  Forall2 (res_agree (item_in_tx i)) (combine (item_ops i) rs) rs'
  /\ map o_err rs = map o_err rs'.

Theorem item_refines : forall t i d s,
  item_ok t i d -> Inv d -> R t d s ->
  let '(d1, rs) := run_item_impl t i d in
  let '(s1, rs') := run_item_spec t i s in
  R t d1 s1 /\ Inv d1 /\ item_agree i rs rs'.
Proof.
  intros t i d s Hk I HR. destruct i as [o | ops stop]; cbn [item_ok run_item_impl run_item_spec] in *.
  - pose proof (every_step_refines t o d s Hk I HR) as ST.
    pose proof (every_step_err_agrees t o d s Hk I HR) as EE.
    pose proof (C11_inv_preserved t o d I) as I1.
    unfold step_refines_m in ST.
    destruct (exec_db t o d) as [d1 r]. destruct (spec_step t o s) as [s1 r'].
    cbn [fst snd] in *. destruct ST as [HR1 OE].
    split; [exact HR1|]. split; [exact I1|]. unfold item_agree. cbn [item_ops item_in_tx combine map].
    split; [constructor; [exact OE | constructor] | rewrite EE; reflexivity].
  - destruct Hk as [Hn [Hb Hne]]. destruct stop.
    + pose proof (tx_refines t ops d s Hn Hb I HR) as T.
      destruct (exec_update t ops true d) as [d1 rs]. destruct (spec_update t ops true s) as [s1 rs'].
      destruct T as (HR1 & I1 & F & Em & _).
      split; [exact HR1|]. split; [exact I1|]. split; [exact F | exact Em].
    + pose proof (tx_refines_no_error t ops d s Hn Hb (Hne eq_refl) I HR) as T.
      destruct (exec_update t ops false d) as [d1 rs]. destruct (spec_update t ops false s) as [s1 rs'].
      destruct T as (HR1 & I1 & F & Em & _).
      split; [exact HR1|]. split; [exact I1|]. split; [exact F | exact Em].
Qed.

(* MAIN THEOREM (histories).  Histories of DB-level calls and caller-managed transactions, over all
   operations, with non-decreasing time stamps: item by item the results agree (same number, same
   errors, same values wherever the specification determines them), the abstraction relation holds
   at the end (at the time of the last item), and the invariant holds at the end. *)
Theorem every_history_with_transactions_refines : forall h t0 d s,
  side_ok_items h d -> times_ok_items t0 h -> Inv d -> R t0 d s ->
  Forall2 (fun (ir : (Z * item) * list out) (rs' : list out) => item_agree (snd (fst ir)) (snd ir) rs')
          (combine h (snd (run_impl_items h d))) (snd (run_spec_items h s))
  /\ (forall tl, (match rev h with (t, _) :: _ => t | [] => t0 end) = tl ->
        R tl (fst (run_impl_items h d)) (fst (run_spec_items h s)))
  /\ Inv (fst (run_impl_items h d)).
Proof.
  induction h as [|[t i] h IH]; intros t0 d s Hs Ht I HR.
  - cbn. split; [constructor | split; [intros tl <-; exact HR | exact I]].
  - cbn [times_ok_items] in Ht. destruct Ht as [Hle Ht].
    cbn [side_ok_items] in Hs. destruct Hs as [Hk Hs].
    assert (HR' : R t d s) by (eapply R_mono_partial; eauto).
    pose proof (item_refines t i d s Hk I HR') as ST.
    cbn [run_impl_items run_spec_items].
    destruct (run_item_impl t i d) as [d1 x]. destruct (run_item_spec t i s) as [s1 y].
    destruct ST as [HR1 [I1 A]]. cbn [fst] in Hs.
    specialize (IH t d1 s1 Hs Ht I1 HR1).
    destruct (run_impl_items h d1) as [d2 xs]. destruct (run_spec_items h s1) as [s2 ys].
    cbn [fst snd combine] in *. destruct IH as [F [Rl I2]].
    split; [|split].
    + constructor; [exact A | exact F].
    + intros tl Etl. apply Rl. rewrite <- Etl. cbn [rev].
      destruct (rev h) as [|[t' o'] r']; reflexivity.
    + exact I2.
Qed.

(* a history of single calls is a history in the sense of ProofRefineEvery.v *)
Lemma side_ok_items_of_every : forall h d,
  side_ok_every h d -> side_ok_items (map (fun p => (fst p, Single (snd p))) h) d.
Proof.
  induction h as [|[t o] h IH]; intros d H; [exact Logic.I|].
  cbn [side_ok_every map side_ok_items fst snd item_ok run_item_impl] in *. destruct H as [Hk Hr].
  split; [exact Hk|]. specialize (IH (fst (exec_db t o d)) Hr).
  destruct (exec_db t o d) as [d1 r]. exact IH.
Qed.

(* ---- from the empty database: the score premises are invariants ---- *)

Fixpoint block_ok' (now : Z) (ops : list op) (d : db) : Prop :=
  match ops with
  | [] => True
  | o :: rest =>
      step_ok_every' now o d /\
      (is_err (snd (exec_tx true now o d)) = false -> block_ok' now rest (fst (exec_tx true now o d)))
  end.

Definition item_ok' (t : Z) (i : item) (d : db) : Prop :=
  match i with
  | Single o => step_ok_every' t o d
  | Block ops stop =>
      no_delete_all ops /\ block_ok' t ops d /\
      (stop = false -> Forall no_err (snd (exec_update t ops false d)))
  end.

Fixpoint side_ok_items' (h : list (Z * item)) (d : db) : Prop :=
  match h with
  | [] => True
  | (t, i) :: r => item_ok' t i d /\ side_ok_items' r (fst (run_item_impl t i d))
  end.

Lemma step_ok_every_of' now o d : nums d -> normals d -> step_ok_every' now o d -> step_ok_every now o d.
Proof.
  intros N M Hk. unfold step_ok_every, step_ok_every' in *.
  destruct (covered o); [apply step_ok_of'; assumption | exact Hk].
Qed.

Lemma block_ok_of' : forall now ops d,
  no_delete_all ops -> nums d -> normals d -> block_ok' now ops d -> block_ok now ops d.
Proof.
  intros now ops. induction ops as [|o rest IH]; intros d Hn N M H; [exact Logic.I|].
  inversion Hn as [|o0 l0 Ho Hrest]; subst o0 l0.
  cbn [block_ok block_ok'] in *. destruct H as [Hk Hr].
  split; [apply step_ok_every_of'; assumption|].
  intros He. specialize (Hr He).
  pose proof (exec_tx_ok_is_db now o d Ho He) as ES.
  apply IH; [exact Hrest | | | exact Hr]; rewrite ES.
  - apply C05_scores_stay_numbers_all. exact N.
  - apply C05_scores_stay_normal_all. exact M.
Qed.

(* a property kept by every DB-level method is kept by every transaction that stops at the first
   error (rolled back: nothing changed; committed: a sequence of DB-level states) *)
Lemma exec_update_preserves (P : db -> Prop) :
  (forall now o d, P d -> P (fst (exec_db now o d))) ->
  forall now ops d, no_delete_all ops -> P d -> P (fst (exec_update now ops true d)).
Proof.
  intros HP now ops d Hn Pd.
  destruct (snd (exec_block now ops true d)) eqn:Hf.
  - unfold exec_update. destruct (exec_block now ops true d) as [[d1 rs] f]. cbn [snd] in Hf. subst f. exact Pd.
  - rewrite (committed_block_is_singles now ops d Hn Hf).
    clear Hn Hf. revert d Pd. induction ops as [|o rest IH]; intros d Pd; [exact Pd|].
    cbn [map run_impl]. specialize (HP now o d Pd). destruct (exec_db now o d) as [d1 r]. cbn [fst] in HP.
    specialize (IH d1 HP). destruct (run_impl (map (fun o0 => (now, o0)) rest) d1). exact IH.
Qed.

Lemma item_preserves (P : db -> Prop) :
  (forall now o d, P d -> P (fst (exec_db now o d))) ->
  forall t i d, item_ok' t i d -> P d -> P (fst (run_item_impl t i d)).
Proof.
  intros HP t i d Hk Pd. destruct i as [o | ops stop]; cbn [run_item_impl item_ok'] in *.
  - specialize (HP t o d Pd). destruct (exec_db t o d). exact HP.
  - destruct Hk as [Hn [_ Hne]]. destruct stop; [apply exec_update_preserves; assumption|].
    specialize (Hne eq_refl). rewrite exec_update_results in Hne.
    pose proof (exec_block_no_error t ops d Hne) as EB.
    assert (E : exec_update t ops false d = exec_update t ops true d) by (unfold exec_update; rewrite EB; reflexivity).
    rewrite E. apply exec_update_preserves; assumption.
Qed.

Lemma item_ok_of' t i d : nums d -> normals d -> item_ok' t i d -> item_ok t i d.
Proof.
  intros N M Hk. destruct i as [o | ops stop]; cbn [item_ok item_ok'] in *.
  - apply step_ok_every_of'; assumption.
  - destruct Hk as [Hn [Hb Hne]]. split; [exact Hn|]. split; [apply block_ok_of'; assumption | exact Hne].
Qed.

Lemma side_ok_items_of' : forall h d, nums d -> normals d -> side_ok_items' h d -> side_ok_items h d.
Proof.
  induction h as [|[t i] h IH]; intros d N M H; [exact Logic.I|].
  cbn [side_ok_items' side_ok_items] in *. destruct H as [Hk Hr].
  split; [apply item_ok_of'; assumption|].
  apply IH; [| | exact Hr].
  - apply (item_preserves nums); [intros now o d0; apply C05_scores_stay_numbers_all | exact Hk | exact N].
  - apply (item_preserves normals); [intros now o d0; apply C05_scores_stay_normal_all | exact Hk | exact M].
Qed.

Theorem every_history_with_transactions_from_empty_refines : forall h t0,
  side_ok_items' h empty_db -> times_ok_items t0 h ->
  Forall2 (fun (ir : (Z * item) * list out) (rs' : list out) => item_agree (snd (fst ir)) (snd ir) rs')
          (combine h (snd (run_impl_items h empty_db))) (snd (run_spec_items h []))
  /\ (forall tl, (match rev h with (t, _) :: _ => t | [] => t0 end) = tl ->
        R tl (fst (run_impl_items h empty_db)) (fst (run_spec_items h [])))
  /\ Inv (fst (run_impl_items h empty_db)).
Proof.
  intros h t0 Hs Ht.
  apply every_history_with_transactions_refines; [| exact Ht | split; vm_compute; reflexivity | apply R_empty].
  apply side_ok_items_of'; [constructor | constructor | exact Hs].
Qed.

(* ================================================================== *)
(* Part 4: the premises are satisfiable                               *)
(* ================================================================== *)

(* single calls around: (a) a block of three writes on three types that commits; (b) a block that
   stops at its second call - a SetMany that meets a list - after its first call has stored "b" (and
   the failing call itself has stored "a"): everything is rolled back; (c) a block that ignores
   errors in which nothing fails *)
Definition demo_tx_before : list (Z * item) :=
  [ (10, Single (SSet "s" (AStr "v")));
    (11, Block [EAdd "e" [AStr "a"; AStr "b"]; HSet "h" "f" (AStr "1"); ZAdd "z" (AStr "m") one] true);
    (12, Single (LPushBack "l" (AStr "x"))) ].
Definition demo_tx_failing : Z * item :=
  (13, Block [SSet "b" (AStr "1"); SSetMany [("a", AStr "1"); ("l", AStr "2")]; SSet "c" (AStr "3")] true).
Definition demo_tx_after : list (Z * item) :=
  [ (14, Single (SGet "b"));
    (15, Block [SIncr "n" 5; KExists "n"; LPushBack "l" (AStr "y")] false);
    (16, Single KLen) ].
Definition demo_tx_history : list (Z * item) := demo_tx_before ++ demo_tx_failing :: demo_tx_after.

(* what happens: block (a) commits three keys; block (b) runs two of its three calls, the second
   answers EKeyType, and the state after it IS the state before it, although the working state of
   the transaction had two more keys when it failed *)
Example demo_tx_outcomes :
  map (map o_err) (snd (run_impl_items demo_tx_history empty_db))
    = [[None]; [None; None; None]; [None]; [None; Some EKeyType]; [Some ENotFound]; [None; None; None]; [None]]
  /\ map k_key (rkey (fst (run_impl_items demo_tx_before empty_db))) = ["s"; "e"; "h"; "z"; "l"]
  /\ fst (run_impl_items (demo_tx_before ++ [demo_tx_failing]) empty_db) = fst (run_impl_items demo_tx_before empty_db)
  /\ map k_key (rkey (fst (fst (exec_block 13 (item_ops (snd demo_tx_failing)) true
                                   (fst (run_impl_items demo_tx_before empty_db))))))
       = ["s"; "e"; "h"; "z"; "l"; "b"; "a"]
  /\ map k_key (rkey (fst (run_impl_items demo_tx_history empty_db))) = ["s"; "e"; "h"; "z"; "l"; "n"].
Proof. vm_compute. repeat split. Qed.

Example demo_tx_side_ok :
  side_ok_items' demo_tx_history empty_db /\ times_ok_items 0 demo_tx_history.
Proof.
  split; [| cbn; lia].
  unfold demo_tx_history, demo_tx_before, demo_tx_failing, demo_tx_after.
  cbn [app side_ok_items' item_ok' block_ok'].
  repeat match goal with
  | |- _ /\ _ => split
  | |- True => exact Logic.I
  | |- true = false -> _ => let H := fresh "H" in intros H; discriminate H
  | |- false = false -> _ => intros _
  | |- is_err _ = false -> _ =>
      (* a call that fails ends the block: nothing is asked of the calls after it *)
      let H := fresh "H" in intros H; first [ vm_compute in H; discriminate H | clear H ]
  end.
  all: try match goal with
  | |- no_delete_all _ => unfold no_delete_all; repeat constructor; discriminate
  | |- Forall no_err _ => vm_compute; repeat constructor
  end.
  all: unfold step_ok_every'; cbn [covered str_op key_op hash_op set_op list_op zset_op zalg_op linsert_op orb uncovered_ok].
  all: try exact Logic.I.
  all: try match goal with |- klen_ok _ _ => vm_compute; reflexivity end.
  all: unfold step_ok'; repeat match goal with |- _ /\ _ => split end.
  all: try exact Logic.I; try reflexivity.
  all: try (intros HH; discriminate HH).
  all: try (intros _ c; vm_compute; discriminate).
  all: try (vm_compute; exact Logic.I).
  all: nodup_names.
Qed.

(* hence the theorem applies to it *)
Example demo_tx_refines :
  R 16 (fst (run_impl_items demo_tx_history empty_db)) (fst (run_spec_items demo_tx_history []))
  /\ Inv (fst (run_impl_items demo_tx_history empty_db))
  /\ Forall2 (fun (ir : (Z * item) * list out) (rs' : list out) => item_agree (snd (fst ir)) (snd ir) rs')
       (combine demo_tx_history (snd (run_impl_items demo_tx_history empty_db)))
       (snd (run_spec_items demo_tx_history [])).
Proof.
  destruct demo_tx_side_ok as [Hs Ht].
  destruct (every_history_with_transactions_from_empty_refines demo_tx_history 0 Hs Ht) as [F [Rl I]].
  split; [apply Rl; reflexivity | split; [exact I | exact F]].
Qed.

Print Assumptions exec_tx_true_wrapped.
Print Assumptions exec_tx_ok_is_db.
Print Assumptions exec_db_err_rolled_back.
Print Assumptions every_step_err_agrees.
Print Assumptions tx_step_refines.
Print Assumptions tx_refines.
Print Assumptions tx_refines_no_error.
Print Assumptions committed_block_is_singles.
Print Assumptions tx_ignored_error_refuted.
Print Assumptions tx_delete_all_refuted.
Print Assumptions every_history_with_transactions_refines.
Print Assumptions every_history_with_transactions_from_empty_refines.
Print Assumptions demo_tx_side_ok.
Print Assumptions demo_tx_refines.
