From Redka Require Import Base Glob.
From Coq Require Import NArith.
From Coq Require Import Lia ZifyN ZifyBool.

(* a byte string without NUL whose bytes are all ASCII (< 128) *)
Fixpoint ascii_nonul (s : string) : bool :=
  match s with
  | EmptyString => true
  | String c r => (N.ltb 0 (byte_of c)) && (N.ltb (byte_of c) 128) && ascii_nonul r
  end.
(* ... and none of them is a metacharacter '*' (42), '?' (63), '[' (91) *)
Fixpoint plain (s : string) : bool :=
  match s with
  | EmptyString => true
  | String c r => (N.ltb 0 (byte_of c)) && (N.ltb (byte_of c) 128)
                  && negb (N.eqb (byte_of c) 42) && negb (N.eqb (byte_of c) 63) && negb (N.eqb (byte_of c) 91)
                  && plain r
  end.
Fixpoint nonul (s : string) : bool :=
  match s with EmptyString => true | String c r => negb (N.eqb (byte_of c) 0) && nonul r end.

Local Open Scope N_scope.

(* ---------- bytes ---------- *)

Lemma byte_of_inj : forall a b, byte_of a = byte_of b -> a = b.
Proof.
  unfold byte_of. intros a b H.
  rewrite <- (ascii_N_embedding a), <- (ascii_N_embedding b), H. reflexivity.
Qed.

Definition okc (c : N) : Prop := 0 < c /\ c < 128 /\ c <> 42 /\ c <> 63 /\ c <> 91.

Lemma ascii_nonul_nonul : forall s, ascii_nonul s = true -> nonul s = true.
Proof.
  induction s as [|c r IH]; cbn [ascii_nonul nonul]; intros H; [reflexivity|].
  rewrite !andb_true_iff in H. destruct H as [[H0 H1] H2].
  rewrite (IH H2), andb_true_r. lia.
Qed.

Lemma plain_ascii_nonul : forall s, plain s = true -> ascii_nonul s = true.
Proof.
  induction s as [|c r IH]; cbn [ascii_nonul plain]; intros H; [reflexivity|].
  rewrite !andb_true_iff in H. destruct H as [[[[[H0 H1] _] _] _] H2].
  rewrite H0, H1, (IH H2). reflexivity.
Qed.

Lemma plain_nonul : forall s, plain s = true -> nonul s = true.
Proof. intros s H. apply ascii_nonul_nonul, plain_ascii_nonul, H. Qed.

Lemma cstring_cons_nonul : forall c r,
  negb (byte_of c =? 0) = true -> cstring (String c r) = byte_of c :: cstring r.
Proof.
  intros c r H. cbn [cstring]. apply negb_true_iff in H. rewrite H. reflexivity.
Qed.

Lemma ascii_nonul_cstring : forall s, ascii_nonul s = true ->
  Forall (fun b => b < 128) (cstring s).
Proof.
  induction s as [|c r IH]; intros H; [constructor|].
  cbn [ascii_nonul] in H. rewrite !andb_true_iff in H. destruct H as [[H0 H1] H2].
  rewrite cstring_cons_nonul by lia. constructor; [lia | auto].
Qed.

Lemma plain_cstring : forall s, plain s = true -> Forall okc (cstring s).
Proof.
  induction s as [|c r IH]; intros H; [constructor|].
  cbn [plain] in H. rewrite !andb_true_iff in H.
  destruct H as [[[[[H0 H1] H2] H3] H4] H5].
  rewrite cstring_cons_nonul by lia. constructor; [unfold okc; lia | auto].
Qed.

Lemma cstring_length : forall s, nonul s = true ->
  List.length (cstring s) = String.length s.
Proof.
  induction s as [|c r IH]; intros H; [reflexivity|].
  cbn [nonul] in H. apply andb_true_iff in H. destruct H as [H0 H1].
  rewrite cstring_cons_nonul by exact H0. cbn [List.length String.length].
  rewrite (IH H1). reflexivity.
Qed.

Lemma cstring_inj : forall s p, nonul s = true -> nonul p = true ->
  cstring s = cstring p -> s = p.
Proof.
  induction s as [|c r IH]; intros [|d q] Hs Hp E.
  - reflexivity.
  - cbn [nonul] in Hp. apply andb_true_iff in Hp. destruct Hp as [H0 H1].
    rewrite (cstring_cons_nonul d q H0) in E. discriminate E.
  - cbn [nonul] in Hs. apply andb_true_iff in Hs. destruct Hs as [H0 H1].
    rewrite (cstring_cons_nonul c r H0) in E. discriminate E.
  - cbn [nonul] in Hs, Hp. apply andb_true_iff in Hs, Hp.
    destruct Hs as [Hs0 Hs1]. destruct Hp as [Hp0 Hp1].
    rewrite (cstring_cons_nonul c r Hs0), (cstring_cons_nonul d q Hp0) in E.
    injection E as E1 E2. f_equal; [apply byte_of_inj, E1 | apply IH; assumption].
Qed.

Lemma cstring_app : forall p q, nonul p = true ->
  cstring (String.append p q) = cstring p ++ cstring q.
Proof.
  induction p as [|c r IH]; intros q H; [reflexivity|].
  cbn [nonul] in H. apply andb_true_iff in H. destruct H as [H0 H1].
  cbn [String.append]. rewrite !cstring_cons_nonul by exact H0.
  rewrite (IH q H1). reflexivity.
Qed.

Lemma cstring_empty : forall s, nonul s = true -> cstring s = [] -> s = EmptyString.
Proof.
  intros s H E. apply cstring_inj; [exact H | reflexivity | exact E].
Qed.

(* ---------- decode ---------- *)

Lemma decode_fuel_small : forall l f, Forall (fun b => b < 192) l ->
  (List.length l <= f)%nat -> decode_fuel f l = l.
Proof.
  induction l as [|b r IH]; intros f HF Hlen.
  - destruct f; reflexivity.
  - destruct f as [|f]; [cbn [List.length] in Hlen; lia|].
    inversion HF as [|? ? Hb Hr]; subst.
    cbn [decode_fuel]. replace (b <? 192) with true by lia.
    rewrite IH; [reflexivity | exact Hr | cbn [List.length] in Hlen; lia].
Qed.

Lemma Forall_lt_weaken : forall l, Forall (fun b => b < 128) l -> Forall (fun b => b < 192) l.
Proof. intros l H. eapply Forall_impl; [|exact H]. cbn. intros; lia. Qed.

Lemma okc_lt128 : forall l, Forall okc l -> Forall (fun b => b < 128) l.
Proof. intros l H. eapply Forall_impl; [|exact H]. unfold okc. intros; lia. Qed.

Lemma fix_cp_ge : forall c, 128 <= fix_cp c.
Proof.
  intros c. unfold fix_cp.
  destruct (c <? 128) eqn:E; cbn [orb]; [lia|].
  destruct (_ || _); lia.
Qed.

Lemma decode_fuel_inv : forall l f q, (List.length l <= f)%nat ->
  decode_fuel f l = q -> Forall (fun b => b < 128) q -> l = q.
Proof.
  induction l as [|b r IH]; intros f q Hlen E HF.
  - destruct f; cbn [decode_fuel] in E; exact E.
  - destruct f as [|f]; [cbn [List.length] in Hlen; lia|].
    cbn [decode_fuel] in E. destruct (b <? 192) eqn:Hb.
    + subst q. inversion HF as [|? ? H1 H2]; subst.
      f_equal. eapply IH; [|reflexivity|exact H2]. cbn [List.length] in Hlen; lia.
    + destruct (absorb (utf8_trans1 b) r) as [c r'].
      subst q. inversion HF as [|? ? H1 H2]; subst.
      pose proof (fix_cp_ge c). lia.
Qed.

Lemma decode_ascii : forall s, Forall (fun b => b < 128) (cstring s) -> decode s = cstring s.
Proof.
  intros s H. unfold decode. apply decode_fuel_small; [apply Forall_lt_weaken, H | lia].
Qed.

Lemma decode_nil_inv : forall s, decode s = [] -> cstring s = [].
Proof.
  intros s H. unfold decode in H.
  eapply decode_fuel_inv; [|exact H|constructor]. lia.
Qed.

(* ---------- tokenize ---------- *)

Lemma tokenize_lits_app : forall l f q, Forall okc l ->
  tokenize (List.length l + f)%nat (l ++ q) = map PLit l ++ tokenize f q.
Proof.
  induction l as [|c r IH]; intros f q HF; [reflexivity|].
  inversion HF as [|? ? Hc Hr]; subst. unfold okc in Hc.
  cbn [List.length Nat.add app tokenize map].
  unfold cSTAR, cLBR, cQUEST.
  replace (c =? 42) with false by lia.
  replace (c =? 91) with false by lia.
  replace (c =? 63) with false by lia.
  rewrite (IH f q Hr). reflexivity.
Qed.

Lemma tokenize_lits : forall l, Forall okc l ->
  tokenize (S (List.length l)) l = map PLit l.
Proof.
  intros l H. pose proof (tokenize_lits_app l 1%nat [] H) as E.
  cbn [tokenize] in E. rewrite ?app_nil_r in E.
  rewrite <- E. f_equal. lia.
Qed.

Lemma tokenize_lits_star : forall l, Forall okc l ->
  tokenize (S (List.length (l ++ [42]))) (l ++ [42]) = map PLit l ++ [PStar].
Proof.
  intros l H. rewrite app_length. cbn [List.length].
  replace (S (List.length l + 1))%nat with (List.length l + 2)%nat by lia.
  rewrite (tokenize_lits_app l 2%nat [42] H). reflexivity.
Qed.

(* ---------- gmatch ---------- *)

Lemma gmatch_lits_app : forall l q s,
  gmatch (map PLit l ++ q) s = true <-> exists r, s = l ++ r /\ gmatch q r = true.
Proof.
  induction l as [|c l IH]; intros q s.
  - cbn [map app]. split.
    + intros H. exists s. split; [reflexivity | exact H].
    + intros [r [E H]]. subst s. exact H.
  - cbn [map app gmatch]. destruct s as [|x s].
    + split; [discriminate|]. intros [r [E _]]. discriminate E.
    + rewrite andb_true_iff, IH. split.
      * intros [Hx [r [E H]]]. apply N.eqb_eq in Hx. subst. exists r. split; [reflexivity | exact H].
      * intros [r [E H]]. injection E as E1 E2. subst. split; [apply N.eqb_refl|].
        exists r. split; [reflexivity | exact H].
Qed.

Lemma gmatch_lits : forall l s, gmatch (map PLit l) s = true <-> s = l.
Proof.
  intros l s. pose proof (gmatch_lits_app l [] s) as H. rewrite app_nil_r in H.
  rewrite H. split.
  - intros [r [E Hr]]. destruct r; [|discriminate Hr]. rewrite app_nil_r in E. exact E.
  - intros E. exists []. rewrite app_nil_r. split; [exact E | reflexivity].
Qed.

Lemma gmatch_star : forall s, gmatch [PStar] s = true.
Proof.
  induction s as [|x s IH]; [reflexivity|].
  cbn [gmatch orb]. cbn [gmatch] in IH. exact IH.
Qed.

Lemma gmatch_one : forall s, gmatch [POne] s = true <-> List.length s = 1%nat.
Proof.
  intros [|x [|y s]]; cbn [gmatch List.length]; split; intros H; try reflexivity; try discriminate H.
Qed.

(* ---------- prefix ---------- *)

Lemma prefix_cstring : forall p s, nonul p = true -> nonul s = true ->
  (String.prefix p s = true <-> exists r, cstring s = cstring p ++ r).
Proof.
  induction p as [|c p IH]; intros s Hp Hs.
  - destruct s; cbn [String.prefix cstring app]; split; intros _; eauto.
  - cbn [nonul] in Hp. apply andb_true_iff in Hp. destruct Hp as [Hp0 Hp1].
    rewrite (cstring_cons_nonul c p Hp0).
    destruct s as [|d s].
    + cbn [String.prefix cstring]. split; [discriminate|]. intros [r E]. discriminate E.
    + cbn [nonul] in Hs. apply andb_true_iff in Hs. destruct Hs as [Hs0 Hs1].
      rewrite (cstring_cons_nonul d s Hs0). cbn [String.prefix].
      destruct (ascii_dec c d) as [E|NE].
      * subst d. rewrite (IH s Hp1 Hs1). split; intros [r E]; exists r.
        -- cbn [app]. rewrite E. reflexivity.
        -- cbn [app] in E. injection E as E. exact E.
      * split; [discriminate|]. intros [r E]. cbn [app] in E. injection E as E1 E2.
        exfalso. apply NE. symmetry. apply byte_of_inj, E1.
Qed.

(* ---------- main theorems ---------- *)

Theorem glob_star_all : forall s, glob "*" s = true.
Proof.
  intros s. unfold glob.
  change (decode "*") with [42]. change (tokenize (S (List.length [42])) [42]) with [PStar].
  apply gmatch_star.
Qed.

Theorem glob_empty_pattern : forall s, nonul s = true -> (glob "" s = true <-> s = "").
Proof.
  intros s Hs. unfold glob. change (decode "") with (@nil N).
  change (tokenize (S (List.length (@nil N))) []) with (@nil ptok).
  split.
  - intros H. cbn [gmatch] in H. destruct (decode s) eqn:E; [|discriminate H].
    apply cstring_empty; [exact Hs | apply decode_nil_inv, E].
  - intros E. subst s. reflexivity.
Qed.

Lemma glob_plain_pat : forall p s, plain p = true ->
  glob p s = gmatch (map PLit (cstring p)) (decode s).
Proof.
  intros p s Hp. unfold glob.
  pose proof (plain_cstring p Hp) as Hok.
  rewrite (decode_ascii p (okc_lt128 _ Hok)).
  rewrite (tokenize_lits _ Hok). reflexivity.
Qed.

(* a name without metacharacters used as a pattern selects exactly that name (among NUL-free names) *)
Theorem glob_literal : forall p s, plain p = true -> nonul s = true -> (glob p s = true <-> s = p).
Proof.
  intros p s Hp Hs. rewrite (glob_plain_pat p s Hp), gmatch_lits.
  pose proof (plain_cstring p Hp) as Hok.
  split.
  - intros E. apply cstring_inj; [exact Hs | apply plain_nonul, Hp |].
    unfold decode in E. eapply decode_fuel_inv; [|exact E|apply okc_lt128, Hok]. lia.
  - intros E. subst s. apply decode_ascii, okc_lt128, Hok.
Qed.

(* '?' matches exactly one character: for ASCII text, exactly the strings of length 1 *)
Theorem glob_question_ascii : forall s, ascii_nonul s = true -> (glob "?" s = true <-> String.length s = 1%nat).
Proof.
  intros s Hs. unfold glob.
  change (decode "?") with [63]. change (tokenize (S (List.length [63])) [63]) with [POne].
  rewrite gmatch_one, (decode_ascii s (ascii_nonul_cstring s Hs)).
  rewrite (cstring_length s (ascii_nonul_nonul s Hs)). reflexivity.
Qed.

(* literal prefix followed by '*' : exactly the names with that prefix *)
Theorem glob_prefix_star : forall p s, plain p = true -> ascii_nonul s = true ->
  (glob (String.append p "*") s = true <-> String.prefix p s = true).
Proof.
  intros p s Hp Hs. unfold glob.
  pose proof (plain_cstring p Hp) as Hok.
  assert (Ec : cstring (String.append p "*") = cstring p ++ [42]).
  { rewrite (cstring_app p "*" (plain_nonul p Hp)). reflexivity. }
  assert (Ed : decode (String.append p "*") = cstring p ++ [42]).
  { rewrite decode_ascii; rewrite Ec; [reflexivity|].
    apply Forall_app. split; [apply okc_lt128, Hok|]. constructor; [lia | constructor]. }
  rewrite Ed, (tokenize_lits_star _ Hok).
  rewrite (decode_ascii s (ascii_nonul_cstring s Hs)).
  rewrite gmatch_lits_app.
  rewrite (prefix_cstring p s (plain_nonul p Hp) (ascii_nonul_nonul s Hs)).
  split.
  - intros [r [E _]]. exists r. exact E.
  - intros [r E]. exists r. split; [exact E | apply gmatch_star].
Qed.

(* matching is case-sensitive and every other character matches only itself: corollary of glob_literal *)
Corollary glob_literal_self : forall p, plain p = true -> glob p p = true.
Proof.
  intros p Hp. apply (glob_literal p p Hp (plain_nonul p Hp)). reflexivity.
Qed.

(* the documented examples *)
Example glob_examples :
  glob "k*" "k1" = true /\ glob "k*" "a" = false /\ glob "k?" "k1" = true /\ glob "k?" "k12" = false /\
  glob "k[12]" "k2" = true /\ glob "k[12]" "k3" = false /\ glob "k[^1]" "k2" = true /\ glob "k[^1]" "k1" = false /\
  glob "k[a-c]" "kb" = true /\ glob "k[a-c]" "kd" = false /\ glob "[" "[" = false /\ glob "K1" "k1" = false /\
  glob "k[]]" "k]" = true /\ glob "*" "" = true.
Proof. vm_compute. repeat split; reflexivity. Qed.

Print Assumptions glob_star_all.
Print Assumptions glob_empty_pattern.
Print Assumptions glob_literal.
Print Assumptions glob_question_ascii.
Print Assumptions glob_prefix_star.
Print Assumptions glob_literal_self.
Print Assumptions glob_examples.
