(* Parser.v — internal/parser: the argument-parser combinators and
   Pipeline.Run, as an interpreter over combinator trees.  The trees of the
   individual commands are regenerated from /repo's source on every run
   (gen/ParseSpecs.v, written by harness/cmd/srcfacts).  No proofs here.

   strconv.ParseFloat is an oracle: the interpreter takes the predicate
   "this text parses as a float" as a parameter. *)
From Redka Require Import Base.

Inductive perr := PErrArgNum | PErrFloat | PErrInt | PErrSyntax.

(* what a destination variable holds after parsing *)
Inductive pval :=
| PVStr (s : bytes)
| PVInt (z : Z)
| PVFloatText (s : bytes)             (* the text; its value is strconv's business *)
| PVBool (b : bool)
| PVList (l : list bytes)
| PVMap (l : list (bytes * bytes))    (* in argument order; later duplicates win in Go's map *)
.
Definition penv := list (string * pval).
Definition pset (e : penv) (k : string) (v : pval) : penv := (k, v) :: e.
Fixpoint pget (e : penv) (k : string) : option pval :=
  match e with
  | [] => None
  | (k', v) :: r => if String.eqb k k' then Some v else pget r k
  end.

Inductive prim :=
| PString (dst : string)
| PBytes (dst : string)
| PInt (dst : string)
| PFloat (dst : string)
| PEnum (dst : string) (allowed : list string)
| PStrings (dst : string)
| PAnys (dst : string)
| PStringsN (dst : string) (nvar : string)
| PAnyMap (dst : string)
| PFloatMap (dst : string)
| PFlag (name : string) (dst : string)
| PNamed (name : string) (ps : list prim)
| POneOf (ps : list prim).

Record pipeline := mkPipeline { pl_parsers : list prim; pl_required : Z }.

(* ASCII lower case of one byte *)
Definition lower_ascii (c : ascii) : ascii :=
  let n := N_of_ascii c in
  if (N.leb 65 n && N.leb n 90)%bool then ascii_of_N (n + 32) else c.
Fixpoint lower (s : string) : string :=
  match s with
  | EmptyString => EmptyString
  | String c r => String (lower_ascii c) (lower r)
  end.

(* strings.EqualFold(arg, name) for an ASCII lower-case [name]: ASCII case is
   ignored; in addition Unicode simple folding maps U+212A (Kelvin sign,
   bytes E2 84 AA) to 'k' and U+017F (long s, bytes C5 BF) to 's' *)
Fixpoint fold_special (s : string) : string :=
  match s with
  | String "226" (String "132" (String "170" r)) => String "k" (fold_special r)
  | String "197" (String "191" r) => String "s" (fold_special r)
  | String c r => String (lower_ascii c) (fold_special r)
  | EmptyString => EmptyString
  end.
Definition equal_fold (arg : bytes) (name : string) : bool :=
  String.eqb (fold_special arg) name.

(* result of one combinator: fired?, remaining arguments, environment, error *)
Definition pres := (bool * list bytes * penv * option perr)%type.

Section Interp.
  Variable is_float : bytes -> bool.   (* strconv.ParseFloat(s, 64) succeeds *)

  Fixpoint pairs_of (args : list bytes) : list (bytes * bytes) :=
    match args with
    | a :: b :: r => (a, b) :: pairs_of r
    | _ => []
    end.

  (* [run_prim] needs fuel only for the nesting of Named / OneOf *)
  Fixpoint run_prim (fuel : nat) (p : prim) (e : penv) (args : list bytes) : pres :=
    match fuel with
    | O => (false, args, e, Some PErrSyntax)
    | S f =>
      match p with
      | PString d | PBytes d =>
          match args with
          | [] => (false, args, e, None)
          | a :: r => (true, r, pset e d (PVStr a), None)
          end
      | PInt d =>
          match args with
          | [] => (false, args, e, None)
          | a :: r => match atoi a with
                      | Some z => (true, r, pset e d (PVInt z), None)
                      | None => (true, args, e, Some PErrInt)
                      end
          end
      | PFloat d =>
          match args with
          | [] => (false, args, e, None)
          | a :: r => if is_float a then (true, r, pset e d (PVFloatText a), None)
                      else (true, args, e, Some PErrFloat)
          end
      | PEnum d allowed =>
          match args with
          | [] => (false, args, e, None)
          | a :: r => let v := lower a in
                      if str_in v allowed then (true, r, pset e d (PVStr v), None)
                      else (true, args, e, Some PErrSyntax)
          end
      | PStrings d | PAnys d =>
          match args with
          | [] => (false, args, e, None)
          | _ => (true, [], pset e d (PVList args), None)
          end
      | PStringsN d nvar =>
          let n := match pget e nvar with Some (PVInt z) => z | _ => 0 end in
          match args with
          | [] => (false, args, e, None)
          | _ => if (n <? 0) || (zlen args <? n) then (true, args, e, Some PErrArgNum)
                 else (true, zdrop n args, pset e d (PVList (ztake n args)), None)
          end
      | PAnyMap d =>
          if Z.even (zlen args) then (true, [], pset e d (PVMap (pairs_of args)), None)
          else (false, args, e, None)
      | PFloatMap d =>
          if Z.even (zlen args) then
            if forallb (fun kv => is_float (fst kv)) (pairs_of args)
            then (true, [], pset e d (PVMap (pairs_of args)), None)
            else (true, args, e, Some PErrFloat)
          else (false, args, e, None)
      | PFlag name d =>
          match args with
          | [] => (false, args, e, None)
          | a :: r => if equal_fold a name then (true, r, pset e d (PVBool true), None)
                      else (false, args, e, None)
          end
      | PNamed name ps =>
          match args with
          | [] => (false, args, e, None)
          | a :: r =>
              if negb (equal_fold a name) then (false, args, e, None)
              else
                (* run the sub-parsers in order; stop when the arguments run out *)
                let fix go (ps : list prim) (e : penv) (args : list bytes) (nfired : Z)
                  : (list bytes * penv * Z * option (bool * perr)) :=
                  match ps with
                  | [] => (args, e, nfired, None)
                  | q :: qs =>
                      let '(fired, args', e', err) := run_prim f q e args in
                      match err with
                      | Some er => (args', e', nfired, Some (fired, er))
                      | None =>
                          let nfired' := if fired then nfired + 1 else nfired in
                          match args' with
                          | [] => (args', e', nfired', None)
                          | _ => go qs e' args' nfired'
                          end
                      end
                  end in
                let '(args', e', nfired, err) := go ps e r 0 in
                match err with
                | Some (fired, er) => (fired, args', e', Some er)
                | None => if nfired =? zlen ps then (true, args', e', None)
                          else (true, args', e', Some PErrSyntax)
                end
          end
      | POneOf ps =>
          let fix go (ps : list prim) (e : penv) (args : list bytes) (nfired : Z)
            : (list bytes * penv * Z * option (bool * perr)) :=
            match ps with
            | [] => (args, e, nfired, None)
            | q :: qs =>
                let '(fired, args', e', err) := run_prim f q e args in
                match err with
                | Some er => (args', e', nfired, Some (fired, er))
                | None => go qs e' args' (if fired then nfired + 1 else nfired)
                end
            end in
          let '(args', e', nfired, err) := go ps e args 0 in
          match err with
          | Some (fired, er) => (fired, args', e', Some er)
          | None => if 1 <? nfired then (true, args', e', Some PErrSyntax)
                    else (0 <? nfired, args', e', None)
          end
      end
    end.

  Definition prim_fuel : nat := 8.   (* nesting depth of any tree in the source is 3 *)

  (* one round of Pipeline.Run: the first parser that fires (or fails) *)
  Fixpoint first_fired (ps : list prim) (seen : list prim) (e : penv) (args : list bytes)
    : option (list prim * list bytes * penv) + perr :=
    match ps with
    | [] => inl None
    | p :: rest =>
        let '(fired, args', e', err) := run_prim prim_fuel p e args in
        match err with
        | Some er => inr er
        | None => if fired then inl (Some (rev seen ++ rest, args', e'))
                  else first_fired rest (p :: seen) e' args'
        end
    end.

  Fixpoint run_loop (fuel : nat) (ps : list prim) (e : penv) (args : list bytes) : penv + perr :=
    match fuel with
    | O => inr PErrSyntax
    | S f =>
        match args, ps with
        | [], _ | _, [] => match args with [] => inl e | _ => inr PErrSyntax end
        | _, _ =>
            match first_fired ps [] e args with
            | inr er => inr er
            | inl None => inr PErrSyntax          (* nothing fired: arguments left over *)
            | inl (Some (ps', args', e')) => run_loop f ps' e' args'
            end
        end
    end.

  (* Pipeline.Run *)
  Definition run_pipeline (p : pipeline) (args : list bytes) : penv + perr :=
    if zlen args <? pl_required p then inr PErrArgNum
    else run_loop (S (List.length (pl_parsers p))) (pl_parsers p) [] args.
End Interp.
