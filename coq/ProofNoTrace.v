(* ProofNoTrace.v — C12: a read, a refusal or a "nothing to do" outcome leaves
   the database exactly as it was. *)
From Redka Require Import Base Db Glob ImplKey ImplString ImplList ImplSet ImplHash ImplZSet Ops Inv.
From Coq Require Import Lia ZifyBool.

(* ---------- lists ---------- *)

Lemma zlen_nil {A} (l : list A) : zlen l = 0 -> l = [].
Proof. destruct l as [|x r]; [reflexivity|]. unfold zlen. cbn [List.length]. lia. Qed.

Lemma filter_all {A} (p : A -> bool) (l : list A) :
  (forall x, p x = true) -> filter p l = l.
Proof.
  intro H. induction l as [|x r IH]; cbn [filter]; [reflexivity|].
  rewrite H, IH. reflexivity.
Qed.

Lemma filter_negb_nil {A} (p : A -> bool) (l : list A) :
  filter p l = [] -> filter (fun x => negb (p x)) l = l.
Proof.
  induction l as [|x r IH]; cbn [filter]; [reflexivity|].
  destruct (p x); [discriminate|]. intro H. cbn [negb]. rewrite (IH H). reflexivity.
Qed.

Lemma filter_zlen0 {A} (p : A -> bool) (l : list A) :
  zlen (filter p l) = 0 -> filter (fun x => negb (p x)) l = l.
Proof. intro H. apply filter_negb_nil, zlen_nil, H. Qed.

(* ---------- the record [db] ---------- *)

Lemma set_rkey_id d : set_rkey d (rkey d) = d.
Proof. destruct d; reflexivity. Qed.
Lemma set_rlist_id d : set_rlist d (rlist d) = d.
Proof. destruct d; reflexivity. Qed.

Lemma delete_keys_zero p d d' : delete_keys p d = (d', 0) -> d' = d.
Proof.
  unfold delete_keys. cbv zeta. intro H. injection H as H1 H2.
  apply zlen_nil in H2. apply map_eq_nil in H2. subst d'.
  rewrite H2. cbn [map]. rewrite (filter_negb_nil _ _ H2).
  destruct d as [k s l e h z f]. unfold set_rkey.
  cbn [rkey rstring rlist rset rhash rzset fk_on].
  destruct f; [|reflexivity].
  rewrite !filter_all by (intro; reflexivity). reflexivity.
Qed.

Lemma upd_keys_none p f d : filter p (rkey d) = [] -> upd_keys p f d = d.
Proof.
  unfold upd_keys. intro H.
  assert (E : map (fun r => if p r then f r else r) (rkey d) = rkey d).
  { induction (rkey d) as [|x r IH]; [reflexivity|]. cbn [filter] in H. cbn [map].
    destruct (p x); [discriminate|]. rewrite (IH H). reflexivity. }
  rewrite E. apply set_rkey_id.
Qed.

Lemma delete_rows_zero now kid victims d d' :
  delete_rows now kid victims d = (d', 0) -> d' = d.
Proof.
  unfold delete_rows. intro H. injection H as H1 H2.
  apply zlen_nil in H2. subst victims d'.
  rewrite filter_all by (intro; reflexivity).
  rewrite set_rlist_id. reflexivity.
Qed.

(* ---------- properties of monadic computations ---------- *)

(* never writes *)
Definition RO {A} (m : M A) := forall d, fst (m d) = d.
(* never answers "not found" *)
Definition NNF {A} (m : M A) := forall d, snd (m d) <> Err ENotFound.
(* has not written when it answers "not found" *)
Definition SNF {A} (m : M A) := forall d, snd (m d) = Err ENotFound -> fst (m d) = d.
(* has not written when it answers [v] *)
Definition OKV {A} (v : A) (m : M A) := forall d, snd (m d) = Ok v -> fst (m d) = d.

Lemma RO_SNF {A} (m : M A) : RO m -> SNF m.
Proof. intros H d _. apply H. Qed.
Lemma NNF_SNF {A} (m : M A) : NNF m -> SNF m.
Proof. intros H d E. destruct (H d E). Qed.
Lemma RO_OKV {A} (v : A) (m : M A) : RO m -> OKV v m.
Proof. intros H d _. apply H. Qed.

Lemma RO_ret {A} (a : A) : RO (ret a).
Proof. intro d. reflexivity. Qed.
Lemma RO_fail {A} e : RO (@fail A e).
Proof. intro d. reflexivity. Qed.
Lemma RO_lift_read {A} (f : db -> A) : RO (lift_read f).
Proof. intro d. reflexivity. Qed.
Lemma RO_get_db : RO get_db.
Proof. intro d. reflexivity. Qed.
Lemma NNF_ret {A} (a : A) : NNF (ret a).
Proof. intro d. discriminate. Qed.
Lemma NNF_fail {A} e : e <> ENotFound -> NNF (@fail A e).
Proof. intros H d. cbn. congruence. Qed.
Lemma NNF_lift_read {A} (f : db -> A) : NNF (lift_read f).
Proof. intro d. discriminate. Qed.
Lemma NNF_get_db : NNF get_db.
Proof. intro d. discriminate. Qed.

Lemma RO_bind {A B} (m : M A) (f : A -> M B) :
  RO m -> (forall a, RO (f a)) -> RO (bind m f).
Proof.
  intros Hm Hf d. unfold bind. specialize (Hm d). destruct (m d) as [d1 r].
  cbn [fst] in Hm. subst d1. destruct r as [a|e]; [apply (Hf a d) | reflexivity].
Qed.
Lemma RO_try {A B} (m : M A) (f : res A -> M B) :
  RO m -> (forall r, RO (f r)) -> RO (try_ m f).
Proof.
  intros Hm Hf d. unfold try_. specialize (Hm d). destruct (m d) as [d1 r].
  cbn [fst] in Hm. subst d1. apply (Hf r d).
Qed.
Lemma NNF_bind {A B} (m : M A) (f : A -> M B) :
  NNF m -> (forall a, NNF (f a)) -> NNF (bind m f).
Proof.
  intros Hm Hf d. unfold bind. specialize (Hm d). destruct (m d) as [d1 r].
  destruct r as [a|e]; [apply (Hf a d1) |].
  cbn [snd] in *. intro H. apply Hm. injection H as ->. reflexivity.
Qed.
Lemma NNF_try {A B} (m : M A) (f : res A -> M B) :
  (forall r, NNF (f r)) -> NNF (try_ m f).
Proof. intros Hf d. unfold try_. destruct (m d) as [d1 r]. apply (Hf r d1). Qed.
Lemma SNF_bind_RO {A B} (m : M A) (f : A -> M B) :
  RO m -> (forall a, SNF (f a)) -> SNF (bind m f).
Proof.
  intros Hm Hf d. unfold bind. specialize (Hm d). destruct (m d) as [d1 r].
  cbn [fst] in Hm. subst d1. destruct r as [a|e]; [apply (Hf a d) | intros _; reflexivity].
Qed.
Lemma SNF_bind_NNF {A B} (m : M A) (f : A -> M B) :
  SNF m -> (forall a, NNF (f a)) -> SNF (bind m f).
Proof.
  intros Hm Hf d. unfold bind. specialize (Hm d). destruct (m d) as [d1 r].
  destruct r as [a|e]; [intro H; destruct (Hf a d1 H) |].
  cbn [fst snd] in *. intro H. apply Hm. injection H as ->. reflexivity.
Qed.
Lemma SNF_try_RO {A B} (m : M A) (f : res A -> M B) :
  RO m -> (forall r, SNF (f r)) -> SNF (try_ m f).
Proof.
  intros Hm Hf d. unfold try_. specialize (Hm d). destruct (m d) as [d1 r].
  cbn [fst] in Hm. subst d1. apply (Hf r d).
Qed.
Lemma OKV_bind_RO {A B} (v : B) (m : M A) (f : A -> M B) :
  RO m -> (forall a, OKV v (f a)) -> OKV v (bind m f).
Proof.
  intros Hm Hf d. unfold bind. specialize (Hm d). destruct (m d) as [d1 r].
  cbn [fst] in Hm. subst d1. destruct r as [a|e]; [apply (Hf a d) | intros _; reflexivity].
Qed.
Lemma OKV_bind_ret {A B} (v w : B) (m : M A) :
  v <> w -> OKV v (bind m (fun _ => ret w)).
Proof.
  intros Hn d. unfold bind, ret. destruct (m d) as [d1 r].
  destruct r as [a|e]; cbn [snd]; intro H; [injection H as H; congruence | discriminate].
Qed.

(* ---------- tactics ---------- *)

(* destruct an innermost [match] scrutinee of the goal *)
Ltac dm :=
  match goal with
  | |- context [match ?x with _ => _ end] =>
      lazymatch x with
      | context [match _ with _ => _ end] => fail
      | _ => destruct x eqn:?
      end
  end.

Ltac mbrute :=
  repeat (cbv beta iota zeta; dm); cbv beta iota zeta; cbn [fst snd]; intros;
  try congruence; try reflexivity.

Ltac head t := lazymatch t with ?f _ => head f | _ => t end.

Create HintDb mdb.

Ltac ro :=
  cbv beta iota zeta;
  first
    [ solve [auto with mdb]
    | lazymatch goal with
      | |- RO (bind _ _) => apply RO_bind; [ro | intro; ro]
      | |- RO (try_ _ _) => apply RO_try; [ro | intro; ro]
      | |- RO (ret _) => apply RO_ret
      | |- RO (fail _) => apply RO_fail
      | |- RO (lift_read _) => apply RO_lift_read
      | |- RO get_db => apply RO_get_db
      | |- RO (match ?x with _ => _ end) => destruct x eqn:?; ro
      | |- RO (fun _ => _) => unfold RO; intro; mbrute
      | |- RO ?m => let h := head m in unfold h; ro
      end ].

Ltac nnf :=
  cbv beta iota zeta;
  first
    [ solve [auto with mdb]
    | lazymatch goal with
      | |- NNF (bind _ _) => apply NNF_bind; [nnf | intro; nnf]
      | |- NNF (try_ _ _) => apply NNF_try; intro; nnf
      | |- NNF (ret _) => apply NNF_ret
      | |- NNF (fail _) => apply NNF_fail; discriminate
      | |- NNF (lift_read _) => apply NNF_lift_read
      | |- NNF get_db => apply NNF_get_db
      | |- NNF (match ?x with _ => _ end) => destruct x eqn:?; nnf
      | |- NNF (fun _ => _) => unfold NNF; intro; mbrute
      | |- NNF ?m => let h := head m in unfold h; nnf
      end ].

Ltac snf :=
  cbv beta iota zeta;
  first
    [ solve [auto with mdb]
    | apply RO_SNF; solve [ro]
    | apply NNF_SNF; solve [nnf]
    | lazymatch goal with
      | |- SNF (bind _ _) =>
          first [ apply SNF_bind_RO; [solve [ro] | intro; snf]
                | apply SNF_bind_NNF; [snf | intro; solve [nnf]] ]
      | |- SNF (try_ _ _) => apply SNF_try_RO; [solve [ro] | intro; snf]
      | |- SNF (match ?x with _ => _ end) => destruct x eqn:?; snf
      | |- SNF (fun _ => _) => unfold SNF; intro; mbrute
      | |- SNF ?m => let h := head m in unfold h; snf
      end ].

(* ---------- the base statements ---------- *)

Lemma NNF_typed_upsert now key typ e l f : NNF (typed_error (upsert_key now key typ e l f)).
Proof.
  intro d. unfold typed_error, upsert_key.
  destruct (find_key (reset_expired now key typ d) key) as [r|]; [|discriminate].
  destruct (k_type r =? typ); cbn; discriminate.
Qed.
#[export] Hint Resolve NNF_typed_upsert : mdb.

(* ---------- rkey ---------- *)

Lemma RO_key_get now k : RO (key_get now k).
Proof. ro. Qed.
Lemma RO_key_random now c : RO (key_random now c).
Proof. ro. Qed.
Lemma NNF_key_delete now ks : NNF (key_delete now ks).
Proof. nnf. Qed.
Lemma NNF_key_delete_all b : NNF (key_delete_all b).
Proof. nnf. Qed.
Lemma NNF_key_delete_expired now n : NNF (key_delete_expired now n).
Proof. nnf. Qed.
Lemma SNF_key_expire_at now k a : SNF (key_expire_at now k a).
Proof. snf. Qed.
Lemma SNF_key_persist now k : SNF (key_persist now k).
Proof. snf. Qed.
Lemma NNF_sql_rename now k nk : NNF (sql_rename now k nk).
Proof. nnf. Qed.
#[export] Hint Resolve RO_key_get RO_key_random NNF_key_delete NNF_key_delete_all
  NNF_key_delete_expired SNF_key_expire_at SNF_key_persist NNF_sql_rename : mdb.
Lemma RO_key_exists now k : RO (key_exists now k).
Proof. ro. Qed.
Lemma NNF_key_exists now k : NNF (key_exists now k).
Proof. nnf. Qed.
#[export] Hint Resolve RO_key_exists NNF_key_exists : mdb.
Lemma SNF_key_rename now k nk : SNF (key_rename now k nk).
Proof. snf. Qed.
Lemma SNF_key_rename_nx now k nk : SNF (key_rename_nx now k nk).
Proof. snf. Qed.
#[export] Hint Resolve SNF_key_rename SNF_key_rename_nx : mdb.

(* ---------- rstring ---------- *)

Lemma RO_str_get now k : RO (str_get now k).
Proof. ro. Qed.
Lemma NNF_sql_set2 k v : NNF (sql_set2 k v).
Proof. nnf. Qed.
#[export] Hint Resolve RO_str_get NNF_sql_set2 : mdb.
Lemma NNF_str_set_at now k v a : NNF (str_set_at now k v a).
Proof. nnf. Qed.
Lemma NNF_str_update now k v : NNF (str_update now k v).
Proof. nnf. Qed.
#[export] Hint Resolve NNF_str_set_at NNF_str_update : mdb.
Lemma NNF_str_set_expires now k v t : NNF (str_set_expires now k v t).
Proof. nnf. Qed.
Lemma NNF_str_set_each now items : NNF (str_set_each now items).
Proof.
  induction items as [|[k v] r IH]; cbn [str_set_each]; [apply NNF_ret|].
  apply NNF_bind; [apply NNF_str_set_at | intro; exact IH].
Qed.
#[export] Hint Resolve NNF_str_set_expires NNF_str_set_each : mdb.
Lemma NNF_str_set_many now items : NNF (str_set_many now items).
Proof. nnf. Qed.
Lemma NNF_str_incr now k dl : NNF (str_incr now k dl).
Proof. nnf. Qed.
Lemma NNF_str_incr_float now k dl p f : NNF (str_incr_float now k dl p f).
Proof. nnf. Qed.
#[export] Hint Resolve NNF_str_set_many NNF_str_incr NNF_str_incr_float : mdb.

(* SetCmd.run answers through [out] directly *)
Lemma str_set_with_notfound now k v o d :
  o_err (snd (str_set_with now k v o d)) = Some ENotFound ->
  fst (str_set_with now k v o d) = d.
Proof.
  unfold str_set_with.
  destruct (negb (is_value_type v)); [discriminate|].
  destruct (str_get now k d) as [d0 r]. cbv zeta.
  destruct (so_ifx o && negb _); [discriminate|].
  destruct (so_ifnx o && _); [discriminate|].
  destruct (so_keep o).
  - pose proof (NNF_str_update now k v d) as N.
    destruct (str_update now k v d) as [d' w]. destruct w as [u|e]; [discriminate|].
    cbn [fst snd o_err out_both] in *. intro H. injection H as ->. congruence.
  - match goal with |- context [str_set_at now k v ?a d] =>
      pose proof (NNF_str_set_at now k v a d) as N;
      destruct (str_set_at now k v a d) as [d' w] end.
    destruct w as [u|e]; [discriminate|].
    cbn [fst snd o_err out_both] in *. intro H. injection H as ->. congruence.
Qed.

Lemma str_set_with_nothing now k v o d x :
  o_err (snd (str_set_with now k v o d)) = None ->
  o_val (snd (str_set_with now k v o d)) = VL [x; VB false; VB false] ->
  fst (str_set_with now k v o d) = d.
Proof.
  unfold str_set_with.
  destruct (negb (is_value_type v)); [discriminate|].
  destruct (str_get now k d) as [d0 r]. cbv zeta.
  destruct (so_ifx o && negb _); [reflexivity|].
  destruct (so_ifnx o && _); [reflexivity|].
  match goal with |- context [let '(d', w) := ?t in _] => destruct t as [d' w] end.
  destruct w as [u|e]; [|discriminate].
  cbn [fst snd o_err o_val out_ok]. intros _ H. exfalso.
  injection H as _ H1 H2. destruct (match r with Err ENotFound => false | _ => true end);
    discriminate.
Qed.

(* ---------- rlist ---------- *)

Lemma RO_bytes_arg v : RO (bytes_arg v).
Proof. ro. Qed.
Lemma NNF_bytes_arg v : NNF (bytes_arg v).
Proof. nnf. Qed.
Lemma NNF_scan_len r : NNF (scan_len r).
Proof. nnf. Qed.
Lemma NNF_insert_row kid p e : NNF (insert_row kid p e).
Proof. nnf. Qed.
#[export] Hint Resolve RO_bytes_arg NNF_bytes_arg NNF_scan_len NNF_insert_row : mdb.
Lemma NNF_list_push now k v fr : NNF (list_push now k v fr).
Proof. nnf. Qed.
Lemma SNF_list_pop now k b : SNF (list_pop now k b).
Proof. snf. Qed.
Lemma NNF_list_delete now k v : NNF (list_delete now k v).
Proof. nnf. Qed.
Lemma NNF_list_delete_n now k v n b : NNF (list_delete_n now k v n b).
Proof. nnf. Qed.
Lemma SNF_list_set now k i v : SNF (list_set now k i v).
Proof. snf. Qed.
Lemma NNF_list_trim now k a b : NNF (list_trim now k a b).
Proof. nnf. Qed.
Lemma RO_list_get now k i : RO (list_get now k i).
Proof. ro. Qed.
Lemma RO_list_len now k : RO (list_len now k).
Proof. ro. Qed.
Lemma RO_list_range now k a b : RO (list_range now k a b).
Proof. ro. Qed.
#[export] Hint Resolve NNF_list_push SNF_list_pop NNF_list_delete NNF_list_delete_n
  SNF_list_set NNF_list_trim RO_list_get RO_list_len RO_list_range : mdb.

Lemma list_pop_err now k b d e :
  snd (list_pop now k b d) = Err e -> fst (list_pop now k b d) = d.
Proof. unfold list_pop. mbrute. Qed.

Lemma list_insert_notfound now k p e a d :
  o_err (snd (list_insert now k p e a d)) = Some ENotFound ->
  fst (list_insert now k p e a d) = d.
Proof.
  unfold list_insert, insert_row, sql_insert.
  repeat (cbv beta iota zeta; dm); cbv beta iota zeta;
    cbn [fst snd o_err out_both out_ok]; intros; try discriminate; reflexivity.
Qed.

Lemma list_pop_push_notfound now s t d :
  o_err (snd (list_pop_push now s t d)) = Some ENotFound ->
  fst (list_pop_push now s t d) = d.
Proof.
  unfold list_pop_push.
  pose proof (list_pop_err now s true d) as P.
  destruct (list_pop now s true d) as [d1 r]. destruct r as [x|e].
  - pose proof (NNF_list_push now t (ABytes x) true d1) as N.
    destruct (list_push now t (ABytes x) true d1) as [d2 w].
    destruct w as [n|er]; [discriminate|].
    cbn [fst snd o_err out_both] in *. intro H. injection H as ->. congruence.
  - intros _. exact (P e eq_refl).
Qed.

(* ---------- rset ---------- *)

Lemma RO_bytes_args vs : RO (bytes_args vs).
Proof. ro. Qed.
Lemma NNF_bytes_args vs : NNF (bytes_args vs).
Proof. nnf. Qed.
Lemma NNF_set_add2 kid e : NNF (set_add2 kid e).
Proof. nnf. Qed.
#[export] Hint Resolve RO_bytes_args NNF_bytes_args NNF_set_add2 : mdb.
Lemma NNF_set_add_each kid es n : NNF (set_add_each kid es n).
Proof.
  revert n. induction es as [|e r IH]; intro n; cbn [set_add_each]; [apply NNF_ret|].
  apply NNF_bind; [apply NNF_set_add2 | intro; apply IH].
Qed.
Lemma NNF_set_add_all kid es : NNF (set_add_all kid es).
Proof.
  induction es as [|e r IH]; cbn [set_add_all]; [apply NNF_ret|].
  apply NNF_bind; [apply NNF_set_add2 | intro; apply IH].
Qed.
#[export] Hint Resolve NNF_set_add_each NNF_set_add_all : mdb.
Lemma NNF_set_add now k vs : NNF (set_add now k vs).
Proof. nnf. Qed.
Lemma NNF_set_delete now k vs : NNF (set_delete now k vs).
Proof. nnf. Qed.
Lemma RO_set_alg a now ks : RO (set_alg a now ks).
Proof. ro. Qed.
Lemma NNF_set_alg a now ks : NNF (set_alg a now ks).
Proof. nnf. Qed.
Lemma NNF_set_delete_key now k : NNF (set_delete_key now k).
Proof. nnf. Qed.
#[export] Hint Resolve NNF_set_add NNF_set_delete RO_set_alg NNF_set_alg NNF_set_delete_key : mdb.
Lemma NNF_set_replace now k es : NNF (set_replace now k es).
Proof. nnf. Qed.
#[export] Hint Resolve NNF_set_replace : mdb.
Lemma NNF_set_store a now dst ks : NNF (set_store a now dst ks).
Proof. nnf. Qed.
Lemma RO_set_exists now k v : RO (set_exists now k v).
Proof. ro. Qed.
Lemma RO_set_items now k : RO (set_items now k).
Proof. ro. Qed.
Lemma RO_set_len now k : RO (set_len now k).
Proof. ro. Qed.
Lemma SNF_set_pop now k c : SNF (set_pop now k c).
Proof. snf. Qed.
Lemma RO_set_random now k c : RO (set_random now k c).
Proof. ro. Qed.
Lemma RO_set_scan now k c p n : RO (set_scan now k c p n).
Proof. ro. Qed.
#[export] Hint Resolve NNF_set_store RO_set_exists RO_set_items RO_set_len SNF_set_pop
  RO_set_random RO_set_scan : mdb.

Ltac okv_fin :=
  try (match goal with H : Ok _ = Ok _ |- _ => injection H as H end; lia).

Lemma OKV_set_delete now k vs : OKV 0 (set_delete now k vs).
Proof.
  unfold set_delete. apply OKV_bind_RO; [ro|]. intro l. intro d. mbrute. okv_fin.
Qed.

Lemma SNF_set_move now s t v : SNF (set_move now s t v).
Proof.
  intro d. unfold set_move, bind.
  pose proof (OKV_set_delete now s [v] d) as Z.
  pose proof (NNF_set_delete now s [v] d) as N.
  destruct (set_delete now s [v] d) as [d1 r]. destruct r as [n|e].
  - destruct (n =? 0) eqn:En.
    + intros _. apply Z. cbn [snd]. f_equal. lia.
    + pose proof (NNF_set_add now t [v] d1) as N2.
      destruct (set_add now t [v] d1) as [d2 r2]. destruct r2 as [x|e]; [discriminate|].
      cbn [fst snd] in *. intro H. injection H as ->. congruence.
  - cbn [fst snd] in *. intro H. injection H as ->. congruence.
Qed.
#[export] Hint Resolve SNF_set_move : mdb.

(* ---------- rhash ---------- *)

Lemma NNF_hash_set2 kid f v : NNF (hash_set2 kid f v).
Proof. nnf. Qed.
Lemma RO_hash_get now k f : RO (hash_get now k f).
Proof. ro. Qed.
Lemma RO_hash_len now k : RO (hash_len now k).
Proof. ro. Qed.
Lemma NNF_hash_delete now k fs : NNF (hash_delete now k fs).
Proof. nnf. Qed.
#[export] Hint Resolve NNF_hash_set2 RO_hash_get RO_hash_len NNF_hash_delete : mdb.
Lemma NNF_hash_set_raw now k f v : NNF (hash_set_raw now k f v).
Proof. nnf. Qed.
#[export] Hint Resolve NNF_hash_set_raw : mdb.
Lemma NNF_hash_set_each now k items : NNF (hash_set_each now k items).
Proof.
  induction items as [|[f v] r IH]; cbn [hash_set_each]; [apply NNF_ret|].
  apply NNF_bind; [apply NNF_hash_set_raw | intro; exact IH].
Qed.
#[export] Hint Resolve NNF_hash_set_each : mdb.
Lemma RO_hash_exists now k f : RO (hash_exists now k f).
Proof. ro. Qed.
Lemma RO_hash_fields now k : RO (hash_fields now k).
Proof. ro. Qed.
Lemma RO_hash_values now k : RO (hash_values now k).
Proof. ro. Qed.
Lemma RO_hash_items now k : RO (hash_items now k).
Proof. ro. Qed.
Lemma RO_hash_get_many now k fs : RO (hash_get_many now k fs).
Proof. ro. Qed.
Lemma RO_hash_scan now k c p n : RO (hash_scan now k c p n).
Proof. ro. Qed.
Lemma NNF_hash_incr now k f dl : NNF (hash_incr now k f dl).
Proof. nnf. Qed.
Lemma NNF_hash_incr_float now k f dl p fm : NNF (hash_incr_float now k f dl p fm).
Proof. nnf. Qed.
Lemma NNF_hash_set now k f v : NNF (hash_set now k f v).
Proof. nnf. Qed.
Lemma NNF_hash_set_many now k items : NNF (hash_set_many now k items).
Proof. nnf. Qed.
Lemma NNF_hash_set_nx now k f v : NNF (hash_set_nx now k f v).
Proof. nnf. Qed.
#[export] Hint Resolve RO_hash_exists RO_hash_fields RO_hash_values RO_hash_items
  RO_hash_get_many RO_hash_scan NNF_hash_incr NNF_hash_incr_float NNF_hash_set
  NNF_hash_set_many NNF_hash_set_nx : mdb.

(* ---------- rzset ---------- *)

Lemma NNF_zset_upsert kid e s c : NNF (zset_upsert kid e s c).
Proof. nnf. Qed.
Lemma NNF_delete_zrows now k vs : NNF (delete_zrows now k vs).
Proof. nnf. Qed.
Lemma NNF_zset_delete_key now k : NNF (zset_delete_key now k).
Proof. nnf. Qed.
Lemma RO_zset_alg i g now ks : RO (zset_alg i g now ks).
Proof. ro. Qed.
Lemma NNF_zset_alg i g now ks : NNF (zset_alg i g now ks).
Proof. nnf. Qed.
Lemma RO_zset_len now k : RO (zset_len now k).
Proof. ro. Qed.
#[export] Hint Resolve NNF_zset_upsert NNF_delete_zrows NNF_zset_delete_key RO_zset_alg
  NNF_zset_alg RO_zset_len : mdb.
Lemma NNF_zset_add_raw now k v s : NNF (zset_add_raw now k v s).
Proof. nnf. Qed.
#[export] Hint Resolve NNF_zset_add_raw : mdb.
Lemma NNF_zset_add_each now k items : NNF (zset_add_each now k items).
Proof.
  induction items as [|[v s] r IH]; cbn [zset_add_each]; [apply NNF_ret|].
  apply NNF_bind; [apply NNF_zset_add_raw | intro; exact IH].
Qed.
Lemma NNF_zset_add_all kid rows : NNF (zset_add_all kid rows).
Proof.
  induction rows as [|x r IH]; cbn [zset_add_all]; [apply NNF_ret|].
  apply NNF_bind; [apply NNF_zset_upsert | intro; exact IH].
Qed.
#[export] Hint Resolve NNF_zset_add_each NNF_zset_add_all : mdb.
Lemma NNF_zset_add now k v s : NNF (zset_add now k v s).
Proof. nnf. Qed.
Lemma NNF_zset_add_many now k items : NNF (zset_add_many now k items).
Proof. nnf. Qed.
Lemma NNF_zset_delete now k vs : NNF (zset_delete now k vs).
Proof. nnf. Qed.
Lemma NNF_zset_delete_rank now k a b : NNF (zset_delete_rank now k a b).
Proof. nnf. Qed.
Lemma NNF_zset_delete_score now k lo hi : NNF (zset_delete_score now k lo hi).
Proof. nnf. Qed.
Lemma NNF_zset_incr now k v dl : NNF (zset_incr now k v dl).
Proof. nnf. Qed.
Lemma NNF_zset_store i g now dst ks : NNF (zset_store i g now dst ks).
Proof. nnf. Qed.
Lemma RO_zset_count now k lo hi : RO (zset_count now k lo hi).
Proof. ro. Qed.
Lemma RO_zset_get_rank now k v ds : RO (zset_get_rank now k v ds).
Proof. ro. Qed.
Lemma RO_zset_get_score now k v : RO (zset_get_score now k v).
Proof. ro. Qed.
Lemma RO_zset_range_rank now k a b ds : RO (zset_range_rank now k a b ds).
Proof. ro. Qed.
Lemma RO_zset_range_score now k lo hi ds off cnt : RO (zset_range_score now k lo hi ds off cnt).
Proof. ro. Qed.
Lemma RO_zset_scan now k c p n : RO (zset_scan now k c p n).
Proof. ro. Qed.
#[export] Hint Resolve NNF_zset_add NNF_zset_add_many NNF_zset_delete NNF_zset_delete_rank
  NNF_zset_delete_score NNF_zset_incr NNF_zset_store RO_zset_count RO_zset_get_rank
  RO_zset_get_score RO_zset_range_rank RO_zset_range_score RO_zset_scan : mdb.

(* ---------- "nothing to do" answers: a zero count / a false flag ---------- *)

Ltac okv_rows :=
  try (match goal with H : Ok _ = Ok _ |- _ => injection H as -> end;
       first [ eapply delete_rows_zero; eassumption | eapply delete_keys_zero; eassumption ]).

Lemma OKV_key_delete now ks : OKV 0 (key_delete now ks).
Proof. unfold key_delete. intro d. mbrute. okv_rows. Qed.
Lemma OKV_key_delete_expired now n : OKV 0 (key_delete_expired now n).
Proof. unfold key_delete_expired. intro d. mbrute; okv_rows. Qed.
Lemma OKV_key_rename_nx now k nk : OKV false (key_rename_nx now k nk).
Proof.
  unfold key_rename_nx. apply OKV_bind_RO; [ro|]. intro r.
  destruct (negb (key_struct_exists r)); [apply RO_OKV; ro|].
  destruct (String.eqb k nk); [apply RO_OKV; ro|].
  apply OKV_bind_RO; [ro|]. intro ex. destruct ex; [apply RO_OKV; ro|].
  apply OKV_bind_ret. discriminate.
Qed.
Lemma OKV_list_delete now k v : OKV 0 (list_delete now k v).
Proof. unfold list_delete. apply OKV_bind_RO; [ro|]. intros e d. mbrute; okv_rows. Qed.
Lemma OKV_list_delete_n now k v n b : OKV 0 (list_delete_n now k v n b).
Proof.
  unfold list_delete_n. destruct (n <=? 0); [apply RO_OKV; ro|].
  apply OKV_bind_RO; [ro|]. intros e d. mbrute; okv_rows.
Qed.
Lemma OKV_list_trim now k a b : OKV 0 (list_trim now k a b).
Proof. unfold list_trim. intro d. mbrute; okv_rows. Qed.
Lemma OKV_hash_delete now k fs : OKV 0 (hash_delete now k fs).
Proof. unfold hash_delete. intro d. mbrute; okv_fin. Qed.
Lemma OKV_hash_set_nx now k f v : OKV false (hash_set_nx now k f v).
Proof.
  unfold hash_set_nx. destruct (negb (is_value_type v)); [apply RO_OKV; ro|].
  apply OKV_bind_RO; [ro|]. intro ex. destruct ex; [apply RO_OKV; ro|].
  apply OKV_bind_ret. discriminate.
Qed.
Lemma OKV_zset_delete now k vs : OKV 0 (zset_delete now k vs).
Proof. unfold zset_delete. apply OKV_bind_RO; [ro|]. intros l d. mbrute; okv_fin. Qed.
Lemma OKV_delete_zrows now k vs : OKV 0 (delete_zrows now k vs).
Proof. unfold delete_zrows. intro d. mbrute; okv_fin. Qed.
Lemma OKV_zset_delete_rank now k a b : OKV 0 (zset_delete_rank now k a b).
Proof.
  unfold zset_delete_rank. destruct ((a <? 0) || (b <? 0)); [apply RO_OKV; ro|].
  destruct (b <? a); [apply RO_OKV; ro|].
  apply OKV_bind_RO; [ro|]. intro d. apply OKV_delete_zrows.
Qed.
Lemma OKV_zset_delete_score now k lo hi : OKV 0 (zset_delete_score now k lo hi).
Proof.
  unfold zset_delete_score. apply OKV_bind_RO; [ro|]. intro d. apply OKV_delete_zrows.
Qed.

(* ---------- from M to [out] ---------- *)

Lemma run_RO {A} (m : M A) f d : RO m -> fst (run m f d) = d.
Proof.
  intro H. unfold run. specialize (H d). destruct (m d) as [d' r].
  destruct r; exact H.
Qed.

Lemma run_SNF {A} (m : M A) f d :
  SNF m -> o_err (snd (run m f d)) = Some ENotFound -> fst (run m f d) = d.
Proof.
  intro H. unfold run. specialize (H d). destruct (m d) as [d' r].
  destruct r as [a|e]; cbn [fst snd o_err out_ok out_err] in *; intro E; [discriminate|].
  injection E as ->. apply H. reflexivity.
Qed.

Lemma run_OKV {A} (m : M A) (f : A -> rv) v d :
  (forall a, f a = f v -> a = v) -> OKV v m ->
  o_err (snd (run m f d)) = None -> o_val (snd (run m f d)) = f v -> fst (run m f d) = d.
Proof.
  intros I H. unfold run. specialize (H d). destruct (m d) as [d' r].
  destruct r as [a|e]; cbn [fst snd o_err o_val out_ok out_err] in *; intros E1 E2;
    [|discriminate].
  apply H. f_equal. apply I, E2.
Qed.

Lemma vi0 v : match v with VI 0 => true | _ => false end = true -> v = VI 0.
Proof. destruct v as [|z| | | | | |]; try discriminate. destruct z; try discriminate. reflexivity. Qed.
Lemma vbf v : match v with VB false => true | _ => false end = true -> v = VB false.
Proof. destruct v as [| |b| | | | |]; try discriminate. destruct b; try discriminate. reflexivity. Qed.
Lemma vlff v : match v with VL [_; VB false; VB false] => true | _ => false end = true ->
  exists x, v = VL [x; VB false; VB false].
Proof.
  intro H.
  repeat match type of H with
         | context [match ?x with _ => _ end] => destruct x; try discriminate H
         end.
  eexists; reflexivity.
Qed.

(* ---------- the theorems ---------- *)

Theorem read_no_trace : forall b now o d, is_read o = true -> fst (exec_tx b now o d) = d.
Proof.
  intros b now o d H. destruct o; try discriminate H; unfold exec_tx; apply run_RO; ro.
Qed.

Lemma read_not_wrapped o : is_read o = true -> wrapped o = false.
Proof. destruct o; intro H; try discriminate H; reflexivity. Qed.

(* "not found" at Tx level: nothing has been written *)
Lemma tx_notfound b now o d :
  is_read o = false -> o_err (snd (exec_tx b now o d)) = Some ENotFound ->
  fst (exec_tx b now o d) = d.
Proof.
  intros R H. destruct o; try discriminate R; unfold exec_tx in *;
    try (apply run_SNF; [snf | exact H]).
  - apply str_set_with_notfound, H.
  - apply list_insert_notfound, H.
  - apply list_insert_notfound, H.
  - apply list_pop_push_notfound, H.
Qed.

(* a successful call that reports nothing to do has written nothing *)
Lemma tx_ok_nothing b now o d :
  o_err (snd (exec_tx b now o d)) = None ->
  nothing_result o (snd (exec_tx b now o d)) = true ->
  fst (exec_tx b now o d) = d.
Proof.
  intros E N. unfold nothing_result in N. rewrite E in N.
  destruct o; cbv beta iota in N; try discriminate N; unfold exec_tx in *.
  all: try (apply vi0 in N; apply (run_OKV _ VI 0); [intros a I; injection I; auto | | exact E | exact N]).
  all: try (apply vbf in N; apply (run_OKV _ VB false); [intros a I; injection I; auto | | exact E | exact N]).
  - apply OKV_key_delete.
  - apply OKV_key_delete_expired.
  - apply OKV_key_rename_nx.
  - apply vlff in N. destruct N as [x N]. eapply str_set_with_nothing; eassumption.
  - apply OKV_list_delete.
  - apply OKV_list_delete_n.
  - apply OKV_list_delete_n.
  - apply OKV_list_trim.
  - apply OKV_set_delete.
  - apply OKV_hash_delete.
  - apply OKV_hash_set_nx.
  - apply OKV_zset_delete.
  - apply OKV_zset_delete_rank.
  - apply OKV_zset_delete_score.
Qed.

(* an unwrapped DB-level method is one statement: when it fails nothing changed *)
Lemma tx_err_unwrapped now o d :
  wrapped o = false -> is_err (snd (exec_tx false now o d)) = true ->
  fst (exec_tx false now o d) = d.
Proof.
  intros W H. destruct (is_read o) eqn:R; [apply read_no_trace, R|].
  destruct o; try discriminate W; try discriminate R; unfold exec_tx in *;
    unfold run, key_delete, key_delete_all, key_delete_expired, key_expire_at, key_persist in *;
    revert H; repeat (cbv beta iota zeta; dm); cbv beta iota zeta;
    cbn [fst snd is_err o_err out_ok out_err]; intros; try discriminate; reflexivity.
Qed.

Lemma exec_db_unwrapped now o d : wrapped o = false -> exec_db now o d = exec_tx false now o d.
Proof.
  intro W. unfold exec_db. rewrite W. destruct (exec_tx false now o d). reflexivity.
Qed.

Lemma exec_db_wrapped_ok now o d :
  wrapped o = true -> is_err (snd (exec_db now o d)) = false ->
  exec_db now o d = exec_tx true now o d.
Proof.
  intro W. unfold exec_db. rewrite W. destruct (exec_tx true now o d) as [d' r].
  cbn [andb]. destruct (is_err r) eqn:E; cbn [snd]; [congruence | reflexivity].
Qed.

Theorem db_error_no_trace : forall now o d,
  is_err (snd (exec_db now o d)) = true -> fst (exec_db now o d) = d.
Proof.
  intros now o d H. destruct (wrapped o) eqn:W.
  - unfold exec_db in *. rewrite W in *. destruct (exec_tx true now o d) as [d' r].
    cbn [andb] in *. destruct (is_err r) eqn:E; cbn [fst snd] in *; [reflexivity | congruence].
  - rewrite exec_db_unwrapped in * by exact W. apply tx_err_unwrapped; assumption.
Qed.

Theorem db_nothing_no_trace : forall now o d,
  o_err (snd (exec_db now o d)) = None -> nothing_result o (snd (exec_db now o d)) = true ->
  fst (exec_db now o d) = d.
Proof.
  intros now o d E N. destruct (wrapped o) eqn:W.
  - assert (X : exec_db now o d = exec_tx true now o d).
    { apply exec_db_wrapped_ok; [exact W|]. unfold is_err. rewrite E. reflexivity. }
    rewrite X in *. apply tx_ok_nothing; assumption.
  - rewrite exec_db_unwrapped in * by exact W. apply tx_ok_nothing; assumption.
Qed.

Theorem C12_no_trace_db : forall now o d,
  classify o (snd (exec_db now o d)) <> CChanged -> fst (exec_db now o d) = d.
Proof.
  intros now o d H. unfold classify in H.
  destruct (is_read o) eqn:R.
  - rewrite exec_db_unwrapped by (apply read_not_wrapped, R). apply read_no_trace, R.
  - destruct (o_err (snd (exec_db now o d))) as [e|] eqn:E.
    + apply db_error_no_trace. unfold is_err. rewrite E. reflexivity.
    + destruct (nothing_result o (snd (exec_db now o d))) eqn:N; [|congruence].
      apply db_nothing_no_trace; assumption.
Qed.

Theorem tx_nothing_no_trace : forall now o d,
  classify o (snd (exec_tx true now o d)) = CNothing -> fst (exec_tx true now o d) = d.
Proof.
  intros now o d H. unfold classify in H.
  destruct (is_read o) eqn:R; [discriminate|].
  destruct (o_err (snd (exec_tx true now o d))) as [e|] eqn:E.
  - destruct e; try discriminate H. apply tx_notfound; assumption.
  - destruct (nothing_result o (snd (exec_tx true now o d))) eqn:N; [|discriminate].
    apply tx_ok_nothing; assumption.
Qed.

Theorem C12_no_trace_tx : forall now o d,
  match classify o (snd (exec_tx true now o d)) with
  | CRead | CNothing => fst (exec_tx true now o d) = d
  | _ => True
  end.
Proof.
  intros now o d. destruct (classify o (snd (exec_tx true now o d))) eqn:C; try exact I.
  - unfold classify in C. destruct (is_read o) eqn:R; [apply read_no_trace, R|].
    destruct (o_err (snd (exec_tx true now o d))) as [[]|]; try discriminate C.
    destruct (nothing_result o (snd (exec_tx true now o d))); discriminate C.
  - apply tx_nothing_no_trace, C.
Qed.

Print Assumptions read_no_trace.
Print Assumptions db_error_no_trace.
Print Assumptions db_nothing_no_trace.
Print Assumptions C12_no_trace_db.
Print Assumptions tx_nothing_no_trace.
Print Assumptions C12_no_trace_tx.
