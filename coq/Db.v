(* Db.v — the six tables of internal/sqlx/schema.sql as row lists, the
   schema-level machinery (rowid allocation, foreign-key cascade, triggers) and
   the error monad in which the Go methods are written.  No proofs here. *)
From Redka Require Export Base.

(* rkey (id integer primary key, key text not null unique, type, version,
         etime integer NULL, mtime, len integer NULL) *)
Record keyrow := mkKey {
  k_id : Z; k_key : bytes; k_type : Z; k_ver : Z;
  k_etime : option Z; k_mtime : Z; k_len : option Z }.

Record srow := mkS { s_kid : Z; s_val : bytes }.                       (* rstring, unique (kid) *)
Record lrow := mkL { l_kid : Z; l_pos : float; l_elem : bytes }.       (* rlist, unique (kid,pos) *)
Record erow := mkE { e_rid : Z; e_kid : Z; e_elem : bytes }.           (* rset, unique (kid,elem) *)
Record hrow := mkH { h_rid : Z; h_kid : Z; h_field : bytes; h_val : bytes }. (* rhash, unique (kid,field) *)
Record zrow := mkZ { z_rid : Z; z_kid : Z; z_elem : bytes; z_score : float }. (* rzset, unique (kid,elem) *)

(* Rows are kept in ascending rowid order (SQLite hands out max+1, so an
   insert appends).  rstring / rlist rowids are never observable and are not
   modelled; rlist rows are kept in insertion order. *)
Record db := mkDb {
  rkey : list keyrow;
  rstring : list srow;
  rlist : list lrow;
  rset : list erow;
  rhash : list hrow;
  rzset : list zrow;
  fk_on : bool  (* pragma foreign_keys on the read-write connection in use *)
}.

Definition empty_db : db := mkDb [] [] [] [] [] [] true.

Definition set_rkey (d : db) (x : list keyrow) : db :=
  mkDb x (rstring d) (rlist d) (rset d) (rhash d) (rzset d) (fk_on d).
Definition set_rstring (d : db) (x : list srow) : db :=
  mkDb (rkey d) x (rlist d) (rset d) (rhash d) (rzset d) (fk_on d).
Definition set_rlist (d : db) (x : list lrow) : db :=
  mkDb (rkey d) (rstring d) x (rset d) (rhash d) (rzset d) (fk_on d).
Definition set_rset (d : db) (x : list erow) : db :=
  mkDb (rkey d) (rstring d) (rlist d) x (rhash d) (rzset d) (fk_on d).
Definition set_rhash (d : db) (x : list hrow) : db :=
  mkDb (rkey d) (rstring d) (rlist d) (rset d) x (rzset d) (fk_on d).
Definition set_rzset (d : db) (x : list zrow) : db :=
  mkDb (rkey d) (rstring d) (rlist d) (rset d) (rhash d) x (fk_on d).
Definition set_fk (d : db) (b : bool) : db :=
  mkDb (rkey d) (rstring d) (rlist d) (rset d) (rhash d) (rzset d) b.

(* ---------- the error monad of a Go method: partial effects stay ---------- *)

Definition M (A : Type) := db -> db * res A.
Definition ret {A} (a : A) : M A := fun d => (d, Ok a).
Definition fail {A} (e : err) : M A := fun d => (d, Err e).
Definition bind {A B} (m : M A) (f : A -> M B) : M B :=
  fun d => let '(d1, r) := m d in
           match r with Ok a => f a d1 | Err e => (d1, Err e) end.
Notation "x <- m ;; f" := (bind m (fun x => f)) (at level 61, m at next level, right associativity).
Notation "m ;;; f" := (bind m (fun _ => f)) (at level 61, right associativity).
(* run [m] and hand its result, error included, to the continuation *)
Definition try_ {A B} (m : M A) (f : res A -> M B) : M B :=
  fun d => let '(d1, r) := m d in f r d1.
Definition get_db : M db := fun d => (d, Ok d).
Definition put_db (d' : db) : M unit := fun _ => (d', Ok tt).
Definition lift_read {A} (f : db -> A) : M A := fun d => (d, Ok (f d)).

(* sqlx.DB.execTx: commit on success, roll back on any error *)
Definition with_tx {A} (m : M A) : M A :=
  fun d => let '(d1, r) := m d in
           match r with Ok a => (d1, Ok a) | Err e => (d, Err e) end.

(* ---------- keys ---------- *)

Definition T_STRING := 1. Definition T_LIST := 2. Definition T_SET := 3.
Definition T_HASH := 4. Definition T_ZSET := 5.

(* "etime is null or etime > now" *)
Definition live (now : Z) (r : keyrow) : bool :=
  match k_etime r with None => true | Some e => now <? e end.
(* "etime <= now" (NULL is not <= anything) *)
Definition expired (now : Z) (r : keyrow) : bool :=
  match k_etime r with None => false | Some e => e <=? now end.

(* lookup through the unique index on rkey(key) *)
Definition find_key (d : db) (key : bytes) : option keyrow :=
  find (fun r => String.eqb (k_key r) key) (rkey d).
Definition find_id (d : db) (id : Z) : option keyrow :=
  find (fun r => k_id r =? id) (rkey d).

(* "select id from rkey where key = ? and type = T and (etime is null or etime > ?)" *)
Definition live_key (now : Z) (d : db) (key : bytes) (typ : Z) : option keyrow :=
  match find_key d key with
  | Some r => if (k_type r =? typ) && live now r then Some r else None
  | None => None
  end.
(* same without the type filter *)
Definition live_any (now : Z) (d : db) (key : bytes) : option keyrow :=
  match find_key d key with
  | Some r => if live now r then Some r else None
  | None => None
  end.

Definition next_key_id (d : db) : Z := zmax_list (map k_id (rkey d)) + 1.

(* update the rows of rkey that satisfy [p] *)
Definition upd_keys (p : keyrow -> bool) (f : keyrow -> keyrow) (d : db) : db :=
  set_rkey d (map (fun r => if p r then f r else r) (rkey d)).
Definition upd_key_id (id : Z) (f : keyrow -> keyrow) (d : db) : db :=
  upd_keys (fun r => k_id r =? id) f d.
Definition count_keys (p : keyrow -> bool) (d : db) : Z :=
  zlen (filter p (rkey d)).

Definition opt_add (o : option Z) (n : Z) : option Z :=
  match o with Some x => Some (x + n) | None => None end.

Definition with_ver (r : keyrow) (v : Z) := mkKey (k_id r) (k_key r) (k_type r) v (k_etime r) (k_mtime r) (k_len r).
Definition with_etime (r : keyrow) (e : option Z) := mkKey (k_id r) (k_key r) (k_type r) (k_ver r) e (k_mtime r) (k_len r).
Definition with_mtime (r : keyrow) (m : Z) := mkKey (k_id r) (k_key r) (k_type r) (k_ver r) (k_etime r) m (k_len r).
Definition with_len (r : keyrow) (l : option Z) := mkKey (k_id r) (k_key r) (k_type r) (k_ver r) (k_etime r) (k_mtime r) l.
Definition with_key (r : keyrow) (k : bytes) := mkKey (k_id r) k (k_type r) (k_ver r) (k_etime r) (k_mtime r) (k_len r).

(* ---------- foreign keys: "on delete cascade" from rkey to the five tables ---------- *)

Definition zmem (x : Z) (l : list Z) : bool := existsb (Z.eqb x) l.

(* remove the rkey rows satisfying [p]; with foreign_keys on, their children go too *)
Definition delete_keys (p : keyrow -> bool) (d : db) : db * Z :=
  let gone := map k_id (filter p (rkey d)) in
  let d1 := set_rkey d (filter (fun r => negb (p r)) (rkey d)) in
  let d2 :=
    if fk_on d then
      mkDb (rkey d1)
           (filter (fun r => negb (zmem (s_kid r) gone)) (rstring d1))
           (filter (fun r => negb (zmem (l_kid r) gone)) (rlist d1))
           (filter (fun r => negb (zmem (e_kid r) gone)) (rset d1))
           (filter (fun r => negb (zmem (h_kid r) gone)) (rhash d1))
           (filter (fun r => negb (zmem (z_kid r) gone)) (rzset d1))
           (fk_on d1)
    else d1 in
  (d2, zlen gone).

(* rlist_on_delete, fired once per deleted row: version+1, mtime, len-1 *)
Definition trig_list_delete (now : Z) (kid : Z) (n : Z) (d : db) : db :=
  if n =? 0 then d else
  upd_key_id kid (fun r => with_len (with_mtime (with_ver r (k_ver r + n)) now) (opt_add (k_len r) (- n))) d.

(* rkey_on_insert (BEFORE INSERT on rkey, WHEN the row holding new.key has
   etime <= new.mtime): the expired row loses its elements (the rlist deletes
   fire rlist_on_delete), its expiry and its type; the insert then merges into
   it through "on conflict" as into an empty key of the new type. *)
Definition reset_expired (now : Z) (key : bytes) (typ : Z) (d : db) : db :=
  match find_key d key with
  | Some r =>
      if expired now r then
        let id := k_id r in
        let nl := zlen (filter (fun x => l_kid x =? id) (rlist d)) in
        let d1 := mkDb (rkey d)
                       (filter (fun x => negb (s_kid x =? id)) (rstring d))
                       (filter (fun x => negb (l_kid x =? id)) (rlist d))
                       (filter (fun x => negb (e_kid x =? id)) (rset d))
                       (filter (fun x => negb (h_kid x =? id)) (rhash d))
                       (filter (fun x => negb (z_kid x =? id)) (rzset d))
                       (fk_on d) in
        let d2 := trig_list_delete now id nl d1 in
        upd_key_id id (fun x => mkKey (k_id x) (k_key x) typ (k_ver x) None (k_mtime x)
                                      (if typ =? 1 then None else Some 0)) d2
      else d
  | None => d
  end.

(* ---------- the type-guarded upsert every creating write starts with ----------
   insert into rkey (key, type, version, etime?, mtime, len?) values (...)
   on conflict (key) do update set
     type = case when type = excluded.type then type else null end,
     version = version+1, [etime = excluded.etime,] mtime = excluded.mtime [, len = len+1]
   A type mismatch makes [type] NULL, the NOT NULL constraint aborts the statement
   and nothing changes (the trigger's work included: the statement is atomic).
   The conflict branch never looks at etime; an expired row has been reset by
   the rkey_on_insert trigger before. *)
Definition upsert_key (now : Z) (key : bytes) (typ : Z)
           (new_etime : option Z) (new_len : option Z)
           (on_conflict : keyrow -> keyrow) : M keyrow :=
  fun d0 =>
    let d := reset_expired now key typ d0 in
    match find_key d key with
    | None =>
        let r := mkKey (next_key_id d) key typ 1 new_etime now new_len in
        (set_rkey d (rkey d ++ [r]), Ok r)
    | Some r =>
        if k_type r =? typ then
          let r' := on_conflict (with_mtime (with_ver r (k_ver r + 1)) now) in
          (upd_key_id (k_id r) (fun _ => r') d, Ok r')
        else (d0, Err (ESql (SqNotNull "rkey.type")))
    end.

(* sqlx.TypedError *)
Definition typed_error {A} (m : M A) : M A :=
  fun d => let '(d1, r) := m d in
           match r with
           | Err (ESql (SqNotNull "rkey.type")) => (d1, Err EKeyType)
           | _ => (d1, r)
           end.

(* "update rkey set version = version+1, mtime = ?, len = len - ? where key = ?
    and type = T and live" (the sqlDelete2 shared by sets, hashes, sorted sets) *)
Definition bump_key_len (now : Z) (key : bytes) (typ : Z) (n : Z) (d : db) : db :=
  upd_keys (fun r => String.eqb (k_key r) key && (k_type r =? typ) && live now r)
           (fun r => with_len (with_mtime (with_ver r (k_ver r + 1)) now) (opt_add (k_len r) (- n))) d.
