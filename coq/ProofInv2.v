From Redka Require Import Base Db Glob ImplKey ImplString ImplList ImplSet ImplHash ImplZSet Ops Inv Refine ProofNoTrace ProofInv.
From Coq Require Import Lia ZifyBool.
From Coq Require Import Permutation Floats.

Definition fam_list (o : op) : bool :=
  match o with
  | LDelete _ _ | LDeleteBack _ _ _ | LDeleteFront _ _ _ | LGet _ _ | LInsertAfter _ _ _
  | LInsertBefore _ _ _ | LLen _ | LPopBack _ | LPopBackPushFront _ _ | LPopFront _
  | LPushBack _ _ | LPushFront _ _ | LRange _ _ _ | LSet _ _ _ | LTrim _ _ _ => true
  | _ => false
  end.
Definition fam_zset (o : op) : bool :=
  match o with
  | ZAdd _ _ _ | ZAddMany _ _ | ZCount _ _ _ | ZDelete _ _ | ZDeleteRank _ _ _ | ZDeleteScore _ _ _
  | ZGetRank _ _ _ | ZGetScore _ _ | ZIncr _ _ _ | ZAlg _ _ _ | ZStore _ _ _ _ | ZLen _
  | ZRangeRank _ _ _ _ | ZRangeScore _ _ _ _ _ _ | ZScan _ _ _ _ => true
  | _ => false
  end.

(* ================================================================== *)
(* Part 1: more list library                                          *)
(* ================================================================== *)

Lemma perm_insert_sorted {A} (le : A -> A -> bool) x l :
  Permutation (insert_sorted le x l) (x :: l).
Proof.
  induction l as [|y r IH]; cbn [insert_sorted]; [apply Permutation_refl|].
  destruct (le x y); [apply Permutation_refl|].
  eapply Permutation_trans; [apply perm_skip; exact IH | apply perm_swap].
Qed.

Lemma perm_isort {A} (le : A -> A -> bool) l : Permutation (isort le l) l.
Proof.
  induction l as [|x r IH]; cbn [isort]; [apply Permutation_refl|].
  eapply Permutation_trans; [apply perm_insert_sorted | apply perm_skip; exact IH].
Qed.

Lemma In_isort {A} (le : A -> A -> bool) l x : In x (isort le l) -> In x l.
Proof. apply Permutation_in. apply perm_isort. Qed.

Lemma NoDup_isort {A} (le : A -> A -> bool) l : NoDup l -> NoDup (isort le l).
Proof. apply Permutation_NoDup. apply Permutation_sym. apply perm_isort. Qed.

Lemma In_ztake {A} n (l : list A) x : In x (ztake n l) -> In x l.
Proof.
  revert n. induction l as [|y r IH]; intros n; cbn [ztake]; [tauto|].
  destruct (n <=? 0); [intros [] |]. intros [E | H]; [left; exact E | right; eapply IH; exact H].
Qed.

Lemma NoDup_ztake {A} n (l : list A) : NoDup l -> NoDup (ztake n l).
Proof.
  revert n. induction l as [|y r IH]; intros n H; cbn [ztake]; [constructor|].
  destruct (n <=? 0); [constructor|]. inversion H as [|? ? Hn Hr]; subst.
  constructor; [| apply IH; exact Hr]. intros Hin. apply Hn. eapply In_ztake; exact Hin.
Qed.

Lemma In_zdrop {A} n (l : list A) x : In x (zdrop n l) -> In x l.
Proof.
  revert n. induction l as [|y r IH]; intros n; cbn [zdrop]; [tauto|].
  destruct (n <=? 0); [tauto|]. intros H. right. eapply IH; exact H.
Qed.

Lemma NoDup_zdrop {A} n (l : list A) : NoDup l -> NoDup (zdrop n l).
Proof.
  revert n. induction l as [|y r IH]; intros n H; cbn [zdrop]; [constructor|].
  destruct (n <=? 0); [exact H|]. inversion H; subst. apply IH; assumption.
Qed.

Lemma In_sql_limit {A} off cnt (l : list A) x : In x (sql_limit off cnt l) -> In x l.
Proof.
  unfold sql_limit. destruct (cnt <? 0); intros H.
  - eapply In_zdrop; exact H.
  - eapply In_zdrop. eapply In_ztake. exact H.
Qed.

Lemma NoDup_sql_limit {A} off cnt (l : list A) : NoDup l -> NoDup (sql_limit off cnt l).
Proof.
  intros H. unfold sql_limit. destruct (cnt <? 0).
  - apply NoDup_zdrop; exact H.
  - apply NoDup_ztake, NoDup_zdrop; exact H.
Qed.

(* the rows selected by [hit] are exactly the (distinct) victims *)
Lemma zlen_filter_sub {A} (hit : A -> bool) (l vs : list A) :
  NoDup l -> NoDup vs ->
  (forall x, In x l -> hit x = true -> In x vs) ->
  (forall v, In v vs -> In v l /\ hit v = true) ->
  zlen (filter hit l) = zlen vs.
Proof.
  intros Nl Nv H1 H2. unfold zlen. f_equal. apply Permutation_length.
  apply NoDup_Permutation; [apply NoDup_filter'; exact Nl | exact Nv |].
  intros x. rewrite filter_In. split.
  - intros [Hx Hh]. apply H1; assumption.
  - apply H2.
Qed.

Lemma cntz_filter_hit_in {A} (f : A -> Z) (hit : A -> bool) kid0 id tbl :
  (forall x, In x tbl -> hit x = true -> f x = kid0) ->
  cntz id (map f (filter (fun x => negb (hit x)) tbl)) =
  cntz id (map f tbl) - (if id =? kid0 then zlen (filter hit tbl) else 0).
Proof.
  induction tbl as [|x r IH]; intros Hh; cbn [map filter].
  - rewrite cntz_nil. change (zlen (@nil A)) with 0. destruct (id =? kid0); reflexivity.
  - assert (IH' := IH (fun y Hy => Hh y (or_intror Hy))). clear IH.
    destruct (hit x) eqn:Hx; cbn [map filter negb].
    + rewrite IH', cntz_cons. rewrite (Hh x (or_introl eq_refl) Hx).
      rewrite (Z.eqb_sym kid0 id). destruct (id =? kid0); [rewrite zlen_cons|]; lia.
    + rewrite !cntz_cons, IH'. lia.
Qed.

Lemma map_fresh (ks : list keyrow) (f : keyrow -> keyrow) :
  map (fun x => if k_id x =? zmax_list (map k_id ks) + 1 then f x else x) ks = ks.
Proof.
  transitivity (map (fun x : keyrow => x) ks); [| apply map_id].
  apply map_ext_in. intros x Hx.
  assert (k_id x <= zmax_list (map k_id ks)) by (apply zmax_ge, in_map, Hx).
  destruct (Z.eqb_spec (k_id x) (zmax_list (map k_id ks) + 1)); [lia | reflexivity].
Qed.

(* ================================================================== *)
(* Part 2: list rows                                                  *)
(* ================================================================== *)

Lemma kidsOf_set_rlist d x T :
  kidsOf (set_rlist d x) T = if T =? 2 then map l_kid x else kidsOf d T.
Proof.
  unfold kidsOf.
  destruct (Z.eqb_spec T 1); [subst; reflexivity|].
  destruct (T =? 2); reflexivity.
Qed.

Lemma kidsOf_set_rzset d x T :
  kidsOf (set_rzset d x) T = if T =? 5 then map z_kid x else kidsOf d T.
Proof.
  unfold kidsOf.
  destruct (Z.eqb_spec T 1); [subst; reflexivity|].
  destruct (Z.eqb_spec T 2); [subst; reflexivity|].
  destruct (Z.eqb_spec T 3); [subst; reflexivity|].
  destruct (Z.eqb_spec T 4); [subst; reflexivity|].
  destruct (T =? 5); reflexivity.
Qed.

Definition HasList (kid : Z) (d : db) : Prop :=
  exists r, In r (rkey d) /\ k_id r = kid /\ k_type r = 2.
Definition HasZ (kid : Z) (d : db) : Prop :=
  exists r, In r (rkey d) /\ k_id r = kid /\ k_type r = 5.

Lemma eqL_same a b : same_row a b = eqL a b.
Proof. reflexivity. Qed.

Lemma nodup_by_eq {A} (eq : A -> A -> bool) l a b :
  (forall x y, eq x y = eq y x) ->
  nodup_by eq l = true -> In a l -> In b l -> eq a b = true -> a = b.
Proof.
  intros Hs. induction l as [|x r IH]; intros ND Ha Hb E; [destruct Ha|].
  cbn [nodup_by] in ND. apply andb_true_iff in ND as [N1 N2]. apply negb_true_iff in N1.
  assert (K : forall y, In y r -> eq x y = false).
  { intros y Hy. destruct (eq x y) eqn:Q; [|reflexivity].
    assert (existsb (eq x) r = true) by (apply existsb_exists; exists y; auto). congruence. }
  destruct Ha as [<- | Ha], Hb as [<- | Hb].
  - reflexivity.
  - rewrite (K b Hb) in E. discriminate.
  - rewrite Hs, (K a Ha) in E. discriminate.
  - apply IH; assumption.
Qed.

(* symmetry of the binary64 equality test, from the standard specification of
   primitive floats (Coq.Floats.FloatAxioms) *)
Lemma SFeqb_sym x y : SFeqb x y = SFeqb y x.
Proof.
  unfold SFeqb, SFcompare.
  destruct x as [sx|sx| |sx mx ex], y as [sy|sy| |sy my ey];
    try destruct sx; try destruct sy; try reflexivity;
    change (Pos.compare_cont Eq mx my) with (Pos.compare mx my);
    change (Pos.compare_cont Eq my mx) with (Pos.compare my mx);
    rewrite (Z.compare_antisym ex ey), (Pos.compare_antisym mx my);
    destruct (ex ?= ey); cbn; try reflexivity; destruct (mx ?= my)%positive; reflexivity.
Qed.

Lemma feqb_sym (a b : float) : (a =? b)%float = (b =? a)%float.
Proof. rewrite !FloatAxioms.eqb_spec. apply SFeqb_sym. Qed.

Lemma eqL_sym a b : eqL a b = eqL b a.
Proof. unfold eqL. rewrite (Z.eqb_sym (l_kid a)), (feqb_sym (l_pos a)). reflexivity. Qed.

Lemma TL_refl l x : TL l -> In x l -> eqL x x = true.
Proof.
  intros [_ B] Hx. rewrite forallb_forall in B. unfold eqL. rewrite Z.eqb_refl, (B x Hx). reflexivity.
Qed.

Lemma TL_inj l a b : TL l -> In a l -> In b l -> eqL a b = true -> a = b.
Proof. intros [A _]. apply nodup_by_eq; [exact eqL_sym | exact A]. Qed.

Lemma TL_NoDup l : TL l -> NoDup l.
Proof.
  induction l as [|x r IH]; intros T; [constructor|].
  pose proof (TL_refl _ x T (or_introl eq_refl)) as Rx.
  destruct T as [A B]. cbn [nodup_by forallb] in A, B.
  apply andb_true_iff in A as [A1 A2]. apply andb_true_iff in B as [B1 B2].
  constructor; [| apply IH; split; assumption].
  intros Hin. apply negb_true_iff in A1.
  assert (existsb (eqL x) r = true) by (apply existsb_exists; exists x; auto). congruence.
Qed.

(* the rows handed to delete_rows: distinct rows of the table, all of one key *)
Definition Vict (d : db) (kid : Z) (vs : list lrow) : Prop :=
  NoDup vs /\ forall v, In v vs -> In v (rlist d) /\ l_kid v = kid.

Lemma Vict_rows d kid : TL (rlist d) -> Vict d kid (list_rows d kid).
Proof.
  intros T. split.
  - apply NoDup_filter'. apply TL_NoDup. exact T.
  - intros v Hv. apply filter_In in Hv as [H1 H2]. split; [exact H1 | lia].
Qed.

Lemma Vict_sub d kid l vs :
  Vict d kid l -> NoDup vs -> (forall v, In v vs -> In v l) -> Vict d kid vs.
Proof. intros [_ H] N Hs. split; [exact N|]. intros v Hv. apply H, Hs, Hv. Qed.

Lemma delete_rows_count d kid vs :
  TL (rlist d) -> Vict d kid vs ->
  zlen (filter (fun r => existsb (same_row r) vs) (rlist d)) = zlen vs.
Proof.
  intros T [N H]. apply zlen_filter_sub; [apply TL_NoDup; exact T | exact N | |].
  - intros x Hx Hh. apply existsb_exists in Hh as [v [Hv E]].
    assert (x = v); [| subst; exact Hv].
    apply (TL_inj (rlist d)); [exact T | exact Hx | apply H; exact Hv | exact E].
  - intros v Hv. destruct (H v Hv) as [H1 _]. split; [exact H1|].
    apply existsb_exists. exists v. split; [exact Hv|]. apply (TL_refl (rlist d)); assumption.
Qed.

Lemma HI_delete_rows now kid vs d :
  HI d -> HasList kid d -> Vict d kid vs -> HI (fst (delete_rows now kid vs d)).
Proof.
  intros I Hex V. unfold delete_rows. cbn [fst]. rewrite trig_list_delete_eq.
  pose proof I as [A L E H ZZ FK].
  set (hit := fun r => existsb (same_row r) vs).
  set (F := fun r => if k_id r =? kid then trigG now (zlen vs) r else r).
  constructor; try assumption.
  - change (AInv None (map F (rkey d))
              (kidsOf (set_rlist d (filter (fun r => negb (hit r)) (rlist d))))).
    apply (AInv_adjust None (rkey d) (kidsOf d) _ F 2 kid (- zlen vs)); auto; try lia.
    + intros T NE. rewrite kidsOf_set_rlist. destruct (Z.eqb_spec T 2); [contradiction | reflexivity].
    + intros k. rewrite kidsOf_set_rlist. change (2 =? 2) with true. cbv iota.
      intros Hk. left. apply in_map_iff in Hk as [y [<- Hy]]. apply filter_In in Hy as [Hy _].
      change (kidsOf d 2) with (map l_kid (rlist d)). apply in_map; exact Hy.
    + intros id. rewrite kidsOf_set_rlist. change (2 =? 2) with true. cbv iota.
      change (kidsOf d 2) with (map l_kid (rlist d)).
      rewrite (cntz_filter_hit_in l_kid hit kid id (rlist d)).
      * unfold hit. rewrite (delete_rows_count d kid vs L V). destruct (id =? kid); lia.
      * intros x Hx Hh. apply existsb_exists in Hh as [v [Hv Ev]].
        destruct V as [_ V]. destruct (V v Hv) as [_ Kv].
        unfold same_row in Ev. lia.
    + intros r Hr Hne. unfold F. destruct (Z.eqb_spec (k_id r) kid); [contradiction | reflexivity].
    + intros r Hr Heq. unfold F. rewrite Heq, Z.eqb_refl. unfold trigG.
      destruct (Z.eqb_spec (zlen vs) 0) as [Z0|Z0]; cbn.
      * repeat split; auto. intros ->. f_equal. lia.
      * repeat split; auto. intros ->. reflexivity.
  - apply TL_filter. exact L.
Qed.

Lemma HasList_live now d key k :
  live_key now d key T_LIST = Some k -> HasList (k_id k) d.
Proof. intros LK. apply live_key_some in LK as [Hk [Kk [Tk Lk]]]. exists k. auto. Qed.

Lemma HI_delete_rows_run now kid vs d d' n :
  HI d -> HasList kid d -> Vict d kid vs -> delete_rows now kid vs d = (d', n) -> HI d'.
Proof.
  intros I Hex V E. change d' with (fst (d', n)). rewrite <- E. apply HI_delete_rows; assumption.
Qed.

(* ---- the deleting list operations ---- *)

Lemma Vict_sorted d kid (le : lrow -> lrow -> bool) :
  TL (rlist d) -> Vict d kid (isort le (list_rows d kid)).
Proof.
  intros T. apply (Vict_sub d kid (list_rows d kid)); [apply Vict_rows; exact T | |].
  - apply NoDup_isort. apply (Vict_rows d kid T).
  - intros v. apply In_isort.
Qed.

Lemma Vict_filter d kid p l : Vict d kid l -> Vict d kid (filter p l).
Proof.
  intros V. apply (Vict_sub d kid l _ V).
  - apply NoDup_filter'. apply V.
  - intros v Hv. apply filter_In in Hv. tauto.
Qed.

Lemma Vict_ztake d kid n l : Vict d kid l -> Vict d kid (ztake n l).
Proof.
  intros V. apply (Vict_sub d kid l _ V).
  - apply NoDup_ztake. apply V.
  - intros v. apply In_ztake.
Qed.

Lemma Vict_one d kid l r : Vict d kid l -> In r l -> Vict d kid [r].
Proof.
  intros V Hr. apply (Vict_sub d kid l _ V).
  - constructor; [intros [] | constructor].
  - intros v [<- | []]. exact Hr.
Qed.

Lemma pres_list_delete now key v : pres (list_delete now key v).
Proof.
  unfold list_delete. apply hoare_bind_read; [apply RO_bytes_arg|]. intros elemb.
  intros d d' a I.
  destruct (live_key now d key T_LIST) as [k|] eqn:LK.
  2:{ intros E. inversion E; subst. exact I. }
  destruct elemb as [e|].
  2:{ intros E. inversion E; subst. exact I. }
  match goal with |- context [delete_rows now ?kid ?vs d] =>
    destruct (delete_rows now kid vs d) as [d1 n] eqn:DR end.
  intros E. inversion E; subst d1 n; clear E.
  eapply HI_delete_rows_run; [exact I | eapply HasList_live; exact LK | | exact DR].
  apply Vict_filter. apply Vict_rows. apply I.
Qed.

Lemma pres_list_delete_n now key v count back : pres (list_delete_n now key v count back).
Proof.
  unfold list_delete_n. destruct (count <=? 0); [apply hoare_ret; auto|].
  apply hoare_bind_read; [apply RO_bytes_arg|]. intros elemb.
  intros d d' a I.
  destruct (live_key now d key T_LIST) as [k|] eqn:LK.
  2:{ intros E. inversion E; subst. exact I. }
  destruct elemb as [e|].
  2:{ intros E. inversion E; subst. exact I. }
  match goal with |- context [delete_rows now ?kid ?vs d] =>
    destruct (delete_rows now kid vs d) as [d1 n] eqn:DR end.
  intros E. inversion E; subst d1 n; clear E.
  eapply HI_delete_rows_run; [exact I | eapply HasList_live; exact LK | | exact DR].
  apply Vict_ztake, Vict_filter.
  destruct back; apply Vict_sorted; apply I.
Qed.

Lemma pres_list_pop now key back : pres (list_pop now key back).
Proof.
  intros d d' a I. unfold list_pop.
  destruct (live_key now d key T_LIST) as [k|] eqn:LK; [|discriminate].
  destruct (if back then rows_desc d (k_id k) else rows_asc d (k_id k)) as [|r rest] eqn:RW; [discriminate|].
  destruct (delete_rows now (k_id k) [r] d) as [d1 n] eqn:DR.
  intros E. inversion E; subst d1 a; clear E.
  eapply HI_delete_rows_run; [exact I | eapply HasList_live; exact LK | | exact DR].
  apply (Vict_one d (k_id k) (r :: rest)); [| left; reflexivity].
  rewrite <- RW. destruct back; apply Vict_sorted; apply I.
Qed.

Lemma pres_list_trim now key start stop : pres (list_trim now key start stop).
Proof.
  intros d d' a I. unfold list_trim.
  destruct (live_key now d key T_LIST) as [k|] eqn:LK.
  2:{ intros E. inversion E; subst. exact I. }
  destruct (range_window (k_len k) start stop) as [off cnt].
  match goal with |- context [delete_rows now ?kid ?vs d] =>
    destruct (delete_rows now kid vs d) as [d1 n] eqn:DR end.
  intros E. inversion E; subst d1 n; clear E.
  eapply HI_delete_rows_run; [exact I | eapply HasList_live; exact LK | | exact DR].
  apply Vict_filter. apply Vict_sorted. apply I.
Qed.

(* ---- LSet ---- *)

Lemma forallb_map {A B} (q : B -> bool) (g : A -> B) l :
  forallb q (map g l) = forallb (fun x => q (g x)) l.
Proof. induction l as [|x r IH]; cbn; [reflexivity | rewrite IH; reflexivity]. Qed.

Lemma pres_list_set now key idx v : pres (list_set now key idx v).
Proof.
  unfold list_set. apply hoare_bind_read; [apply RO_bytes_arg|]. intros elemb.
  intros d d' a I. destruct (norm_idx idx) as [rev_ i].
  destruct (live_key now d key T_LIST) as [k|] eqn:LK; [|discriminate].
  destruct (znth i (if rev_ then rows_desc d (k_id k) else rows_asc d (k_id k))) as [r|]; [|discriminate].
  destruct elemb as [e|]; [|discriminate].
  intros E. inversion E; subst d'; clear E.
  unfold trig_list_update. change (1 =? 0) with false. cbv iota.
  set (g := fun x => if same_row x r then mkL (l_kid x) (l_pos x) e else x).
  assert (Gk : forall x, l_kid (g x) = l_kid x /\ l_pos (g x) = l_pos x).
  { intros x. unfold g. destruct (same_row x r); auto. }
  apply InvH_upd_keys; [| intros x _ _; cbn; auto].
  pose proof I as [A [L1 L2] E H ZZ FK]. constructor; try assumption.
  - apply AInv_ext with (kids := kidsOf d); [| exact A].
    intros T. rewrite kidsOf_set_rlist. destruct (Z.eqb_spec T 2); [|reflexivity]. subst T.
    change (kidsOf d 2) with (map l_kid (rlist d)). rewrite map_map. apply map_ext.
    intros x. apply Gk.
  - change (TL (map g (rlist d))). split.
    + rewrite nodup_by_map; [exact L1|]. intros x y. unfold eqL.
      destruct (Gk x) as [-> ->]. destruct (Gk y) as [-> ->]. reflexivity.
    + rewrite forallb_map. rewrite forallb_forall in *. intros x Hx.
      destruct (Gk x) as [_ ->]. apply L2. exact Hx.
Qed.

(* ---- inserting a row ---- *)

Definition free_pos (d : db) (kid : Z) (new : lrow) : Prop :=
  l_kid new = kid /\ (l_pos new =? l_pos new)%float = true /\
  existsb (fun r => (l_kid r =? kid) && (l_pos r =? l_pos new)%float) (rlist d) = false.

Lemma HI_list_add d kid f new :
  HI d -> HasList kid d -> free_pos d kid new ->
  (forall r, In r (rkey d) -> k_id r = kid ->
     k_id (f r) = k_id r /\ k_key (f r) = k_key r /\ k_type (f r) = k_type r /\
     k_len (f r) = opt_add (k_len r) 1) ->
  HI (upd_key_id kid f (set_rlist d (rlist d ++ [new]))).
Proof.
  intros I Hex [Kn [Pn Xn]] Hf. pose proof I as [A [L1 L2] E H ZZ FK].
  set (F := fun r => if k_id r =? kid then f r else r).
  constructor; try assumption.
  - change (AInv None (map F (rkey d)) (kidsOf (set_rlist d (rlist d ++ [new])))).
    apply (AInv_adjust None (rkey d) (kidsOf d) _ F 2 kid 1); auto; try lia.
    + intros T NE. rewrite kidsOf_set_rlist. destruct (Z.eqb_spec T 2); [contradiction | reflexivity].
    + intros k. rewrite kidsOf_set_rlist. change (2 =? 2) with true. cbv iota.
      rewrite map_app, in_app_iff. change (kidsOf d 2) with (map l_kid (rlist d)).
      cbn [map]. rewrite Kn. intros [Hk | [<- | []]]; auto.
    + intros id. rewrite kidsOf_set_rlist. change (2 =? 2) with true. cbv iota.
      rewrite map_app, cntz_app. change (kidsOf d 2) with (map l_kid (rlist d)).
      cbn [map]. rewrite cntz_cons, cntz_nil, Kn.
      rewrite (Z.eqb_sym kid id). destruct (id =? kid); lia.
    + intros r Hr Hne. unfold F. destruct (Z.eqb_spec (k_id r) kid); [contradiction | reflexivity].
    + intros r Hr Heq.
      assert (EF : F r = f r).
      { unfold F. destruct (Z.eqb_spec (k_id r) kid); [reflexivity | contradiction]. }
      rewrite EF. destruct (Hf r Hr Heq) as [F1 [F2 [F3 F4]]].
      split; [exact F1|]. split; [exact F2|]. split; [exact F3|].
      intros EL. rewrite F4, EL. reflexivity.
  - change (TL (rlist d ++ [new])). split.
    + rewrite nodup_by_snoc, L1. unfold eqL. rewrite Kn, Xn. reflexivity.
    + rewrite forallb_app, L2. cbn [forallb]. rewrite Pn. reflexivity.
Qed.

(* after sqlPush: one more row of that key restores the invariant *)
Definition PendL (kid : Z) (d : db) : Prop :=
  forall new, free_pos d kid new -> HI (set_rlist d (rlist d ++ [new])).

Lemma insert_row_spec kid pos elem :
  hoare (PendL kid) (insert_row kid pos elem) (fun _ => HI).
Proof.
  intros d d' u P. unfold insert_row. destruct pos as [p|]; [|discriminate].
  destruct (negb (p =? p)%float) eqn:NP; [discriminate|]. destruct elem as [e|]; [|discriminate].
  destruct (existsb (fun r => (l_kid r =? kid) && (l_pos r =? p)%float) (rlist d)) eqn:X; [discriminate|].
  intros E. inversion E; subst d'; clear E. apply P.
  split; [reflexivity|]. split; cbn [l_pos]; [| exact X].
  apply negb_false_iff in NP. exact NP.
Qed.

Lemma upsert_push_spec now key :
  hoare HI (upsert_key now key T_LIST None (Some 1) (fun r => with_len r (opt_add (k_len r) 1)))
        (fun r d => PendL (k_id r) d).
Proof.
  intros d0 d' r' I. unfold upsert_key.
  assert (I1 : HI (reset_expired now key T_LIST d0)).
  { apply (InvH_reset now key T_LIST d0 I). unfold T_LIST; lia. }
  set (d := reset_expired now key T_LIST d0) in *.
  destruct (find_key d key) as [r|] eqn:F.
  - destruct (k_type r =? T_LIST) eqn:ET; [|discriminate].
    intros E. injection E as <- <-. apply find_key_some in F as [Hr Kr]. apply Z.eqb_eq in ET.
    cbn [k_id with_len with_mtime with_ver].
    intros new Hn.
    match goal with |- HI (set_rlist (upd_key_id ?id ?f d) _) =>
      change (HI (upd_key_id id f (set_rlist d (rlist d ++ [new])))) end.
    apply HI_list_add; auto.
    + exists r. auto.
    + intros x Hx Ex.
      assert (x = r) by (eapply same_id; [exact (i_a _ _ I1) | | |]; auto). subst x.
      cbn. auto.
  - intros E. injection E as <- <-. apply find_key_none in F. cbn [k_id].
    intros new Hn.
    set (r0 := mkKey (next_key_id d) key T_LIST 1 None now (Some 0)).
    set (d1 := set_rkey d (rkey d ++ [r0])).
    assert (I2 : HI d1).
    { pose proof I1 as [A L E H ZZ FK]. constructor; try assumption.
      change (AInv None (rkey d ++ [r0]) (kidsOf d)).
      apply AInv_snoc; auto; cbn; unfold T_LIST; try lia. }
    assert (Hex : HasList (next_key_id d) d1).
    { exists r0. split; [apply in_or_app; right; left; reflexivity | auto]. }
    pose proof (HI_list_add d1 (next_key_id d) (fun r => with_len r (opt_add (k_len r) 1)) new
                  I2 Hex Hn) as G.
    match goal with |- HI ?x =>
      replace x with (upd_key_id (next_key_id d) (fun r => with_len r (opt_add (k_len r) 1))
                        (set_rlist d1 (rlist d1 ++ [new]))) end.
    + apply G. intros x _ _. cbn. auto.
    + unfold upd_key_id, upd_keys, set_rkey, set_rlist, d1. cbn. f_equal.
      rewrite map_app. unfold next_key_id. rewrite map_fresh. cbn. rewrite Z.eqb_refl. reflexivity.
Qed.

Lemma RO_scan_len r : RO (scan_len r).
Proof. intros d. unfold scan_len. destruct (k_len r); reflexivity. Qed.

Lemma pres_list_push now key v front : pres (list_push now key v front).
Proof.
  unfold list_push. apply hoare_bind_read; [apply RO_bytes_arg|]. intros elemb.
  eapply hoare_bind; [apply hoare_typed_error, upsert_push_spec|]. intros r. cbv beta.
  apply hoare_bind_read; [apply RO_scan_len|]. intros n.
  apply hoare_bind_read; [apply RO_get_db|]. intros dd.
  eapply hoare_bind; [apply insert_row_spec|]. intros u. apply hoare_ret. auto.
Qed.

Lemma insert_row_ok kid pos elem d d1 u :
  insert_row kid pos elem d = (d1, Ok u) ->
  exists new, free_pos d kid new /\ d1 = set_rlist d (rlist d ++ [new]).
Proof.
  unfold insert_row. destruct pos as [p|]; [|discriminate].
  destruct (negb (p =? p)%float) eqn:NP; [discriminate|]. destruct elem as [e|]; [|discriminate].
  destruct (existsb (fun r => (l_kid r =? kid) && (l_pos r =? p)%float) (rlist d)) eqn:X; [discriminate|].
  intros E. inversion E; subst d1; clear E. exists (mkL kid p e). split; [| reflexivity].
  split; [reflexivity|]. split; cbn [l_pos]; [| exact X].
  apply negb_false_iff in NP. exact NP.
Qed.

Lemma HI_list_insert now key pivot elem after d :
  HI d ->
  HI (if is_err (snd (list_insert now key pivot elem after d)) then d
      else fst (list_insert now key pivot elem after d)).
Proof.
  intros I. unfold list_insert.
  destruct (to_bytes pivot) as [pivotb|]; [| cbn; exact I].
  destruct (to_bytes elem) as [elemb|]; [| cbn; exact I].
  destruct (live_key now d key T_LIST) as [k0|] eqn:LK; [| cbn; exact I].
  destruct (list_rows d (k_id k0)) as [|x xs]; [cbn; exact I|].
  destruct (insert_row (k_id k0) (insert_pos d (k_id k0) pivotb after) elemb d) as [d1 w] eqn:IR.
  destruct w as [u|e].
  2:{ repeat match goal with |- context [match ?x with _ => _ end] => is_var x; destruct x end;
      cbn; exact I. }
  apply insert_row_ok in IR as [new [Hn ->]].
  unfold sql_insert.
  change (live_key now (set_rlist d (rlist d ++ [new])) key T_LIST) with (live_key now d key T_LIST).
  rewrite LK. cbn [k_len with_len].
  destruct (opt_add (k_len k0) 1) as [n|] eqn:OA; [| cbn; exact I].
  cbn [snd fst is_err out_ok o_err].
  pose proof (live_key_some _ _ _ _ _ LK) as [Hk [Kk [Tk Lk]]].
  apply HI_list_add; auto.
  - exists k0. auto.
  - intros r Hr Er. assert (r = k0) by (eapply same_id; [exact (i_a _ _ I) | | |]; auto). subst r.
    cbn. auto.
Qed.

Lemma HI_list_pop_push now src dest d :
  HI d ->
  HI (if is_err (snd (list_pop_push now src dest d)) then d
      else fst (list_pop_push now src dest d)).
Proof.
  intros I. unfold list_pop_push.
  destruct (list_pop now src true d) as [d1 r] eqn:P. destruct r as [e|er]; [| cbn; exact I].
  destruct (list_push now dest (ABytes e) true d1) as [d2 w] eqn:Q. destruct w; cbn; [| exact I].
  eapply pres_list_push; [| exact Q]. eapply pres_list_pop; eauto.
Qed.

Theorem inv_preserved_list : forall now o d, fam_list o = true -> Inv d -> Inv (fst (exec_db now o d)).
Proof.
  intros now o d F I.
  destruct (is_read o) eqn:R.
  { rewrite exec_unwrapped_fst by (apply read_not_wrapped, R).
    rewrite read_no_trace by exact R. exact I. }
  apply HI_Inv. apply HI_Inv in I.
  destruct o; try discriminate F; try discriminate R;
    rewrite exec_wrapped_fst by reflexivity; cbn [exec_tx];
    first [ apply HI_list_insert; exact I
          | apply HI_list_pop_push; exact I
          | apply run_wrapped; [| exact I] ].
  - apply pres_list_delete.
  - apply pres_list_delete_n.
  - apply pres_list_delete_n.
  - apply pres_list_pop.
  - apply pres_list_pop.
  - apply pres_list_push.
  - apply pres_list_push.
  - apply pres_list_set.
  - apply pres_list_trim.
Qed.

(* ================================================================== *)
(* Part 3: sorted sets                                                *)
(* ================================================================== *)

Lemma find_none_existsb {A} (f : A -> bool) l : find f l = None -> existsb f l = false.
Proof.
  induction l as [|x r IH]; cbn; [reflexivity|].
  destruct (f x); [discriminate | exact IH].
Qed.

Lemma zset_upsert_spec kid elem score comb :
  hoare (fun d => HI d /\ HasZ kid d) (zset_upsert kid elem score comb)
        (fun _ d => HI d /\ HasZ kid d).
Proof.
  intros d d' b [I Hex]. unfold zset_upsert. destruct elem as [e|]; [|discriminate].
  pose proof I as [A L E H [Z1 Z2] FK].
  destruct (find (fun r => (z_kid r =? kid) && String.eqb (z_elem r) e) (rzset d)) as [old|] eqn:Fd.
  - set (s := norm_zero (comb (z_score old) score)).
    destruct (negb (s =? s)%float); [discriminate|].
    intros Eq; inversion Eq; subst d' b; clear Eq.
    set (g := fun r => if (z_kid r =? kid) && String.eqb (z_elem r) e
                       then mkZ (z_rid r) kid e s else r).
    assert (Gk : forall a, z_kid (g a) = z_kid a /\ z_elem (g a) = z_elem a /\ z_rid (g a) = z_rid a).
    { intros a. unfold g. destruct (Z.eqb_spec (z_kid a) kid); cbn; auto.
      destruct (String.eqb_spec (z_elem a) e); cbn; auto. }
    split; [| exact Hex].
    constructor; try assumption.
    + apply AInv_ext with (kids := kidsOf d); [| exact A].
      intros T. rewrite kidsOf_set_rzset. destruct (Z.eqb_spec T 5); [|reflexivity]. subst T.
      change (kidsOf d 5) with (map z_kid (rzset d)). rewrite map_map. apply map_ext.
      intros a. apply Gk.
    + change (TZ (map g (rzset d))). split.
      * rewrite nodup_by_map; [exact Z1|]. intros a b. unfold eqZ.
        destruct (Gk a) as [-> [-> _]]. destruct (Gk b) as [-> [-> _]]. reflexivity.
      * rewrite map_map. erewrite map_ext; [exact Z2|]. intros a. apply Gk.
  - destruct (negb (score =? score)%float); [discriminate|].
    intros Eq; inversion Eq; subst d' b; clear Eq.
    apply find_none_existsb in Fd.
    set (F := fun r => if k_id r =? kid then with_len r (opt_add (k_len r) 1) else r).
    set (new := mkZ (next_zset_rid (upd_key_id kid (fun r => with_len r (opt_add (k_len r) 1)) d))
                    kid e (norm_zero score)).
    split.
    + constructor; try assumption.
      * change (AInv None (map F (rkey d)) (kidsOf (set_rzset d (rzset d ++ [new])))).
        apply (AInv_adjust None (rkey d) (kidsOf d) _ F 5 kid 1); auto; try lia.
        -- intros T NE. rewrite kidsOf_set_rzset. destruct (Z.eqb_spec T 5); [contradiction | reflexivity].
        -- intros k. rewrite kidsOf_set_rzset. change (5 =? 5) with true. cbv iota.
           rewrite map_app, in_app_iff. change (kidsOf d 5) with (map z_kid (rzset d)).
           intros [Hk | [<- | []]]; auto.
        -- intros id. rewrite kidsOf_set_rzset. change (5 =? 5) with true. cbv iota.
           rewrite map_app, cntz_app. change (kidsOf d 5) with (map z_kid (rzset d)).
           cbn [map]. rewrite cntz_cons, cntz_nil. cbn [z_kid new].
           rewrite (Z.eqb_sym kid id). destruct (id =? kid); lia.
        -- intros r Hr Hne. unfold F. destruct (Z.eqb_spec (k_id r) kid); [contradiction | reflexivity].
        -- intros r Hr Heq. unfold F. rewrite Heq, Z.eqb_refl. cbn. repeat split; auto.
           intros ->. reflexivity.
      * change (TZ (rzset d ++ [new])). split.
        -- rewrite nodup_by_snoc, Z1. unfold eqZ. cbn [z_kid z_elem new]. rewrite Fd. reflexivity.
        -- rewrite map_app. apply NoDup_snoc; [exact Z2|]. cbn [map z_rid new].
           unfold next_zset_rid. apply zmax_fresh.
    + destruct Hex as [r [Hr [Er Tr]]]. exists (F r). split.
      * change (In (F r) (map F (rkey d))). apply in_map. exact Hr.
      * unfold F. destruct (k_id r =? kid); cbn; auto.
Qed.

Lemma zset_add1_spec now key :
  hoare HI (zset_add1 now key) (fun k d => HI d /\ HasZ (k_id k) d).
Proof.
  unfold zset_add1. apply hoare_typed_error. intros d d' r I E.
  destruct (upsert_spec now key T_ZSET None (Some 0) (fun r => r) d d' r I) as [I' [Hr [Kr Tr]]];
    [unfold T_ZSET; lia | intros _; reflexivity | intros x; auto | exact E |].
  split; [exact I' | exists r; auto].
Qed.

Lemma pres_zset_add_raw now key v score : pres (zset_add_raw now key v score).
Proof.
  unfold zset_add_raw. destruct (to_bytes v); [| apply hoare_fail].
  eapply hoare_bind; [apply zset_add1_spec|]. intros k.
  eapply hoare_bind; [apply zset_upsert_spec|]. intros s. apply hoare_ret. tauto.
Qed.

Lemma pres_zset_add now key v score : pres (zset_add now key v score).
Proof.
  unfold zset_add. apply hoare_bind_read; [apply readonly_bytes_args|]. intros elembs.
  apply hoare_bind_read; [apply readonly_lift_read|]. intros c.
  eapply hoare_bind; [apply pres_zset_add_raw|]. intros ?. apply hoare_ret. auto.
Qed.

Lemma pres_zset_add_each now key items : pres (zset_add_each now key items).
Proof.
  induction items as [|[v s] r IH]; cbn [zset_add_each].
  - apply hoare_ret. auto.
  - eapply hoare_bind; [apply pres_zset_add_raw|]. intros ?. exact IH.
Qed.

Lemma pres_zset_add_many now key items : pres (zset_add_many now key items).
Proof.
  unfold zset_add_many. apply hoare_bind_read; [apply readonly_bytes_args|]. intros elembs.
  apply hoare_bind_read; [apply readonly_lift_read|]. intros c.
  eapply hoare_bind; [apply pres_zset_add_each|]. intros ?. apply hoare_ret. auto.
Qed.

Lemma pres_zset_incr now key v delta : pres (zset_incr now key v delta).
Proof.
  unfold zset_incr. apply hoare_bind_read; [apply readonly_bytes_args|]. intros elembs.
  eapply hoare_bind; [apply zset_add1_spec|]. intros k.
  eapply hoare_conseq; [apply zset_upsert_spec | auto | cbv beta; tauto].
Qed.

Lemma zset_add_all_spec kid rows :
  hoare (fun d => HI d /\ HasZ kid d) (zset_add_all kid rows) (fun _ d => HI d).
Proof.
  induction rows as [|r rest IH]; cbn [zset_add_all].
  - apply hoare_ret. tauto.
  - eapply hoare_bind; [apply zset_upsert_spec|]. intros c. apply IH.
Qed.

(* rows of one sorted-set key go away, then sqlDelete2 *)
Lemma HI_zset_rows_delete now key k hit n d :
  HI d -> In k (rkey d) -> k_key k = key -> k_type k = T_ZSET -> live now k = true ->
  (forall x, In x (rzset d) -> hit x = true -> z_kid x = k_id k) ->
  n = zlen (filter hit (rzset d)) ->
  HI (bump_key_len now key T_ZSET n (set_rzset d (filter (fun r => negb (hit r)) (rzset d)))).
Proof.
  intros I Hk Kk Tk Lk Hhit ->. pose proof I as [A L E H ZZ FK].
  constructor; try assumption.
  - rewrite rkey_bump.
    apply (AInv_bump None (rkey d) (kidsOf d) _ now key T_ZSET _ k); auto; try (unfold T_ZSET; lia).
    + intros T NE. rewrite kidsOf_bump, kidsOf_set_rzset.
      destruct (Z.eqb_spec T 5); [contradiction | reflexivity].
    + intros x Hx. apply in_map_iff in Hx as [y [<- Hy]]. apply filter_In in Hy as [Hy _].
      change (In (z_kid y) (map z_kid (rzset d))). apply in_map. exact Hy.
    + intros id. apply (cntz_filter_hit_in z_kid hit (k_id k) id (rzset d)). exact Hhit.
  - apply TZ_filter. exact ZZ.
Qed.

Lemma pres_zset_delete now key vs : pres (zset_delete now key vs).
Proof.
  unfold zset_delete. apply hoare_bind_read; [apply readonly_bytes_args|]. intros elembs.
  intros d d' a I.
  destruct (live_key now d key T_ZSET) as [k|] eqn:LK.
  2:{ intros E. inversion E; subst. exact I. }
  apply live_key_some in LK as [Hk [Kk [Tk Lk]]].
  set (hit := fun r => (z_kid r =? k_id k) && opt_in (z_elem r) elembs).
  destruct (zlen (filter hit (rzset d)) =? 0).
  { intros E. inversion E; subst. exact I. }
  intros E. inversion E; subst d'; clear E.
  apply (HI_zset_rows_delete now key k hit _ d); auto.
  intros x _ Hx. unfold hit in Hx. apply andb_true_iff in Hx as [Hx _]. lia.
Qed.

Definition VictZ (now : Z) (d : db) (key : bytes) (vs : list zrow) : Prop :=
  NoDup vs /\ forall v, In v vs -> In v (live_zset_rows now d key).

Lemma NoDup_live_zset_rows now d key : HI d -> NoDup (live_zset_rows now d key).
Proof.
  intros I. unfold live_zset_rows. destruct (live_key now d key T_ZSET); [| constructor].
  apply NoDup_filter'. apply (NoDup_map_inv z_rid). apply I.
Qed.

Lemma delete_zrows_spec now key vs :
  hoare (fun d => HI d /\ VictZ now d key vs) (delete_zrows now key vs) (fun _ => HI).
Proof.
  intros d d' a [I [N V]]. unfold delete_zrows.
  destruct (Z.eqb_spec (zlen vs) 0) as [Z0|Z0].
  { intros E. inversion E; subst. exact I. }
  intros E. inversion E; subst d' a; clear E.
  unfold live_zset_rows in V.
  destruct (live_key now d key T_ZSET) as [k|] eqn:LK.
  2:{ exfalso. destruct vs as [|v0 rest]; [apply Z0; reflexivity | exact (V v0 (or_introl eq_refl))]. }
  apply live_key_some in LK as [Hk [Kk [Tk Lk]]].
  assert (V' : forall v, In v vs -> In v (rzset d) /\ z_kid v = k_id k).
  { intros v Hv. apply V in Hv. apply filter_In in Hv as [H1 H2]. split; [exact H1 | lia]. }
  assert (ND : NoDup (map z_rid (rzset d))) by apply I.
  assert (Hsame : forall x, In x (rzset d) -> zmem (z_rid x) (map z_rid vs) = true -> In x vs).
  { intros x Hx Hz. apply zmem_In in Hz. apply in_map_iff in Hz as [v [Ev Hv]].
    assert (v = x); [| subst; exact Hv].
    eapply NoDup_map_inj; [exact ND | apply V'; exact Hv | exact Hx | exact Ev]. }
  apply (HI_zset_rows_delete now key k (fun r => zmem (z_rid r) (map z_rid vs)) _ d); auto.
  - intros x Hx Hz. apply V'. apply Hsame; assumption.
  - symmetry. apply zlen_filter_sub; [apply (NoDup_map_inv z_rid); exact ND | exact N | exact Hsame |].
    intros v Hv. split; [apply V'; exact Hv|]. apply zmem_In. apply in_map. exact Hv.
Qed.

Lemma hoare_get_db {B} (P : db -> Prop) (f : db -> M B) Q :
  (forall d0, hoare (fun d => P d /\ d = d0) (f d0) Q) -> hoare P (bind get_db f) Q.
Proof.
  intros H d d' b HP. unfold bind, get_db. intros E. eapply (H d); eauto.
Qed.

Lemma pres_zset_delete_rank now key start stop : pres (zset_delete_rank now key start stop).
Proof.
  unfold zset_delete_rank.
  destruct ((start <? 0) || (stop <? 0)); [apply hoare_ret; auto|].
  destruct (stop <? start); [apply hoare_ret; auto|].
  apply hoare_get_db. intros d0.
  eapply hoare_conseq; [apply delete_zrows_spec | | auto].
  intros d [I ->]. split; [exact I|]. split.
  - apply NoDup_sql_limit. apply NoDup_isort. apply NoDup_live_zset_rows; exact I.
  - intros v Hv. apply In_sql_limit in Hv. apply In_isort in Hv. exact Hv.
Qed.

Lemma pres_zset_delete_score now key lo hi : pres (zset_delete_score now key lo hi).
Proof.
  unfold zset_delete_score. apply hoare_get_db. intros d0.
  eapply hoare_conseq; [apply delete_zrows_spec | | auto].
  intros d [I ->]. split; [exact I|]. split.
  - apply NoDup_filter'. apply NoDup_live_zset_rows; exact I.
  - intros v Hv. apply filter_In in Hv. tauto.
Qed.

Lemma pres_zset_delete_key now key : pres (zset_delete_key now key).
Proof.
  intros d d' u I. unfold zset_delete_key.
  destruct (live_key now d key T_ZSET) as [k|] eqn:LK.
  2:{ intros E. inversion E; subst. exact I. }
  apply live_key_some in LK as [Hk [Kk [Tk Lk]]].
  intros E. inversion E; subst d'; clear E.
  pose proof I as [A L E H ZZ FK].
  set (F := fun r => if k_id r =? k_id k then with_len (with_mtime (with_ver r 0) 0) (Some 0) else r).
  set (tbl := filter (fun r => negb (z_kid r =? k_id k)) (rzset d)).
  constructor; try assumption.
  - change (AInv None (map F (rkey d)) (kidsOf (set_rzset d tbl))).
    assert (Etbl : map z_kid tbl = filter (fun x => negb (x =? k_id k)) (kidsOf d 5)).
    { apply (map_filter_comm z_kid (fun x => negb (x =? k_id k))). }
    apply (AInv_adjust None (rkey d) (kidsOf d) _ F 5 (k_id k) (- cntz (k_id k) (kidsOf d 5)));
      auto; try lia.
    + exists k. auto.
    + intros T NE. rewrite kidsOf_set_rzset. destruct (Z.eqb_spec T 5); [contradiction | reflexivity].
    + intros x. rewrite kidsOf_set_rzset. change (5 =? 5) with true. cbv iota.
      rewrite Etbl. intros Hx. apply filter_In in Hx. tauto.
    + intros id. rewrite kidsOf_set_rzset. change (5 =? 5) with true. cbv iota.
      rewrite Etbl, cntz_filter. destruct (Z.eqb_spec id (k_id k)); [subst id|]; cbn [negb]; lia.
    + intros r Hr Hne. unfold F. destruct (Z.eqb_spec (k_id r) (k_id k)); [contradiction | reflexivity].
    + intros r Hr Heq. unfold F. rewrite Heq, Z.eqb_refl. cbn. repeat split; auto.
      intros _. f_equal. lia.
  - apply TZ_filter. exact ZZ.
Qed.

Lemma pres_zset_store inter g now dest keys : pres (zset_store inter g now dest keys).
Proof.
  unfold zset_store. apply hoare_bind_read; [apply RO_zset_alg|]. intros items.
  eapply hoare_bind; [apply pres_zset_delete_key|]. intros ?.
  eapply hoare_bind; [apply zset_add1_spec|]. intros k.
  eapply hoare_bind; [apply zset_add_all_spec|]. intros ?. apply hoare_ret. auto.
Qed.

Theorem inv_preserved_zset : forall now o d, fam_zset o = true -> Inv d -> Inv (fst (exec_db now o d)).
Proof.
  intros now o d F I.
  destruct (is_read o) eqn:R.
  { rewrite exec_unwrapped_fst by (apply read_not_wrapped, R).
    rewrite read_no_trace by exact R. exact I. }
  apply HI_Inv. apply HI_Inv in I.
  destruct o; try discriminate F; try discriminate R;
    rewrite exec_wrapped_fst by reflexivity; cbn [exec_tx]; apply run_wrapped; try exact I.
  - apply pres_zset_add.
  - apply pres_zset_add_many.
  - apply pres_zset_delete.
  - apply pres_zset_delete_rank.
  - apply pres_zset_delete_score.
  - apply pres_zset_incr.
  - apply pres_zset_store.
Qed.

(* ================================================================== *)
(* Part 4: all operations                                             *)
(* ================================================================== *)

Lemma fam_cover o : fam_ks o || fam_set o || fam_hash o || fam_list o || fam_zset o = true.
Proof. destruct o; reflexivity. Qed.

Theorem C11_inv_preserved : forall now o d, Inv d -> Inv (fst (exec_db now o d)).
Proof.
  intros now o d I. pose proof (fam_cover o) as C.
  destruct (fam_ks o) eqn:F1; [apply inv_preserved_key_str; assumption|].
  destruct (fam_set o) eqn:F2; [apply inv_preserved_set; assumption|].
  destruct (fam_hash o) eqn:F3; [apply inv_preserved_hash; assumption|].
  destruct (fam_list o) eqn:F4; [apply inv_preserved_list; assumption|].
  destruct (fam_zset o) eqn:F5; [apply inv_preserved_zset; assumption|].
  discriminate C.
Qed.

Lemma inv_fold (h : list (Z * op)) : forall d, Inv d ->
  Inv (fold_left (fun acc p => fst (exec_db (fst p) (snd p) acc)) h d).
Proof.
  induction h as [|p r IH]; intros d I; cbn [fold_left]; [exact I|].
  apply IH. apply C11_inv_preserved. exact I.
Qed.

Theorem C11_inv_reachable : forall (h : list (Z * op)),
  Inv (fold_left (fun acc p => fst (exec_db (fst p) (snd p) acc)) h empty_db).
Proof. intros h. apply inv_fold. apply inv_empty. Qed.

(* a Tx-level call that succeeds does what the DB-level call does *)
Lemma tx_ok_eq_db now o d :
  is_err (snd (exec_tx true now o d)) = false ->
  fst (exec_tx true now o d) = fst (exec_db now o d).
Proof.
  intros E. destruct (wrapped o) eqn:W.
  - rewrite exec_wrapped_fst by exact W. rewrite E. reflexivity.
  - rewrite exec_unwrapped_fst by exact W. destruct o; reflexivity.
Qed.

Lemma exec_block_stop now ops : forall d, Inv d ->
  snd (exec_block now ops true d) = false ->
  Inv (fst (fst (exec_block now ops true d))).
Proof.
  induction ops as [|o rest IH]; intros d I; cbn [exec_block].
  - intros _. exact I.
  - destruct (exec_tx true now o d) as [d1 r] eqn:E. cbn [andb].
    destruct (is_err r) eqn:Er; [cbn; discriminate|].
    assert (I1 : Inv d1).
    { change d1 with (fst (d1, r)). rewrite <- E. rewrite tx_ok_eq_db.
      - apply C11_inv_preserved. exact I.
      - rewrite E. exact Er. }
    specialize (IH d1 I1). destruct (exec_block now rest true d1) as [[d2 rs] f].
    cbn in *. exact IH.
Qed.

Theorem C11_inv_update_stop : forall now ops d, Inv d -> Inv (fst (exec_update now ops true d)).
Proof.
  intros now ops d I. unfold exec_update.
  pose proof (exec_block_stop now ops d I) as B.
  destruct (exec_block now ops true d) as [[d1 rs] failed]. cbn in B.
  destruct failed; cbn [fst]; [exact I | apply B; reflexivity].
Qed.

(* ---- the callback that ignores errors and commits ---- *)

(* The unrestricted statement
     forall now ops d, Inv d -> Inv (fst (exec_update now ops false d))
   is FALSE: a push whose computed position collides (here +infinity + 1 = +infinity)
   fails at the row insert after sqlPush has already counted the element; at DB
   level the transaction is rolled back, but a callback that ignores the error
   commits the partial effect (len 2, one row). *)
Definition cex_db : db :=
  mkDb [mkKey 1 "a" 2 1 None 0 (Some 1)] [] [mkL 1 infinity "x"] [] [] [] true.

Theorem C11_inv_update_continue_counterexample :
  Inv cex_db /\ ~ Inv (fst (exec_update 0 [LPushBack "a" (AStr "y")] false cex_db)).
Proof.
  split; [split; vm_compute; reflexivity|].
  intros [H _]. vm_compute in H. discriminate H.
Qed.

(* what remains true: if no call reported an error, the committed state is consistent *)
Lemma exec_block_continue now ops : forall d, Inv d ->
  forallb (fun r => negb (is_err r)) (snd (fst (exec_block now ops false d))) = true ->
  Inv (fst (fst (exec_block now ops false d))) /\ snd (exec_block now ops false d) = false.
Proof.
  induction ops as [|o rest IH]; intros d I; cbn [exec_block].
  - intros _. split; [exact I | reflexivity].
  - destruct (exec_tx true now o d) as [d1 r] eqn:E. cbn [andb].
    specialize (IH d1). destruct (exec_block now rest false d1) as [[d2 rs] f].
    cbn [fst snd forallb] in *. intros H. apply andb_true_iff in H as [H1 H2].
    apply negb_true_iff in H1. apply IH; [| exact H2].
    change d1 with (fst (d1, r)). rewrite <- E. rewrite tx_ok_eq_db.
    + apply C11_inv_preserved. exact I.
    + rewrite E. exact H1.
Qed.

Theorem C11_inv_update_continue_partial : forall now ops d,
  Inv d ->
  forallb (fun r => negb (is_err r)) (snd (exec_update now ops false d)) = true ->
  Inv (fst (exec_update now ops false d)).
Proof.
  intros now ops d I. unfold exec_update.
  pose proof (exec_block_continue now ops d I) as B.
  destruct (exec_block now ops false d) as [[d1 rs] failed]. cbn [fst snd] in B.
  destruct failed; cbn [fst snd]; intros H; destruct (B H) as [B1 B2]; [discriminate B2 | exact B1].
Qed.

Print Assumptions inv_preserved_list.
Print Assumptions inv_preserved_zset.
Print Assumptions C11_inv_preserved.
Print Assumptions C11_inv_reachable.
Print Assumptions C11_inv_update_stop.
Print Assumptions C11_inv_update_continue_counterexample.
Print Assumptions C11_inv_update_continue_partial.
