(* ProofWriter.v - soundness of the reply-framing checker of Writer.v:
   a program accepted by [check] emits exactly one complete RESP value on every
   path, for EVERY environment (all collection lengths). *)
From Coq Require Import List Bool Arith ZArith String Lia.
Import ListNotations.
From Redka Require Import Writer.
Open Scope string_scope.
Open Scope Z_scope.

(* ------------------------------------------------------------------ *)
(* Linear forms                                                       *)
(* ------------------------------------------------------------------ *)

Lemma ev_terms_add_term : forall en x k t,
  ev_terms en (add_term x k t) = ev_terms en t + k * Z.of_nat (en x).
Proof.
  intros en x k t. induction t as [|[y j] r IH]; cbn [add_term ev_terms].
  - lia.
  - destruct (String.eqb x y) eqn:Exy; cbn [ev_terms].
    + apply String.eqb_eq in Exy. subst y. lia.
    + rewrite IH. lia.
Qed.

Lemma ev_ladd_const : forall en c L, ev en (ladd_const c L) = ev en L + c.
Proof. intros en c [c0 t]. unfold ev, ladd_const. cbn [fst snd]. lia. Qed.

Lemma ev_ladd_term : forall en x k L,
  ev en (ladd_term x k L) = ev en L + k * Z.of_nat (en x).
Proof.
  intros en x k [c0 t]. unfold ev, ladd_term. cbn [fst snd].
  rewrite ev_terms_add_term. lia.
Qed.

Lemma ev_terms_fold_add : forall en a b,
  ev_terms en (fold_right (fun xk acc => add_term (fst xk) (snd xk) acc) a b)
  = ev_terms en a + ev_terms en b.
Proof.
  intros en a b. induction b as [|[y j] r IH]; cbn [fold_right ev_terms fst snd].
  - lia.
  - rewrite ev_terms_add_term, IH. lia.
Qed.

Lemma ev_ladd : forall en A B, ev en (ladd A B) = ev en A + ev en B.
Proof.
  intros en [ca ta] [cb tb]. unfold ev, ladd. cbn [fst snd].
  rewrite ev_terms_fold_add. lia.
Qed.

Lemma ev_terms_scale : forall en k t,
  ev_terms en (map (fun xk => (fst xk, k * snd xk)) t) = k * ev_terms en t.
Proof.
  intros en k t. induction t as [|[y j] r IH]; cbn [map ev_terms fst snd].
  - lia.
  - rewrite IH. lia.
Qed.

Lemma ev_lscale : forall en k A, ev en (lscale k A) = k * ev en A.
Proof.
  intros en k [ca ta]. unfold ev, lscale. cbn [fst snd].
  rewrite ev_terms_scale. lia.
Qed.

Lemma ev_lsub : forall en A B, ev en (lsub A B) = ev en A - ev en B.
Proof. intros. unfold lsub. rewrite ev_ladd, ev_lscale. lia. Qed.

Lemma all_nonneg_sound : forall en t, all_nonneg t = true -> 0 <= ev_terms en t.
Proof.
  intros en t. induction t as [|[y j] r IH]; cbn [all_nonneg forallb ev_terms snd]; intros H.
  - lia.
  - apply andb_true_iff in H. destruct H as [Hj Hr].
    apply Z.leb_le in Hj. specialize (IH Hr). nia.
Qed.

Lemma all_zero_sound : forall en t, all_zero t = true -> ev_terms en t = 0.
Proof.
  intros en t. induction t as [|[y j] r IH]; cbn [all_zero forallb ev_terms snd]; intros H.
  - reflexivity.
  - apply andb_true_iff in H. destruct H as [Hj Hr].
    apply Z.eqb_eq in Hj. rewrite (IH Hr). subst j. lia.
Qed.

Lemma ge1_sound : forall en L, ge1 L = true -> 1 <= ev en L.
Proof.
  intros en [c t] H. unfold ge1 in H. cbn [fst snd] in H.
  apply andb_true_iff in H. destruct H as [Hc Ht].
  apply Z.leb_le in Hc. pose proof (all_nonneg_sound en t Ht) as Hn.
  unfold ev. cbn [fst snd]. lia.
Qed.

Lemma is_zero_sound : forall en L, is_zero L = true -> ev en L = 0.
Proof.
  intros en [c t] H. unfold is_zero in H. cbn [fst snd] in H.
  apply andb_true_iff in H. destruct H as [Hc Ht].
  apply Z.eqb_eq in Hc. pose proof (all_zero_sound en t Ht) as Hn.
  unfold ev. cbn [fst snd]. lia.
Qed.

Lemma lin_eqb_sound : forall en A B, lin_eqb A B = true -> ev en A = ev en B.
Proof.
  intros en A B H. unfold lin_eqb in H.
  pose proof (is_zero_sound en _ H) as Hz. rewrite ev_lsub in Hz. lia.
Qed.

Lemma coef_remove : forall en x t,
  ev_terms en t = ev_terms en (remove_var x t) + coef x t * Z.of_nat (en x).
Proof.
  intros en x t. induction t as [|[y j] r IH]; cbn [remove_var coef ev_terms].
  - lia.
  - destruct (String.eqb x y) eqn:Exy; cbn [ev_terms].
    + apply String.eqb_eq in Exy. subst y. lia.
    + lia.
Qed.

Definition upd (en : env) (x : string) (v : nat) : env :=
  fun y => if String.eqb x y then v else en y.

Lemma upd_same : forall en x v, upd en x v x = v.
Proof. intros. unfold upd. rewrite String.eqb_refl. reflexivity. Qed.

Lemma ev_terms_remove_upd : forall en x v t,
  ev_terms (upd en x v) (remove_var x t) = ev_terms en (remove_var x t).
Proof.
  intros en x v t. induction t as [|[y j] r IH]; cbn [remove_var ev_terms].
  - reflexivity.
  - destruct (String.eqb x y) eqn:Exy; cbn [ev_terms].
    + exact IH.
    + rewrite IH. unfold upd. rewrite Exy. reflexivity.
Qed.

Lemma lin_of_lenx_sound : forall en e A,
  lin_of_lenx e = Some A -> exists n, leval en e = Some n /\ ev en A = Z.of_nat n.
Proof.
  intros en e. induction e as [n|x|k e1 IH|a IHa b IHb|]; intros A H; cbn [lin_of_lenx leval] in *.
  - inversion H; subst. exists n. split; [reflexivity|]. unfold ev, lconst. cbn [fst snd ev_terms]. lia.
  - inversion H; subst. exists (en x). split; [reflexivity|]. unfold ev. cbn [fst snd ev_terms]. lia.
  - destruct (lin_of_lenx e1) as [A1|]; [|discriminate]. inversion H; subst.
    destruct (IH A1 eq_refl) as [n [Hn Hev]]. rewrite Hn.
    exists (k * n)%nat. split; [reflexivity|]. rewrite ev_lscale, Hev. lia.
  - destruct (lin_of_lenx a) as [A1|]; [|discriminate].
    destruct (lin_of_lenx b) as [B1|]; [|discriminate]. inversion H; subst.
    destruct (IHa A1 eq_refl) as [n1 [Hn1 Hev1]].
    destruct (IHb B1 eq_refl) as [n2 [Hn2 Hev2]]. rewrite Hn1, Hn2.
    exists (n1 + n2)%nat. split; [reflexivity|]. rewrite ev_ladd, Hev1, Hev2. lia.
  - discriminate.
Qed.

(* ------------------------------------------------------------------ *)
(* The counter over Z                                                 *)
(* ------------------------------------------------------------------ *)

Fixpoint feedZ (tr : list tok) (c : Z) : option Z :=
  match tr with
  | [] => Some c
  | t :: tr' =>
      if 1 <=? c
      then feedZ tr' (match t with TVal => c - 1 | TArr n => c - 1 + Z.of_nat n end)
      else None
  end.

Lemma feedZ_app : forall a b c,
  feedZ (a ++ b) c = match feedZ a c with Some c1 => feedZ b c1 | None => None end.
Proof.
  intros a. induction a as [|t a IH]; intros b c; cbn [app feedZ].
  - reflexivity.
  - destruct (1 <=? c); [apply IH|reflexivity].
Qed.

Lemma feedZ_mono : forall tr c c' e,
  0 <= e -> feedZ tr c = Some c' -> feedZ tr (c + e) = Some (c' + e).
Proof.
  intros tr. induction tr as [|t tr IH]; intros c c' e He H; cbn [feedZ] in *.
  - inversion H; subst. reflexivity.
  - destruct (1 <=? c) eqn:Hc; [|discriminate].
    apply Z.leb_le in Hc.
    assert (Hc' : (1 <=? c + e) = true) by (apply Z.leb_le; lia).
    rewrite Hc'. destruct t as [|n].
    + replace (c + e - 1) with (c - 1 + e) by lia. apply IH; assumption.
    + replace (c + e - 1 + Z.of_nat n) with (c - 1 + Z.of_nat n + e) by lia.
      apply IH; assumption.
Qed.

Lemma feed_of_feedZ : forall tr c z,
  feedZ tr (Z.of_nat c) = Some z -> exists c', feed tr c = Some c' /\ z = Z.of_nat c'.
Proof.
  intros tr. induction tr as [|t tr IH]; intros c z H; cbn [feedZ feed] in *.
  - inversion H; subst. exists c. split; reflexivity.
  - destruct (1 <=? Z.of_nat c) eqn:Hc; [|discriminate].
    apply Z.leb_le in Hc. destruct c as [|c0]; [lia|].
    destruct t as [|n].
    + replace (Z.of_nat (S c0) - 1) with (Z.of_nat c0) in H by lia.
      apply IH. exact H.
    + replace (Z.of_nat (S c0) - 1 + Z.of_nat n) with (Z.of_nat (c0 + n)) in H by lia.
      apply IH. exact H.
Qed.

(* ------------------------------------------------------------------ *)
(* Facts about the semantics                                          *)
(* ------------------------------------------------------------------ *)

Scheme exec_mind := Minimality for exec Sort Prop
  with iter_mind := Minimality for iter Sort Prop.
Combined Scheme exec_iter_mind from exec_mind, iter_mind.

Lemma leval_ext : forall en en' e,
  (forall y, lenx_mentions y e = true -> en y = en' y) -> leval en e = leval en' e.
Proof.
  intros en en' e. induction e as [n|x|k e1 IH|a IHa b IHb|]; intros H; cbn [leval lenx_mentions] in *.
  - reflexivity.
  - rewrite (H x (String.eqb_refl x)). reflexivity.
  - rewrite (IH H). reflexivity.
  - rewrite IHa, IHb; [reflexivity| |]; intros y Hy; apply H; rewrite Hy;
      [apply orb_true_r|apply orb_true_l].
  - reflexivity.
Qed.

(* a program's traces depend only on the lengths of the collections it names *)
Lemma exec_iter_ext : forall en,
  (forall p tr r, exec en p tr r ->
     forall en', (forall y, mentions_l y p = true -> en y = en' y) -> exec en' p tr r) /\
  (forall n body tr r, iter en n body tr r ->
     forall en', (forall y, mentions_l y body = true -> en y = en' y) -> iter en' n body tr r).
Proof.
  intros en. apply exec_iter_mind.
  - intros en' _. constructor.
  - intros rest tr r _ IH en' H. constructor. apply IH.
    intros y Hy. apply H. unfold mentions_l in *. cbn [existsb mentions]. exact Hy.
  - intros e n rest tr r Hl _ IH en' H.
    assert (He : leval en' e = Some n).
    { rewrite <- Hl. symmetry. apply leval_ext. intros y Hy. apply H.
      unfold mentions_l. cbn [existsb mentions]. rewrite Hy. reflexivity. }
    apply E_arr; [exact He|]. apply IH. intros y Hy. apply H.
    unfold mentions_l in *. cbn [existsb mentions]. rewrite Hy. apply orb_true_r.
  - intros e n rest tr r Hl _ IH en' H.
    assert (He : leval en' e = None).
    { rewrite <- Hl. symmetry. apply leval_ext. intros y Hy. apply H.
      unfold mentions_l. cbn [existsb mentions]. rewrite Hy. reflexivity. }
    apply E_arr_unknown; [exact He|]. apply IH. intros y Hy. apply H.
    unfold mentions_l in *. cbn [existsb mentions]. rewrite Hy. apply orb_true_r.
  - intros a b rest tr _ IH en' H. apply E_if_l_ret. apply IH. intros y Hy. apply H.
    unfold mentions_l in *. cbn [existsb mentions]. rewrite Hy. reflexivity.
  - intros a b rest tr1 tr2 r _ IH1 _ IH2 en' H. apply E_if_l.
    + apply IH1. intros y Hy. apply H.
      unfold mentions_l in *. cbn [existsb mentions]. rewrite Hy. reflexivity.
    + apply IH2. intros y Hy. apply H.
      unfold mentions_l in *. cbn [existsb mentions]. rewrite Hy. apply orb_true_r.
  - intros a b rest tr _ IH en' H. apply E_if_r_ret. apply IH. intros y Hy. apply H.
    unfold mentions_l in *. cbn [existsb mentions]. rewrite Hy.
    rewrite orb_true_r. reflexivity.
  - intros a b rest tr1 tr2 r _ IH1 _ IH2 en' H. apply E_if_r.
    + apply IH1. intros y Hy. apply H.
      unfold mentions_l in *. cbn [existsb mentions]. rewrite Hy.
      rewrite orb_true_r. reflexivity.
    + apply IH2. intros y Hy. apply H.
      unfold mentions_l in *. cbn [existsb mentions]. rewrite Hy. apply orb_true_r.
  - intros x body rest tr _ IH en' H. apply E_for_ret.
    rewrite <- (H x).
    + apply IH. intros y Hy. apply H.
      unfold mentions_l in *. cbn [existsb mentions]. rewrite Hy.
      rewrite orb_true_r. reflexivity.
    + unfold mentions_l. cbn [existsb mentions]. rewrite String.eqb_refl. reflexivity.
  - intros x body rest tr1 tr2 r _ IH1 _ IH2 en' H. apply E_for.
    + rewrite <- (H x).
      * apply IH1. intros y Hy. apply H.
        unfold mentions_l in *. cbn [existsb mentions]. rewrite Hy.
        rewrite orb_true_r. reflexivity.
      * unfold mentions_l. cbn [existsb mentions]. rewrite String.eqb_refl. reflexivity.
    + apply IH2. intros y Hy. apply H.
      unfold mentions_l in *. cbn [existsb mentions]. rewrite Hy. apply orb_true_r.
  - intros rest en' _. constructor.
  - intros rest tr r en' _. constructor.
  - intros body en' _. constructor.
  - intros n body tr _ IH en' H. apply I_ret. apply IH. exact H.
  - intros n body tr1 tr2 r _ IH1 _ IH2 en' H. apply I_next; [apply IH1|apply IH2]; exact H.
Qed.

Lemma exec_upd : forall en x v body tr r,
  mentions_l x body = false -> exec en body tr r -> exec (upd en x v) body tr r.
Proof.
  intros en x v body tr r Hm H.
  apply (proj1 (exec_iter_ext en) body tr r H).
  intros y Hy. unfold upd. destruct (String.eqb x y) eqn:Exy; [|reflexivity].
  apply String.eqb_eq in Exy. subst y. rewrite Hm in Hy. discriminate.
Qed.

(* a program without WRet / WUnknown never returns *)
Lemma exec_iter_no_ret : forall en,
  (forall p tr r, exec en p tr r -> may_ret_l p = false -> r = false) /\
  (forall n body tr r, iter en n body tr r -> may_ret_l body = false -> r = false).
Proof.
  intros en. apply exec_iter_mind; unfold may_ret_l; cbn [existsb may_ret].
  - reflexivity.
  - intros rest tr r _ IH H. apply IH. exact H.
  - intros e n rest tr r _ _ IH H. apply IH. exact H.
  - intros e n rest tr r _ _ IH H. apply IH. exact H.
  - intros a b rest tr _ IH H. apply IH.
    apply orb_false_iff in H. destruct H as [H _].
    apply orb_false_iff in H. destruct H as [H _]. exact H.
  - intros a b rest tr1 tr2 r _ _ _ IH H. apply IH.
    apply orb_false_iff in H. destruct H as [_ H]. exact H.
  - intros a b rest tr _ IH H. apply IH.
    apply orb_false_iff in H. destruct H as [H _].
    apply orb_false_iff in H. destruct H as [_ H]. exact H.
  - intros a b rest tr1 tr2 r _ _ _ IH H. apply IH.
    apply orb_false_iff in H. destruct H as [_ H]. exact H.
  - intros x body rest tr _ IH H. apply IH.
    apply orb_false_iff in H. destruct H as [H _]. exact H.
  - intros x body rest tr1 tr2 r _ _ _ IH H. apply IH.
    apply orb_false_iff in H. destruct H as [_ H]. exact H.
  - intros rest H. discriminate.
  - intros rest tr r H. discriminate.
  - reflexivity.
  - intros n body tr _ IH H. apply IH. exact H.
  - intros n body tr1 tr2 r _ _ _ IH H. apply IH. exact H.
Qed.

(* ------------------------------------------------------------------ *)
(* Loops                                                              *)
(* ------------------------------------------------------------------ *)

Definition loop_start (x : string) (k : Z) (L' : lin) : lin :=
  ladd_const k (ladd_term x k L').

Lemma ev_loop_start : forall en x k L' n,
  (forall v, ev (upd en x v) L' = ev en L') ->
  ev (upd en x n) (loop_start x k L') = ev en L' + k * Z.of_nat (S n).
Proof.
  intros en x k L' n HL. unfold loop_start.
  rewrite ev_ladd_const, ev_ladd_term, HL, upd_same. lia.
Qed.

(* the body falls through with a constant change d; k + d >= 0 is left over
   per iteration; e is what earlier iterations left over *)
Lemma loop_sound : forall en x body L' k d,
  mentions_l x body = false ->
  (forall v, ev (upd en x v) L' = ev en L') ->
  (forall en' tr r, exec en' body tr r ->
     exists c', feedZ tr (ev en' (loop_start x k L')) = Some c' /\
                if r then c' = 0 else c' = ev en' (loop_start x k L') + d) ->
  0 <= k + d ->
  (k + d = 0 \/ may_ret_l body = false) ->
  forall n tr r, iter en n body tr r ->
  forall e, 0 <= e -> (may_ret_l body = true -> e = 0) ->
    exists c', feedZ tr (ev en L' + k * Z.of_nat n + e) = Some c' /\
               if r then c' = 0 else c' = ev en L' + (k + d) * Z.of_nat n + e.
Proof.
  intros en x body L' k d Hm HL Hbody Hkd Hcase n.
  induction n as [|n IH]; intros tr r Hit e He Hret; inversion Hit; subst.
  - cbn [feedZ]. eexists. split; [reflexivity|]. lia.
  - (* the body returns in this iteration *)
    match goal with Hx : exec en body tr true |- _ => rename Hx into Hex end.
    assert (Hmr : may_ret_l body = true).
    { destruct (may_ret_l body) eqn:Hmr; [reflexivity|].
      pose proof (proj1 (exec_iter_no_ret en) _ _ _ Hex Hmr). discriminate. }
    specialize (Hret Hmr). subst e.
    apply (exec_upd en x n) in Hex; [|exact Hm].
    destruct (Hbody _ _ _ Hex) as [c' [Hf Hc]]. subst c'.
    rewrite (ev_loop_start en x k L' n HL) in Hf.
    exists 0. split; [|reflexivity]. rewrite Z.add_0_r. exact Hf.
  - (* the body falls through, then n more iterations *)
    match goal with Hx : exec en body ?t false |- _ => rename Hx into Hex end.
    match goal with Hx : iter en n body _ _ |- _ => rename Hx into Hrest end.
    apply (exec_upd en x n) in Hex; [|exact Hm].
    destruct (Hbody _ _ _ Hex) as [c1 [Hf Hc]].
    rewrite (ev_loop_start en x k L' n HL) in Hf, Hc.
    apply (feedZ_mono _ _ _ e He) in Hf.
    assert (He' : 0 <= e + (k + d)) by lia.
    assert (Hret' : may_ret_l body = true -> e + (k + d) = 0).
    { intros Hmr. specialize (Hret Hmr). destruct Hcase as [Hz|Hn]; [lia|].
      rewrite Hn in Hmr. discriminate. }
    destruct (IH _ _ Hrest _ He' Hret') as [c' [Hf2 Hc2]].
    exists c'. split.
    + rewrite feedZ_app, Hf. subst c1.
      replace (ev en L' + k * Z.of_nat (S n) + d + e)
        with (ev en L' + k * Z.of_nat n + (e + (k + d))) by lia.
      exact Hf2.
    + destruct r; [exact Hc2|]. lia.
Qed.

(* every execution of the body returns: the loop falls through only when the
   collection is empty *)
Lemma loop_allret : forall en x body L' k,
  mentions_l x body = false ->
  (forall v, ev (upd en x v) L' = ev en L') ->
  (forall en' tr r, exec en' body tr r ->
     exists c', feedZ tr (ev en' (loop_start x k L')) = Some c' /\ r = true /\ c' = 0) ->
  forall n tr r, iter en n body tr r ->
    exists c', feedZ tr (ev en L' + k * Z.of_nat n) = Some c' /\
               if r then c' = 0 else c' = ev en L'.
Proof.
  intros en x body L' k Hm HL Hbody n tr r Hit.
  inversion Hit; subst.
  - cbn [feedZ]. eexists. split; [reflexivity|]. lia.
  - match goal with Hx : exec en body tr true |- _ => rename Hx into Hex end.
    apply (exec_upd en x n0) in Hex; [|exact Hm].
    destruct (Hbody _ _ _ Hex) as [c' [Hf [_ Hc]]]. subst c'.
    rewrite (ev_loop_start en x k L' n0 HL) in Hf.
    exists 0. split; [exact Hf|reflexivity].
  - match goal with Hx : exec en body ?t false |- _ => rename Hx into Hex end.
    apply (exec_upd en x n0) in Hex; [|exact Hm].
    destruct (Hbody _ _ _ Hex) as [c' [_ [Hr _]]]. discriminate.
Qed.

(* ------------------------------------------------------------------ *)
(* Soundness of chk                                                   *)
(* ------------------------------------------------------------------ *)

Definition ok_res (en : env) (r : bool) (c' : Z) (R : res) : Prop :=
  if r then c' = 0 else exists L', R = RFall L' /\ c' = ev en L'.

Lemma join_not_fail : forall a b, join a b <> RFail -> a <> RFail /\ b <> RFail.
Proof.
  intros a b H. destruct a, b; cbn [join] in H; split; try congruence; try discriminate.
Qed.

Lemma join_fall_l : forall en a b La Lj,
  join a b = RFall Lj -> a = RFall La -> ev en La = ev en Lj.
Proof.
  intros en a b La Lj H Ha. subst a. destruct b as [| |Lb]; cbn [join] in H.
  - discriminate.
  - inversion H; subst. reflexivity.
  - destruct (lin_eqb La Lb) eqn:E; [|discriminate]. inversion H; subst. reflexivity.
Qed.

Lemma join_fall_r : forall en a b Lb Lj,
  join a b = RFall Lj -> b = RFall Lb -> ev en Lb = ev en Lj.
Proof.
  intros en a b Lb Lj H Hb. subst b. destruct a as [| |La]; cbn [join] in H.
  - discriminate.
  - inversion H; subst. reflexivity.
  - destruct (lin_eqb La Lb) eqn:E; [|discriminate]. inversion H; subst.
    symmetry. apply lin_eqb_sound. exact E.
Qed.

Lemma join_ret : forall a b, join a b = RRet -> a = RRet /\ b = RRet.
Proof.
  intros a b H. destruct a as [| |La], b as [| |Lb]; cbn [join] in H;
    try discriminate; try (split; reflexivity).
  destruct (lin_eqb La Lb); discriminate.
Qed.

Lemma ev_removed_upd : forall en x v c t,
  ev (upd en x v) (c, remove_var x t) = ev en (c, remove_var x t).
Proof.
  intros. unfold ev. cbn [fst snd]. rewrite ev_terms_remove_upd. reflexivity.
Qed.

Lemma ev_split : forall en x L,
  ev en L = ev en (fst L, remove_var x (snd L)) + coef x (snd L) * Z.of_nat (en x).
Proof.
  intros en x [c t]. unfold ev. cbn [fst snd]. rewrite (coef_remove en x t). lia.
Qed.

Lemma chk_sound : forall f p L,
  chk f p L <> RFail ->
  forall en tr r, exec en p tr r ->
  exists c', feedZ tr (ev en L) = Some c' /\ ok_res en r c' (chk f p L).
Proof.
  induction f as [|f IH]; intros p L Hnf en tr r Hex.
  { cbn [chk] in Hnf. congruence. }
  destruct p as [|s rest].
  { inversion Hex; subst. cbn [chk feedZ]. eexists. split; [reflexivity|].
    cbn [ok_res]. eexists. split; reflexivity. }
  destruct s as [|e|a b|x body| |]; cbn [chk] in *.
  - (* WVal *)
    destruct (ge1 L) eqn:Hge; [|congruence].
    pose proof (ge1_sound en L Hge) as H1.
    inversion Hex; subst.
    match goal with Hx : exec en rest _ _ |- _ => rename Hx into Hrest end.
    destruct (IH _ _ Hnf _ _ _ Hrest) as [c' [Hf Hok]].
    rewrite ev_ladd_const in Hf.
    exists c'. split; [|exact Hok].
    cbn [feedZ]. assert (Hle : (1 <=? ev en L) = true) by (apply Z.leb_le; lia).
    rewrite Hle. replace (ev en L - 1) with (ev en L + -1) by lia. exact Hf.
  - (* WArr *)
    destruct (lin_of_lenx e) as [A|] eqn:HA; [|congruence].
    destruct (ge1 L) eqn:Hge; [|congruence].
    pose proof (ge1_sound en L Hge) as H1.
    destruct (lin_of_lenx_sound en e A HA) as [n0 [Hn0 HevA]].
    inversion Hex; subst;
      match goal with Hx : leval en e = _ |- _ => rewrite Hn0 in Hx end; [|discriminate].
    match goal with Hx : Some _ = Some _ |- _ => inversion Hx; subst end.
    match goal with Hx : exec en rest _ _ |- _ => rename Hx into Hrest end.
    destruct (IH _ _ Hnf _ _ _ Hrest) as [c' [Hf Hok]].
    rewrite ev_ladd, ev_ladd_const, HevA in Hf.
    exists c'. split; [|exact Hok].
    cbn [feedZ]. assert (Hle : (1 <=? ev en L) = true) by (apply Z.leb_le; lia).
    rewrite Hle. replace (ev en L - 1) with (ev en L + -1) by lia. exact Hf.
  - (* WIf *)
    destruct (join (chk f a L) (chk f b L)) as [| |Lj] eqn:Hj; [congruence| |].
    + (* both branches always return *)
      destruct (join_ret _ _ Hj) as [Ha Hb].
      assert (Hna : chk f a L <> RFail) by (rewrite Ha; discriminate).
      assert (Hnb : chk f b L <> RFail) by (rewrite Hb; discriminate).
      inversion Hex; subst.
      * match goal with Hx : exec en a _ _ |- _ => rename Hx into H1 end.
        destruct (IH _ _ Hna _ _ _ H1) as [c' [Hf Hok]].
        exists c'. split; [exact Hf|]. cbn [ok_res] in *. exact Hok.
      * match goal with Hx : exec en a _ _ |- _ => rename Hx into H1 end.
        destruct (IH _ _ Hna _ _ _ H1) as [c' [_ Hok]].
        cbn [ok_res] in Hok. destruct Hok as [L' [Hc _]]. rewrite Ha in Hc. discriminate.
      * match goal with Hx : exec en b _ _ |- _ => rename Hx into H1 end.
        destruct (IH _ _ Hnb _ _ _ H1) as [c' [Hf Hok]].
        exists c'. split; [exact Hf|]. cbn [ok_res] in *. exact Hok.
      * match goal with Hx : exec en b _ _ |- _ => rename Hx into H1 end.
        destruct (IH _ _ Hnb _ _ _ H1) as [c' [_ Hok]].
        cbn [ok_res] in Hok. destruct Hok as [L' [Hc _]]. rewrite Hb in Hc. discriminate.
    + assert (Hjn : join (chk f a L) (chk f b L) <> RFail) by (rewrite Hj; discriminate).
      destruct (join_not_fail _ _ Hjn) as [Hna Hnb].
      inversion Hex; subst.
      * match goal with Hx : exec en a _ _ |- _ => rename Hx into H1 end.
        destruct (IH _ _ Hna _ _ _ H1) as [c' [Hf Hok]].
        exists c'. split; [exact Hf|]. cbn [ok_res] in *. exact Hok.
      * match goal with Hx : exec en a _ _ |- _ => rename Hx into H1 end.
        match goal with Hx : exec en rest _ _ |- _ => rename Hx into H2 end.
        destruct (IH _ _ Hna _ _ _ H1) as [c1 [Hf1 Hok1]].
        cbn [ok_res] in Hok1. destruct Hok1 as [La [HLa Hc1]].
        pose proof (join_fall_l en _ _ La Lj Hj HLa) as Heq.
        destruct (IH _ _ Hnf _ _ _ H2) as [c' [Hf2 Hok2]].
        exists c'. split; [|exact Hok2].
        rewrite feedZ_app, Hf1, Hc1, Heq. exact Hf2.
      * match goal with Hx : exec en b _ _ |- _ => rename Hx into H1 end.
        destruct (IH _ _ Hnb _ _ _ H1) as [c' [Hf Hok]].
        exists c'. split; [exact Hf|]. cbn [ok_res] in *. exact Hok.
      * match goal with Hx : exec en b _ _ |- _ => rename Hx into H1 end.
        match goal with Hx : exec en rest _ _ |- _ => rename Hx into H2 end.
        destruct (IH _ _ Hnb _ _ _ H1) as [c1 [Hf1 Hok1]].
        cbn [ok_res] in Hok1. destruct Hok1 as [Lb [HLb Hc1]].
        pose proof (join_fall_r en _ _ Lb Lj Hj HLb) as Heq.
        destruct (IH _ _ Hnf _ _ _ H2) as [c' [Hf2 Hok2]].
        exists c'. split; [|exact Hok2].
        rewrite feedZ_app, Hf1, Hc1, Heq. exact Hf2.
  - (* WFor *)
    destruct (mentions_l x body) eqn:Hm; [congruence|].
    set (k := coef x (snd L)) in *.
    set (L' := (fst L, remove_var x (snd L))) in *.
    fold (loop_start x k L') in *.
    assert (HL : forall v, ev (upd en x v) L' = ev en L').
    { intros v. unfold L'. apply ev_removed_upd. }
    pose proof (ev_split en x L) as Hsplit. fold k in Hsplit. fold L' in Hsplit.
    destruct (chk f body (loop_start x k L')) as [| |E] eqn:Hb; [congruence| |].
    + (* the body always returns *)
      assert (Hnb : chk f body (loop_start x k L') <> RFail) by (rewrite Hb; discriminate).
      assert (Hbody : forall en' tr r, exec en' body tr r ->
                exists c', feedZ tr (ev en' (loop_start x k L')) = Some c' /\ r = true /\ c' = 0).
      { intros en' tr0 r0 H0. destruct (IH _ _ Hnb _ _ _ H0) as [c' [Hf Hok]].
        exists c'. split; [exact Hf|]. rewrite Hb in Hok. destruct r0; cbn [ok_res] in Hok.
        - split; [reflexivity|exact Hok].
        - destruct Hok as [L0 [Hc _]]. discriminate. }
      inversion Hex; subst.
      * match goal with Hx : iter en _ body _ _ |- _ => rename Hx into Hit end.
        destruct (loop_allret en x body L' k Hm HL Hbody _ _ _ Hit) as [c' [Hf Hc]].
        exists c'. split; [rewrite Hsplit; exact Hf|]. cbn [ok_res]. exact Hc.
      * match goal with Hx : iter en _ body _ _ |- _ => rename Hx into Hit end.
        match goal with Hx : exec en rest _ _ |- _ => rename Hx into H2 end.
        destruct (loop_allret en x body L' k Hm HL Hbody _ _ _ Hit) as [c1 [Hf1 Hc1]].
        destruct (IH _ _ Hnf _ _ _ H2) as [c' [Hf2 Hok2]].
        exists c'. split; [|exact Hok2].
        rewrite feedZ_app, Hsplit, Hf1, Hc1. exact Hf2.
    + (* the body can fall through, with state E *)
      destruct (all_zero (snd (lsub E (loop_start x k L')))) eqn:Hconst; [|congruence].
      set (d := fst (lsub E (loop_start x k L'))) in *.
      destruct ((k + d =? 0) || ((0 <? k + d) && negb (may_ret_l body))) eqn:Hcond; [|congruence].
      assert (Hkd : 0 <= k + d /\ (k + d = 0 \/ may_ret_l body = false)).
      { apply orb_true_iff in Hcond. destruct Hcond as [Hz|Hp].
        - apply Z.eqb_eq in Hz. split; [lia|left; exact Hz].
        - apply andb_true_iff in Hp. destruct Hp as [Hp Hn].
          apply Z.ltb_lt in Hp. apply negb_true_iff in Hn. split; [lia|right; exact Hn]. }
      destruct Hkd as [Hkd Hcase].
      assert (Hnb : chk f body (loop_start x k L') <> RFail) by (rewrite Hb; discriminate).
      assert (HE : forall en', ev en' E = ev en' (loop_start x k L') + d).
      { intros en'. pose proof (ev_lsub en' E (loop_start x k L')) as Hs.
        unfold ev at 1 in Hs. rewrite (all_zero_sound en' _ Hconst) in Hs.
        fold d in Hs. lia. }
      assert (Hbody : forall en' tr r, exec en' body tr r ->
                exists c', feedZ tr (ev en' (loop_start x k L')) = Some c' /\
                           if r then c' = 0 else c' = ev en' (loop_start x k L') + d).
      { intros en' tr0 r0 H0. destruct (IH _ _ Hnb _ _ _ H0) as [c' [Hf Hok]].
        exists c'. split; [exact Hf|]. rewrite Hb in Hok. destruct r0; cbn [ok_res] in Hok.
        - exact Hok.
        - destruct Hok as [L0 [Hc Hv]]. inversion Hc; subst L0. rewrite Hv. apply HE. }
      assert (H00 : 0 <= 0) by lia.
      assert (Hr0 : may_ret_l body = true -> 0 = 0) by reflexivity.
      inversion Hex; subst.
      * match goal with Hx : iter en _ body _ _ |- _ => rename Hx into Hit end.
        destruct (loop_sound en x body L' k d Hm HL Hbody Hkd Hcase _ _ _ Hit 0 H00 Hr0)
          as [c' [Hf Hc]].
        exists c'. split; [|cbn [ok_res]; exact Hc].
        rewrite Hsplit. rewrite Z.add_0_r in Hf. exact Hf.
      * match goal with Hx : iter en _ body _ _ |- _ => rename Hx into Hit end.
        match goal with Hx : exec en rest _ _ |- _ => rename Hx into H2 end.
        destruct (loop_sound en x body L' k d Hm HL Hbody Hkd Hcase _ _ _ Hit 0 H00 Hr0)
          as [c1 [Hf1 Hc1]].
        destruct (IH _ _ Hnf _ _ _ H2) as [c' [Hf2 Hok2]].
        exists c'. split; [|exact Hok2].
        rewrite Z.add_0_r in Hf1, Hc1.
        rewrite feedZ_app, Hsplit, Hf1, Hc1.
        rewrite ev_ladd_term in Hf2. exact Hf2.
  - (* WRet *)
    destruct (is_zero L) eqn:Hz; [|congruence].
    inversion Hex; subst. cbn [feedZ]. eexists. split; [reflexivity|].
    cbn [ok_res]. apply is_zero_sound. exact Hz.
  - (* WUnknown *)
    congruence.
Qed.

(* ------------------------------------------------------------------ *)
(* Main theorem                                                       *)
(* ------------------------------------------------------------------ *)

Theorem check_sound : forall p, check p = true ->
  forall env tr ret, runs p env tr ret -> one_value tr.
Proof.
  intros p Hc en tr ret Hrun. unfold runs in Hrun. unfold check in Hc.
  destruct (chk (S (psize p)) p (lconst 1)) as [| |Lf] eqn:Hchk; [discriminate| |].
  - assert (Hnf : chk (S (psize p)) p (lconst 1) <> RFail) by (rewrite Hchk; discriminate).
    destruct (chk_sound _ _ _ Hnf _ _ _ Hrun) as [c' [Hf Hok]].
    rewrite Hchk in Hok.
    assert (Hz : c' = 0).
    { destruct ret; cbn [ok_res] in Hok; [exact Hok|].
      destruct Hok as [L0 [Hd _]]. discriminate. }
    subst c'. change (ev en (lconst 1)) with (Z.of_nat 1) in Hf.
    destruct (feed_of_feedZ _ _ _ Hf) as [c [Hfd Hc0]].
    unfold one_value. rewrite Hfd. f_equal. lia.
  - assert (Hnf : chk (S (psize p)) p (lconst 1) <> RFail) by (rewrite Hchk; discriminate).
    destruct (chk_sound _ _ _ Hnf _ _ _ Hrun) as [c' [Hf Hok]].
    rewrite Hchk in Hok.
    assert (Hz : c' = 0).
    { destruct ret; cbn [ok_res] in Hok; [exact Hok|].
      destruct Hok as [L0 [Hd Hv]]. inversion Hd; subst L0.
      rewrite Hv. apply is_zero_sound. exact Hc. }
    subst c'. change (ev en (lconst 1)) with (Z.of_nat 1) in Hf.
    destruct (feed_of_feedZ _ _ _ Hf) as [c [Hfd Hc0]].
    unfold one_value. rewrite Hfd. f_equal. lia.
Qed.

(* the boolean form of the property agrees with the Prop *)
Lemma one_valueb_spec : forall tr, one_valueb tr = true <-> one_value tr.
Proof.
  intros tr. unfold one_valueb, one_value. destruct (feed tr 1) as [[|c]|]; split; intros H;
    try reflexivity; try discriminate.
Qed.

(* ------------------------------------------------------------------ *)
(* The checker accepts the shapes found in the source ...             *)
(* ------------------------------------------------------------------ *)

Example accepts_pairs :      (* HGETALL: header 2*len, two writes per element *)
  check [WIf [WVal; WRet] []; WArr (LMul 2 (LLen "items")); WFor "items" [WVal; WVal]; WRet] = true.
Proof. vm_compute. reflexivity. Qed.

Example accepts_scan :       (* HSCAN: [cursor, [field, value, ...]] *)
  check [WIf [WVal; WRet] []; WArr (LConst 2); WVal;
         WArr (LMul 2 (LLen "res.Items")); WFor "res.Items" [WVal; WVal]; WRet] = true.
Proof. vm_compute. reflexivity. Qed.

Example accepts_branch_in_loop :   (* MGET: value or nil per key *)
  check [WArr (LLen "cmd.keys"); WFor "cmd.keys" [WIf [WVal] [WVal]]; WRet] = true.
Proof. vm_compute. reflexivity. Qed.

Example accepts_two_loops :
  check [WArr (LMul 2 (LLen "m")); WFor "m" [WVal]; WFor "m" [WVal]] = true.
Proof. vm_compute. reflexivity. Qed.

Example accepts_search_loop :      (* write and return when found, nil otherwise *)
  check [WFor "xs" [WIf [WVal; WRet] []]; WVal; WRet] = true.
Proof. vm_compute. reflexivity. Qed.

(* ... and rejects malformed replies *)

Example rejects_short_array :      (* header 2*len, one write per element *)
  check [WArr (LMul 2 (LLen "items")); WFor "items" [WVal]] = false.
Proof. vm_compute. reflexivity. Qed.

Example rejects_two_values : check [WVal; WVal] = false.
Proof. vm_compute. reflexivity. Qed.

Example rejects_silent_path :      (* the else path writes nothing *)
  check [WIf [WVal] []; WRet] = false.
Proof. vm_compute. reflexivity. Qed.

Example rejects_return_with_left_over :
  check [WArr (LMul 2 (LLen "m")); WFor "m" [WVal; WIf [WRet] []]; WFor "m" [WVal]] = false.
Proof. vm_compute. reflexivity. Qed.

Example rejects_unknown_header : check [WArr LUnknown; WFor "m" [WVal]] = false.
Proof. vm_compute. reflexivity. Qed.

Example rejects_unknown_stmt : check [WUnknown; WVal] = false.
Proof. vm_compute. reflexivity. Qed.

(* the rejected programs really have bad traces (the checker is not merely cautious) *)
Example short_array_bad_trace :
  let en : env := fun _ => 1%nat in
  runs [WArr (LMul 2 (LLen "items")); WFor "items" [WVal]] en [TArr 2; TVal] false /\
  ~ one_value [TArr 2; TVal].
Proof.
  split.
  - unfold runs. apply E_arr; [reflexivity|].
    change [TVal] with (([TVal] ++ @nil tok)%list). apply E_for; [|constructor].
    cbn. change [TVal] with (([TVal] ++ @nil tok)%list). apply I_next; repeat constructor.
  - unfold one_value. cbn. discriminate.
Qed.

Print Assumptions check_sound.
