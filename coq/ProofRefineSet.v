(* ProofRefineSet.v — C03: the DB-level set operations of the faithful model
   refine the abstract specification; the set algebra as membership. *)
From Redka Require Import Base Db Glob ImplKey ImplString ImplList ImplSet ImplHash ImplZSet Ops Spec Abs Inv Excl Refine ProofNoTrace ProofInv ProofInv2 ProofRefineStr.
From Coq Require Import Permutation Lia ZifyBool.
From Coq Require Import Sorted.

Definition set_op (o : op) : bool :=
  match o with
  | EAdd _ _ | EDelete _ _ | EAlg _ _ | EStore _ _ _ | EExists _ _ | EItems _ | ELen _
  | EMove _ _ _ | EPop _ _ | ERandom _ _ => true
  | _ => false
  end.   (* EScan is covered by the cursor-iteration theorems *)
(* Pop / Random pick a random member in SQL ("order by random()"); the model takes the member the
   implementation picked as an oracle input, which must be a member (or anything when the set is empty) *)
Definition legal_choice (now : Z) (d : db) (o : op) : Prop :=
  match o with
  | EPop k c | ERandom k c =>
      match live_key now d k T_SET with
      | Some r => match set_rows d (k_id r) with
                  | [] => True
                  | rows => exists e, c = Some e /\ In e (map e_elem rows)
                  end
      | None => True
      end
  | _ => True
  end.

(* ================================================================== *)
(* Part 0: String.leb is a total order; sorted permutations are equal *)
(* ================================================================== *)

Lemma acmp_lt_trans a b c :
  Ascii.compare a b = Lt -> Ascii.compare b c = Lt -> Ascii.compare a c = Lt.
Proof.
  unfold Ascii.compare. rewrite !N.compare_lt_iff. apply N.lt_trans.
Qed.

Lemma acmp_refl a : Ascii.compare a a = Eq.
Proof. unfold Ascii.compare. apply N.compare_refl. Qed.

Lemma scmp_lt_trans a : forall b c,
  String.compare a b = Lt -> String.compare b c = Lt -> String.compare a c = Lt.
Proof.
  induction a as [|x a IH]; intros [|y b] [|z c]; cbn [String.compare]; try discriminate; auto.
  destruct (Ascii.compare x y) eqn:XY; try discriminate.
  - apply Ascii.compare_eq_iff in XY. subst y.
    destruct (Ascii.compare x z) eqn:XZ; try discriminate; auto. apply IH.
  - intros _. destruct (Ascii.compare y z) eqn:YZ; try discriminate.
    + apply Ascii.compare_eq_iff in YZ. subst z. rewrite XY. reflexivity.
    + rewrite (acmp_lt_trans _ _ _ XY YZ). reflexivity.
Qed.

Lemma scmp_refl a : String.compare a a = Eq.
Proof. induction a as [|x a IH]; cbn [String.compare]; [reflexivity|]. rewrite acmp_refl. exact IH. Qed.

Lemma sleb_refl a : String.leb a a = true.
Proof. unfold String.leb. rewrite scmp_refl. reflexivity. Qed.

Lemma sleb_trans a b c : String.leb a b = true -> String.leb b c = true -> String.leb a c = true.
Proof.
  unfold String.leb.
  destruct (String.compare a b) eqn:AB; try discriminate; intros _.
  - apply String.compare_eq_iff in AB. subst b. auto.
  - destruct (String.compare b c) eqn:BC; try discriminate; intros _.
    + apply String.compare_eq_iff in BC. subst c. rewrite AB. reflexivity.
    + rewrite (scmp_lt_trans _ _ _ AB BC). reflexivity.
Qed.

Definition sle (a b : string) : Prop := String.leb a b = true.

Lemma SS_insert x l : StronglySorted sle l -> StronglySorted sle (insert_sorted String.leb x l).
Proof.
  induction 1 as [|y r Hr IH Hall]; cbn [insert_sorted].
  - constructor; constructor.
  - destruct (String.leb x y) eqn:XY.
    + constructor; [constructor; assumption|]. constructor; [exact XY|].
      eapply Forall_impl; [| exact Hall]. intros z Hz. eapply sleb_trans; eassumption.
    + constructor; [exact IH|].
      assert (YX : sle y x). { destruct (String.leb_total x y) as [H|H]; [congruence | exact H]. }
      apply Forall_forall. intros z Hz.
      apply (Permutation_in _ (perm_insert_sorted String.leb x r)) in Hz. destruct Hz as [<- | Hz]; [exact YX|].
      rewrite Forall_forall in Hall. auto.
Qed.

Lemma SS_isort l : StronglySorted sle (isort String.leb l).
Proof. induction l as [|x r IH]; cbn [isort]; [constructor | apply SS_insert; exact IH]. Qed.

Lemma SS_filter (p : string -> bool) l : StronglySorted sle l -> StronglySorted sle (filter p l).
Proof.
  induction 1 as [|y r Hr IH Hall]; cbn [filter]; [constructor|].
  destruct (p y); [| exact IH]. constructor; [exact IH|].
  apply Forall_forall. intros z Hz. apply filter_In in Hz as [Hz _].
  rewrite Forall_forall in Hall. auto.
Qed.

Lemma SS_perm_eq l : forall l', StronglySorted sle l -> StronglySorted sle l' -> Permutation l l' -> l = l'.
Proof.
  induction l as [|x r IH]; intros l' S1 S2 P.
  - apply Permutation_nil in P. auto.
  - destruct l' as [|y r']; [apply Permutation_sym, Permutation_nil in P; discriminate|].
    inversion S1 as [|? ? S1r A1]; subst. inversion S2 as [|? ? S2r A2]; subst.
    rewrite Forall_forall in A1, A2.
    assert (x = y).
    { assert (Hx : In x (y :: r')) by (eapply Permutation_in; [exact P | left; reflexivity]).
      assert (Hy : In y (x :: r)) by (eapply Permutation_in; [apply Permutation_sym; exact P | left; reflexivity]).
      destruct Hx as [E | Hx]; [auto|]. destruct Hy as [E | Hy]; [auto|].
      apply String.leb_antisym; [apply A1; exact Hy | apply A2; exact Hx]. }
    subst y. f_equal. apply IH; auto. eapply Permutation_cons_inv; exact P.
Qed.

Lemma isort_perm_eq l l' : Permutation l l' -> isort String.leb l = isort String.leb l'.
Proof.
  intros P. apply SS_perm_eq; try apply SS_isort.
  eapply Permutation_trans; [apply perm_isort|].
  eapply Permutation_trans; [exact P | apply Permutation_sym, perm_isort].
Qed.

Lemma isort_sorted l : StronglySorted sle l -> isort String.leb l = l.
Proof. intros S. apply SS_perm_eq; [apply SS_isort | exact S | apply perm_isort]. Qed.

(* ================================================================== *)
(* Part 1: the set algebra of the model, as membership                *)
(* ================================================================== *)

Lemma dedup_bytes_eq l : dedup_bytes l = dedup l.
Proof. induction l as [|x r IH]; cbn [dedup_bytes dedup]; [reflexivity|]. rewrite IH. reflexivity. Qed.

Lemma str_in_false x l : str_in x l = false <-> ~ In x l.
Proof.
  rewrite <- str_in_In. destruct (str_in x l); split; intros H; try congruence;
    try (exfalso; apply H; reflexivity).
Qed.

Lemma In_dedup e l : In e (dedup l) <-> In e l.
Proof.
  induction l as [|x r IH]; cbn [dedup]; [tauto|].
  destruct (str_in x r) eqn:X; cbn [In]; rewrite IH; [| tauto].
  apply str_in_In in X. split; [tauto|]. intros [<- | H]; auto.
Qed.

Lemma NoDup_dedup l : NoDup (dedup l).
Proof.
  induction l as [|x r IH]; cbn [dedup]; [constructor|].
  destruct (str_in x r) eqn:X; [exact IH|]. constructor; [| exact IH].
  rewrite In_dedup. apply str_in_false. exact X.
Qed.

Lemma In_isort_iff {A} (le : A -> A -> bool) l x : In x (isort le l) <-> In x l.
Proof.
  split; apply Permutation_in; [apply perm_isort | apply Permutation_sym, perm_isort].
Qed.

Lemma In_group_elems rows e : In e (group_elems rows) <-> In e (map e_elem rows).
Proof. unfold group_elems. rewrite In_isort_iff, dedup_bytes_eq, In_dedup. tauto. Qed.

Lemma NoDup_group_elems rows : NoDup (group_elems rows).
Proof. unfold group_elems. apply NoDup_isort. rewrite dedup_bytes_eq. apply NoDup_dedup. Qed.

Lemma SS_group_elems rows : StronglySorted sle (group_elems rows).
Proof. apply SS_isort. Qed.

Lemma live_key_row now d r :
  NoDup (map k_key (rkey d)) -> In r (rkey d) -> k_type r = T_SET -> live now r = true ->
  live_key now d (k_key r) T_SET = Some r.
Proof.
  intros N Hr T L. unfold live_key. rewrite find_key_in by assumption.
  rewrite T, Z.eqb_refl, L. reflexivity.
Qed.

Lemma ids_iff now d keys kid :
  NoDup (map k_key (rkey d)) ->
  In kid (live_set_ids now d keys) <->
  exists k r, In k keys /\ live_key now d k T_SET = Some r /\ k_id r = kid.
Proof.
  intros N. unfold live_set_ids. rewrite in_map_iff. split.
  - intros [r [E Hr]]. apply filter_In in Hr as [Hr C].
    apply andb_true_iff in C as [C L]. apply andb_true_iff in C as [C T].
    apply str_in_In in C. apply Z.eqb_eq in T.
    exists (k_key r), r. split; [exact C|]. split; [apply live_key_row; assumption | exact E].
  - intros [k [r [Hk [LK E]]]]. apply live_key_some in LK as [Hr [Kr [Tr Lr]]].
    exists r. split; [exact E|]. apply filter_In. split; [exact Hr|].
    rewrite Kr, Tr, Z.eqb_refl, Lr. apply str_in_In in Hk. rewrite Hk. reflexivity.
Qed.

Lemma In_set_rows d id x : In x (set_rows d id) <-> In x (rset d) /\ e_kid x = id.
Proof. unfold set_rows. rewrite filter_In, Z.eqb_eq. tauto. Qed.

Lemma In_set_elems d id e :
  In e (map e_elem (set_rows d id)) <-> exists x, In x (rset d) /\ e_kid x = id /\ e_elem x = e.
Proof.
  rewrite in_map_iff. split.
  - intros [x [E Hx]]. apply In_set_rows in Hx. exists x. tauto.
  - intros [x [Hx [K E]]]. exists x. split; [exact E | apply In_set_rows; auto].
Qed.

Definition mem_of (now : Z) (d : db) (k : bytes) (e : bytes) : Prop :=
  exists r, live_key now d k T_SET = Some r /\ In e (map e_elem (set_rows d (k_id r))).

Lemma rows_iff now d keys x :
  NoDup (map k_key (rkey d)) ->
  In x (rows_of_keys now d keys) <->
  In x (rset d) /\ exists k r, In k keys /\ live_key now d k T_SET = Some r /\ k_id r = e_kid x.
Proof.
  intros N. unfold rows_of_keys. rewrite filter_In, zmem_In, ids_iff by exact N. tauto.
Qed.

Lemma elems_iff now d keys e :
  NoDup (map k_key (rkey d)) ->
  In e (map e_elem (rows_of_keys now d keys)) <-> exists k, In k keys /\ mem_of now d k e.
Proof.
  intros N. rewrite in_map_iff. split.
  - intros [x [E Hx]]. apply rows_iff in Hx as [Hx [k [r [Hk [LK Ek]]]]]; [| exact N].
    exists k. split; [exact Hk|]. exists r. split; [exact LK|]. apply In_set_elems. exists x. auto.
  - intros [k [Hk [r [LK Hin]]]]. apply In_set_elems in Hin as [x [Hx [K E]]].
    exists x. split; [exact E|]. apply rows_iff; [exact N|]. split; [exact Hx|]. exists k, r. auto.
Qed.

Theorem C03_union_membership : forall now d keys e, Inv d ->
  In e (q_union now d keys) <-> exists k r, In k keys /\ live_key now d k T_SET = Some r /\ In e (map e_elem (set_rows d (k_id r))).
Proof.
  intros now d keys e I. pose proof (Inv_names d I) as N. unfold q_union.
  rewrite In_group_elems, elems_iff by exact N. unfold mem_of. split.
  - intros [k [Hk [r [A B]]]]. exists k, r. auto.
  - intros [k [r [Hk [A B]]]]. exists k. split; [exact Hk|]. exists r. auto.
Qed.

Theorem C03_diff_membership : forall now d first others e, Inv d ->
  In e (q_diff now d (first :: others)) <->
  (exists r, live_key now d first T_SET = Some r /\ In e (map e_elem (set_rows d (k_id r)))) /\
  (forall k r, In k others -> live_key now d k T_SET = Some r -> ~ In e (map e_elem (set_rows d (k_id r)))).
Proof.
  intros now d first others e I. pose proof (Inv_names d I) as N. unfold q_diff.
  destruct (live_key now d first T_SET) as [k0|] eqn:LK.
  - rewrite In_isort_iff, filter_In, negb_true_iff, str_in_false, elems_iff by exact N. split.
    + intros [H1 H2]. split; [exists k0; auto|]. intros k r Hk LKk Hin. apply H2.
      exists k. split; [exact Hk|]. exists r. auto.
    + intros [[r [E H1]] H2]. injection E as <-. split; [exact H1|].
      intros [k [Hk [r [LKk Hin]]]]. exact (H2 k r Hk LKk Hin).
  - split; [intros [] | intros [[r [E _]] _]; discriminate].
Qed.

(* count(distinct kid) *)
Definition dz (kids : list Z) : list Z :=
  fold_right (fun k acc => if zmem k acc then acc else k :: acc) [] kids.

Lemma dz_cons x r : dz (x :: r) = if zmem x (dz r) then dz r else x :: dz r.
Proof. reflexivity. Qed.

Lemma In_dz k l : In k (dz l) <-> In k l.
Proof.
  revert k. induction l as [|x r IH]; intros k; [cbn; tauto|]. rewrite dz_cons.
  destruct (zmem x (dz r)) eqn:X; cbn [In]; rewrite IH; [| tauto].
  apply zmem_In in X. rewrite IH in X. split; [tauto|]. intros [<- | H]; auto.
Qed.

Lemma NoDup_dz l : NoDup (dz l).
Proof.
  induction l as [|x r IH]; [constructor|]. rewrite dz_cons.
  destruct (zmem x (dz r)) eqn:X; [exact IH|]. constructor; [| exact IH].
  apply zmem_false. exact X.
Qed.

Lemma NoDup_map_inj_in {A B} (f : A -> B) l :
  NoDup l -> (forall a b, In a l -> In b l -> f a = f b -> a = b) -> NoDup (map f l).
Proof.
  induction l as [|x r IH]; cbn [map]; intros ND Hinj; [constructor|].
  inversion ND as [|? ? Hn Hr]; subst. constructor.
  - intros Hin. apply in_map_iff in Hin as [y [E Hy]].
    assert (y = x) by (apply Hinj; [right; exact Hy | left; reflexivity | exact E]). subst. auto.
  - apply IH; [exact Hr|]. intros a b Ha Hb. apply Hinj; right; assumption.
Qed.

Lemma zlen_filter_le {A} (p : A -> bool) l : zlen (filter p l) <= zlen l.
Proof.
  induction l as [|x r IH]; cbn [filter]; [lia|].
  destruct (p x); rewrite ?zlen_cons; lia.
Qed.

Lemma zlen_filter_all {A} (p : A -> bool) l :
  zlen (filter p l) = zlen l <-> forall x, In x l -> p x = true.
Proof.
  induction l as [|x r IH]; cbn [filter In]; [split; [intros _ ? [] | reflexivity]|].
  pose proof (zlen_filter_le p r) as LE.
  destruct (p x) eqn:P; rewrite ?zlen_cons.
  - split.
    + intros E y [<- | Hy]; [exact P|]. apply IH; [lia | exact Hy].
    + intros H. f_equal. apply IH. intros y Hy. apply H. right. exact Hy.
  - split; [lia|]. intros H. rewrite (H x (or_introl eq_refl)) in P. discriminate.
Qed.

Definition good (now : Z) (d : db) (e : bytes) (k : bytes) : bool :=
  match live_key now d k T_SET with
  | Some r => str_in e (map e_elem (set_rows d (k_id r)))
  | None => false
  end.
Definition idof (now : Z) (d : db) (k : bytes) : Z :=
  match live_key now d k T_SET with Some r => k_id r | None => 0 end.

Lemma good_iff now d e k : good now d e k = true <-> mem_of now d k e.
Proof.
  unfold good, mem_of. destruct (live_key now d k T_SET) as [r|].
  - rewrite str_in_In. split; [intros H; exists r; auto | intros [r' [E H]]; injection E as <-; exact H].
  - split; [discriminate | intros [r' [E _]]; discriminate].
Qed.

Lemma count_distinct_eq now d keys e :
  InvH None d ->
  count_distinct_kid (rows_of_keys now d keys) e = zlen (filter (good now d e) (dedup keys)).
Proof.
  intros I. pose proof (InvH_names _ _ I) as N.
  change (count_distinct_kid (rows_of_keys now d keys) e) with
    (zlen (dz (map e_kid (filter (fun r => String.eqb (e_elem r) e) (rows_of_keys now d keys))))).
  set (L := dz _).
  rewrite <- (zlen_map (idof now d) (filter (good now d e) (dedup keys))).
  apply zlen_perm. apply NoDup_Permutation.
  - apply NoDup_dz.
  - apply NoDup_map_inj_in; [apply NoDup_filter', NoDup_dedup|].
    intros a b Ha Hb E. apply filter_In in Ha as [_ Ga]. apply filter_In in Hb as [_ Gb].
    unfold good, idof in *.
    destruct (live_key now d a T_SET) as [ra|] eqn:LA; [| discriminate].
    destruct (live_key now d b T_SET) as [rb|] eqn:LB; [| discriminate].
    apply live_key_some in LA as [Hra [Ka _]]. apply live_key_some in LB as [Hrb [Kb _]].
    assert (ra = rb) by (apply (row_same_id _ d ra rb I Hra Hrb E)). congruence.
  - intros kid. unfold L. rewrite In_dz, in_map_iff. split.
    + intros [x [Ek Hx]]. apply filter_In in Hx as [Hx Ee]. apply String.eqb_eq in Ee.
      apply rows_iff in Hx as [Hx [k [r [Hk [LK Er]]]]]; [| exact N].
      rewrite in_map_iff. exists k. split; [unfold idof; rewrite LK; congruence|].
      apply filter_In. split; [apply In_dedup; exact Hk|]. apply good_iff. exists r. split; [exact LK|].
      apply In_set_elems. exists x. auto.
    + rewrite in_map_iff. intros [k [Ek Hk]]. apply filter_In in Hk as [Hk G]. apply (proj1 (In_dedup _ _)) in Hk.
      apply good_iff in G as [r [LK Hin]]. unfold idof in Ek. rewrite LK in Ek.
      apply In_set_elems in Hin as [x [Hx [Kx Ex]]]. exists x. split; [congruence|].
      apply filter_In. split; [| rewrite Ex; apply String.eqb_refl].
      apply rows_iff; [exact N|]. split; [exact Hx|]. exists k, r. auto.
Qed.

Lemma inter_iff now d keys e :
  InvH None d -> keys <> [] ->
  In e (q_inter now d keys) <-> forall k, In k keys -> mem_of now d k e.
Proof.
  intros I NE. pose proof (InvH_names _ _ I) as N. unfold q_inter.
  rewrite filter_In, In_group_elems, elems_iff, count_distinct_eq, Z.eqb_eq, zlen_filter_all by assumption.
  split.
  - intros [_ H] k Hk. apply good_iff. apply H. apply In_dedup. exact Hk.
  - intros H. split.
    + destruct keys as [|k0 ks]; [congruence|]. exists k0. split; [left; reflexivity | apply H; left; reflexivity].
    + intros k Hk. apply good_iff. apply H. apply (proj1 (In_dedup _ _)) in Hk. exact Hk.
Qed.

Theorem C03_inter_membership : forall now d keys e, Inv d -> keys <> [] ->
  In e (q_inter now d keys) <-> forall k, In k keys -> exists r, live_key now d k T_SET = Some r /\ In e (map e_elem (set_rows d (k_id r))).
Proof. intros now d keys e I NE. apply Inv_iff in I. apply inter_iff; assumption. Qed.

(* no duplicates: a set key has distinct members *)
Lemma nodup_by_NoDup_elems l id :
  nodup_by eqE l = true -> NoDup (map e_elem (filter (fun x => e_kid x =? id) l)).
Proof.
  induction l as [|x r IH]; cbn [nodup_by filter map]; [constructor|].
  rewrite andb_true_iff, negb_true_iff. intros [X ND].
  destruct (Z.eqb_spec (e_kid x) id) as [E|E]; [| auto]. cbn [map]. constructor; [| auto].
  intros Hin. apply in_map_iff in Hin as [y [Ey Hy]]. apply filter_In in Hy as [Hy Ky].
  assert (existsb (eqE x) r = true); [| congruence].
  apply existsb_exists. exists y. split; [exact Hy|]. unfold eqE. rewrite Ey, String.eqb_refl. lia.
Qed.

Lemma NoDup_set_elems d id : InvH None d -> NoDup (map e_elem (set_rows d id)).
Proof. intros I. apply nodup_by_NoDup_elems. exact (proj1 (i_e _ _ I)). Qed.

(* C03_algebra_no_duplicates as stated (no hypothesis on d) is false for the difference:
   two rows of one key with the same element; see C03_nodup_counterexample *)
Theorem C03_algebra_no_duplicates_partial : forall a now d keys, Inv d -> NoDup (q_alg a now d keys).
Proof.
  intros a now d keys I. apply Inv_iff in I. destruct a; cbn [q_alg].
  - apply NoDup_group_elems.
  - unfold q_inter. apply NoDup_filter', NoDup_group_elems.
  - unfold q_diff. destruct keys as [|first others]; [constructor|].
    destruct (live_key now d first T_SET) as [k|]; [| constructor].
    apply NoDup_isort, NoDup_filter', NoDup_set_elems. exact I.
Qed.

Definition cex_nd : db :=
  mkDb [mkKey 1 "a" 3 1 None 0 (Some 2)] [] [] [mkE 1 1 "x"; mkE 2 1 "x"] [] [] true.

Theorem C03_nodup_counterexample : ~ (forall a now d keys, NoDup (q_alg a now d keys)).
Proof.
  intros H. specialize (H ADiff 0 cex_nd ["a"]).
  assert (E : q_alg ADiff 0 cex_nd ["a"] = ["x"; "x"]) by (vm_compute; reflexivity).
  rewrite E in H. inversion H as [|? ? Hn _]; subst. apply Hn. left. reflexivity.
Qed.

(* union and intersection never repeat an element, whatever the state *)
Theorem C03_union_inter_no_duplicates : forall now d keys,
  NoDup (q_union now d keys) /\ NoDup (q_inter now d keys).
Proof.
  intros now d keys. split; [apply NoDup_group_elems|].
  unfold q_inter. apply NoDup_filter', NoDup_group_elems.
Qed.

Lemma SS_q_alg a now d keys : StronglySorted sle (q_alg a now d keys).
Proof.
  destruct a; cbn [q_alg].
  - apply SS_group_elems.
  - unfold q_inter. apply SS_filter, SS_group_elems.
  - unfold q_diff. destruct keys as [|first others]; [constructor|].
    destruct (live_key now d first T_SET); [apply SS_isort | constructor].
Qed.

(* ================================================================== *)
(* Part 2: the set algebra of the specification, as membership        *)
(* ================================================================== *)

Lemma add_members_cons l e es :
  add_members l (e :: es) = add_members (if str_in e l then l else l ++ [e]) es.
Proof. reflexivity. Qed.

Lemma In_add_members new : forall l e, In e (add_members l new) <-> In e l \/ In e new.
Proof.
  induction new as [|x r IH]; intros l e; [cbn; tauto|].
  rewrite add_members_cons, IH. cbn [In]. destruct (str_in x l) eqn:X.
  - apply str_in_In in X. split; [tauto|]. intros [H | [<- | H]]; auto.
  - rewrite in_app_iff. cbn [In]. tauto.
Qed.

Lemma NoDup_add_members new : forall l, NoDup l -> NoDup (add_members l new).
Proof.
  induction new as [|x r IH]; intros l ND; [exact ND|].
  rewrite add_members_cons. apply IH. destruct (str_in x l) eqn:X; [exact ND|].
  apply NoDup_snoc; [exact ND | apply str_in_false; exact X].
Qed.

Lemma add_members_fresh new : forall l,
  NoDup new -> (forall e, In e new -> ~ In e l) -> add_members l new = l ++ new.
Proof.
  induction new as [|x r IH]; intros l ND Hf; [rewrite app_nil_r; reflexivity|].
  inversion ND as [|? ? Hn Hr]; subst. rewrite add_members_cons.
  assert (X : str_in x l = false) by (apply str_in_false, Hf; left; reflexivity).
  rewrite X, IH; [rewrite <- app_assoc; reflexivity | exact Hr |].
  intros e He. rewrite in_app_iff. cbn [In]. intros [H | [<- | []]]; [| exact (Hn He)].
  apply (Hf e); [right; exact He | exact H].
Qed.

Section SpecAlg.
Variable M : bytes -> list bytes.

Lemma union_fold keys : forall acc e,
  In e (fold_left (fun acc k => add_members acc (M k)) keys acc) <->
  In e acc \/ exists k, In k keys /\ In e (M k).
Proof.
  induction keys as [|k ks IH]; intros acc e; cbn [fold_left].
  - split; [auto | intros [H | [k [[] _]]]; exact H].
  - rewrite IH, In_add_members. split.
    + intros [[H | H] | [k' [Hk H]]]; [auto | right; exists k; cbn; auto | right; exists k'; cbn; auto].
    + intros [H | [k' [[<- | Hk] H]]]; [auto | auto | right; exists k'; auto].
Qed.

Lemma union_fold_NoDup keys : forall acc,
  NoDup acc -> NoDup (fold_left (fun acc k => add_members acc (M k)) keys acc).
Proof.
  induction keys as [|k ks IH]; intros acc ND; cbn [fold_left]; [exact ND|].
  apply IH, NoDup_add_members, ND.
Qed.

End SpecAlg.

Lemma filter_fold (q : bytes -> bytes -> bool) keys : forall acc e,
  In e (fold_left (fun acc k => filter (fun e => q k e) acc) keys acc) <->
  In e acc /\ forall k, In k keys -> q k e = true.
Proof.
  induction keys as [|k ks IH]; intros acc e; cbn [fold_left].
  - split; [intros H; split; [exact H | intros k []] | tauto].
  - rewrite IH, filter_In. cbn [In]. split.
    + intros [[H Q] H2]. split; [exact H|]. intros k' [<- | Hk]; auto.
    + intros [H H2]. split; [split|]; auto.
Qed.

Lemma filter_fold_NoDup (q : bytes -> bytes -> bool) keys : forall acc,
  NoDup acc -> NoDup (fold_left (fun acc k => filter (fun e => q k e) acc) keys acc).
Proof.
  induction keys as [|k ks IH]; intros acc ND; cbn [fold_left]; [exact ND|].
  apply IH, NoDup_filter', ND.
Qed.

Lemma spec_alg_NoDup a s keys :
  (forall k, NoDup (members s k)) -> NoDup (spec_alg a s keys).
Proof.
  intros HM. unfold spec_alg. destruct keys as [|first others]; [constructor|]. destruct a.
  - apply (union_fold_NoDup (members s)). constructor.
  - apply (filter_fold_NoDup (fun k e => str_in e (members s k))). apply HM.
  - apply (filter_fold_NoDup (fun k e => negb (str_in e (members s k)))). apply HM.
Qed.

Lemma spec_union_iff s keys e :
  In e (spec_alg AUnion s keys) <-> exists k, In k keys /\ In e (members s k).
Proof.
  unfold spec_alg. destruct keys as [|first others].
  - split; [intros [] | intros [k [[] _]]].
  - rewrite (union_fold (members s)). split; [intros [[] | H]; exact H | auto].
Qed.

Lemma spec_inter_iff s first others e :
  In e (spec_alg AInter s (first :: others)) <-> forall k, In k (first :: others) -> In e (members s k).
Proof.
  unfold spec_alg. rewrite (filter_fold (fun k e => str_in e (members s k))). cbn [In]. split.
  - intros [H H2] k [<- | Hk]; [exact H | apply str_in_In, H2, Hk].
  - intros H. split; [apply H; auto|]. intros k Hk. apply str_in_In, H. auto.
Qed.

Lemma spec_diff_iff s first others e :
  In e (spec_alg ADiff s (first :: others)) <->
  In e (members s first) /\ forall k, In k others -> ~ In e (members s k).
Proof.
  unfold spec_alg. rewrite (filter_fold (fun k e => negb (str_in e (members s k)))). split.
  - intros [H H2]. split; [exact H|]. intros k Hk. apply str_in_false, negb_true_iff, H2, Hk.
  - intros [H H2]. split; [exact H|]. intros k Hk. apply negb_true_iff, str_in_false, H2, Hk.
Qed.

(* ================================================================== *)
(* Part 3: reading a set key through the view                         *)
(* ================================================================== *)

Definition smem (now : Z) (d : db) (k : bytes) : list bytes :=
  match live_key now d k T_SET with
  | Some r => map e_elem (set_rows d (k_id r))
  | None => []
  end.

Lemma In_smem now d k e : In e (smem now d k) <-> mem_of now d k e.
Proof.
  unfold smem, mem_of. destruct (live_key now d k T_SET) as [r|].
  - split; [intros H; exists r; auto | intros [r' [E H]]; injection E as <-; exact H].
  - split; [intros [] | intros [r' [E _]]; discriminate].
Qed.

Definition okt3 (o : option entry) : bool :=
  match o with Some e => atype (en_val e) =? 3 | None => true end.
Definition smemv (o : option entry) : list bytes :=
  match o with Some (mkEntry (AVSet l) _) => l | _ => [] end.
Definition osetv (o : option entry) : option (list bytes) :=
  match o with Some (mkEntry (AVSet l) _) => Some l | _ => None end.
Definition expv (o : option entry) : option Z :=
  match o with Some e => en_exp e | None => None end.

Lemma other_type_okt3 s k : other_type s k 3 = negb (okt3 (sget s k)).
Proof. unfold other_type, okt3. destruct (sget s k); reflexivity. Qed.

Lemma spec_set_osetv s k : spec_set_ s k = osetv (sget s k).
Proof. reflexivity. Qed.

Lemma members_smemv s k : members s k = smemv (sget s k).
Proof. unfold members, spec_set_, or_nil, smemv. destruct (sget s k) as [[[]]|]; reflexivity. Qed.

Lemma abs_val_set d r : k_type r = 3 -> abs_val d r = Some (AVSet (map e_elem (set_rows d (k_id r)))).
Proof. intros T. unfold abs_val. rewrite T. reflexivity. Qed.

Lemma abs_val_notset d r l : abs_val d r = Some (AVSet l) -> k_type r = 3.
Proof. intros H. apply abs_val_type in H. cbn in H. congruence. Qed.

Lemma live_key_any now d k T :
  live_key now d k T =
  match live_any now d k with Some r => if k_type r =? T then Some r else None | None => None end.
Proof.
  unfold live_key, live_any. destruct (find_key d k) as [r|]; [| reflexivity].
  destruct (live now r); [rewrite andb_true_r | rewrite andb_false_r]; reflexivity.
Qed.

Lemma osetv_view now d k :
  InvH None d ->
  osetv (view now d k) =
  match live_key now d k T_SET with Some r => Some (map e_elem (set_rows d (k_id r))) | None => None end.
Proof.
  intros I. rewrite live_key_any. destruct (live_any now d k) as [r|] eqn:L.
  - destruct (view_live _ _ _ _ I L) as [v [Ev [Tv V]]]. rewrite V. unfold T_SET.
    destruct (Z.eqb_spec (k_type r) 3) as [T|T].
    + rewrite abs_val_set in Ev by exact T. injection Ev as <-. reflexivity.
    + destruct v; try reflexivity. cbn in Tv. congruence.
  - rewrite (view_dead _ _ _ L). reflexivity.
Qed.

Lemma smemv_view now d k : InvH None d -> smemv (view now d k) = smem now d k.
Proof.
  intros I. pose proof (osetv_view now d k I) as H. unfold smem.
  destruct (live_key now d k T_SET); unfold osetv, smemv in *;
    destruct (view now d k) as [[[]]|]; congruence.
Qed.

Lemma okt3_view now d k :
  InvH None d ->
  okt3 (view now d k) = match live_any now d k with Some r => k_type r =? 3 | None => true end.
Proof.
  intros I. destruct (live_any now d k) as [r|] eqn:L.
  - destruct (view_live _ _ _ _ I L) as [v [Ev [Tv V]]]. rewrite V. cbn. rewrite Tv. reflexivity.
  - rewrite (view_dead _ _ _ L). reflexivity.
Qed.

(* the abstract state reads like the faithful one *)
Definition AbsOf (now : Z) (d : db) (s1 : sstate) : Prop :=
  InvH None d /\ NoDup (map fst s1) /\ forall k, sget s1 k = view now d k.

Lemma AbsOf_members now d s1 k : AbsOf now d s1 -> members s1 k = smem now d k.
Proof. intros [I [_ G]]. rewrite members_smemv, G. apply smemv_view. exact I. Qed.

Lemma AbsOf_R now d s1 : AbsOf now d s1 -> R now d s1.
Proof. intros [I [N G]]. apply R_intro; [exact I | exact N|]. intros k. rewrite G. apply purged_view. Qed.

Lemma R_AbsOf now d s : InvH None d -> R now d s -> AbsOf now d (spurge now s).
Proof. intros I HR. split; [exact I|]. split; [apply (N1 now d s I HR) | apply (G1 now d s I HR)]. Qed.

Lemma AbsOf_abs now d : InvH None d -> AbsOf now d (abs now d).
Proof.
  intros I. pose proof (InvH_names _ _ I) as N. split; [exact I|]. split.
  - apply abs_NoDup. exact N.
  - intros k. apply sget_abs. exact N.
Qed.

Lemma NoDup_smem now d k : InvH None d -> NoDup (smem now d k).
Proof. intros I. unfold smem. destruct (live_key now d k T_SET); [apply NoDup_set_elems; exact I | constructor]. Qed.

(* the two algebras agree *)
Lemma alg_same_members a now d s1 keys e :
  AbsOf now d s1 -> In e (spec_alg a s1 keys) <-> In e (q_alg a now d keys).
Proof.
  intros A. pose proof A as [I _]. pose proof (InvH_names _ _ I) as N.
  assert (HM : forall k x, In x (members s1 k) <-> mem_of now d k x).
  { intros k x. rewrite (AbsOf_members now d s1 k A). apply In_smem. }
  destruct keys as [|first others].
  { destruct a; cbn [q_alg spec_alg q_diff]; try tauto.
    - unfold q_union. rewrite In_group_elems, elems_iff by exact N.
      split; [intros [] | intros [k [[] _]]].
    - unfold q_inter. rewrite filter_In, In_group_elems, elems_iff by exact N.
      split; [intros [] | intros [[k [[] _]] _]]. }
  destruct a; cbn [q_alg].
  - rewrite spec_union_iff. unfold q_union. rewrite In_group_elems, elems_iff by exact N.
    split; intros [k [Hk H]]; exists k; (split; [exact Hk|]); apply HM; exact H.
  - rewrite spec_inter_iff, inter_iff by (try exact I; discriminate).
    split; intros H k Hk; apply HM; apply H; exact Hk.
  - rewrite spec_diff_iff. unfold q_diff. rewrite HM. unfold mem_of at 1.
    destruct (live_key now d first T_SET) as [k0|] eqn:LK.
    + rewrite In_isort_iff, filter_In, negb_true_iff, str_in_false, elems_iff by exact N.
      split.
      * intros [[r [E H1]] H2]. injection E as <-. split; [exact H1|].
        intros [k [Hk Hm]]. apply (H2 k Hk). apply HM. exact Hm.
      * intros [H1 H2]. split; [exists k0; auto|]. intros k Hk Hm. apply H2. exists k.
        split; [exact Hk | apply HM; exact Hm].
    + split; [intros [[r [E _]] _]; discriminate | intros []].
Qed.

Lemma alg_perm a now d s1 keys :
  AbsOf now d s1 -> Permutation (q_alg a now d keys) (spec_alg a s1 keys).
Proof.
  intros A. pose proof A as [I _]. apply NoDup_Permutation.
  - apply C03_algebra_no_duplicates_partial. apply Inv_iff. exact I.
  - apply spec_alg_NoDup. intros k. rewrite (AbsOf_members now d s1 k A). apply NoDup_smem. exact I.
  - intros e. symmetry. apply alg_same_members. exact A.
Qed.

Lemma alg_sorted_eq a now d s1 keys :
  AbsOf now d s1 -> q_alg a now d keys = isort String.leb (spec_alg a s1 keys).
Proof.
  intros A. apply SS_perm_eq; [apply SS_q_alg | apply SS_isort |].
  eapply Permutation_trans; [apply alg_perm; exact A | apply Permutation_sym, perm_isort].
Qed.

(* ================================================================== *)
(* Part 4: what the set-writing primitives do to the view             *)
(* ================================================================== *)

(* a live set key, its id, members and expiry *)
Definition SV (now : Z) (d : db) (key : bytes) (kid : Z) (l : list bytes) (x : option Z) : Prop :=
  exists r, In r (rkey d) /\ k_key r = key /\ k_id r = kid /\ k_type r = 3 /\ k_etime r = x /\
            lv now x = true /\ map e_elem (set_rows d kid) = l.

Lemma SV_view now d key kid l x :
  InvH None d -> SV now d key kid l x -> view now d key = Some (mkEntry (AVSet l) x).
Proof.
  intros I [r [Hr [Kr [Ir [Tr [Er [Lx El]]]]]]]. pose proof (InvH_names _ _ I) as N.
  rewrite (view_row' now d r key N Hr Kr), live_lv, Er, Lx, abs_val_set by exact Tr.
  rewrite Ir, El. reflexivity.
Qed.

Lemma SV_HasSet now d key kid l x : SV now d key kid l x -> HasSet kid d.
Proof. intros [r [Hr [Kr [Ir [Tr _]]]]]. exists r. auto. Qed.

(* one key row rewritten, rows of other ids untouched *)
Lemma frame_one key kid F d d' r :
  InvH None d -> In r (rkey d) -> k_key r = key -> k_id r = kid ->
  rkey d' = map F (rkey d) -> (forall x, In x (rkey d) -> k_id x <> kid -> F x = x) ->
  k_key (F r) = key ->
  (forall id, id <> kid -> same_rows d d' id) -> frame key d d'.
Proof.
  intros I Hr Kr Ir RK HF KF SR. split.
  - intros x Hx Hk.
    assert (Hid : k_id x <> kid).
    { intros E. apply Hk. rewrite <- Kr. f_equal. apply (row_same_id _ d x r I Hx Hr). congruence. }
    split; [| apply SR; exact Hid]. rewrite RK. apply in_map_iff. exists x. split; [apply HF; assumption | exact Hx].
  - intros x' Hx' Hk. rewrite RK in Hx'. apply in_map_iff in Hx' as [x [<- Hx]].
    destruct (Z.eq_dec (k_id x) kid) as [E|E].
    + assert (x = r) by (apply (row_same_id _ d x r I Hx Hr); congruence). subst x. contradiction.
    + rewrite HF by assumption. exact Hx.
Qed.

Lemma same_rows_rset d rs id :
  filter (fun x => e_kid x =? id) rs = filter (fun x => e_kid x =? id) (rset d) ->
  same_rows d (set_rset d rs) id.
Proof. intros E. repeat split. exact E. Qed.

Lemma same_rows_rkey d d' id :
  rstring d' = rstring d -> rlist d' = rlist d -> rset d' = rset d -> rhash d' = rhash d ->
  rzset d' = rzset d -> same_rows d d' id.
Proof. intros E1 E2 E3 E4 E5. unfold same_rows, find_sval. rewrite E1, E2, E3, E4, E5. repeat split. Qed.

Lemma same_rows_sym d d' id : same_rows d d' id -> same_rows d' d id.
Proof. intros [A1 [A2 [A3 [A4 A5]]]]. repeat split; symmetry; assumption. Qed.

Lemma set_rows_same d d' id : same_rows d d' id -> set_rows d' id = set_rows d id.
Proof. intros [_ [_ [A3 _]]]. exact A3. Qed.

(* ---- sqlAdd2 ---- *)

Lemma existsb_kid_elem kid e rs :
  existsb (fun r => (e_kid r =? kid) && String.eqb (e_elem r) e) rs =
  str_in e (map e_elem (filter (fun x => e_kid x =? kid) rs)).
Proof.
  induction rs as [|x rs IH]; [reflexivity|]. cbn [existsb filter].
  destruct (e_kid x =? kid); cbn [andb map str_in existsb]; rewrite IH; [| reflexivity].
  fold (str_in e (map e_elem (filter (fun x => e_kid x =? kid) rs))).
  rewrite (String.eqb_sym (e_elem x) e). reflexivity.
Qed.

Lemma set_add2_eff now key kid l x e d :
  InvH None d -> SV now d key kid l x ->
  exists d', set_add2 kid (Some e) d = (d', Ok (negb (str_in e l))) /\ InvH None d' /\
    SV now d' key kid (if str_in e l then l else l ++ [e]) x /\ frame key d d'.
Proof.
  intros I S. pose proof S as [r [Hr [Kr [Ir [Tr [Er [Lx El]]]]]]].
  destruct (set_add2 kid (Some e) d) as [d' c] eqn:E2.
  assert (I' : InvH None d').
  { destruct c as [c|err].
    - apply (set_add2_spec kid (Some e) d d' c (conj I (SV_HasSet _ _ _ _ _ _ S)) E2).
    - unfold set_add2 in E2. destruct (existsb _ (rset d)); discriminate. }
  unfold set_add2 in E2. rewrite existsb_kid_elem in E2. fold (set_rows d kid) in E2. rewrite El in E2.
  destruct (str_in e l) eqn:X; injection E2 as <- <-.
  - exists d. split; [reflexivity|]. split; [exact I|]. split; [exact S | apply frame_refl].
  - eexists. split; [reflexivity|]. split; [exact I'|].
    set (F := fun r0 => if k_id r0 =? kid then with_len r0 (opt_add (k_len r0) 1) else r0).
    set (new := mkE (next_set_rid d) kid e).
    assert (SR : forall id, filter (fun x => e_kid x =? id) (rset d ++ [new]) =
                 filter (fun x => e_kid x =? id) (rset d) ++ (if kid =? id then [new] else [])).
    { intros id. rewrite filter_app. cbn [filter e_kid new]. reflexivity. }
    split.
    + exists (F r). split; [| split; [| split; [| split; [| split; [| split]]]]].
      * change (In (F r) (map F (rkey d))). apply in_map. exact Hr.
      * unfold F. destruct (k_id r =? kid); exact Kr.
      * unfold F. destruct (k_id r =? kid); exact Ir.
      * unfold F. destruct (k_id r =? kid); exact Tr.
      * unfold F. destruct (k_id r =? kid); exact Er.
      * exact Lx.
      * unfold set_rows. cbn [rset upd_key_id upd_keys set_rkey set_rset].
        rewrite SR, Z.eqb_refl, map_app. fold (set_rows d kid). rewrite El. reflexivity.
    + apply (frame_one key kid F d _ r I Hr Kr Ir); [reflexivity | | |].
      * intros y _ Hy. unfold F. destruct (Z.eqb_spec (k_id y) kid); [contradiction | reflexivity].
      * unfold F. destruct (k_id r =? kid); exact Kr.
      * intros id Hid. unfold same_rows, find_sval. cbn [rstring rlist rset rhash rzset upd_key_id upd_keys set_rkey set_rset].
        rewrite SR. destruct (Z.eqb_spec kid id); [congruence|]. rewrite app_nil_r. repeat split.
Qed.

Lemma set_add_each_eff now key kid x es : forall l n d,
  InvH None d -> SV now d key kid l x ->
  exists d', set_add_each kid (map Some es) n d = (d', Ok (n + (zlen (add_members l es) - zlen l))) /\
    InvH None d' /\ SV now d' key kid (add_members l es) x /\ frame key d d'.
Proof.
  induction es as [|e es IH]; intros l n d I S.
  - exists d. cbn [map set_add_each add_members fold_left]. unfold ret.
    replace (n + (zlen l - zlen l)) with n by lia. split; [reflexivity|].
    split; [exact I|]. split; [exact S | apply frame_refl].
  - destruct (set_add2_eff now key kid l x e d I S) as [d1 [E1 [I1 [S1 F1]]]].
    destruct (IH _ (if negb (str_in e l) then n + 1 else n) d1 I1 S1) as [d2 [E2 [I2 [S2 F2]]]].
    exists d2. cbn [map set_add_each]. erewrite bind_ok; [| exact E1]. rewrite E2, add_members_cons.
    split; [| split; [exact I2 | split; [exact S2 | eapply frame_trans; eassumption]]].
    f_equal. f_equal. destruct (str_in e l); cbn [negb]; [lia|]. rewrite zlen_app. change (zlen [e]) with 1. lia.
Qed.

Lemma set_add_all_eff now key kid x es : forall l d,
  InvH None d -> SV now d key kid l x ->
  exists d', set_add_all kid es d = (d', Ok tt) /\
    InvH None d' /\ SV now d' key kid (add_members l es) x /\ frame key d d'.
Proof.
  induction es as [|e es IH]; intros l d I S.
  - exists d. split; [reflexivity|]. split; [exact I|]. split; [exact S | apply frame_refl].
  - destruct (set_add2_eff now key kid l x e d I S) as [d1 [E1 [I1 [S1 F1]]]].
    destruct (IH _ d1 I1 S1) as [d2 [E2 [I2 [S2 F2]]]].
    exists d2. cbn [set_add_all]. erewrite bind_ok; [| exact E1]. rewrite add_members_cons.
    split; [exact E2 | split; [exact I2 | split; [exact S2 | eapply frame_trans; eassumption]]].
Qed.

(* ---- sqlAdd1: the type-guarded upsert of a set key ---- *)

Lemma reset_struct3 now key d r0 :
  find_key d key = Some r0 -> expired now r0 = true ->
  exists G,
    (forall x, k_id (G x) = k_id x /\ k_key (G x) = k_key x /\ k_type (G x) = 3 /\ k_etime (G x) = None) /\
    rkey (reset_expired now key 3 d) = map (fun x => if k_id x =? k_id r0 then G x else x) (rkey d) /\
    rstring (reset_expired now key 3 d) = filter (fun x => negb (s_kid x =? k_id r0)) (rstring d) /\
    rlist (reset_expired now key 3 d) = filter (fun x => negb (l_kid x =? k_id r0)) (rlist d) /\
    rset (reset_expired now key 3 d) = filter (fun x => negb (e_kid x =? k_id r0)) (rset d) /\
    rhash (reset_expired now key 3 d) = filter (fun x => negb (h_kid x =? k_id r0)) (rhash d) /\
    rzset (reset_expired now key 3 d) = filter (fun x => negb (z_kid x =? k_id r0)) (rzset d).
Proof.
  intros F X. unfold reset_expired. rewrite F, X. rewrite trig_list_delete_eq.
  set (nl := zlen (filter (fun x => l_kid x =? k_id r0) (rlist d))).
  exists (fun x => mkKey (k_id (trigG now nl x)) (k_key (trigG now nl x)) 3 (k_ver (trigG now nl x)) None
                         (k_mtime (trigG now nl x)) (Some 0)).
  assert (TG : forall x, k_id (trigG now nl x) = k_id x /\ k_key (trigG now nl x) = k_key x).
  { intros x. unfold trigG. destruct (nl =? 0); cbn; auto. }
  split; [intros x; cbn; destruct (TG x); auto|].
  split; [| repeat split].
  unfold upd_key_id, upd_keys, set_rkey. cbn [rkey]. rewrite map_map. apply map_ext. intros x.
  destruct (k_id x =? k_id r0) eqn:E.
  - rewrite (proj1 (TG x)), E. reflexivity.
  - rewrite E. reflexivity.
Qed.

Lemma frame_reset3 now key d :
  InvH None d -> frame key d (reset_expired now key 3 d).
Proof.
  intros I. destruct (find_key d key) as [r0|] eqn:F.
  2:{ unfold reset_expired. rewrite F. apply frame_refl. }
  destruct (expired now r0) eqn:X.
  2:{ unfold reset_expired. rewrite F, X. apply frame_refl. }
  destruct (reset_struct3 now key d r0 F X) as [G [HG [E0 [E1 [E2 [E3 [E4 E5]]]]]]].
  apply find_key_some in F as [H0 K0].
  apply (frame_one key (k_id r0) (fun x => if k_id x =? k_id r0 then G x else x) d _ r0 I H0 K0 eq_refl E0).
  - intros x _ Hx. destruct (Z.eqb_spec (k_id x) (k_id r0)); [contradiction | reflexivity].
  - rewrite Z.eqb_refl. rewrite (proj1 (proj2 (HG r0))). exact K0.
  - intros id Hid. apply same_rows_filtered with (keep := fun k => negb (k =? k_id r0)); try assumption.
    apply negb_true_iff. lia.
Qed.

(* the conflict branch: only metadata of the row change *)
Lemma conflict3_eff now key d1 r1 :
  InvH None d1 -> find_key d1 key = Some r1 ->
  let r' := with_mtime (with_ver r1 (k_ver r1 + 1)) now in
  let d' := upd_key_id (k_id r1) (fun _ => r') d1 in
  frame key d1 d' /\ In r' (rkey d') /\ (forall id, set_rows d' id = set_rows d1 id).
Proof.
  intros I F r' d'. apply find_key_some in F as [H1 K1].
  split; [| split].
  - apply (frame_one key (k_id r1) (fun x => if k_id x =? k_id r1 then r' else x) d1 d' r1 I H1 K1 eq_refl).
    + reflexivity.
    + intros x _ Hx. destruct (Z.eqb_spec (k_id x) (k_id r1)); [contradiction | reflexivity].
    + rewrite Z.eqb_refl. exact K1.
    + intros id _. apply same_rows_rkey; reflexivity.
  - change (In r' (map (fun x => if k_id x =? k_id r1 then r' else x) (rkey d1))).
    apply in_map_iff. exists r1. rewrite Z.eqb_refl. auto.
  - reflexivity.
Qed.

Lemma set_rows_fresh d id :
  InvH None d -> (forall r, In r (rkey d) -> k_id r <> id) -> set_rows d id = [].
Proof.
  intros I H. unfold set_rows. apply filter_none. intros x Hx.
  destruct (Z.eqb_spec (e_kid x) id) as [E|E]; [| reflexivity]. exfalso.
  destruct (a_own _ _ _ (i_a _ _ I) 3 (e_kid x)) as [r [Hr [Er _]]]; [lia | |].
  - change (kidsOf d 3) with (map e_kid (rset d)). apply in_map. exact Hx.
  - apply (H r Hr). congruence.
Qed.

Lemma view_typed now d key r :
  InvH None d -> In r (rkey d) -> k_key r = key -> live now r = true ->
  exists v, abs_val d r = Some v /\ atype v = k_type r /\ view now d key = Some (mkEntry v (k_etime r)).
Proof.
  intros I Hr Kr L. pose proof (InvH_names _ _ I) as N.
  destruct (abs_val_typed d r I Hr) as [v [Ev Tv]]. exists v. split; [exact Ev|]. split; [exact Tv|].
  rewrite (view_row' now d r key N Hr Kr), L, Ev. reflexivity.
Qed.

Lemma set_add1_eff now key d :
  InvH None d ->
  if okt3 (view now d key) then
    exists d' k, set_add1 now key d = (d', Ok k) /\ InvH None d' /\
      SV now d' key (k_id k) (smemv (view now d key)) (expv (view now d key)) /\ frame key d d'
  else set_add1 now key d = (d, Err EKeyType).
Proof.
  intros I. pose proof (InvH_names _ _ I) as N.
  assert (Fin : forall d' k l x,
    upsert_key now key T_SET None (Some 0) (fun r => r) d = (d', Ok k) ->
    frame key d d' -> In k (rkey d') -> k_key k = key -> k_type k = 3 -> k_etime k = x -> lv now x = true ->
    map e_elem (set_rows d' (k_id k)) = l ->
    exists d' k, set_add1 now key d = (d', Ok k) /\ InvH None d' /\ SV now d' key (k_id k) l x /\ frame key d d').
  { intros d' k l x E Fr Hk Kk Tk Ek Lx El. exists d', k.
    assert (E1 : set_add1 now key d = (d', Ok k)) by (apply typed_error_ok_eq; exact E).
    split; [exact E1|]. split; [apply (set_add1_spec now key d d' k I E1)|]. split; [| exact Fr].
    exists k. repeat split; assumption. }
  unfold set_add1, upsert_key in *.
  destruct (find_key_cases d key) as [[r0 [Hr0 [K0 F]]] | [Hno F]].
  - destruct (expired now r0) eqn:X.
    + assert (V : view now d key = None).
      { rewrite (view_row' now d r0 key N Hr0 K0), live_expired, X. reflexivity. }
      rewrite V. cbn [okt3 smemv expv].
      pose proof (InvH_reset now key 3 d I ltac:(lia)) as I1. change (3 =? 1) with false in I1. cbv iota in I1.
      pose proof (frame_reset3 now key d I) as Fr1.
      destruct (reset_struct3 now key d r0 F X) as [G [HG [E0 [_ [_ [ES _]]]]]].
      unfold T_SET in *. set (d1 := reset_expired now key 3 d) in *.
      assert (In1 : In (G r0) (rkey d1)).
      { rewrite E0. apply in_map_iff. exists r0. rewrite Z.eqb_refl. auto. }
      destruct (HG r0) as [G1 [G2 [G3 G4]]].
      assert (F1 : find_key d1 key = Some (G r0)).
      { rewrite <- K0, <- G2. apply find_key_in; [eapply InvH_names; exact I1 | exact In1]. }
      destruct (conflict3_eff now key d1 (G r0) I1 F1) as [Fr2 [In2 SR2]].
      eapply Fin.
      * rewrite F1, G3. reflexivity.
      * eapply frame_trans; eassumption.
      * exact In2.
      * cbn. congruence.
      * cbn. exact G3.
      * cbn. exact G4.
      * reflexivity.
      * rewrite SR2. cbn [k_id with_mtime with_ver]. rewrite G1. unfold set_rows. rewrite ES.
        rewrite filter_filter, filter_none; [reflexivity|]. intros y _. destruct (e_kid y =? k_id r0); reflexivity.
    + assert (D1 : reset_expired now key T_SET d = d) by (unfold reset_expired; rewrite F, X; reflexivity).
      assert (L0 : live now r0 = true) by (rewrite live_expired, X; reflexivity).
      destruct (view_typed now d key r0 I Hr0 K0 L0) as [v [Ev [Tv V]]].
      rewrite V. cbn [okt3 en_val en_exp expv]. rewrite Tv.
      destruct (Z.eqb_spec (k_type r0) 3) as [T3|T3].
      * destruct (conflict3_eff now key d r0 I F) as [Fr2 [In2 SR2]].
        rewrite abs_val_set in Ev by exact T3. injection Ev as <-. cbn [smemv].
        eapply Fin.
        -- rewrite D1, F, T3. reflexivity.
        -- exact Fr2.
        -- exact In2.
        -- cbn. exact K0.
        -- cbn. exact T3.
        -- reflexivity.
        -- cbn. rewrite <- live_lv. exact L0.
        -- rewrite SR2. reflexivity.
      * unfold typed_error. rewrite D1, F. unfold T_SET.
        destruct (Z.eqb_spec (k_type r0) 3); [contradiction | reflexivity].
  - assert (D1 : reset_expired now key T_SET d = d) by (unfold reset_expired; rewrite F; reflexivity).
    rewrite (view_norow now d key Hno). cbn [okt3 smemv expv].
    set (rn := mkKey (next_key_id d) key T_SET 1 None now (Some 0)).
    assert (Fresh : forall r, In r (rkey d) -> k_id r <> next_key_id d).
    { intros r Hr. unfold next_key_id.
      assert (k_id r <= zmax_list (map k_id (rkey d))) by (apply zmax_ge, in_map; exact Hr). lia. }
    eapply (Fin (set_rkey d (rkey d ++ [rn])) rn).
    + rewrite D1, F. reflexivity.
    + split.
      * intros r Hr Hk. split; [cbn [rkey set_rkey]; apply in_or_app; left; exact Hr|].
        apply same_rows_rkey; reflexivity.
      * intros r Hr Hk. cbn [rkey set_rkey] in Hr. apply in_app_iff in Hr as [Hr | [<- | []]]; [exact Hr|].
        exfalso. apply Hk. reflexivity.
    + cbn [rkey set_rkey]. apply in_or_app. right. left. reflexivity.
    + reflexivity.
    + reflexivity.
    + reflexivity.
    + reflexivity.
    + change (set_rows (set_rkey d (rkey d ++ [rn])) (k_id rn)) with (set_rows d (next_key_id d)).
      rewrite set_rows_fresh; [reflexivity | exact I | exact Fresh].
Qed.

(* ---- rows of one set key go away, then sqlDelete2 ---- *)

Lemma filter_comm {A} (p q : A -> bool) l : filter p (filter q l) = filter q (filter p l).
Proof. rewrite !filter_filter. apply filter_ext. intros x. apply andb_comm. Qed.

Lemma rows_delete_eff now key k hit d :
  InvH None d -> live_key now d key T_SET = Some k ->
  (forall x, hit x = true -> e_kid x = k_id k) ->
  let d' := bump_key_len now key T_SET (zlen (filter hit (rset d)))
              (set_rset d (filter (fun r => negb (hit r)) (rset d))) in
  InvH None d' /\
  SV now d' key (k_id k) (map e_elem (filter (fun r => negb (hit r)) (set_rows d (k_id k)))) (k_etime k) /\
  frame key d d'.
Proof.
  intros I LK Hhit d'. apply live_key_some in LK as [Hk [Kk [Tk Lk]]].
  set (n := zlen (filter hit (rset d))) in *.
  set (F := fun r => if String.eqb (k_key r) key && (k_type r =? T_SET) && live now r
                     then with_len (with_mtime (with_ver r (k_ver r + 1)) now) (opt_add (k_len r) (- n))
                     else r).
  assert (RK : rkey d' = map F (rkey d)) by reflexivity.
  assert (FK : F k = with_len (with_mtime (with_ver k (k_ver k + 1)) now) (opt_add (k_len k) (- n))).
  { unfold F. rewrite Kk, String.eqb_refl, Tk, Z.eqb_refl, Lk. reflexivity. }
  split; [apply (HI_set_rows_delete now key k hit d); assumption|]. split.
  - exists (F k). split; [rewrite RK; apply in_map; exact Hk|]. rewrite FK.
    cbn [k_key k_id k_type k_etime with_len with_mtime with_ver].
    repeat split; try assumption.
    unfold set_rows. cbn [rset d' bump_key_len upd_keys set_rkey set_rset]. rewrite filter_comm. reflexivity.
  - apply (frame_one key (k_id k) F d d' k I Hk Kk eq_refl RK).
    + intros x Hx Hid. unfold F. destruct (String.eqb_spec (k_key x) key) as [E|E]; [| reflexivity].
      exfalso. apply Hid. f_equal. apply (row_same_key _ d x k I Hx Hk). congruence.
    + rewrite FK. cbn. exact Kk.
    + intros id Hid. unfold same_rows, find_sval.
      cbn [rstring rlist rset rhash rzset d' bump_key_len upd_keys set_rkey set_rset].
      repeat split. rewrite filter_filter. apply filter_ext. intros x.
      destruct (hit x) eqn:Hx; [| reflexivity]. cbn [negb andb].
      rewrite (Hhit x Hx). symmetry. apply Z.eqb_neq. congruence.
Qed.

Lemma set_delete_key_eff now key k d :
  InvH None d -> live_key now d key T_SET = Some k ->
  exists d', set_delete_key now key d = (d', Ok tt) /\ InvH None d' /\
    SV now d' key (k_id k) [] (k_etime k) /\ frame key d d'.
Proof.
  intros I LK. eexists. split; [unfold set_delete_key; rewrite LK; reflexivity|].
  split; [apply (pres_set_delete_key now key d _ tt I); unfold set_delete_key; rewrite LK; reflexivity|].
  apply live_key_some in LK as [Hk [Kk [Tk Lk]]].
  set (F := fun r => if k_id r =? k_id k then with_len (with_mtime (with_ver r 0) 0) (Some 0) else r).
  split.
  - exists (F k). split; [change (In (F k) (map F (rkey d))); apply in_map; exact Hk|].
    unfold F. rewrite Z.eqb_refl. cbn [k_key k_id k_type k_etime with_len with_mtime with_ver].
    repeat split; try assumption.
    unfold set_rows. cbn [rset upd_key_id upd_keys set_rkey set_rset]. rewrite filter_filter, filter_none; [reflexivity|].
    intros y _. destruct (e_kid y =? k_id k); reflexivity.
  - apply (frame_one key (k_id k) F d _ k I Hk Kk eq_refl); [reflexivity | | |].
    + intros x _ Hx. unfold F. destruct (Z.eqb_spec (k_id x) (k_id k)); [contradiction | reflexivity].
    + unfold F. rewrite Z.eqb_refl. cbn. exact Kk.
    + intros id Hid. unfold same_rows, find_sval.
      cbn [rstring rlist rset rhash rzset upd_key_id upd_keys set_rkey set_rset].
      repeat split. rewrite filter_filter. apply filter_ext. intros x.
      destruct (Z.eqb_spec (e_kid x) (k_id k)) as [E|E]; cbn [negb andb]; [| reflexivity].
      rewrite E. symmetry. apply Z.eqb_neq. congruence.
Qed.


(* ================================================================== *)
(* Part 5: each Tx-level set method simulates its specification       *)
(* ================================================================== *)

Lemma AbsOf_put now d d' s1 key kid l x :
  AbsOf now d s1 -> InvH None d' -> frame key d d' -> SV now d' key kid l x ->
  AbsOf now d' (sput key (mkEntry (AVSet l) x) s1).
Proof.
  intros [I [N G]] I' Fr S. split; [exact I'|]. split; [apply NoDup_sput; exact N|].
  intros k. rewrite sget_sput.
  rewrite (view_after now key d d' (InvH_names _ _ I) (InvH_names _ _ I') Fr _ (SV_view _ _ _ _ _ _ I' S) k).
  destruct (String.eqb key k); [reflexivity | apply G].
Qed.

Definition sim_at {A} (now : Z) (m : M A) (f : A -> rv) (sp : sstate -> sstate * out)
           (d : db) (s1 : sstate) : Prop :=
  exists d' r, m d = (d', r) /\
    match r with
    | Ok a => exists s' v, sp s1 = (s', out_ok v) /\ rv_equiv (f a) v /\ AbsOf now d' s'
    | Err e => sp s1 = (s1, out_err e)
    end.

Lemma step_of_sim_w {A} now o (m : M A) f sp d s :
  InvH None d -> R now d s -> wrapped o = true ->
  exec_tx true now o d = run m f d -> spec_step now o s = sp (spurge now s) ->
  (forall r, proj_result o r = r) ->
  sim_at now m f sp d (spurge now s) -> step_refines now o d s.
Proof.
  intros I HR W E1 E2 Pj [d' [r [Em H]]]. destruct r as [a|e].
  - destruct H as [s' [v [Es [Ev A']]]]. eapply step_intro.
    + eapply exec_wrapped_run; [exact W | exact E1 | exact Em].
    + rewrite E2. exact Es.
    + split; [reflexivity|]. cbn [res_out o_val out_ok]. rewrite Pj. exact Ev.
    + apply AbsOf_R. exact A'.
  - eapply step_intro.
    + eapply exec_wrapped_run; [exact W | exact E1 | exact Em].
    + rewrite E2. exact H.
    + apply out_equiv_refl. apply Pj.
    + apply R_spurge. exact HR.
Qed.

Lemma step_of_sim_r {A} now o (m : M A) f sp d s :
  InvH None d -> R now d s -> wrapped o = false -> (forall d0, fst (m d0) = d0) ->
  exec_tx false now o d = run m f d -> spec_step now o s = sp (spurge now s) ->
  (forall r, proj_result o r = r) ->
  sim_at now m f sp d (spurge now s) -> step_refines now o d s.
Proof.
  intros I HR W RO E1 E2 Pj [d' [r [Em H]]]. destruct r as [a|e].
  - destruct H as [s' [v [Es [Ev A']]]]. eapply step_intro.
    + eapply exec_unwrapped_run; [exact W | exact E1 | exact Em].
    + rewrite E2. exact Es.
    + split; [reflexivity|]. cbn [res_out o_val out_ok]. rewrite Pj. exact Ev.
    + apply AbsOf_R. exact A'.
  - eapply step_intro.
    + eapply exec_unwrapped_run; [exact W | exact E1 | exact Em].
    + rewrite E2. exact H.
    + apply out_equiv_refl. apply Pj.
    + pose proof (RO d) as X. rewrite Em in X. cbn in X. subst d'. apply R_spurge. exact HR.
Qed.

(* the argument list *)
Lemma values_cases vs :
  (values_bytes vs = None /\ values_of vs = None) \/
  (exists es, values_bytes vs = Some (map Some es) /\ values_of vs = Some es).
Proof.
  induction vs as [|v vs IH]; [right; exists []; auto|].
  cbn [values_bytes values_of].
  destruct (to_bytes_cases v) as [[Tb [Bv _]] | [b [Tb [Bv _]]]]; rewrite Tb, Bv; [left; auto|].
  destruct IH as [[E1 E2] | [es [E1 E2]]]; rewrite E1, E2; [left; auto|].
  right. exists (b :: es). auto.
Qed.

Lemma opt_in_some e es : opt_in e (map Some es) = str_in e es.
Proof.
  induction es as [|x es IH]; [reflexivity|]. cbn [map opt_in existsb str_in].
  fold (opt_in e (map Some es)). fold (str_in e es). rewrite IH, (String.eqb_sym x e). reflexivity.
Qed.

Lemma zlen_filter_split {A} (p : A -> bool) l :
  zlen (filter p l) + zlen (filter (fun x => negb (p x)) l) = zlen l.
Proof.
  induction l as [|x r IH]; cbn [filter]; [reflexivity|].
  destruct (p x); cbn [negb]; rewrite !zlen_cons; lia.
Qed.

Lemma keep_exp_expv s k : keep_exp s k = expv (sget s k).
Proof. reflexivity. Qed.

Lemma or_nil_members s k : or_nil (spec_set_ s k) = members s k.
Proof. reflexivity. Qed.

(* ---- Add ---- *)

Lemma sim_add now key vs d s1 :
  AbsOf now d s1 -> sim_at now (set_add now key vs) VI (fun s => spec_sadd s key vs) d s1.
Proof.
  intros A. pose proof A as [I [N G]]. unfold sim_at, set_add, spec_sadd, bytes_args.
  destruct (values_cases vs) as [[E1 E2] | [es [E1 E2]]]; rewrite E1, E2.
  { exists d, (Err EValueType). split; reflexivity. }
  rewrite other_type_okt3, or_nil_members, members_smemv, G.
  unfold sput_val. rewrite keep_exp_expv, G.
  pose proof (set_add1_eff now key d I) as H1. destruct (okt3 (view now d key)); cbn [negb].
  - destruct H1 as [d1 [k [Ek [I1 [S1 F1]]]]].
    destruct (set_add_each_eff now key (k_id k) _ es _ 0 d1 I1 S1) as [d2 [E2' [I2 [S2 F2]]]].
    eexists d2, (Ok _). split.
    + unfold bind at 1. unfold ret at 1. erewrite bind_ok; [exact E2' | exact Ek].
    + eexists _, _. split; [reflexivity|]. split; [apply VI_equiv; lia|].
      eapply AbsOf_put; [exact A | exact I2 | eapply frame_trans; eassumption | exact S2].
  - exists d, (Err EKeyType). split; [| reflexivity].
    unfold bind at 1. unfold ret at 1. erewrite bind_err; [reflexivity | exact H1].
Qed.

(* ---- Delete ---- *)

Lemma hit_rows (hit : erow -> bool) kid d :
  (forall x, hit x = true -> e_kid x = kid) ->
  zlen (filter hit (rset d)) =
  zlen (set_rows d kid) - zlen (filter (fun r => negb (hit r)) (set_rows d kid)).
Proof.
  intros H. pose proof (zlen_filter_split hit (set_rows d kid)) as S.
  assert (E : filter hit (set_rows d kid) = filter hit (rset d)).
  { unfold set_rows. apply filter_absorb. intros x Hx. apply Z.eqb_eq. auto. }
  rewrite E in S. lia.
Qed.

Lemma elems_filter (hit : erow -> bool) (q : bytes -> bool) rows :
  (forall r, In r rows -> hit r = q (e_elem r)) ->
  map e_elem (filter (fun r => negb (hit r)) rows) = filter (fun e => negb (q e)) (map e_elem rows).
Proof.
  intros H. rewrite filter_map_comm. f_equal. apply filter_ext_in. intros r Hr. rewrite H by exact Hr. reflexivity.
Qed.

Lemma sim_delete now key vs d s1 :
  AbsOf now d s1 -> sim_at now (set_delete now key vs) VI (fun s => spec_sdelete s key vs) d s1.
Proof.
  intros A. pose proof A as [I [N G]]. unfold sim_at, set_delete, spec_sdelete, bytes_args.
  destruct (values_cases vs) as [[E1 E2] | [es [E1 E2]]]; rewrite E1, E2.
  { exists d, (Err EValueType). split; reflexivity. }
  rewrite spec_set_osetv, G, osetv_view by exact I.
  unfold bind at 1. unfold ret at 1.
  destruct (live_key now d key T_SET) as [k|] eqn:LK.
  2:{ exists d, (Ok 0). split; [reflexivity|]. exists s1, (VI 0). split; [reflexivity|]. split; [apply rve_refl | exact A]. }
  set (hit := fun r => (e_kid r =? k_id k) && opt_in (e_elem r) (map Some es)).
  assert (Hhit : forall x, hit x = true -> e_kid x = k_id k).
  { intros x Hx. unfold hit in Hx. apply andb_true_iff in Hx as [Hx _]. lia. }
  assert (EL : map e_elem (filter (fun r => negb (hit r)) (set_rows d (k_id k))) =
               filter (fun e => negb (str_in e es)) (map e_elem (set_rows d (k_id k)))).
  { apply elems_filter. intros r Hr. apply In_set_rows in Hr as [_ Kr]. unfold hit.
    rewrite Kr, Z.eqb_refl, opt_in_some. reflexivity. }
  assert (EN : zlen (filter hit (rset d)) =
               zlen (map e_elem (set_rows d (k_id k))) -
               zlen (filter (fun e => negb (str_in e es)) (map e_elem (set_rows d (k_id k))))).
  { rewrite (hit_rows hit (k_id k) d Hhit), <- EL, !zlen_map. reflexivity. }
  rewrite <- EN. destruct (zlen (filter hit (rset d)) =? 0) eqn:Z0.
  { exists d, (Ok 0). split; [reflexivity|]. exists s1, (VI 0). split; [reflexivity|]. split; [apply rve_refl | exact A]. }
  destruct (rows_delete_eff now key k hit d I LK Hhit) as [I' [S' F']].
  eexists _, (Ok _). split; [reflexivity|]. eexists _, _. split; [reflexivity|]. split; [apply rve_refl|].
  unfold sput_val. rewrite keep_exp_expv, G.
  assert (EX : expv (view now d key) = k_etime k).
  { rewrite live_key_any in LK. destruct (live_any now d key) as [r|] eqn:L; [| discriminate].
    destruct (k_type r =? T_SET); [| discriminate]. injection LK as ->.
    destruct (view_live _ _ _ _ I L) as [v [_ [_ V]]]. rewrite V. reflexivity. }
  rewrite EX, <- EL. eapply AbsOf_put; eassumption.
Qed.

Lemma expv_live_key now d key k :
  InvH None d -> live_key now d key T_SET = Some k -> expv (view now d key) = k_etime k.
Proof.
  intros I LK. rewrite live_key_any in LK. destruct (live_any now d key) as [r|] eqn:L; [| discriminate].
  destruct (k_type r =? T_SET); [| discriminate]. injection LK as ->.
  destruct (view_live _ _ _ _ I L) as [v [_ [_ V]]]. rewrite V. reflexivity.
Qed.

Lemma existsb_elem e rows :
  existsb (fun r => String.eqb (e_elem r) e) rows = str_in e (map e_elem rows).
Proof.
  induction rows as [|x rows IH]; [reflexivity|]. cbn [existsb map str_in].
  fold (str_in e (map e_elem rows)). rewrite IH, (String.eqb_sym (e_elem x) e). reflexivity.
Qed.

(* ---- Pop ---- *)

Definition spec_pop_set (key : bytes) (c : option bytes) (s : sstate) : sstate * out :=
  match c with
  | Some e => if str_in e (members s key)
              then (sput_val s key (AVSet (filter (fun x => negb (String.eqb x e)) (members s key))), out_ok (VS e))
              else (s, out_err ENotFound)
  | None => (s, out_err ENotFound)
  end.

Lemma sim_pop now key c d s1 :
  AbsOf now d s1 -> legal_choice now d (EPop key c) ->
  sim_at now (set_pop now key c) VS (spec_pop_set key c) d s1.
Proof.
  intros A LC. pose proof A as [I [N G]]. unfold sim_at, set_pop, spec_pop_set.
  rewrite (AbsOf_members now d s1 key A). unfold smem. cbn [legal_choice] in LC.
  destruct (live_key now d key T_SET) as [k|] eqn:LK.
  2:{ exists d, (Err ENotFound). split; [reflexivity|]. destruct c; reflexivity. }
  destruct (set_rows d (k_id k)) as [|first rest] eqn:SR.
  { exists d, (Err ENotFound). split; [reflexivity|]. destruct c; reflexivity. }
  destruct LC as [e [-> Hin]]. rewrite <- SR in *.
  assert (X : str_in e (map e_elem (set_rows d (k_id k))) = true) by (apply str_in_In; exact Hin).
  rewrite existsb_elem, X.
  set (hit := fun r => (e_kid r =? k_id k) && String.eqb (e_elem r) e).
  assert (Hhit : forall x, hit x = true -> e_kid x = k_id k).
  { intros x Hx. unfold hit in Hx. apply andb_true_iff in Hx as [Hx _]. lia. }
  assert (Hone : zlen (filter hit (rset d)) = 1).
  { apply count_one; [exact (proj1 (i_e _ _ I))|]. apply In_set_elems in Hin as [x Hx]. exists x. exact Hx. }
  destruct (rows_delete_eff now key k hit d I LK Hhit) as [I' [S' F']]. rewrite Hone in I', S', F'.
  assert (EL : map e_elem (filter (fun r => negb (hit r)) (set_rows d (k_id k))) =
               filter (fun x => negb (String.eqb x e)) (map e_elem (set_rows d (k_id k)))).
  { apply (elems_filter hit (fun x => String.eqb x e)). intros r Hr. apply In_set_rows in Hr as [_ Kr].
    unfold hit. rewrite Kr, Z.eqb_refl. reflexivity. }
  eexists _, (Ok e). split; [reflexivity|]. eexists _, _. split; [reflexivity|]. split; [apply rve_refl|].
  unfold sput_val. rewrite keep_exp_expv, G, (expv_live_key now d key k I LK), <- EL.
  eapply AbsOf_put; eassumption.
Qed.

(* ---- the reads ---- *)

Lemma sim_exists now key v d s1 :
  AbsOf now d s1 ->
  sim_at now (set_exists now key v) VB
    (fun s => match bytes_of_value v with
              | Some e => (s, out_ok (VB (str_in e (members s key))))
              | None => (s, out_err EValueType)
              end) d s1.
Proof.
  intros A. unfold sim_at, set_exists.
  destruct (to_bytes_cases v) as [[Tb [Bv _]] | [b [Tb [Bv _]]]]; rewrite Tb, Bv.
  { exists d, (Err EValueType). split; reflexivity. }
  eexists d, (Ok _). split; [reflexivity|]. eexists _, _. split; [reflexivity|]. split; [| exact A].
  rewrite (AbsOf_members now d s1 key A). unfold smem.
  destruct (live_key now d key T_SET); [rewrite existsb_elem|]; apply rve_refl.
Qed.

Lemma sim_items now key d s1 :
  AbsOf now d s1 ->
  sim_at now (set_items now key) (fun l => VU (map VS l))
    (fun s => (s, out_ok (VU (map VS (members s key))))) d s1.
Proof.
  intros A. unfold sim_at, set_items.
  eexists d, (Ok _). split; [reflexivity|]. eexists _, _. split; [reflexivity|]. split; [| exact A].
  rewrite (AbsOf_members now d s1 key A). apply rve_refl.
Qed.

Lemma set_len_ok now key d k :
  InvH None d -> live_key now d key T_SET = Some k -> k_len k = Some (zlen (set_rows d (k_id k))).
Proof.
  intros I LK. apply live_key_some in LK as [Hk [_ [Tk _]]].
  pose proof (LenH_None _ _ (a_len _ _ _ (i_a _ _ I) k Hk)) as [[T1 _] | [_ L]].
  - unfold T_SET in Tk. lia.
  - rewrite L, Tk. unfold set_rows. rewrite (cntz_map e_kid). reflexivity.
Qed.

Lemma sim_len now key d s1 :
  AbsOf now d s1 ->
  sim_at now (set_len now key) VI (fun s => (s, out_ok (VI (zlen (members s key))))) d s1.
Proof.
  intros A. pose proof A as [I _]. unfold sim_at, set_len.
  rewrite (AbsOf_members now d s1 key A). unfold smem.
  destruct (live_key now d key T_SET) as [k|] eqn:LK.
  - rewrite (set_len_ok now key d k I LK), zlen_map.
    eexists d, (Ok _). split; [reflexivity|]. eexists _, _. split; [reflexivity|]. split; [apply rve_refl | exact A].
  - eexists d, (Ok _). split; [reflexivity|]. eexists _, _. split; [reflexivity|]. split; [apply rve_refl | exact A].
Qed.

Definition spec_random_set (key : bytes) (c : option bytes) (s : sstate) : sstate * out :=
  match c with
  | Some e => if str_in e (members s key) then (s, out_ok (VS e)) else (s, out_err ENotFound)
  | None => (s, out_err ENotFound)
  end.

Lemma sim_random now key c d s1 :
  AbsOf now d s1 -> legal_choice now d (ERandom key c) ->
  sim_at now (set_random now key c) VS (spec_random_set key c) d s1.
Proof.
  intros A LC. unfold sim_at, set_random, spec_random_set.
  rewrite (AbsOf_members now d s1 key A). unfold smem. cbn [legal_choice] in LC.
  destruct (live_key now d key T_SET) as [k|] eqn:LK.
  2:{ exists d, (Err ENotFound). split; [reflexivity|]. destruct c; reflexivity. }
  destruct (set_rows d (k_id k)) as [|first rest] eqn:SR.
  { exists d, (Err ENotFound). split; [reflexivity|]. destruct c; reflexivity. }
  destruct LC as [e [-> Hin]].
  assert (X : str_in e (map e_elem (first :: rest)) = true) by (apply str_in_In; exact Hin).
  rewrite existsb_elem, X.
  eexists d, (Ok _). split; [reflexivity|]. eexists _, _. split; [reflexivity|]. split; [apply rve_refl | exact A].
Qed.

Lemma sim_alg a now keys d s1 :
  AbsOf now d s1 ->
  sim_at now (set_alg a now keys) (fun l => VU (map VS l))
    (fun s => (s, out_ok (VU (map VS (spec_alg a s keys))))) d s1.
Proof.
  intros A. unfold sim_at, set_alg. destruct keys as [|k0 ks].
  - eexists d, (Ok _). split; [reflexivity|]. eexists _, _. split; [reflexivity|]. split; [| exact A].
    destruct a; apply rve_refl.
  - eexists d, (Ok _). split; [reflexivity|]. eexists _, _. split; [reflexivity|]. split; [| exact A].
    apply rve_perm, Permutation_map, alg_perm. exact A.
Qed.

(* ---- Store ---- *)

Lemma okt3_live_key now d key k :
  InvH None d -> live_key now d key T_SET = Some k -> okt3 (view now d key) = true.
Proof.
  intros I LK. rewrite okt3_view by exact I. rewrite live_key_any in LK.
  destruct (live_any now d key) as [r|]; [| discriminate].
  unfold T_SET in LK. destruct (k_type r =? 3); [reflexivity | discriminate].
Qed.

Lemma set_replace_eff now dest elems d :
  InvH None d -> NoDup elems ->
  if okt3 (view now d dest) then
    exists d', set_replace now dest elems d = (d', Ok (zlen elems)) /\ InvH None d' /\
      (exists kid, SV now d' dest kid elems (expv (view now d dest))) /\ frame dest d d'
  else exists d', set_replace now dest elems d = (d', Err EKeyType).
Proof.
  intros I ND. unfold set_replace.
  assert (Fin : forall d1 x, InvH None d1 -> frame dest d d1 ->
            okt3 (view now d1 dest) = true -> smemv (view now d1 dest) = [] -> expv (view now d1 dest) = x ->
            exists d', bind (set_add1 now dest) (fun k => set_add_all (k_id k) elems;;; ret (zlen elems)) d1 =
                       (d', Ok (zlen elems)) /\ InvH None d' /\
              (exists kid, SV now d' dest kid elems x) /\ frame dest d d').
  { intros d1 x I1 F1 O1 M1 X1. pose proof (set_add1_eff now dest d1 I1) as H. rewrite O1, M1, X1 in H.
    destruct H as [d2 [k [Ek [I2 [S2 F2]]]]].
    destruct (set_add_all_eff now dest (k_id k) x elems [] d2 I2 S2) as [d3 [E3 [I3 [S3 F3]]]].
    rewrite add_members_fresh in S3 by (auto; intros e _ []). cbn [app] in S3.
    exists d3. split; [| split; [exact I3 | split; [exists (k_id k); exact S3|]]].
    - erewrite bind_ok; [| exact Ek]. erewrite bind_ok; [| exact E3]. reflexivity.
    - eapply frame_trans; [exact F1 | eapply frame_trans; eassumption]. }
  destruct (live_key now d dest T_SET) as [k0|] eqn:LK.
  - rewrite (okt3_live_key now d dest k0 I LK).
    destruct (set_delete_key_eff now dest k0 d I LK) as [d1 [E1 [I1 [S1 F1]]]].
    pose proof (SV_view _ _ _ _ _ _ I1 S1) as V1.
    destruct (Fin d1 (k_etime k0) I1 F1) as [d' [E' R']]; try (rewrite V1; reflexivity).
    exists d'. rewrite (expv_live_key now d dest k0 I LK). split; [| exact R'].
    erewrite bind_ok; [exact E' | exact E1].
  - assert (E1 : set_delete_key now dest d = (d, Ok tt)) by (unfold set_delete_key; rewrite LK; reflexivity).
    pose proof (set_add1_eff now dest d I) as H.
    destruct (okt3 (view now d dest)) eqn:O.
    + clear H. destruct (Fin d (expv (view now d dest)) I (frame_refl _ _) O) as [d' [E' R']]; [| reflexivity |].
      * rewrite smemv_view by exact I. unfold smem. rewrite LK. reflexivity.
      * exists d'. split; [| exact R']. erewrite bind_ok; [exact E' | exact E1].
    + exists d. erewrite bind_ok; [| exact E1]. erewrite bind_err; [reflexivity | exact H].
Qed.

Lemma sim_store a now dest keys d s1 :
  AbsOf now d s1 -> sim_at now (set_store a now dest keys) VI (fun s => spec_sstore a s dest keys) d s1.
Proof.
  intros A. pose proof A as [I [N G]]. unfold sim_at, set_store, spec_sstore.
  destruct keys as [|k0 ks].
  { exists d, (Ok 0). split; [reflexivity|]. exists s1, (VI 0). split; [reflexivity|]. split; [apply rve_refl | exact A]. }
  set (keys := k0 :: ks). rewrite other_type_okt3, G.
  assert (EA : set_alg a now keys d = (d, Ok (q_alg a now d keys))) by reflexivity.
  pose proof (alg_sorted_eq a now d s1 keys A) as ES. rewrite <- ES.
  assert (ND : NoDup (q_alg a now d keys)) by (apply C03_algebra_no_duplicates_partial, Inv_iff, I).
  pose proof (set_replace_eff now dest (q_alg a now d keys) d I ND) as H.
  destruct (okt3 (view now d dest)); cbn [negb].
  - destruct H as [d' [E' [I' [[kid S'] F']]]]. eexists d', (Ok _). split.
    + erewrite bind_ok; [exact E' | exact EA].
    + eexists _, _. split; [reflexivity|]. split; [apply rve_refl|].
      unfold sput_val. rewrite keep_exp_expv, G. eapply AbsOf_put; eassumption.
  - destruct H as [d' E']. exists d', (Err EKeyType). split; [| reflexivity].
    erewrite bind_ok; [exact E' | exact EA].
Qed.

(* ---- Move ---- *)

Lemma VI_equiv_inv a b : rv_equiv (VI a) (VI b) -> a = b.
Proof. intros H. inversion H; subst; reflexivity. Qed.

Lemma filter_notin (es : list bytes) l :
  (forall e, In e es -> ~ In e l) -> filter (fun e => negb (str_in e es)) l = l.
Proof.
  intros H. induction l as [|x l IH]; [reflexivity|]. cbn [filter].
  assert (X : str_in x es = false).
  { apply str_in_false. intros Hx. apply (H x Hx). left. reflexivity. }
  rewrite X. cbn [negb]. f_equal. apply IH. intros e He Hin. apply (H e He). right. exact Hin.
Qed.

Lemma sdelete_one s src v b :
  bytes_of_value v = Some b ->
  spec_sdelete s src [v] =
  if str_in b (members s src)
  then (sput_val s src (AVSet (filter (fun x => negb (String.eqb x b)) (members s src))),
        out_ok (VI (zlen (members s src) - zlen (filter (fun x => negb (String.eqb x b)) (members s src)))))
  else (s, out_ok (VI 0)).
Proof.
  intros Bv. unfold spec_sdelete. cbn [values_of]. rewrite Bv. unfold members.
  destruct (spec_set_ s src) as [l|]; cbn [or_nil]; [| reflexivity].
  assert (EF : filter (fun e => negb (str_in e [b])) l = filter (fun x => negb (String.eqb x b)) l).
  { apply filter_ext. intros x. cbn [str_in existsb]. rewrite orb_false_r. reflexivity. }
  rewrite EF. destruct (str_in b l) eqn:X.
  - pose proof (zlen_filter_split (fun x => String.eqb x b) l) as S. cbv beta in S.
    assert (P : 0 < zlen (filter (fun x => String.eqb x b) l)).
    { apply str_in_In in X. assert (Hin : In b (filter (fun x => String.eqb x b) l)).
      { apply filter_In. split; [exact X | apply String.eqb_refl]. }
      destruct (filter (fun x => String.eqb x b) l); [destruct Hin|]. rewrite zlen_cons.
      pose proof (zlen_nonneg l0). lia. }
    destruct (Z.eqb_spec (zlen l - zlen (filter (fun x => negb (String.eqb x b)) l)) 0); [| reflexivity].
    exfalso. unfold bytes in *. lia.
  - assert (E : filter (fun x => negb (String.eqb x b)) l = l).
    { rewrite <- EF. apply filter_notin. intros e [<- | []]. apply str_in_false. exact X. }
    rewrite E, Z.sub_diag. reflexivity.
Qed.

Lemma sim_move now src dest v d s1 :
  AbsOf now d s1 -> sim_at now (set_move now src dest v) unit_rv (fun s => spec_smove s src dest v) d s1.
Proof.
  intros A. unfold sim_at, set_move, spec_smove.
  destruct (to_bytes_cases v) as [[Tb [Bv _]] | [b [Tb [Bv _]]]]; rewrite Bv.
  { exists d, (Err EValueType). split; [| reflexivity]. erewrite bind_err; [reflexivity|].
    unfold set_delete, bytes_args. cbn [values_bytes]. rewrite Tb. reflexivity. }
  destruct (sim_delete now src [v] d s1 A) as [d1 [r1 [E1 H1]]]. cbv beta in H1.
  rewrite (sdelete_one s1 src v b Bv) in H1.
  destruct (str_in b (members s1 src)) eqn:X; cbn [negb].
  2:{ destruct r1 as [n|e]; [| discriminate H1].
      destruct H1 as [s' [v' [Es [Ev _]]]]. injection Es as <- <-. apply VI_equiv_inv in Ev. subst n.
      exists d1, (Err ENotFound). split; [| reflexivity]. erewrite bind_ok; [| exact E1]. reflexivity. }
  destruct r1 as [n|e]; [| discriminate H1].
  destruct H1 as [s2 [v' [Es [Ev A1]]]]. injection Es as <- <-. apply VI_equiv_inv in Ev.
  set (s2 := sput_val s1 src (AVSet (filter (fun x => negb (String.eqb x b)) (members s1 src)))) in *.
  assert (Nz : (n =? 0) = false).
  { apply Z.eqb_neq. subst n.
    pose proof (zlen_filter_split (fun x => String.eqb x b) (members s1 src)) as S. cbv beta in S.
    apply str_in_In in X.
    assert (Hin : In b (filter (fun x => String.eqb x b) (members s1 src))).
    { apply filter_In. split; [exact X | apply String.eqb_refl]. }
    destruct (filter (fun x => String.eqb x b) (members s1 src)) as [|y l0]; [destruct Hin|].
    rewrite zlen_cons in S. pose proof (zlen_nonneg l0). unfold bytes in *. lia. }
  assert (OT : other_type s2 dest 3 = other_type s1 dest 3).
  { unfold other_type, s2, sput_val. rewrite sget_sput. destruct (String.eqb_spec src dest) as [<- | NE]; [| reflexivity].
    cbn [en_val atype]. rewrite members_smemv in X. destruct (sget s1 src) as [[[]]|]; try discriminate X. reflexivity. }
  destruct (sim_add now dest [v] d1 s2 A1) as [d2 [r2 [E2 H2]]]. cbv beta in H2.
  unfold spec_sadd in H2. cbn [values_of] in H2. rewrite Bv, OT, or_nil_members in H2.
  assert (EM : set_move now src dest v d =
               (d2, match r2 with Ok _ => Ok tt | Err e => Err e end)).
  { unfold set_move. erewrite bind_ok; [| exact E1]. rewrite Nz. unfold bind. rewrite E2. destruct r2; reflexivity. }
  unfold set_move in EM. rewrite EM.
  destruct (other_type s1 dest 3).
  - destruct r2 as [a|e].
    + destruct H2 as [s' [v2 [Es _]]]. discriminate Es.
    + injection H2 as <-. exists d2, (Err EKeyType). split; reflexivity.
  - destruct r2 as [a|e]; [| discriminate H2].
    destruct H2 as [s' [v2 [Es [_ A2]]]]. injection Es as <- _.
    exists d2, (Ok tt). split; [reflexivity|]. eexists _, _. split; [reflexivity|]. split; [apply rve_refl | exact A2].
Qed.

(* ================================================================== *)
(* Part 6: the theorems                                               *)
(* ================================================================== *)

Lemma ro_lift_read {A} (f : db -> A) : forall d0, fst (lift_read f d0) = d0.
Proof. reflexivity. Qed.

Theorem C03_set_step_refines : forall now o d s,
  set_op o = true -> legal_choice now d o -> Inv d -> R now d s -> step_refines now o d s.
Proof.
  intros now o d s So LC I HR. apply Inv_iff in I.
  pose proof (R_AbsOf now d s I HR) as A.
  destruct o; try discriminate So.
  - (* EAdd *)
    eapply (step_of_sim_w now _ (set_add now key vs) VI (fun s => spec_sadd s key vs)); try reflexivity; auto.
    apply sim_add. exact A.
  - (* EDelete *)
    eapply (step_of_sim_w now _ (set_delete now key vs) VI (fun s => spec_sdelete s key vs)); try reflexivity; auto.
    apply sim_delete. exact A.
  - (* EAlg *)
    eapply (step_of_sim_r now _ (set_alg a now keys) (fun l => VU (map VS l))
              (fun s => (s, out_ok (VU (map VS (spec_alg a s keys)))))); try reflexivity; auto.
    + intros d0. apply readonly_set_alg.
    + apply sim_alg. exact A.
  - (* EStore *)
    eapply (step_of_sim_w now _ (set_store a now dest keys) VI (fun s => spec_sstore a s dest keys)); try reflexivity; auto.
    apply sim_store. exact A.
  - (* EExists *)
    eapply (step_of_sim_r now _ (set_exists now key v) VB
              (fun s => match bytes_of_value v with
                        | Some e => (s, out_ok (VB (str_in e (members s key))))
                        | None => (s, out_err EValueType)
                        end)); try reflexivity; auto.
    + intros d0. unfold set_exists. destruct (to_bytes v); reflexivity.
    + apply sim_exists. exact A.
  - (* EItems *)
    eapply (step_of_sim_r now _ (set_items now key) (fun l => VU (map VS l))
              (fun s => (s, out_ok (VU (map VS (members s key)))))); try reflexivity; auto.
    apply sim_items. exact A.
  - (* ELen *)
    eapply (step_of_sim_r now _ (set_len now key) VI
              (fun s => (s, out_ok (VI (zlen (members s key)))))); try reflexivity; auto.
    + intros d0. unfold set_len. destruct (live_key now d0 key T_SET) as [k|]; [destruct (k_len k)|]; reflexivity.
    + apply sim_len. exact A.
  - (* EMove *)
    eapply (step_of_sim_w now _ (set_move now src dest v) unit_rv (fun s => spec_smove s src dest v)); try reflexivity; auto.
    apply sim_move. exact A.
  - (* EPop *)
    eapply (step_of_sim_w now _ (set_pop now key choice) VS (spec_pop_set key choice)); try reflexivity; auto.
    apply sim_pop; assumption.
  - (* ERandom *)
    eapply (step_of_sim_r now _ (set_random now key choice) VS (spec_random_set key choice)); try reflexivity; auto.
    + intros d0. unfold set_random. destruct (live_key now d0 key T_SET) as [k|]; [| reflexivity].
      destruct (set_rows d0 (k_id k)); [reflexivity|]. destruct choice as [c|]; [| reflexivity].
      destruct (existsb _ _); reflexivity.
    + apply sim_random; assumption.
Qed.

(* add reports how many members actually changed, duplicates inside one call included *)
Lemma count_new_snoc D : forall l e,
  NoDup D ->
  zlen (filter (fun x => negb (str_in x l)) D) =
  zlen (filter (fun x => negb (str_in x (l ++ [e]))) D) + (if str_in e D && negb (str_in e l) then 1 else 0).
Proof.
  induction D as [|y D IH]; intros l e ND; [reflexivity|].
  inversion ND as [|? ? Hn Hr]; subst. cbn [filter].
  assert (SI : str_in y (l ++ [e]) = str_in y l || String.eqb y e).
  { unfold str_in. rewrite existsb_app. cbn [existsb]. rewrite orb_false_r. reflexivity. }
  pose proof (IH l e Hr) as H. rewrite SI. cbn [str_in existsb]. fold (str_in e D).
  destruct (String.eqb_spec y e) as [<- | NE].
  - rewrite String.eqb_refl, orb_true_r. cbn [negb orb].
    assert (X : str_in y D = false) by (apply str_in_false; exact Hn). rewrite X in H. cbn [andb] in H.
    destruct (str_in y l); cbn [negb andb]; rewrite ?zlen_cons; unfold bytes in *; lia.
  - assert (E : String.eqb e y = false) by (apply String.eqb_neq; congruence).
    rewrite E, orb_false_r. cbn [orb]. destruct (str_in y l); cbn [negb]; rewrite ?zlen_cons; unfold bytes in *; lia.
Qed.

Lemma add_members_count es : forall l,
  zlen (add_members l es) - zlen l = zlen (filter (fun e => negb (str_in e l)) (dedup es)).
Proof.
  induction es as [|e es IH]; intros l.
  - cbn [add_members fold_left dedup filter]. rewrite zlen_nil. lia.
  - rewrite add_members_cons. cbn [dedup]. destruct (str_in e l) eqn:X.
    + rewrite IH. destruct (str_in e es); [reflexivity|]. cbn [filter]. rewrite X. reflexivity.
    + pose proof (IH (l ++ [e])) as H. rewrite zlen_app in H. change (zlen [e]) with 1 in H.
      pose proof (count_new_snoc (dedup es) l e (NoDup_dedup es)) as C. rewrite X in C. cbn [negb] in C.
      rewrite andb_true_r in C.
      assert (SD : str_in e (dedup es) = str_in e es).
      { destruct (str_in e es) eqn:Y.
        - apply str_in_In, In_dedup, str_in_In. exact Y.
        - apply str_in_false. rewrite In_dedup. apply str_in_false. exact Y. }
      rewrite SD in C. destruct (str_in e es).
      * unfold bytes in *. lia.
      * cbn [filter]. rewrite X. cbn [negb]. rewrite zlen_cons. unfold bytes in *. lia.
Qed.

Theorem C03_add_counts_new_members : forall now key vs d es,
  Inv d -> values_of vs = Some es ->
  match snd (exec_db now (EAdd key vs) d) with
  | mkOut (VI n) None =>
      let before := match live_key now d key T_SET with Some r => map e_elem (set_rows d (k_id r)) | None => [] end in
      n = zlen (filter (fun e => negb (str_in e before)) (dedup es))
  | mkOut _ (Some e) => e = EKeyType
  | _ => False
  end.
Proof.
  intros now key vs d es I Ev. apply Inv_iff in I.
  pose proof (AbsOf_abs now d I) as A.
  destruct (sim_add now key vs d (abs now d) A) as [d' [r [Em H]]].
  rewrite (exec_wrapped_run now (EAdd key vs) (set_add now key vs) VI d d' r eq_refl eq_refl Em).
  cbn [snd]. unfold spec_sadd in H. rewrite Ev in H.
  rewrite or_nil_members, (AbsOf_members now d _ key A) in H. fold (smem now d key).
  destruct r as [n|e]; cbn [res_out out_ok out_err].
  - destruct H as [s' [v [Es [Eq _]]]]. destruct (other_type (abs now d) key 3); [discriminate Es|].
    injection Es as _ <-. apply VI_equiv_inv in Eq. cbv zeta. rewrite Eq. apply add_members_count.
  - destruct (other_type (abs now d) key 3); [| discriminate H]. injection H as <-. reflexivity.
Qed.

Print Assumptions C03_union_membership.
Print Assumptions C03_inter_membership.
Print Assumptions C03_diff_membership.
Print Assumptions C03_algebra_no_duplicates_partial.
Print Assumptions C03_nodup_counterexample.
Print Assumptions C03_union_inter_no_duplicates.
Print Assumptions C03_set_step_refines.
Print Assumptions C03_add_counts_new_members.
