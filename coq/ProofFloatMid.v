(** Midpoint of two primitive floats of magnitude at most 2^1022:
    [a + b] cannot overflow, hence [fmid_between_partial] applies. *)

From Coq Require Import ZArith Reals Floats SpecFloat Lra Bool.
From Flocq Require Import Core BinarySingleNaN PrimFloat.
From Redka Require Import ProofFloat.

Local Existing Instance Hprec.
Local Existing Instance Hmax.

Open Scope float_scope.

Definition small (x : Coq.Floats.PrimFloat.float) : bool := (abs x <=? 0x1p+1022).

(** The bound 2^1022 seen through Flocq. *)

Lemma B2R_bound : B2R (Prim2B 0x1p+1022) = bpow radix2 1022.
Proof.
rewrite <- SF2R_B2SF, B2SF_Prim2B.
replace (Prim2SF 0x1p+1022) with (S754_finite false 4503599627370496 970)
  by (vm_compute; reflexivity).
unfold SF2R, F2R. cbn [cond_Zopp Fnum Fexp].
change (IZR 4503599627370496) with (bpow radix2 52).
rewrite <- bpow_plus. reflexivity.
Qed.

Lemma is_finite_bound : is_finite (Prim2B 0x1p+1022) = true.
Proof.
rewrite <- is_finite_SF_B2SF, B2SF_Prim2B.
vm_compute. reflexivity.
Qed.

(** [small x] says that [x] is finite with |x| <= 2^1022. *)

Lemma small_inv :
  forall x, small x = true ->
  is_finite (Prim2B x) = true /\ (Rabs (B2R (Prim2B x)) <= bpow radix2 1022)%R.
Proof.
intros x H. unfold small in H.
apply leb_cle in H. unfold pc in H.
rewrite abs_equiv, (cl_finite _ is_finite_bound), B2R_bound in H.
destruct (is_finite (Prim2B x)) eqn:Fx.
- split; [reflexivity|].
  rewrite <- B2R_Babs.
  rewrite (cl_finite (Babs (Prim2B x))) in H by (now rewrite is_finite_Babs).
  exact H.
- exfalso. revert H.
  destruct (Prim2B x) as [s|s| |s m e He]; try discriminate Fx; simpl; easy.
Qed.

(** No overflow in the sum of two small numbers. *)

Lemma Bplus_small_finite :
  forall x y : binary_float prec emax,
  is_finite x = true -> is_finite y = true ->
  (Rabs (B2R x) <= bpow radix2 1022)%R ->
  (Rabs (B2R y) <= bpow radix2 1022)%R ->
  is_finite (Bplus mode_NE x y) = true.
Proof.
intros x y Fx Fy Hx Hy.
generalize (Bplus_correct _ _ Hprec Hmax mode_NE x y Fx Fy).
rewrite Rlt_bool_true.
- intros (_ & Hf & _). exact Hf.
- apply Rle_lt_trans with (bpow radix2 1023).
  + apply abs_round_le_generic.
    * apply fexp_correct. exact Hprec.
    * apply valid_rnd_N.
    * apply generic_format_FLT_bpow; [exact Hprec|]. vm_compute. discriminate.
    * apply Rle_trans with (1 := Rabs_triang _ _).
      change 1023%Z with (1022 + 1)%Z. rewrite bpow_plus_1.
      change (IZR radix2) with 2%R. lra.
  + apply bpow_lt. reflexivity.
Qed.

Theorem fmid_small :
  forall a b, small a = true -> small b = true -> (a <? b) = true ->
  (a <=? (a + b) / 2) = true /\ ((a + b) / 2 <=? b) = true.
Proof.
intros a b Ha Hb Hlt.
apply fmid_between_partial; [|exact Hlt].
destruct (small_inv a Ha) as [Fa Ra].
destruct (small_inv b Hb) as [Fb Rb].
rewrite is_finite_equiv, add_equiv.
now apply Bplus_small_finite.
Qed.

Example small_demo :
  small 0 = true /\ small 1 = true /\ small (-1) = true /\
  small 9007199254740992 = true /\ small 0x1p+1023 = false.
Proof. repeat split; vm_compute; reflexivity. Qed.

Print Assumptions fmid_small.
Print Assumptions small_demo.
