(* ProofParserOrder.v — "optional arguments are accepted in any order":
   order-independence of the options of the argument-parser model (Parser.v),
   and the check that every parse tree generated from the source
   (gen/ParseSpecs.v) satisfies the side conditions. *)
From Redka Require Import Base Parser ProofParser.
From Redka.gen Require ParseSpecs.
From Coq Require Import Lia Permutation.

(* ================================================================== *)
(* results are compared up to the order of the bindings                *)
(* ================================================================== *)

Definition env_equiv (e1 e2 : penv) : Prop := forall k, pget e1 k = pget e2 k.

(* the same error, or environments that bind every variable alike *)
Definition penv_equiv (r1 r2 : penv + perr) : Prop :=
  match r1, r2 with
  | inl e1, inl e2 => env_equiv e1 e2
  | inr a, inr b => a = b
  | _, _ => False
  end.

Lemma penv_equiv_refl : forall r, penv_equiv r r.
Proof. intros [e|a]; cbn; [intros k|]; reflexivity. Qed.
Lemma penv_equiv_sym : forall r1 r2, penv_equiv r1 r2 -> penv_equiv r2 r1.
Proof. intros [e1|a] [e2|b]; cbn; auto. intros H k. symmetry. apply H. Qed.
Lemma penv_equiv_trans : forall r1 r2 r3, penv_equiv r1 r2 -> penv_equiv r2 r3 -> penv_equiv r1 r3.
Proof.
  intros [e1|a] [e2|b] [e3|c]; cbn; try tauto; try congruence.
  all: try (intros H1 H2 k; rewrite H1; apply H2).
Qed.

Lemma pget_app : forall a b k,
  pget (a ++ b) k = match pget a k with Some v => Some v | None => pget b k end.
Proof.
  induction a as [|[k' v] a IH]; intros b k; cbn [app pget]; [reflexivity|].
  destruct (String.eqb k k'); [reflexivity | apply IH].
Qed.
Lemma pget_some_in : forall d k v, pget d k = Some v -> In k (map fst d).
Proof.
  induction d as [|[k' v'] d IH]; intros k v H; cbn [pget] in H; [discriminate|].
  cbn [map fst]. destruct (String.eqb k k') eqn:E.
  - apply String.eqb_eq in E. left. congruence.
  - right. eapply IH. exact H.
Qed.

(* ================================================================== *)
(* the shape of a pipeline: positional parsers, then options           *)
(* ================================================================== *)

(* a parser that consumes exactly one argument *)
Definition simple_prim (q : prim) : bool :=
  match q with
  | PString _ | PBytes _ | PInt _ | PFloat _ | PEnum _ _ => true
  | _ => false
  end.
(* positional parsers that may precede options: one argument, or a counted list *)
Definition pos_prim_ok (q : prim) : bool :=
  match q with
  | PStringsN _ _ => true
  | _ => simple_prim q
  end.
(* one alternative: a flag, or a keyword followed by one-argument values *)
Definition alt_wf (o : prim) : bool :=
  match o with
  | PFlag _ _ => true
  | PNamed _ subs => forallb simple_prim subs
  | _ => false
  end.
(* an option: an alternative, or a choice among alternatives *)
Definition option_wf (o : prim) : bool :=
  match o with
  | POneOf alts => forallb alt_wf alts
  | _ => alt_wf o
  end.

Definition alt_kw (o : prim) : list string :=
  match o with PFlag n _ => [n] | PNamed n _ => [n] | _ => [] end.
(* every keyword an option answers to *)
Definition opt_kws (o : prim) : list string :=
  match o with POneOf alts => flat_map alt_kw alts | _ => alt_kw o end.
(* the keywords of the alternatives of a choice (none for a plain flag / named option) *)
Definition sib_kws (o : prim) : list string :=
  match o with POneOf alts => flat_map alt_kw alts | _ => [] end.

Definition prim_dst (q : prim) : list string :=
  match q with
  | PString d | PBytes d | PInt d | PFloat d | PEnum d _ => [d]
  | _ => []
  end.
Definition alt_dsts (o : prim) : list string :=
  match o with PFlag _ d => [d] | PNamed _ subs => flat_map prim_dst subs | _ => [] end.
(* every variable an option may bind *)
Definition opt_dsts (o : prim) : list string :=
  match o with POneOf alts => flat_map alt_dsts alts | _ => alt_dsts o end.

Fixpoint split_pos (ps : list prim) : list prim * list prim :=
  match ps with
  | [] => ([], [])
  | q :: r => if positional_prim q then let '(a, b) := split_pos r in (q :: a, b) else ([], ps)
  end.
Definition pos_part (p : pipeline) : list prim := fst (split_pos (pl_parsers p)).
Definition opt_part (p : pipeline) : list prim := snd (split_pos (pl_parsers p)).

Lemma split_pos_app : forall ps, fst (split_pos ps) ++ snd (split_pos ps) = ps.
Proof.
  induction ps as [|q r IH]; cbn [split_pos]; [reflexivity|].
  destruct (positional_prim q); [|reflexivity].
  destruct (split_pos r) as [a b]. cbn [fst snd app] in *. rewrite IH. reflexivity.
Qed.

(* ---- boolean checks and what they mean ---- *)

Fixpoint nodupb (l : list string) : bool :=
  match l with [] => true | x :: r => negb (str_in x r) && nodupb r end.
Definition disjointb (a b : list string) : bool := forallb (fun x => negb (str_in x b)) a.
Fixpoint pairwiseb {A} (r : A -> A -> bool) (l : list A) : bool :=
  match l with [] => true | x :: t => forallb (r x) t && pairwiseb r t end.
Fixpoint pairwise {A} (R : A -> A -> Prop) (l : list A) : Prop :=
  match l with [] => True | x :: t => Forall (R x) t /\ pairwise R t end.

(* two options that cannot be confused: no common keyword, no common variable *)
Definition opt_indepb (o o' : prim) : bool :=
  disjointb (opt_kws o) (opt_kws o') && disjointb (opt_dsts o) (opt_dsts o').
Definition opt_indep (o o' : prim) : Prop :=
  (forall n, In n (opt_kws o) -> In n (opt_kws o') -> False) /\
  (forall d, In d (opt_dsts o) -> In d (opt_dsts o') -> False).

Definition opt_okb (o : prim) : bool := option_wf o && nodupb (opt_kws o).
Definition opt_ok (o : prim) : Prop := option_wf o = true /\ NoDup (opt_kws o).

(* the options of a state: each well formed, pairwise independent *)
Definition st_okb (opts : list prim) : bool := forallb opt_okb opts && pairwiseb opt_indepb opts.
Definition st_ok (opts : list prim) : Prop := Forall opt_ok opts /\ pairwise opt_indep opts.

Definition is_nil {A} (l : list A) : bool := match l with [] => true | _ => false end.

(* THE SIDE CONDITION on a pipeline.  Positional parsers first; if there are
   options at all, the positional parsers consume one argument each (or a
   counted list), every option is a flag, a keyword with one-argument values,
   or a choice among such; all keywords of all options are pairwise distinct;
   different options bind different variables. *)
Definition order_ok (p : pipeline) : bool :=
  (is_nil (opt_part p) || forallb pos_prim_ok (pos_part p)) && st_okb (opt_part p).

Lemma str_in_In : forall x l, str_in x l = true <-> In x l.
Proof.
  intros x l. unfold str_in. rewrite existsb_exists. split.
  - intros [y [H1 H2]]. apply String.eqb_eq in H2. subst. exact H1.
  - intros H. exists x. split; [exact H | apply String.eqb_refl].
Qed.
Lemma nodupb_NoDup : forall l, nodupb l = true -> NoDup l.
Proof.
  induction l as [|x r IH]; cbn [nodupb]; intros H; [constructor|].
  apply andb_prop in H. destruct H as [H1 H2]. constructor; [|apply IH; exact H2].
  intros Hin. apply str_in_In in Hin. rewrite Hin in H1. discriminate.
Qed.
Lemma disjointb_spec : forall a b, disjointb a b = true -> forall x, In x a -> In x b -> False.
Proof.
  intros a b H x Ha Hb. unfold disjointb in H. rewrite forallb_forall in H.
  specialize (H x Ha). apply str_in_In in Hb. rewrite Hb in H. discriminate.
Qed.
Lemma opt_indepb_spec : forall o o', opt_indepb o o' = true -> opt_indep o o'.
Proof.
  intros o o' H. unfold opt_indepb in H. apply andb_prop in H. destruct H as [H1 H2].
  split; intros x; [apply (disjointb_spec _ _ H1) | apply (disjointb_spec _ _ H2)].
Qed.
Lemma opt_indep_sym : forall o o', opt_indep o o' -> opt_indep o' o.
Proof. intros o o' [H1 H2]. split; intros x A B; [apply (H1 x B A) | apply (H2 x B A)]. Qed.
Lemma pairwiseb_spec : forall {A} (r : A -> A -> bool) (R : A -> A -> Prop),
  (forall x y, r x y = true -> R x y) -> forall l, pairwiseb r l = true -> pairwise R l.
Proof.
  intros A r R HrR. induction l as [|x t IH]; cbn [pairwiseb pairwise]; intros H; [exact I|].
  apply andb_prop in H. destruct H as [H1 H2]. split; [|apply IH; exact H2].
  rewrite forallb_forall in H1. apply Forall_forall. intros y Hy. apply HrR. apply H1. exact Hy.
Qed.
Lemma st_okb_spec : forall opts, st_okb opts = true -> st_ok opts.
Proof.
  intros opts H. unfold st_okb in H. apply andb_prop in H. destruct H as [H1 H2]. split.
  - rewrite forallb_forall in H1. apply Forall_forall. intros o Ho. specialize (H1 o Ho).
    unfold opt_okb in H1. apply andb_prop in H1. destruct H1 as [A B].
    split; [exact A | apply nodupb_NoDup; exact B].
  - apply (pairwiseb_spec opt_indepb opt_indep opt_indepb_spec). exact H2.
Qed.

(* ---- pairwise and removal of one element ---- *)

Lemma pairwise_remove : forall {A} (R : A -> A -> Prop) l1 x l2,
  pairwise R (l1 ++ x :: l2) -> pairwise R (l1 ++ l2).
Proof.
  intros A R. induction l1 as [|y l1 IH]; intros x l2 H; cbn [app pairwise] in *.
  - tauto.
  - destruct H as [H1 H2]. split; [|eapply IH; exact H2].
    apply Forall_app in H1. destruct H1 as [Ha Hb]. inversion Hb; subst.
    apply Forall_app. split; assumption.
Qed.
Lemma pairwise_mid : forall {A} (R : A -> A -> Prop), (forall a b, R a b -> R b a) ->
  forall l1 x l2, pairwise R (l1 ++ x :: l2) -> Forall (R x) (l1 ++ l2).
Proof.
  intros A R Hsym. induction l1 as [|y l1 IH]; intros x l2 H; cbn [app pairwise] in *.
  - tauto.
  - destruct H as [H1 H2]. constructor; [|eapply IH; exact H2].
    apply Forall_app in H1. destruct H1 as [_ Hb]. inversion Hb; subst. apply Hsym. assumption.
Qed.
Lemma pairwise_in : forall {A} (R : A -> A -> Prop), (forall a b, R a b -> R b a) ->
  forall l x y, pairwise R l -> In x l -> In y l -> x <> y -> R x y.
Proof.
  intros A R Hsym. induction l as [|h t IH]; intros x y H Hx Hy Hne; [destruct Hx|].
  cbn [pairwise] in H. destruct H as [H1 H2]. rewrite Forall_forall in H1.
  destruct Hx as [Hx|Hx]; destruct Hy as [Hy|Hy]; subst.
  - congruence.
  - apply H1. exact Hy.
  - apply Hsym. apply H1. exact Hx.
  - apply IH; assumption.
Qed.

Lemma st_ok_remove : forall l1 o l2, st_ok (l1 ++ o :: l2) -> st_ok (l1 ++ l2).
Proof.
  intros l1 o l2 [H1 H2]. split.
  - apply Forall_app in H1. destruct H1 as [Ha Hb]. inversion Hb; subst. apply Forall_app. split; assumption.
  - eapply pairwise_remove. exact H2.
Qed.
Lemma st_ok_indep : forall opts o o', st_ok opts -> In o opts -> In o' opts -> o <> o' -> opt_indep o o'.
Proof. intros opts o o' [_ H] Ho Ho' Hne. eapply (pairwise_in opt_indep opt_indep_sym); eassumption. Qed.
Lemma st_ok_in : forall opts o, st_ok opts -> In o opts -> opt_ok o.
Proof. intros opts o [H _] Ho. rewrite Forall_forall in H. apply H. exact Ho. Qed.

Lemma NoDup_app_r : forall {A} (a b : list A), NoDup (a ++ b) -> NoDup b.
Proof. induction a as [|x a IH]; intros b H; cbn [app] in H; [exact H|]. inversion H; subst. apply IH. assumption. Qed.
Lemma NoDup_app_disj : forall {A} (a b : list A) x, NoDup (a ++ b) -> In x a -> In x b -> False.
Proof.
  induction a as [|y a IH]; intros b x H Ha Hb; [destruct Ha|]. cbn [app] in H. inversion H as [|? ? Hn Hr]; subst.
  destruct Ha as [Ha|Ha]; [subst y; apply Hn; apply in_or_app; right; exact Hb | eapply IH; eassumption].
Qed.

(* ================================================================== *)
(* the interpreter on options                                          *)
(* ================================================================== *)

Section Order.
  Variable is_float : bytes -> bool.

  (* the two local loops of [run_prim], named *)
  Definition named_go (f : nat) : list prim -> penv -> list bytes -> Z -> (list bytes * penv * Z * option (bool * perr)) :=
    fix go (ps : list prim) (e : penv) (args : list bytes) (nfired : Z)
      : (list bytes * penv * Z * option (bool * perr)) :=
      match ps with
      | [] => (args, e, nfired, None)
      | q :: qs =>
          let '(fired, args', e', err) := run_prim is_float f q e args in
          match err with
          | Some er => (args', e', nfired, Some (fired, er))
          | None =>
              let nfired' := if fired then nfired + 1 else nfired in
              match args' with
              | [] => (args', e', nfired', None)
              | _ => go qs e' args' nfired'
              end
          end
      end.
  Definition oneof_go (f : nat) : list prim -> penv -> list bytes -> Z -> (list bytes * penv * Z * option (bool * perr)) :=
    fix go (ps : list prim) (e : penv) (args : list bytes) (nfired : Z)
      : (list bytes * penv * Z * option (bool * perr)) :=
      match ps with
      | [] => (args, e, nfired, None)
      | q :: qs =>
          let '(fired, args', e', err) := run_prim is_float f q e args in
          match err with
          | Some er => (args', e', nfired, Some (fired, er))
          | None => go qs e' args' (if fired then nfired + 1 else nfired)
          end
      end.

  Lemma run_prim_named : forall f name ps e a r,
    run_prim is_float (S f) (PNamed name ps) e (a :: r) =
    if negb (equal_fold a name) then (false, a :: r, e, None)
    else let '(args', e', nfired, err) := named_go f ps e r 0 in
         match err with
         | Some (fired, er) => (fired, args', e', Some er)
         | None => if nfired =? zlen ps then (true, args', e', None)
                   else (true, args', e', Some PErrSyntax)
         end.
  Proof. reflexivity. Qed.
  Lemma run_prim_oneof : forall f ps e args,
    run_prim is_float (S f) (POneOf ps) e args =
    let '(args', e', nfired, err) := oneof_go f ps e args 0 in
    match err with
    | Some (fired, er) => (fired, args', e', Some er)
    | None => if 1 <? nfired then (true, args', e', Some PErrSyntax)
              else (0 <? nfired, args', e', None)
    end.
  Proof. reflexivity. Qed.
  Lemma named_go_cons : forall f q qs e args n,
    named_go f (q :: qs) e args n =
    let '(fired, args', e', err) := run_prim is_float f q e args in
    match err with
    | Some er => (args', e', n, Some (fired, er))
    | None =>
        let nfired' := if fired then n + 1 else n in
        match args' with
        | [] => (args', e', nfired', None)
        | _ => named_go f qs e' args' nfired'
        end
    end.
  Proof. reflexivity. Qed.
  Lemma oneof_go_cons : forall f q qs e args n,
    oneof_go f (q :: qs) e args n =
    let '(fired, args', e', err) := run_prim is_float f q e args in
    match err with
    | Some er => (args', e', n, Some (fired, er))
    | None => oneof_go f qs e' args' (if fired then n + 1 else n)
    end.
  Proof. reflexivity. Qed.

  (* ---------------------------------------------------------------- *)
  (* options never read the environment: they only add bindings        *)
  (* ---------------------------------------------------------------- *)

  Definition ext4 (e : penv) (r : pres) : pres :=
    let '(fi, a, d, er) := r in (fi, a, d ++ e, er).
  Definition extg (e : penv) (r : list bytes * penv * Z * option (bool * perr)) :=
    let '(a, d, n, er) := r in (a, d ++ e, n, er).

  Lemma simple_law : forall q, simple_prim q = true ->
    forall f e args, run_prim is_float f q e args = ext4 e (run_prim is_float f q [] args).
  Proof.
    intros q Hq f e args. destruct f as [|f]; [reflexivity|].
    destruct q; try discriminate Hq; cbn [run_prim]; destruct args as [|a r]; try reflexivity.
    - destruct (atoi a); reflexivity.
    - destruct (is_float a); reflexivity.
    - destruct (str_in (lower a) allowed); reflexivity.
  Qed.

  Lemma named_go_law : forall f subs, forallb simple_prim subs = true ->
    forall e args n, named_go f subs e args n = extg e (named_go f subs [] args n).
  Proof.
    intros f. induction subs as [|q qs IH]; intros Hs e args n; [reflexivity|].
    cbn [forallb] in Hs. apply andb_prop in Hs. destruct Hs as [Hq Hqs].
    rewrite !named_go_cons. rewrite (simple_law q Hq f e args).
    destruct (run_prim is_float f q [] args) as [[[fi a'] d'] er]. cbn [ext4].
    destruct er as [er|]; [reflexivity|]. destruct a' as [|x a']; [reflexivity|].
    rewrite (IH Hqs (d' ++ e)). rewrite (IH Hqs d').
    destruct (named_go f qs [] (x :: a') (if fi then n + 1 else n)) as [[[a2 d2] n2] er2].
    cbn [extg]. rewrite app_assoc. reflexivity.
  Qed.

  Lemma alt_law : forall x, alt_wf x = true ->
    forall f e args, run_prim is_float f x e args = ext4 e (run_prim is_float f x [] args).
  Proof.
    intros x Hx f e args. destruct f as [|f]; [reflexivity|].
    destruct x; try discriminate Hx.
    - cbn [run_prim]. destruct args as [|a r]; [reflexivity|]. destruct (equal_fold a name); reflexivity.
    - destruct args as [|a r]; [reflexivity|]. rewrite !run_prim_named.
      destruct (negb (equal_fold a name)); [reflexivity|].
      cbn [alt_wf] in Hx. rewrite (named_go_law f ps Hx e r 0).
      destruct (named_go f ps [] r 0) as [[[a2 d2] n2] er2]. cbn [extg].
      destruct er2 as [[fi er]|]; [reflexivity|]. destruct (n2 =? zlen ps); reflexivity.
  Qed.

  Lemma oneof_go_law : forall f alts, forallb alt_wf alts = true ->
    forall e args n, oneof_go f alts e args n = extg e (oneof_go f alts [] args n).
  Proof.
    intros f. induction alts as [|q qs IH]; intros Hs e args n; [reflexivity|].
    cbn [forallb] in Hs. apply andb_prop in Hs. destruct Hs as [Hq Hqs].
    rewrite !oneof_go_cons. rewrite (alt_law q Hq f e args).
    destruct (run_prim is_float f q [] args) as [[[fi a'] d'] er]. cbn [ext4].
    destruct er as [er|]; [reflexivity|].
    rewrite (IH Hqs (d' ++ e)). rewrite (IH Hqs d').
    destruct (oneof_go f qs [] a' (if fi then n + 1 else n)) as [[[a2 d2] n2] er2].
    cbn [extg]. rewrite app_assoc. reflexivity.
  Qed.

  Lemma option_law : forall o, option_wf o = true ->
    forall f e args, run_prim is_float f o e args = ext4 e (run_prim is_float f o [] args).
  Proof.
    intros o Ho f e args. destruct o; try (apply alt_law; exact Ho).
    destruct f as [|f]; [reflexivity|]. rewrite !run_prim_oneof.
    cbn [option_wf] in Ho. rewrite (oneof_go_law f ps Ho e args 0).
    destruct (oneof_go f ps [] args 0) as [[[a2 d2] n2] er2]. cbn [extg].
    destruct er2 as [[fi er]|]; [reflexivity|]. destruct (1 <? n2); reflexivity.
  Qed.

  Definition extF (e : penv) (r : option (list prim * list bytes * penv) + perr) :=
    match r with
    | inl (Some (ps, a, d)) => inl (Some (ps, a, d ++ e))
    | other => other
    end.
  Definition extR (e : penv) (r : penv + perr) : penv + perr :=
    match r with inl d => inl (d ++ e) | inr er => inr er end.

  Lemma first_fired_law : forall ps, Forall (fun o => option_wf o = true) ps ->
    forall seen e args, first_fired is_float ps seen e args = extF e (first_fired is_float ps seen [] args).
  Proof.
    induction ps as [|p rest IH]; intros Hps seen e args; [reflexivity|].
    inversion Hps as [|? ? Hp Hrest]; subst. cbn [first_fired].
    rewrite (option_law p Hp prim_fuel e args).
    destruct (run_prim is_float prim_fuel p [] args) as [[[fi a'] d'] er]. cbn [ext4].
    destruct er as [er|]; [reflexivity|]. destruct fi; [reflexivity|].
    rewrite (IH Hrest (p :: seen) (d' ++ e)). rewrite (IH Hrest (p :: seen) d').
    destruct (first_fired is_float rest (p :: seen) [] a') as [[[[ps2 a2] d2]|]|er2]; cbn [extF]; try reflexivity.
    rewrite app_assoc. reflexivity.
  Qed.

  Lemma first_fired_sub : forall (P : prim -> Prop) ps seen e args ps' a' e',
    Forall P ps -> Forall P seen ->
    first_fired is_float ps seen e args = inl (Some (ps', a', e')) -> Forall P ps'.
  Proof.
    intros P. induction ps as [|p rest IH]; intros seen e args ps' a' e' Hps Hseen H; cbn [first_fired] in H; [discriminate|].
    inversion Hps as [|? ? Hp Hrest]; subst.
    destruct (run_prim is_float prim_fuel p e args) as [[[fi a1] d1] er].
    destruct er as [er|]; [discriminate|]. destruct fi.
    - inversion H; subst. apply Forall_app. split; [|exact Hrest]. apply Forall_rev. exact Hseen.
    - eapply IH; [exact Hrest | | exact H]. constructor; assumption.
  Qed.

  Lemma run_loop_law : forall f ps, Forall (fun o => option_wf o = true) ps ->
    forall e args, run_loop is_float f ps e args = extR e (run_loop is_float f ps [] args).
  Proof.
    induction f as [|f IH]; intros ps Hps e args; [reflexivity|].
    cbn [run_loop]. destruct args as [|a r]; [reflexivity|]. destruct ps as [|p rest]; [reflexivity|].
    rewrite (first_fired_law (p :: rest) Hps [] e (a :: r)).
    destruct (first_fired is_float (p :: rest) [] [] (a :: r)) as [[[[ps2 a2] d2]|]|er2] eqn:E; cbn [extF]; try reflexivity.
    assert (Hps2 : Forall (fun o => option_wf o = true) ps2).
    { eapply first_fired_sub; [exact Hps | constructor | exact E]. }
    rewrite (IH ps2 Hps2 (d2 ++ e)). rewrite (IH ps2 Hps2 d2).
    destruct (run_loop is_float f ps2 [] a2); cbn [extR]; [rewrite app_assoc|]; reflexivity.
  Qed.

  (* the rest of the parse does not depend on the order of the bindings so far *)
  Lemma run_loop_env_equiv : forall f ps e1 e2 args, Forall (fun o => option_wf o = true) ps ->
    env_equiv e1 e2 -> penv_equiv (run_loop is_float f ps e1 args) (run_loop is_float f ps e2 args).
  Proof.
    intros f ps e1 e2 args Hps He. rewrite (run_loop_law f ps Hps e1), (run_loop_law f ps Hps e2).
    destruct (run_loop is_float f ps [] args) as [d|er]; cbn [extR penv_equiv]; [|reflexivity].
    intros k. rewrite !pget_app. destruct (pget d k); [reflexivity | apply He].
  Qed.

  (* ---------------------------------------------------------------- *)
  (* occurrences of an option in the argument list                     *)
  (* ---------------------------------------------------------------- *)

  (* the binding a one-argument parser makes for an argument it accepts *)
  Definition sp_val (q : prim) (a : bytes) : option (string * pval) :=
    match q with
    | PString d | PBytes d => Some (d, PVStr a)
    | PInt d => match atoi a with Some z => Some (d, PVInt z) | None => None end
    | PFloat d => if is_float a then Some (d, PVFloatText a) else None
    | PEnum d allowed => if str_in (lower a) allowed then Some (d, PVStr (lower a)) else None
    | _ => None
    end.
  (* the values after a keyword: one per sub-parser, each accepted; the bindings made (latest first) *)
  Fixpoint sub_delta (subs : list prim) (vs : list bytes) : option penv :=
    match subs, vs with
    | [], [] => Some []
    | q :: qs, a :: r =>
        match sp_val q a, sub_delta qs r with
        | Some kv, Some d => Some (d ++ [kv])
        | _, _ => None
        end
    | _, _ => None
    end.
  (* [s] is a complete, well-formed occurrence of the alternative [o]: its keyword (any letter case)
     followed by exactly the values its sub-parsers take *)
  Definition alt_delta (o : prim) (s : list bytes) : option penv :=
    match o, s with
    | PFlag name d, [a] => if equal_fold a name then Some [(d, PVBool true)] else None
    | PNamed name subs, a :: vs => if equal_fold a name then sub_delta subs vs else None
    | _, _ => None
    end.
  Fixpoint alts_delta (alts : list prim) (s : list bytes) : option penv :=
    match alts with
    | [] => None
    | x :: r => match alt_delta x s with Some d => Some d | None => alts_delta r s end
    end.
  (* computable form *)
  Definition opt_delta (o : prim) (s : list bytes) : option penv :=
    match o with POneOf alts => alts_delta alts s | _ => alt_delta o s end.

  (* [s] is a complete occurrence of option [o], making the bindings [d] *)
  Definition occ (o : prim) (s : list bytes) (d : penv) : Prop :=
    match o with
    | POneOf alts => exists x, In x alts /\ alt_delta x s = Some d
    | _ => alt_delta o s = Some d
    end.
  Definition occurrence (o : prim) (s : list bytes) : Prop := exists d, occ o s d.

  Lemma opt_delta_occ : forall o s d, opt_delta o s = Some d -> occ o s d.
  Proof.
    intros o s d H. destruct o; try exact H. cbn [opt_delta] in H. cbn [occ].
    induction ps as [|x r IH]; cbn [alts_delta] in H; [discriminate|].
    destruct (alt_delta x s) as [d'|] eqn:E.
    - exists x. split; [left; reflexivity | congruence].
    - destruct (IH H) as [y [Hy1 Hy2]]. exists y. split; [right; exact Hy1 | exact Hy2].
  Qed.

  (* the argument list does not start with one of these keywords *)
  Definition nomatch (kws : list string) (args : list bytes) : Prop :=
    match args with
    | [] => True
    | a :: _ => forall n, In n kws -> equal_fold a n = false
    end.
  Definition sib_ok (o : prim) (rest : list bytes) : Prop := nomatch (sib_kws o) rest.

  Lemma fold_unique : forall a n n', equal_fold a n = true -> equal_fold a n' = true -> n = n'.
  Proof.
    intros a n n' H1 H2. unfold equal_fold in *. apply String.eqb_eq in H1, H2. congruence.
  Qed.

  (* ---- one-argument parsers ---- *)

  Lemma sp_run : forall q a kv, simple_prim q = true -> sp_val q a = Some kv ->
    forall f e r, run_prim is_float (S f) q e (a :: r) = (true, r, kv :: e, None).
  Proof.
    intros q a kv Hq Hv f e r. destruct q; try discriminate Hq; cbn [sp_val] in Hv; cbn [run_prim].
    - inversion Hv; reflexivity.
    - inversion Hv; reflexivity.
    - destruct (atoi a); inversion Hv; reflexivity.
    - destruct (is_float a); inversion Hv; reflexivity.
    - destruct (str_in (lower a) allowed); inversion Hv; reflexivity.
  Qed.
  Lemma sp_dst : forall q a kv, sp_val q a = Some kv -> In (fst kv) (prim_dst q).
  Proof.
    intros q a kv Hv. destruct q; cbn [sp_val] in Hv; try discriminate Hv; cbn [prim_dst].
    - inversion Hv; left; reflexivity.
    - inversion Hv; left; reflexivity.
    - destruct (atoi a); inversion Hv; left; reflexivity.
    - destruct (is_float a); inversion Hv; left; reflexivity.
    - destruct (str_in (lower a) allowed); inversion Hv; left; reflexivity.
  Qed.

  Lemma zlen_cons : forall {A} (x : A) l, zlen (x :: l) = zlen l + 1.
  Proof. intros. unfold zlen. cbn [List.length]. lia. Qed.

  Lemma named_go_occ : forall subs vs d, forallb simple_prim subs = true -> sub_delta subs vs = Some d ->
    forall f e X n, named_go (S f) subs e (vs ++ X) n = (X, d ++ e, n + zlen subs, None).
  Proof.
    induction subs as [|q qs IH]; intros vs d Hs Hd f e X n.
    - destruct vs; [|discriminate Hd]. inversion Hd; subst. cbn [app named_go].
      unfold zlen; cbn [List.length]. rewrite Z.add_0_r. reflexivity.
    - destruct vs as [|a r]; [discriminate Hd|]. cbn [sub_delta] in Hd.
      destruct (sp_val q a) as [kv|] eqn:Ekv; [|discriminate Hd].
      destruct (sub_delta qs r) as [d'|] eqn:Ed; [|discriminate Hd]. inversion Hd; subst d.
      cbn [forallb] in Hs. apply andb_prop in Hs. destruct Hs as [Hq Hqs].
      rewrite named_go_cons. cbn [app]. rewrite (sp_run q a kv Hq Ekv f e (r ++ X)).
      rewrite zlen_cons. rewrite <- app_assoc. cbn [app].
      destruct (r ++ X) as [|y t] eqn:ErX.
      + apply app_eq_nil in ErX. destruct ErX; subst r X.
        destruct qs; [|discriminate Ed]. inversion Ed; subst d'. cbn [app].
        unfold zlen; cbn [List.length]. repeat (f_equal; try lia).
      + rewrite <- ErX. rewrite (IH r d' Hqs Ed f (kv :: e) X (n + 1)). repeat (f_equal; try lia).
  Qed.
  Lemma sub_delta_dsts : forall subs vs d, sub_delta subs vs = Some d ->
    forall k, In k (map fst d) -> In k (flat_map prim_dst subs).
  Proof.
    induction subs as [|q qs IH]; intros vs d Hd k Hk.
    - destruct vs; [|discriminate Hd]. inversion Hd; subst. destruct Hk.
    - destruct vs as [|a r]; [discriminate Hd|]. cbn [sub_delta] in Hd.
      destruct (sp_val q a) as [kv|] eqn:Ekv; [|discriminate Hd].
      destruct (sub_delta qs r) as [d'|] eqn:Ed; [|discriminate Hd]. inversion Hd; subst d.
      rewrite map_app in Hk. apply in_app_or in Hk. cbn [flat_map]. apply in_or_app.
      destruct Hk as [Hk|Hk].
      + right. eapply IH; eassumption.
      + left. cbn [map] in Hk. destruct Hk as [Hk|[]]. subst k. eapply sp_dst. exact Ekv.
  Qed.

  (* ---- one alternative ---- *)

  Lemma alt_head : forall x s d, alt_delta x s = Some d ->
    exists a s' n, s = a :: s' /\ alt_kw x = [n] /\ equal_fold a n = true.
  Proof.
    intros x s d H. destruct x; cbn [alt_delta] in H; try discriminate H.
    - destruct s as [|a [|b t]]; try discriminate H. destruct (equal_fold a name) eqn:E; [|discriminate H].
      exists a, [], name. auto.
    - destruct s as [|a t]; try discriminate H. destruct (equal_fold a name) eqn:E; [|discriminate H].
      exists a, t, name. auto.
  Qed.
  Lemma alt_dsts_in : forall x s d, alt_delta x s = Some d ->
    forall k, In k (map fst d) -> In k (alt_dsts x).
  Proof.
    intros x s d H k Hk. destruct x; cbn [alt_delta] in H; try discriminate H.
    - destruct s as [|a [|b t]]; try discriminate H. destruct (equal_fold a name); [|discriminate H].
      inversion H; subst. exact Hk.
    - destruct s as [|a t]; try discriminate H. destruct (equal_fold a name); [|discriminate H].
      cbn [alt_dsts]. eapply sub_delta_dsts; eassumption.
  Qed.

  (* an alternative does nothing on arguments that do not start with its keyword *)
  Lemma alt_nofire : forall x, alt_wf x = true -> forall f e args, nomatch (alt_kw x) args ->
    run_prim is_float (S f) x e args = (false, args, e, None).
  Proof.
    intros x Hx f e args Hn. destruct x; try discriminate Hx; destruct args as [|a r]; try reflexivity.
    - cbn [run_prim]. cbn [nomatch alt_kw] in Hn. rewrite (Hn name (or_introl eq_refl)). reflexivity.
    - rewrite run_prim_named. cbn [nomatch alt_kw] in Hn. rewrite (Hn name (or_introl eq_refl)). reflexivity.
  Qed.
  (* an alternative on one of its occurrences *)
  Lemma alt_fire : forall x s d, alt_wf x = true -> alt_delta x s = Some d ->
    forall f e X, run_prim is_float (S (S f)) x e (s ++ X) = (true, X, d ++ e, None).
  Proof.
    intros x s d Hx H f e X. destruct x; try discriminate Hx; cbn [alt_delta] in H.
    - destruct s as [|a [|b t]]; try discriminate H. destruct (equal_fold a name) eqn:E; [|discriminate H].
      inversion H; subst. cbn [app run_prim]. rewrite E. reflexivity.
    - destruct s as [|a t]; try discriminate H. destruct (equal_fold a name) eqn:E; [|discriminate H].
      cbn [app]. rewrite run_prim_named. rewrite E. cbn [negb].
      cbn [alt_wf] in Hx. rewrite (named_go_occ ps t d Hx H f e X 0).
      cbn [Z.add]. rewrite Z.eqb_refl. reflexivity.
  Qed.

  Lemma nomatch_app : forall k1 k2 args, nomatch (k1 ++ k2) args <-> nomatch k1 args /\ nomatch k2 args.
  Proof.
    intros k1 k2 [|a r]; cbn [nomatch]; [tauto|]. split.
    - intros H. split; intros n Hn; apply H; apply in_or_app; auto.
    - intros [H1 H2] n Hn. apply in_app_or in Hn. destruct Hn; auto.
  Qed.

  (* ---- a choice among alternatives ---- *)

  Lemma oneof_go_nofire : forall alts, forallb alt_wf alts = true ->
    forall f e args n, nomatch (flat_map alt_kw alts) args ->
    oneof_go (S f) alts e args n = (args, e, n, None).
  Proof.
    induction alts as [|x r IH]; intros Hs f e args n Hn; [reflexivity|].
    cbn [forallb] in Hs. apply andb_prop in Hs. destruct Hs as [Hx Hr].
    cbn [flat_map] in Hn. apply nomatch_app in Hn. destruct Hn as [Hn1 Hn2].
    rewrite oneof_go_cons. rewrite (alt_nofire x Hx f e args Hn1). apply IH; assumption.
  Qed.

  Lemma oneof_go_fire : forall l1 x l2 s d, forallb alt_wf (l1 ++ x :: l2) = true ->
    NoDup (flat_map alt_kw (l1 ++ x :: l2)) -> alt_delta x s = Some d ->
    forall f e X n, nomatch (flat_map alt_kw l2) X ->
    oneof_go (S (S f)) (l1 ++ x :: l2) e (s ++ X) n = (X, d ++ e, n + 1, None).
  Proof.
    induction l1 as [|y l1 IH]; intros x l2 s d Hs Hnd Hd f e X n HX; cbn [app] in *.
    - cbn [forallb] in Hs. apply andb_prop in Hs. destruct Hs as [Hx Hr].
      rewrite oneof_go_cons. rewrite (alt_fire x s d Hx Hd f e X).
      apply oneof_go_nofire; assumption.
    - cbn [forallb] in Hs. apply andb_prop in Hs. destruct Hs as [Hy Hr].
      rewrite oneof_go_cons.
      destruct (alt_head x s d Hd) as [a [s' [nm [Es [Ek Ef]]]]]. subst s.
      assert (Hny : nomatch (alt_kw y) ((a :: s') ++ X)).
      { cbn [app nomatch]. intros n' Hn'. destruct (equal_fold a n') eqn:E'; [|reflexivity]. exfalso.
        assert (n' = nm) by (eapply fold_unique; eassumption). subst n'.
        cbn [flat_map] in Hnd. rewrite flat_map_app in Hnd. cbn [flat_map] in Hnd. rewrite Ek in Hnd.
        clear - Hnd Hn'. induction (alt_kw y) as [|z t IHt]; [destruct Hn'|].
        cbn [app] in Hnd. inversion Hnd as [|? ? Hnot Hnd']; subst. destruct Hn' as [Hz|Hz].
        - subst z. apply Hnot. apply in_or_app. right. apply in_or_app. right. left. reflexivity.
        - apply IHt; assumption. }
      rewrite (alt_nofire y Hy (S f) e _ Hny).
      apply IH; try assumption. cbn [flat_map] in Hnd. apply NoDup_app_r in Hnd. exact Hnd.
  Qed.

  (* ---- an option ---- *)

  (* an occurrence of an option is an occurrence of one of its alternatives *)
  Lemma occ_alt : forall o s d, option_wf o = true -> occ o s d ->
    exists x, alt_wf x = true /\ alt_delta x s = Some d /\
              (forall n, In n (alt_kw x) -> In n (opt_kws o)) /\
              (forall k, In k (alt_dsts x) -> In k (opt_dsts o)).
  Proof.
    intros o s d Ho H. destruct o; cbn [occ] in H;
      try (exists (PFlag name dst); cbn; auto; fail); try (exists (PNamed name ps); cbn; auto; fail);
      try (cbn [alt_delta] in H; discriminate H).
    destruct H as [x [Hx Hd]]. cbn [option_wf] in Ho. rewrite forallb_forall in Ho.
    exists x. split; [apply Ho; exact Hx|]. split; [exact Hd|].
    split; intros k Hk; cbn [opt_kws opt_dsts]; apply in_flat_map; exists x; auto.
  Qed.

  Lemma occ_head : forall o s d, option_wf o = true -> occ o s d ->
    exists a s' n, s = a :: s' /\ In n (opt_kws o) /\ equal_fold a n = true.
  Proof.
    intros o s d Ho H. destruct (occ_alt o s d Ho H) as [x [_ [Hd [Hk _]]]].
    destruct (alt_head x s d Hd) as [a [s' [n [Es [Ek Ef]]]]].
    exists a, s', n. split; [exact Es|]. split; [|exact Ef]. apply Hk. rewrite Ek. left. reflexivity.
  Qed.
  Lemma occ_dsts : forall o s d, option_wf o = true -> occ o s d ->
    forall k, In k (map fst d) -> In k (opt_dsts o).
  Proof.
    intros o s d Ho H k Hk. destruct (occ_alt o s d Ho H) as [x [_ [Hd [_ Hds]]]].
    apply Hds. eapply alt_dsts_in; eassumption.
  Qed.

  (* an option does nothing on arguments that start with none of its keywords *)
  Lemma opt_nofire : forall o, option_wf o = true -> forall e args, nomatch (opt_kws o) args ->
    run_prim is_float prim_fuel o e args = (false, args, e, None).
  Proof.
    intros o Ho e args Hn. unfold prim_fuel. destruct o; try (apply alt_nofire; assumption).
    rewrite run_prim_oneof. cbn [option_wf] in Ho. cbn [opt_kws] in Hn.
    rewrite (oneof_go_nofire ps Ho 6 e args 0 Hn). reflexivity.
  Qed.

  (* an option on one of its occurrences, followed by anything that does not start with
     the keyword of one of its alternatives: it fires, consumes exactly the occurrence, and adds its bindings *)
  Lemma opt_fire : forall o s d, opt_ok o -> occ o s d -> forall e X, sib_ok o X ->
    run_prim is_float prim_fuel o e (s ++ X) = (true, X, d ++ e, None).
  Proof.
    intros o s d [Ho Hnd] H e X HX. unfold prim_fuel.
    destruct o; try (apply alt_fire; [exact Ho | exact H]).
    cbn [occ] in H. destruct H as [x [Hx Hd]]. apply in_split in Hx. destruct Hx as [l1 [l2 El]]. subst ps.
    rewrite run_prim_oneof. cbn [option_wf] in Ho. cbn [opt_kws] in Hnd.
    unfold sib_ok in HX. cbn [sib_kws] in HX. rewrite flat_map_app in HX. apply nomatch_app in HX.
    destruct HX as [_ HX]. cbn [flat_map] in HX. apply nomatch_app in HX. destruct HX as [_ HX].
    rewrite (oneof_go_fire l1 x l2 s d Ho Hnd Hd 5 e X 0 HX). reflexivity.
  Qed.

  (* the occurrence of another option does not start with a keyword of this one *)
  Lemma nomatch_other : forall o o' s d X, option_wf o = true -> opt_indep o' o -> occ o s d ->
    nomatch (opt_kws o') (s ++ X).
  Proof.
    intros o o' s d X Ho [Hk _] H. destruct (occ_head o s d Ho H) as [a [s' [n [Es [Hn Ef]]]]]. subst s.
    cbn [app nomatch]. intros n' Hn'. destruct (equal_fold a n') eqn:E; [|reflexivity]. exfalso.
    assert (n' = n) by (eapply fold_unique; eassumption). subst n'. eapply Hk; eassumption.
  Qed.
  Lemma sib_kws_incl : forall o n, In n (sib_kws o) -> In n (opt_kws o).
  Proof. intros o n H. destruct o; cbn [sib_kws] in H; try destruct H. exact H. Qed.
  Lemma nomatch_incl : forall k1 k2 args, (forall n, In n k1 -> In n k2) -> nomatch k2 args -> nomatch k1 args.
  Proof. intros k1 k2 [|a r] Hi H; cbn [nomatch] in *; auto. Qed.
  Lemma sib_ok_other : forall o o' s d X, option_wf o = true -> opt_indep o' o -> occ o s d ->
    sib_ok o' (s ++ X).
  Proof.
    intros o o' s d X Ho Hi H. unfold sib_ok. eapply nomatch_incl; [apply sib_kws_incl|].
    eapply nomatch_other; eassumption.
  Qed.

  (* ---- one round of the pipeline on an occurrence ---- *)

  Lemma first_fired_occ : forall l1 o l2 s d X,
    Forall (fun p => option_wf p = true /\ opt_indep p o) l1 -> opt_ok o -> occ o s d -> sib_ok o X ->
    forall seen e, first_fired is_float (l1 ++ o :: l2) seen e (s ++ X) = inl (Some (rev seen ++ l1 ++ l2, X, d ++ e)).
  Proof.
    induction l1 as [|p l1 IH]; intros o l2 s d X Hl1 Ho H HX seen e; cbn [app first_fired].
    - rewrite (opt_fire o s d Ho H e X HX). reflexivity.
    - inversion Hl1 as [|? ? [Hp Hi] Hl1']; subst.
      rewrite (opt_nofire p Hp e (s ++ X) (nomatch_other o p s d X (proj1 Ho) Hi H)).
      rewrite (IH o l2 s d X Hl1' Ho H HX (p :: seen) e). cbn [rev]. rewrite <- app_assoc. reflexivity.
  Qed.

  Lemma run_loop_cons : forall f p ps e a r,
    run_loop is_float (S f) (p :: ps) e (a :: r) =
    match first_fired is_float (p :: ps) [] e (a :: r) with
    | inr er => inr er
    | inl None => inr PErrSyntax
    | inl (Some (ps', args', e')) => run_loop is_float f ps' e' args'
    end.
  Proof. reflexivity. Qed.

  (* one step of the state machine: the option is used up, its bindings are added *)
  Lemma run_loop_occ : forall l1 o l2 s d X, st_ok (l1 ++ o :: l2) -> occ o s d -> sib_ok o X ->
    forall f e, run_loop is_float (S f) (l1 ++ o :: l2) e (s ++ X) = run_loop is_float f (l1 ++ l2) (d ++ e) X.
  Proof.
    intros l1 o l2 s d X Hst H HX f e.
    assert (Ho : opt_ok o) by (eapply st_ok_in; [exact Hst | apply in_or_app; right; left; reflexivity]).
    assert (Hl1 : Forall (fun p => option_wf p = true /\ opt_indep p o) l1).
    { apply Forall_forall. intros p Hp. split.
      - apply (st_ok_in _ p Hst). apply in_or_app. left. exact Hp.
      - destruct Hst as [_ Hpw]. pose proof (pairwise_mid opt_indep opt_indep_sym l1 o l2 Hpw) as Hm.
        rewrite Forall_forall in Hm. apply opt_indep_sym. apply Hm. apply in_or_app. left. exact Hp. }
    pose proof (first_fired_occ l1 o l2 s d X Hl1 Ho H HX [] e) as Hff.
    destruct (occ_head o s d (proj1 Ho) H) as [a [s' [n [Es _]]]]. subst s.
    destruct (l1 ++ o :: l2) as [|p ps] eqn:El; [destruct l1; discriminate El|].
    cbn [app] in *. rewrite run_loop_cons. rewrite Hff. reflexivity.
  Qed.

  (* ================================================================== *)
  (* two adjacent occurrences of different options commute (state level) *)
  (* ================================================================== *)

  Lemma two_split : forall {A} (o1 o2 : A) opts, In o1 opts -> In o2 opts -> o1 <> o2 ->
    (exists a b c, opts = a ++ o1 :: b ++ o2 :: c) \/ (exists a b c, opts = a ++ o2 :: b ++ o1 :: c).
  Proof.
    intros A o1 o2 opts H1 H2 Hne. apply in_split in H1. destruct H1 as [l1 [l2 E]]. subst opts.
    apply in_app_or in H2. destruct H2 as [H2|[H2|H2]].
    - apply in_split in H2. destruct H2 as [a [b E]]. subst l1. right. exists a, b, l2.
      rewrite <- app_assoc. reflexivity.
    - congruence.
    - apply in_split in H2. destruct H2 as [b [c E]]. subst l2. left. exists l1, b, c. reflexivity.
  Qed.

  Lemma env_swap : forall o1 o2 s1 s2 d1 d2 e, option_wf o1 = true -> option_wf o2 = true ->
    opt_indep o1 o2 -> occ o1 s1 d1 -> occ o2 s2 d2 -> env_equiv (d2 ++ d1 ++ e) (d1 ++ d2 ++ e).
  Proof.
    intros o1 o2 s1 s2 d1 d2 e W1 W2 [_ Hd] H1 H2 k. rewrite !pget_app.
    destruct (pget d2 k) as [v2|] eqn:E2; destruct (pget d1 k) as [v1|] eqn:E1; try reflexivity.
    exfalso. apply (Hd k).
    - eapply occ_dsts; [exact W1 | exact H1 | eapply pget_some_in; exact E1].
    - eapply occ_dsts; [exact W2 | exact H2 | eapply pget_some_in; exact E2].
  Qed.

  Lemma st_ok_wf : forall opts, st_ok opts -> Forall (fun o => option_wf o = true) opts.
  Proof. intros opts [H _]. eapply Forall_impl; [|exact H]. intros o [A _]. exact A. Qed.

  Lemma commute_aux : forall f a b c e o1 o2 s1 s2 d1 d2 rest,
    st_ok (a ++ o1 :: b ++ o2 :: c) -> o1 <> o2 ->
    occ o1 s1 d1 -> occ o2 s2 d2 -> sib_ok o1 rest -> sib_ok o2 rest ->
    penv_equiv (run_loop is_float f (a ++ o1 :: b ++ o2 :: c) e (s1 ++ s2 ++ rest))
               (run_loop is_float f (a ++ o1 :: b ++ o2 :: c) e (s2 ++ s1 ++ rest)).
  Proof.
    intros f a b c e o1 o2 s1 s2 d1 d2 rest Hst Hne H1 H2 R1 R2.
    assert (In1 : In o1 (a ++ o1 :: b ++ o2 :: c)) by (apply in_or_app; right; left; reflexivity).
    assert (In2 : In o2 (a ++ o1 :: b ++ o2 :: c)).
    { apply in_or_app; right; right. apply in_or_app; right; left; reflexivity. }
    pose proof (st_ok_in _ _ Hst In1) as Ok1. pose proof (st_ok_in _ _ Hst In2) as Ok2.
    pose proof (st_ok_indep _ _ _ Hst In1 In2 Hne) as Hi.
    destruct f as [|f]; [apply penv_equiv_refl|].
    (* first order: o1 then o2 *)
    rewrite (run_loop_occ a o1 (b ++ o2 :: c) s1 d1 (s2 ++ rest) Hst H1
               (sib_ok_other o2 o1 s2 d2 rest (proj1 Ok2) Hi H2) f e).
    pose proof (st_ok_remove _ _ _ Hst) as Hst1.
    (* second order: o2 then o1 *)
    assert (Hst' : st_ok ((a ++ o1 :: b) ++ o2 :: c)) by (rewrite <- app_assoc; exact Hst).
    replace (a ++ o1 :: b ++ o2 :: c) with ((a ++ o1 :: b) ++ o2 :: c) by (rewrite <- app_assoc; reflexivity).
    rewrite (run_loop_occ (a ++ o1 :: b) o2 c s2 d2 (s1 ++ rest) Hst' H2
               (sib_ok_other o1 o2 s1 d1 rest (proj1 Ok1) (opt_indep_sym _ _ Hi) H1) f e).
    pose proof (st_ok_remove _ _ _ Hst') as Hst2.
    destruct f as [|f]; [apply penv_equiv_refl|].
    assert (Hst1' : st_ok ((a ++ b) ++ o2 :: c)) by (rewrite <- app_assoc; exact Hst1).
    replace (a ++ b ++ o2 :: c) with ((a ++ b) ++ o2 :: c) by (rewrite <- app_assoc; reflexivity).
    rewrite (run_loop_occ (a ++ b) o2 c s2 d2 rest Hst1' H2 R2 f (d1 ++ e)).
    assert (Hst2' : st_ok (a ++ o1 :: b ++ c)) by (rewrite <- app_assoc in Hst2; exact Hst2).
    replace ((a ++ o1 :: b) ++ c) with (a ++ o1 :: b ++ c) by (rewrite <- app_assoc; reflexivity).
    rewrite (run_loop_occ a o1 (b ++ c) s1 d1 rest Hst2' H1 R1 f (d2 ++ e)).
    rewrite <- app_assoc.
    apply run_loop_env_equiv.
    - apply st_ok_wf. eapply st_ok_remove. exact Hst2'.
    - eapply env_swap; [exact (proj1 Ok1) | exact (proj1 Ok2) | exact Hi | exact H1 | exact H2].
  Qed.

  (* THEOREM A (state level).  In any state whose remaining parsers are options (well formed, pairwise
     independent), for any environment and any fuel: two adjacent complete occurrences of two different
     options can be exchanged, whatever follows them (provided what follows does not start with the keyword
     of an alternative of one of the two options, see [oneof_needs_rest_condition] below). *)
  Theorem options_commute_state : forall f opts e o1 o2 s1 s2 rest,
    st_ok opts -> In o1 opts -> In o2 opts -> o1 <> o2 ->
    occurrence o1 s1 -> occurrence o2 s2 -> sib_ok o1 rest -> sib_ok o2 rest ->
    penv_equiv (run_loop is_float f opts e (s1 ++ s2 ++ rest)) (run_loop is_float f opts e (s2 ++ s1 ++ rest)).
  Proof.
    intros f opts e o1 o2 s1 s2 rest Hst I1 I2 Hne [d1 H1] [d2 H2] R1 R2.
    destruct (two_split o1 o2 opts I1 I2 Hne) as [[a [b [c E]]]|[a [b [c E]]]]; subst opts.
    - eapply commute_aux; eassumption.
    - apply penv_equiv_sym. eapply commute_aux; try eassumption. congruence.
  Qed.

  (* ================================================================== *)
  (* sequences of occurrences                                            *)
  (* ================================================================== *)

  Definition flat (l : list (prim * list bytes)) : list bytes := flat_map snd l.
  (* complete occurrences of pairwise different options of the state *)
  Definition occs_ok (opts : list prim) (l : list (prim * list bytes)) : Prop :=
    NoDup (map fst l) /\ Forall (fun os => In (fst os) opts /\ occurrence (fst os) (snd os)) l.
  Definition rest_ok (l : list (prim * list bytes)) (rest : list bytes) : Prop :=
    Forall (fun os => sib_ok (fst os) rest) l.

  Lemma flat_cons : forall o s l X, flat ((o, s) :: l) ++ X = s ++ (flat l ++ X).
  Proof. intros. unfold flat. cbn [flat_map snd]. rewrite <- app_assoc. reflexivity. Qed.

  (* what follows an occurrence inside a sequence starts with the keyword of a different option *)
  Lemma sib_ok_flat : forall opts o l X, st_ok opts -> In o opts ->
    (forall os, In os l -> In (fst os) opts /\ occurrence (fst os) (snd os) /\ fst os <> o) ->
    (l = [] -> sib_ok o X) -> sib_ok o (flat l ++ X).
  Proof.
    intros opts o l X Hst Ho Hl HX. destruct l as [|[o' s'] l]; [apply HX; reflexivity|].
    rewrite flat_cons. destruct (Hl (o', s') (or_introl eq_refl)) as [Hin [[d' Hocc] Hne]]. cbn [fst snd] in *.
    eapply sib_ok_other; [apply (st_ok_in _ _ Hst Hin) | | exact Hocc].
    eapply st_ok_indep; eauto.
  Qed.

  (* consuming the first occurrence of a sequence *)
  Lemma step_occ : forall opts o s X, st_ok opts -> In o opts -> occurrence o s -> sib_ok o X ->
    exists opts' d, st_ok opts' /\
      (forall o', In o' opts -> o' <> o -> In o' opts') /\
      forall f e, run_loop is_float (S f) opts e (s ++ X) = run_loop is_float f opts' (d ++ e) X.
  Proof.
    intros opts o s X Hst Ho [d Hd] HX. apply in_split in Ho. destruct Ho as [l1 [l2 E]]. subst opts.
    exists (l1 ++ l2), d. split; [eapply st_ok_remove; exact Hst|]. split.
    - intros o' Hin Hne. apply in_app_or in Hin. apply in_or_app. destruct Hin as [Hin|[Hin|Hin]]; auto. congruence.
    - intros f e. apply run_loop_occ; assumption.
  Qed.

  Lemma occs_ok_cons : forall opts o s l, occs_ok opts ((o, s) :: l) ->
    In o opts /\ occurrence o s /\ occs_ok opts l /\
    (forall os, In os l -> In (fst os) opts /\ occurrence (fst os) (snd os) /\ fst os <> o).
  Proof.
    intros opts o s l [Hnd Hf]. cbn [map fst] in Hnd. inversion Hnd as [|? ? Hnot Hnd']; subst.
    inversion Hf as [|? ? [Hin Hocc] Hf']; subst. cbn [fst snd] in *.
    split; [exact Hin|]. split; [exact Hocc|]. split; [split; assumption|].
    intros os Hos. rewrite Forall_forall in Hf'. destruct (Hf' os Hos) as [A B].
    split; [exact A|]. split; [exact B|]. intros Heq. apply Hnot. rewrite <- Heq. apply in_map. exact Hos.
  Qed.
  Lemma occs_ok_sub : forall opts opts' o l, occs_ok opts l ->
    (forall os, In os l -> fst os <> o) -> (forall o', In o' opts -> o' <> o -> In o' opts') -> occs_ok opts' l.
  Proof.
    intros opts opts' o l [Hnd Hf] Hne Hsub. split; [exact Hnd|].
    rewrite Forall_forall in *. intros os Hos. destruct (Hf os Hos) as [A B]. split; [|exact B].
    apply Hsub; [exact A | apply Hne; exact Hos].
  Qed.

  (* stepping through occurrences [mid] of other options that precede the two occurrences *)
  Lemma mid_lift : forall (R : penv + perr -> penv + perr -> Prop) o1 o2 s1 s2 rest,
    (forall r, R r r) ->
    (forall f opts e, st_ok opts -> In o1 opts -> In o2 opts -> o1 <> o2 -> occurrence o1 s1 -> occurrence o2 s2 ->
       R (run_loop is_float f opts e (s1 ++ s2 ++ rest)) (run_loop is_float f opts e (s2 ++ s1 ++ rest))) ->
    forall mid f opts e, st_ok opts -> occs_ok opts (mid ++ [(o1, s1); (o2, s2)]) ->
    R (run_loop is_float f opts e (flat mid ++ s1 ++ s2 ++ rest))
      (run_loop is_float f opts e (flat mid ++ s2 ++ s1 ++ rest)).
  Proof.
    intros R o1 o2 s1 s2 rest Rrefl Base.
    induction mid as [|[o s] mid IH]; intros f opts e Hst Hoc.
    - cbn [app flat flat_map] in *. destruct (occs_ok_cons _ _ _ _ Hoc) as [I1 [O1 [Hoc' Hl]]].
      destruct (occs_ok_cons _ _ _ _ Hoc') as [I2 [O2 _]].
      destruct (Hl (o2, s2) (or_introl eq_refl)) as [_ [_ Hne]]. cbn [fst] in Hne.
      apply (Base f opts e Hst I1 I2 (fun E => Hne (eq_sym E)) O1 O2).
    - cbn [app] in Hoc. destruct (occs_ok_cons _ _ _ _ Hoc) as [I [O [Hoc' Hl]]].
      destruct f as [|f]; [apply Rrefl|].
      rewrite !flat_cons.
      assert (E1 : flat mid ++ s1 ++ s2 ++ rest = flat (mid ++ [(o1, s1); (o2, s2)]) ++ rest).
      { unfold flat. rewrite flat_map_app. cbn [flat_map snd]. rewrite <- !app_assoc. reflexivity. }
      assert (E2 : flat mid ++ s2 ++ s1 ++ rest = flat (mid ++ [(o2, s2); (o1, s1)]) ++ rest).
      { unfold flat. rewrite flat_map_app. cbn [flat_map snd]. rewrite <- !app_assoc. reflexivity. }
      assert (S1 : sib_ok o (flat mid ++ s1 ++ s2 ++ rest)).
      { rewrite E1. eapply sib_ok_flat; [exact Hst | exact I | exact Hl |].
        intros Hnil. apply app_eq_nil in Hnil. destruct Hnil as [_ Hnil]. discriminate Hnil. }
      assert (S2 : sib_ok o (flat mid ++ s2 ++ s1 ++ rest)).
      { rewrite E2. eapply sib_ok_flat; [exact Hst | exact I | |].
        - intros os Hos. apply Hl. apply in_app_or in Hos. apply in_or_app.
          destruct Hos as [Hos|Hos]; [left; exact Hos|right]. cbn [In] in *. tauto.
        - intros Hnil. apply app_eq_nil in Hnil. destruct Hnil as [_ Hnil]. discriminate Hnil. }
      destruct O as [d0 Hd0]. apply in_split in I. destruct I as [l1 [l2 El]]. subst opts.
      rewrite (run_loop_occ l1 o l2 s d0 _ Hst Hd0 S1 f e).
      rewrite (run_loop_occ l1 o l2 s d0 _ Hst Hd0 S2 f e).
      apply (IH f (l1 ++ l2) (d0 ++ e)); [eapply st_ok_remove; exact Hst |].
      eapply occs_ok_sub; [exact Hoc' | intros os Hos; apply (Hl os Hos) |].
      intros o' Hin Hne. apply in_app_or in Hin. apply in_or_app. destruct Hin as [Hin|[Hin|Hin]]; auto. congruence.
  Qed.

  (* THEOREM B (state level): the two occurrences may be preceded by occurrences of other options *)
  Theorem options_commute_mid_state : forall mid f opts e o1 o2 s1 s2 rest,
    st_ok opts -> occs_ok opts (mid ++ [(o1, s1); (o2, s2)]) -> sib_ok o1 rest -> sib_ok o2 rest ->
    penv_equiv (run_loop is_float f opts e (flat mid ++ s1 ++ s2 ++ rest))
               (run_loop is_float f opts e (flat mid ++ s2 ++ s1 ++ rest)).
  Proof.
    intros mid f opts e o1 o2 s1 s2 rest Hst Hoc R1 R2.
    apply (mid_lift penv_equiv o1 o2 s1 s2 rest penv_equiv_refl); [|exact Hst|exact Hoc].
    intros f' opts' e' Hst' I1 I2 Hne O1 O2.
    apply (options_commute_state f' opts' e' o1 o2 s1 s2 rest Hst' I1 I2 Hne O1 O2 R1 R2).
  Qed.

  (* THEOREM C (state level): any permutation of a sequence of occurrences of pairwise different options *)
  Theorem options_permute_state : forall l1 l2, Permutation l1 l2 ->
    forall f opts e rest, st_ok opts -> occs_ok opts l1 -> rest_ok l1 rest ->
    penv_equiv (run_loop is_float f opts e (flat l1 ++ rest)) (run_loop is_float f opts e (flat l2 ++ rest)).
  Proof.
    induction 1 as [| [o s] l l' Hp IH | [o2 s2] [o1 s1] l | l l' l'' Hp1 IH1 Hp2 IH2];
      intros f opts e rest Hst Hoc Hr.
    - apply penv_equiv_refl.
    - destruct (occs_ok_cons _ _ _ _ Hoc) as [I [[d0 Hd0] [Hoc' Hl]]].
      inversion Hr as [|? ? Hro Hr']; subst. cbn [fst] in Hro.
      destruct f as [|f]; [apply penv_equiv_refl|]. rewrite !flat_cons.
      assert (S1 : sib_ok o (flat l ++ rest)).
      { eapply sib_ok_flat; [exact Hst | exact I | exact Hl | intros _; exact Hro]. }
      assert (S2 : sib_ok o (flat l' ++ rest)).
      { eapply sib_ok_flat; [exact Hst | exact I | | intros _; exact Hro].
        intros os Hos. apply Hl. eapply Permutation_in; [apply Permutation_sym; exact Hp | exact Hos]. }
      apply in_split in I. destruct I as [a [b El]]. subst opts.
      rewrite (run_loop_occ a o b s d0 _ Hst Hd0 S1 f e).
      rewrite (run_loop_occ a o b s d0 _ Hst Hd0 S2 f e).
      apply IH; [eapply st_ok_remove; exact Hst | | exact Hr'].
      eapply occs_ok_sub; [exact Hoc' | intros os Hos; apply (Hl os Hos) |].
      intros o' Hin Hne. apply in_app_or in Hin. apply in_or_app. destruct Hin as [Hin|[Hin|Hin]]; auto. congruence.
    - (* swap: Permutation ((o1,s1) :: (o2,s2) :: l) ((o2,s2) :: (o1,s1) :: l) *)
      destruct (occs_ok_cons _ _ _ _ Hoc) as [I1 [O1 [Hoc' Hl1]]].
      destruct (occs_ok_cons _ _ _ _ Hoc') as [I2 [O2 [Hoc'' Hl2]]].
      destruct (Hl1 (o2, s2) (or_introl eq_refl)) as [_ [_ Hne]]. cbn [fst] in Hne.
      inversion Hr as [|? ? Hr1 Hr']; subst. inversion Hr' as [|? ? Hr2 Hr'']; subst. cbn [fst] in *.
      rewrite !flat_cons.
      apply (options_commute_state f opts e o1 o2 s1 s2 (flat l ++ rest) Hst I1 I2 (fun E => Hne (eq_sym E)) O1 O2).
      + eapply sib_ok_flat; [exact Hst | exact I1 | | intros _; exact Hr1].
        intros os Hos. apply Hl1. right. exact Hos.
      + eapply sib_ok_flat; [exact Hst | exact I2 | exact Hl2 | intros _; exact Hr2].
    - eapply penv_equiv_trans; [apply IH1; assumption|].
      apply IH2; [exact Hst | |].
      + destruct Hoc as [Hnd Hf]. split.
        * eapply Permutation_NoDup; [apply Permutation_map; exact Hp1 | exact Hnd].
        * eapply Permutation_Forall; eassumption.
      + eapply Permutation_Forall; eassumption.
  Qed.

  (* ================================================================== *)
  (* the positional arguments                                            *)
  (* ================================================================== *)

  (* the positional parsers, each fed in turn: every one fires without error; the
     environment they build and the arguments they leave *)
  Fixpoint run_pos (pos : list prim) (e : penv) (args : list bytes) : option (penv * list bytes) :=
    match pos with
    | [] => Some (e, args)
    | q :: qs =>
        match args with
        | [] => None
        | _ => match run_prim is_float prim_fuel q e args with
               | (true, args', e', None) => run_pos qs e' args'
               | _ => None
               end
        end
    end.

  Lemma zlen_app : forall {A} (a b : list A), zlen (a ++ b) = zlen a + zlen b.
  Proof. intros. unfold zlen. rewrite app_length. lia. Qed.
  Lemma zlen_nonneg : forall {A} (a : list A), 0 <= zlen a.
  Proof. intros. unfold zlen. lia. Qed.

  Lemma zdrop_ztake_app : forall {A} (l T : list A) n, 0 <= n <= zlen l ->
    zdrop n (l ++ T) = zdrop n l ++ T /\ ztake n (l ++ T) = ztake n l.
  Proof.
    induction l as [|x l IH]; intros T n Hn.
    - assert (n = 0) by (unfold zlen in Hn; cbn [List.length] in Hn; lia). subst n.
      cbn [app zdrop ztake]. destruct T; cbn [zdrop ztake]; split; reflexivity.
    - cbn [app zdrop ztake]. destruct (n <=? 0) eqn:E; [split; reflexivity|].
      rewrite zlen_cons in Hn. apply Z.leb_gt in E.
      destruct (IH T (n - 1) ltac:(lia)) as [A1 A2]. rewrite A1, A2. split; reflexivity.
  Qed.

  Lemma stringsN_run : forall f d nvar e x r, exists n, forall T,
    run_prim is_float (S f) (PStringsN d nvar) e ((x :: r) ++ T) =
    if (n <? 0) || (zlen ((x :: r) ++ T) <? n) then (true, (x :: r) ++ T, e, Some PErrArgNum)
    else (true, zdrop n ((x :: r) ++ T), pset e d (PVList (ztake n ((x :: r) ++ T))), None).
  Proof. intros. eexists. intros T. reflexivity. Qed.

  (* what a positional parser does is not changed by appending arguments *)
  Lemma pos_mono : forall q e a a' e' T, pos_prim_ok q = true ->
    run_prim is_float prim_fuel q e a = (true, a', e', None) ->
    run_prim is_float prim_fuel q e (a ++ T) = (true, a' ++ T, e', None).
  Proof.
    intros q e a a' e' T Hq H. unfold prim_fuel in *.
    destruct a as [|x r]; [destruct q; try discriminate Hq; cbn [run_prim] in H; discriminate H|].
    destruct q; try discriminate Hq; cbn [app]; cbn [run_prim] in *.
    - inversion H; subst; reflexivity.
    - inversion H; subst; reflexivity.
    - destruct (atoi x); inversion H; subst; reflexivity.
    - destruct (is_float x); inversion H; subst; reflexivity.
    - destruct (str_in (lower x) allowed); inversion H; subst; reflexivity.
    - destruct (stringsN_run 7 dst nvar e x r) as [n Hn].
      pose proof (Hn []) as H0. rewrite app_nil_r in H0. cbn [run_prim] in H0. rewrite H0 in H.
      pose proof (Hn T) as H1. cbn [app run_prim] in H1. rewrite H1. clear Hn H0 H1.
      destruct ((n <? 0) || (zlen (x :: r) <? n)) eqn:C; [discriminate H|].
      apply orb_false_elim in C. destruct C as [C1 C2]. apply Z.ltb_ge in C1, C2.
      change (x :: r ++ T) with ((x :: r) ++ T).
      destruct (zdrop_ztake_app (x :: r) T n (conj C1 C2)) as [A1 A2].
      assert (C' : (n <? 0) || (zlen ((x :: r) ++ T) <? n) = false).
      { apply orb_false_intro; apply Z.ltb_ge; [exact C1|]. rewrite zlen_app. pose proof (zlen_nonneg T). lia. }
      rewrite C', A1, A2. inversion H; subst. reflexivity.
  Qed.

  (* once the positional parsers are served, the pipeline goes on with the options alone *)
  Lemma run_loop_pos : forall pos e a e0, forallb pos_prim_ok pos = true ->
    run_pos pos e a = Some (e0, []) ->
    forall f opts T, run_loop is_float (List.length pos + f) (pos ++ opts) e (a ++ T) = run_loop is_float f opts e0 T.
  Proof.
    induction pos as [|q qs IH]; intros e a e0 Hp H f opts T.
    - cbn [run_pos] in H. inversion H; subst. reflexivity.
    - cbn [forallb] in Hp. apply andb_prop in Hp. destruct Hp as [Hq Hqs].
      cbn [run_pos] in H. destruct a as [|x r]; [discriminate H|].
      destruct (run_prim is_float prim_fuel q e (x :: r)) as [[[fi a'] e'] er] eqn:E.
      destruct fi; [|discriminate H]. destruct er; [discriminate H|].
      pose proof (pos_mono q e (x :: r) a' e' T Hq E) as M.
      cbn [List.length Nat.add app] in *. rewrite run_loop_cons. cbn [first_fired]. rewrite M.
      cbn [rev app]. apply IH; assumption.
  Qed.

  Lemma run_pipeline_pos : forall p posargs e0 T, forallb pos_prim_ok (pos_part p) = true ->
    run_pos (pos_part p) [] posargs = Some (e0, []) ->
    run_pipeline is_float p (posargs ++ T) =
    if zlen (posargs ++ T) <? pl_required p then inr PErrArgNum
    else run_loop is_float (S (List.length (opt_part p))) (opt_part p) e0 T.
  Proof.
    intros p posargs e0 T Hp H. unfold run_pipeline.
    destruct (zlen (posargs ++ T) <? pl_required p); [reflexivity|].
    pose proof (split_pos_app (pl_parsers p)) as E. fold (pos_part p) in E. fold (opt_part p) in E.
    rewrite <- E at 1 2. rewrite app_length.
    replace (S (List.length (pos_part p) + List.length (opt_part p)))%nat
      with (List.length (pos_part p) + S (List.length (opt_part p)))%nat by lia.
    apply run_loop_pos; assumption.
  Qed.

  Lemma order_ok_parts : forall p, order_ok p = true ->
    st_ok (opt_part p) /\ (opt_part p <> [] -> forallb pos_prim_ok (pos_part p) = true).
  Proof.
    intros p H. unfold order_ok in H. apply andb_prop in H. destruct H as [H1 H2].
    split; [apply st_okb_spec; exact H2|]. intros Hne.
    destruct (opt_part p); [congruence|]. exact H1.
  Qed.

  (* ================================================================== *)
  (* THE THEOREMS, at the level of Pipeline.Run                          *)
  (* ================================================================== *)

  (* [pre] = the positional arguments (each accepted by its parser) followed by complete occurrences
     [mid] of other options; [s1], [s2] complete occurrences of two further, different options;
     [rest] anything that does not start with the keyword of an alternative of [o1] or [o2]. *)
  Theorem options_commute : forall p pre s1 s2 rest posargs e0 mid o1 o2,
    order_ok p = true ->
    pre = posargs ++ flat mid ->
    run_pos (pos_part p) [] posargs = Some (e0, []) ->
    occs_ok (opt_part p) (mid ++ [(o1, s1); (o2, s2)]) ->
    sib_ok o1 rest -> sib_ok o2 rest ->
    penv_equiv (run_pipeline is_float p (pre ++ s1 ++ s2 ++ rest))
               (run_pipeline is_float p (pre ++ s2 ++ s1 ++ rest)).
  Proof.
    intros p pre s1 s2 rest posargs e0 mid o1 o2 Hok Hpre Hpos Hoc R1 R2. subst pre.
    destruct (order_ok_parts p Hok) as [Hst Hposok].
    assert (Hne : opt_part p <> []).
    { destruct Hoc as [_ Hf]. rewrite Forall_forall in Hf.
      destruct (Hf (o1, s1)) as [Hin _]; [apply in_or_app; right; left; reflexivity|].
      intros E. rewrite E in Hin. destruct Hin. }
    specialize (Hposok Hne).
    rewrite <- !app_assoc.
    rewrite (run_pipeline_pos p posargs e0 _ Hposok Hpos).
    rewrite (run_pipeline_pos p posargs e0 _ Hposok Hpos).
    replace (zlen (posargs ++ flat mid ++ s2 ++ s1 ++ rest)) with (zlen (posargs ++ flat mid ++ s1 ++ s2 ++ rest))
      by (rewrite !zlen_app; lia).
    destruct (zlen (posargs ++ flat mid ++ s1 ++ s2 ++ rest) <? pl_required p); [reflexivity|].
    apply (options_commute_mid_state mid _ _ _ o1 o2); assumption.
  Qed.

  (* any permutation of the occurrences of pairwise different options *)
  Theorem options_permute : forall p posargs e0 l1 l2 rest,
    order_ok p = true ->
    run_pos (pos_part p) [] posargs = Some (e0, []) ->
    occs_ok (opt_part p) l1 -> rest_ok l1 rest -> Permutation l1 l2 ->
    penv_equiv (run_pipeline is_float p (posargs ++ flat l1 ++ rest))
               (run_pipeline is_float p (posargs ++ flat l2 ++ rest)).
  Proof.
    intros p posargs e0 l1 l2 rest Hok Hpos Hoc Hr Hperm.
    destruct (order_ok_parts p Hok) as [Hst Hposok].
    destruct l1 as [|[o s] l1].
    - apply Permutation_nil in Hperm. subst l2. apply penv_equiv_refl.
    - assert (Hne : opt_part p <> []).
      { destruct Hoc as [_ Hf]. inversion Hf as [|? ? [Hin _] _]; subst. cbn [fst] in Hin.
        intros E. rewrite E in Hin. destruct Hin. }
      specialize (Hposok Hne).
      rewrite (run_pipeline_pos p posargs e0 _ Hposok Hpos).
      rewrite (run_pipeline_pos p posargs e0 _ Hposok Hpos).
      assert (El : zlen (flat l2) = zlen (flat ((o, s) :: l1))).
      { unfold zlen. f_equal. apply Permutation_length. apply Permutation_sym.
        unfold flat. apply Permutation_flat_map. exact Hperm. }
      replace (zlen (posargs ++ flat l2 ++ rest)) with (zlen (posargs ++ flat ((o, s) :: l1) ++ rest))
        by (rewrite !zlen_app; lia).
      destruct (zlen (posargs ++ flat ((o, s) :: l1) ++ rest) <? pl_required p); [reflexivity|].
      apply options_permute_state; assumption.
  Qed.
  (* ================================================================== *)
  (* without any condition on what follows: success never depends on the order *)
  (* ================================================================== *)

  (* both fail (possibly with different errors), or both succeed with environments that bind alike *)
  Definition weak_equiv (r1 r2 : penv + perr) : Prop :=
    match r1, r2 with
    | inl e1, inl e2 => env_equiv e1 e2
    | inr _, inr _ => True
    | _, _ => False
    end.
  Definition fails (r : penv + perr) : Prop := exists er, r = inr er.

  Lemma weak_equiv_refl : forall r, weak_equiv r r.
  Proof. intros [e|a]; cbn; [intros k; reflexivity | exact I]. Qed.
  Lemma penv_equiv_weak : forall r1 r2, penv_equiv r1 r2 -> weak_equiv r1 r2.
  Proof. intros [e1|a] [e2|b]; cbn; auto. Qed.

  (* computable form of [nomatch] *)
  Definition nomatchb (kws : list string) (args : list bytes) : bool :=
    match args with
    | [] => true
    | a :: _ => forallb (fun n => negb (equal_fold a n)) kws
    end.
  Definition sib_okb (o : prim) (rest : list bytes) : bool := nomatchb (sib_kws o) rest.
  Lemma nomatchb_spec : forall kws args, nomatchb kws args = true -> nomatch kws args.
  Proof.
    intros kws [|a r] H; cbn [nomatch nomatchb] in *; [exact I|].
    rewrite forallb_forall in H. intros n Hn. specialize (H n Hn). destruct (equal_fold a n); [discriminate H | reflexivity].
  Qed.
  Lemma sib_okb_spec : forall o rest, sib_okb o rest = true -> sib_ok o rest.
  Proof. intros o rest H. apply nomatchb_spec. exact H. Qed.

  Lemma nomatch_dec : forall kws args,
    nomatch kws args \/ exists b r n, args = b :: r /\ In n kws /\ equal_fold b n = true.
  Proof.
    intros kws [|b r]; [left; exact I|]. induction kws as [|n kws IH].
    - left. intros n [].
    - destruct (equal_fold b n) eqn:E.
      + right. exists b, r, n. split; [reflexivity|]. split; [left; reflexivity | exact E].
      + destruct IH as [IH|[b' [r' [n' [Eq [Hin Hf]]]]]].
        * left. cbn [nomatch] in *. intros n' [H|H]; [subst; exact E | apply IH; exact H].
        * right. inversion Eq; subst. exists b', r', n'. split; [reflexivity|]. split; [right; exact Hin | exact Hf].
  Qed.

  (* an alternative on any arguments: an error, or nothing at all, or it fired *)
  Lemma alt_any : forall x, alt_wf x = true -> forall f e args fi a' e' er,
    run_prim is_float (S f) x e args = (fi, a', e', er) ->
    er <> None \/ (fi = false /\ a' = args /\ e' = e) \/ fi = true.
  Proof.
    intros x Hx f e args fi a' e' er H. destruct x; try discriminate Hx.
    - cbn [run_prim] in H. destruct args as [|a r]; [inversion H; subst; right; left; auto|].
      destruct (equal_fold a name); inversion H; subst; [right; right; reflexivity | right; left; auto].
    - destruct args as [|a r]; [cbn [run_prim] in H; inversion H; subst; right; left; auto|].
      rewrite run_prim_named in H. destruct (negb (equal_fold a name)); [inversion H; subst; right; left; auto|].
      destruct (named_go f ps e r 0) as [[[a2 d2] n2] er2]. destruct er2 as [[fi2 er']|].
      + inversion H; subst. left. discriminate.
      + destruct (n2 =? zlen ps); inversion H; subst; [right; right; reflexivity | left; discriminate].
  Qed.

  Lemma oneof_go_any : forall alts, forallb alt_wf alts = true ->
    forall f e args n a2 e2 n2 er2, oneof_go (S f) alts e args n = (a2, e2, n2, er2) ->
    er2 <> None \/ (n2 = n /\ a2 = args /\ e2 = e) \/ n < n2.
  Proof.
    induction alts as [|x r IH]; intros Hs f e args n a2 e2 n2 er2 H.
    - cbn in H. inversion H; subst. right; left; auto.
    - cbn [forallb] in Hs. apply andb_prop in Hs. destruct Hs as [Hx Hr].
      rewrite oneof_go_cons in H.
      destruct (run_prim is_float (S f) x e args) as [[[fi a'] e'] er] eqn:E.
      apply (alt_any x Hx) in E. destruct er as [er|].
      + inversion H; subst. left. discriminate.
      + apply (IH Hr) in H. destruct E as [E|[[-> [-> ->]]| ->]]; [congruence | exact H |].
        destruct H as [H|[[-> _]|H]]; [left; exact H | right; right; lia | right; right; lia].
  Qed.

  Lemma oneof_go_prefix : forall l1 x l2 s d, forallb alt_wf (l1 ++ x :: l2) = true ->
    NoDup (flat_map alt_kw (l1 ++ x :: l2)) -> alt_delta x s = Some d ->
    forall f e X n,
    oneof_go (S (S f)) (l1 ++ x :: l2) e (s ++ X) n = oneof_go (S (S f)) l2 (d ++ e) X (n + 1).
  Proof.
    induction l1 as [|y l1 IH]; intros x l2 s d Hs Hnd Hd f e X n; cbn [app] in *.
    - cbn [forallb] in Hs. apply andb_prop in Hs. destruct Hs as [Hx Hr].
      rewrite oneof_go_cons. rewrite (alt_fire x s d Hx Hd f e X). reflexivity.
    - cbn [forallb] in Hs. apply andb_prop in Hs. destruct Hs as [Hy Hr].
      rewrite oneof_go_cons.
      destruct (alt_head x s d Hd) as [a [s' [nm [Es [Ek Ef]]]]]. subst s.
      assert (Hny : nomatch (alt_kw y) ((a :: s') ++ X)).
      { cbn [app nomatch]. intros n' Hn'. destruct (equal_fold a n') eqn:E'; [|reflexivity]. exfalso.
        assert (n' = nm) by (eapply fold_unique; eassumption). subst n'.
        cbn [flat_map] in Hnd. apply (NoDup_app_disj _ _ nm Hnd Hn').
        rewrite flat_map_app. apply in_or_app. right. cbn [flat_map]. rewrite Ek. left. reflexivity. }
      rewrite (alt_nofire y Hy (S f) e _ Hny).
      apply IH; try assumption. cbn [flat_map] in Hnd. apply NoDup_app_r in Hnd. exact Hnd.
  Qed.

  (* an option on one of its occurrences, whatever follows: an error, or exactly the clean firing *)
  Lemma opt_any_occ : forall o s d, opt_ok o -> occ o s d -> forall e X fi a' e' er,
    run_prim is_float prim_fuel o e (s ++ X) = (fi, a', e', er) ->
    er <> None \/ (fi = true /\ a' = X /\ e' = d ++ e /\ er = None).
  Proof.
    intros o s d [Ho Hnd] H e X fi a' e' er Hrun. unfold prim_fuel in Hrun.
    destruct o; try (rewrite (alt_fire _ s d Ho H 6 e X) in Hrun; inversion Hrun; subst; right; auto).
    cbn [occ] in H. destruct H as [x [Hx Hd]]. apply in_split in Hx. destruct Hx as [l1 [l2 El]]. subst ps.
    rewrite run_prim_oneof in Hrun. cbn [option_wf] in Ho. cbn [opt_kws] in Hnd.
    rewrite (oneof_go_prefix l1 x l2 s d Ho Hnd Hd 5 e X 0) in Hrun.
    destruct (oneof_go 7 l2 (d ++ e) X (0 + 1)) as [[[a2 e2] n2] er2] eqn:E.
    assert (Hl2 : forallb alt_wf l2 = true).
    { rewrite forallb_app in Ho. apply andb_prop in Ho. destruct Ho as [_ Ho]. cbn [forallb] in Ho.
      apply andb_prop in Ho. tauto. }
    apply (oneof_go_any l2 Hl2) in E. destruct er2 as [[fi2 er']|].
    - inversion Hrun; subst. left. discriminate.
    - destruct E as [E|[[-> [-> ->]]|E]]; [congruence| |].
      + cbn in Hrun. inversion Hrun; subst. right. auto.
      + assert (L : (1 <? n2) = true) by (apply Z.ltb_lt; lia). rewrite L in Hrun.
        inversion Hrun; subst. left. discriminate.
  Qed.

  Lemma first_fired_occ_weak : forall l1 o l2 s d X,
    Forall (fun p => option_wf p = true /\ opt_indep p o) l1 -> opt_ok o -> occ o s d ->
    forall seen e,
    (exists er, first_fired is_float (l1 ++ o :: l2) seen e (s ++ X) = inr er) \/
    first_fired is_float (l1 ++ o :: l2) seen e (s ++ X) = inl (Some (rev seen ++ l1 ++ l2, X, d ++ e)).
  Proof.
    induction l1 as [|p l1 IH]; intros o l2 s d X Hl1 Ho H seen e; cbn [app first_fired].
    - destruct (run_prim is_float prim_fuel o e (s ++ X)) as [[[fi a'] e'] er] eqn:E.
      apply (opt_any_occ o s d Ho H) in E. destruct E as [E|[-> [-> [-> ->]]]].
      + destruct er; [left; eexists; reflexivity | congruence].
      + right. reflexivity.
    - inversion Hl1 as [|? ? [Hp Hi] Hl1']; subst.
      rewrite (opt_nofire p Hp e (s ++ X) (nomatch_other o p s d X (proj1 Ho) Hi H)).
      destruct (IH o l2 s d X Hl1' Ho H (p :: seen) e) as [IH'|IH']; [left; exact IH'|right].
      rewrite IH'. cbn [rev]. rewrite <- app_assoc. reflexivity.
  Qed.

  Lemma run_loop_occ_weak : forall l1 o l2 s d X, st_ok (l1 ++ o :: l2) -> occ o s d ->
    forall f e, fails (run_loop is_float (S f) (l1 ++ o :: l2) e (s ++ X)) \/
                run_loop is_float (S f) (l1 ++ o :: l2) e (s ++ X) = run_loop is_float f (l1 ++ l2) (d ++ e) X.
  Proof.
    intros l1 o l2 s d X Hst H f e.
    assert (Ho : opt_ok o) by (eapply st_ok_in; [exact Hst | apply in_or_app; right; left; reflexivity]).
    assert (Hl1 : Forall (fun p => option_wf p = true /\ opt_indep p o) l1).
    { apply Forall_forall. intros p Hp. split.
      - apply (st_ok_in _ p Hst). apply in_or_app. left. exact Hp.
      - destruct Hst as [_ Hpw]. pose proof (pairwise_mid opt_indep opt_indep_sym l1 o l2 Hpw) as Hm.
        rewrite Forall_forall in Hm. apply opt_indep_sym. apply Hm. apply in_or_app. left. exact Hp. }
    pose proof (first_fired_occ_weak l1 o l2 s d X Hl1 Ho H [] e) as Hff.
    destruct (occ_head o s d (proj1 Ho) H) as [a [s' [n [Es _]]]]. subst s.
    destruct (l1 ++ o :: l2) as [|p ps] eqn:El; [destruct l1; discriminate El|].
    cbn [app] in *. rewrite run_loop_cons. destruct Hff as [[er Hff]|Hff]; rewrite Hff.
    - left. exists er. reflexivity.
    - right. reflexivity.
  Qed.

  (* arguments that start with no keyword of any remaining option are a syntax error *)
  Lemma first_fired_stuck : forall ps args, Forall (fun o => option_wf o = true) ps ->
    nomatch (flat_map opt_kws ps) args -> forall seen e, first_fired is_float ps seen e args = inl None.
  Proof.
    induction ps as [|p ps IH]; intros args Hps Hn seen e; [reflexivity|].
    inversion Hps as [|? ? Hp Hps']; subst. cbn [flat_map] in Hn. apply nomatch_app in Hn. destruct Hn as [H1 H2].
    cbn [first_fired]. rewrite (opt_nofire p Hp e args H1). apply IH; assumption.
  Qed.
  Lemma run_loop_stuck : forall ps b r, Forall (fun o => option_wf o = true) ps ->
    nomatch (flat_map opt_kws ps) (b :: r) -> forall f e, run_loop is_float f ps e (b :: r) = inr PErrSyntax.
  Proof.
    intros ps b r Hps Hn f e. destruct f as [|f]; [reflexivity|]. destruct ps as [|p ps]; [reflexivity|].
    rewrite run_loop_cons. rewrite (first_fired_stuck (p :: ps) (b :: r) Hps Hn [] e). reflexivity.
  Qed.

  (* two occurrences followed by a keyword of one of the two options (now used up): an error *)
  Lemma both_used_fails : forall f opts e oX oY sX sY dX dY b r n,
    st_ok opts -> In oX opts -> In oY opts -> oX <> oY -> occ oX sX dX -> occ oY sY dY ->
    In n (opt_kws oX) \/ In n (opt_kws oY) -> equal_fold b n = true ->
    fails (run_loop is_float f opts e (sX ++ sY ++ b :: r)).
  Proof.
    intros f opts e oX oY sX sY dX dY b r n Hst IX IY Hne HX HY Hn Hf.
    pose proof (st_ok_in _ _ Hst IX) as OkX. pose proof (st_ok_in _ _ Hst IY) as OkY.
    pose proof (st_ok_indep _ _ _ Hst IX IY Hne) as Hi.
    destruct f as [|f]; [eexists; reflexivity|].
    apply in_split in IX. destruct IX as [l1 [l2 El]]. subst opts.
    rewrite (run_loop_occ l1 oX l2 sX dX (sY ++ b :: r) Hst HX (sib_ok_other oY oX sY dY _ (proj1 OkY) Hi HY) f e).
    assert (IY' : In oY (l1 ++ l2)).
    { apply in_app_or in IY. apply in_or_app. destruct IY as [IY|[IY|IY]]; auto. congruence. }
    pose proof (st_ok_remove _ _ _ Hst) as Hst1.
    destruct f as [|f]; [eexists; reflexivity|].
    destruct (in_split _ _ IY') as [m1 [m2 Em]]. rewrite Em in *.
    destruct (run_loop_occ_weak m1 oY m2 sY dY (b :: r) Hst1 HY f (dX ++ e)) as [F|E]; [exact F|].
    rewrite E. pose proof (st_ok_remove _ _ _ Hst1) as Hst2.
    rewrite (run_loop_stuck (m1 ++ m2) b r (st_ok_wf _ Hst2)); [eexists; reflexivity|].
    cbn [nomatch]. intros n' Hn'. destruct (equal_fold b n') eqn:E'; [|reflexivity]. exfalso.
    assert (n' = n) by (eapply fold_unique; eassumption). subst n'.
    apply in_flat_map in Hn'. destruct Hn' as [o' [Ho' Hk']].
    assert (IY2 : opt_indep oY o').
    { destruct Hst1 as [_ Hpw]. pose proof (pairwise_mid opt_indep opt_indep_sym m1 oY m2 Hpw) as Hm.
      rewrite Forall_forall in Hm. apply Hm. exact Ho'. }
    assert (IX2 : opt_indep oX o').
    { destruct Hst as [_ Hpw]. pose proof (pairwise_mid opt_indep opt_indep_sym l1 oX l2 Hpw) as Hm.
      rewrite Forall_forall in Hm. apply Hm. rewrite Em.
      apply in_app_or in Ho'. apply in_or_app. destruct Ho'; [left|right; right]; assumption. }
    destruct Hn as [Hn|Hn]; [apply (proj1 IX2 n Hn Hk') | apply (proj1 IY2 n Hn Hk')].
  Qed.

  (* THEOREM D (state level): no condition on what follows.  Either both orders fail, or both succeed
     with environments that bind every variable alike. *)
  Theorem options_commute_state_weak : forall f opts e o1 o2 s1 s2 rest,
    st_ok opts -> In o1 opts -> In o2 opts -> o1 <> o2 -> occurrence o1 s1 -> occurrence o2 s2 ->
    weak_equiv (run_loop is_float f opts e (s1 ++ s2 ++ rest)) (run_loop is_float f opts e (s2 ++ s1 ++ rest)).
  Proof.
    intros f opts e o1 o2 s1 s2 rest Hst I1 I2 Hne O1 O2.
    destruct (nomatch_dec (sib_kws o1 ++ sib_kws o2) rest) as [H|[b [r [n [E [Hin Hf]]]]]].
    - apply nomatch_app in H. destruct H as [R1 R2]. apply penv_equiv_weak.
      apply (options_commute_state f opts e o1 o2 s1 s2 rest Hst I1 I2 Hne O1 O2 R1 R2).
    - subst rest. destruct O1 as [d1 H1]. destruct O2 as [d2 H2].
      assert (Hn : In n (opt_kws o1) \/ In n (opt_kws o2)).
      { apply in_app_or in Hin. destruct Hin as [Hin|Hin]; [left|right]; apply sib_kws_incl; exact Hin. }
      destruct (both_used_fails f opts e o1 o2 s1 s2 d1 d2 b r n Hst I1 I2 Hne H1 H2 Hn Hf) as [er1 ->].
      destruct (both_used_fails f opts e o2 o1 s2 s1 d2 d1 b r n Hst I2 I1 (fun E => Hne (eq_sym E)) H2 H1
                  (match Hn with or_introl a => or_intror a | or_intror a => or_introl a end) Hf) as [er2 ->].
      exact I.
  Qed.

  (* at the level of Pipeline.Run, [rest] arbitrary *)
  Theorem options_commute_weak : forall p pre s1 s2 rest posargs e0 mid o1 o2,
    order_ok p = true ->
    pre = posargs ++ flat mid ->
    run_pos (pos_part p) [] posargs = Some (e0, []) ->
    occs_ok (opt_part p) (mid ++ [(o1, s1); (o2, s2)]) ->
    weak_equiv (run_pipeline is_float p (pre ++ s1 ++ s2 ++ rest))
               (run_pipeline is_float p (pre ++ s2 ++ s1 ++ rest)).
  Proof.
    intros p pre s1 s2 rest posargs e0 mid o1 o2 Hok Hpre Hpos Hoc. subst pre.
    destruct (order_ok_parts p Hok) as [Hst Hposok].
    assert (Hne : opt_part p <> []).
    { destruct Hoc as [_ Hf]. rewrite Forall_forall in Hf.
      destruct (Hf (o1, s1)) as [Hin _]; [apply in_or_app; right; left; reflexivity|].
      intros E. rewrite E in Hin. destruct Hin. }
    specialize (Hposok Hne).
    rewrite <- !app_assoc.
    rewrite (run_pipeline_pos p posargs e0 _ Hposok Hpos).
    rewrite (run_pipeline_pos p posargs e0 _ Hposok Hpos).
    replace (zlen (posargs ++ flat mid ++ s2 ++ s1 ++ rest)) with (zlen (posargs ++ flat mid ++ s1 ++ s2 ++ rest))
      by (rewrite !zlen_app; lia).
    destruct (zlen (posargs ++ flat mid ++ s1 ++ s2 ++ rest) <? pl_required p); [exact I|].
    apply (mid_lift weak_equiv o1 o2 s1 s2 rest weak_equiv_refl); [|exact Hst|exact Hoc].
    intros f' opts' e' Hst' I1 I2 Hne' O1 O2.
    apply (options_commute_state_weak f' opts' e' o1 o2 s1 s2 rest Hst' I1 I2 Hne' O1 O2).
  Qed.
End Order.

(* ================================================================== *)
(* the parse trees generated from the current source                   *)
(* ================================================================== *)

(* every command's tree satisfies the side condition of the theorems *)
Theorem all_specs_order_ok : forallb (fun s => order_ok (snd s)) ParseSpecs.all_specs = true.
Proof. vm_compute. reflexivity. Qed.

(* ---- SCAN cursor [MATCH pattern] [COUNT n] [TYPE t] ---- *)

Definition scan_match := PNamed "match" [PString "match"].
Definition scan_count := PNamed "count" [PInt "count"].

(* both orders evaluated: the same bindings, in a different order; the pattern "count" after MATCH is a value *)
Example scan_both_orders :
  run_pipeline fl ParseSpecs.spec_key_ParseScan ["0"; "match"; "count"; "COUNT"; "10"; "type"; "HASH"] =
    inl [("ktype", PVStr "hash"); ("count", PVInt 10); ("match", PVStr "count"); ("cursor", PVInt 0)] /\
  run_pipeline fl ParseSpecs.spec_key_ParseScan ["0"; "COUNT"; "10"; "match"; "count"; "type"; "HASH"] =
    inl [("ktype", PVStr "hash"); ("match", PVStr "count"); ("count", PVInt 10); ("cursor", PVInt 0)].
Proof. vm_compute. split; reflexivity. Qed.

(* the hypotheses of [options_commute] hold on it *)
Example scan_commute :
  penv_equiv (run_pipeline fl ParseSpecs.spec_key_ParseScan (["0"] ++ ["match"; "count"] ++ ["COUNT"; "10"] ++ ["type"; "HASH"]))
             (run_pipeline fl ParseSpecs.spec_key_ParseScan (["0"] ++ ["COUNT"; "10"] ++ ["match"; "count"] ++ ["type"; "HASH"])).
Proof.
  apply (options_commute fl ParseSpecs.spec_key_ParseScan ["0"] ["match"; "count"] ["COUNT"; "10"] ["type"; "HASH"]
           ["0"] [("cursor", PVInt 0)] [] scan_match scan_count).
  - vm_compute. reflexivity.
  - reflexivity.
  - vm_compute. reflexivity.
  - split.
    + cbn [app map fst]. constructor; [intros [H|[]]; discriminate H|]. constructor; [intros []|constructor].
    + constructor; [|constructor; [|constructor]]; cbn [fst snd]; (split; [vm_compute; auto|]).
      * eexists. apply opt_delta_occ. vm_compute. reflexivity.
      * eexists. apply opt_delta_occ. vm_compute. reflexivity.
  - apply sib_okb_spec. reflexivity.
  - apply sib_okb_spec. reflexivity.
Qed.

(* ---- SET key value [NX|XX] [GET] [EX s|PX ms|EXAT t|PXAT t|KEEPTTL] ---- *)

Definition set_cond := POneOf [PFlag "nx" "ifNX"; PFlag "xx" "ifXX"].
Definition set_get := PFlag "get" "get".
Definition set_ttl := POneOf [PNamed "ex" [PInt "ttlSec"]; PNamed "px" [PInt "ttlMs"]; PNamed "exat" [PInt "atSec"];
                              PNamed "pxat" [PInt "atMs"]; PFlag "keepttl" "keepTTL"].

(* all six orders of three options, by [options_permute] *)
Example set_permute : forall l2,
  Permutation [(set_cond, ["NX"]); (set_get, ["get"]); (set_ttl, ["px"; "100"])] l2 ->
  penv_equiv (run_pipeline fl ParseSpecs.spec_string_ParseSet (["k"; "v"] ++ ["NX"; "get"; "px"; "100"] ++ []))
             (run_pipeline fl ParseSpecs.spec_string_ParseSet (["k"; "v"] ++ flat l2 ++ [])).
Proof.
  intros l2 Hp.
  apply (options_permute fl ParseSpecs.spec_string_ParseSet ["k"; "v"] [("value", PVStr "v"); ("key", PVStr "k")]
           [(set_cond, ["NX"]); (set_get, ["get"]); (set_ttl, ["px"; "100"])] l2 []).
  - vm_compute. reflexivity.
  - vm_compute. reflexivity.
  - split.
    + cbn [map fst]. constructor; [intros [H|[H|[]]]; discriminate H|].
      constructor; [intros [H|[]]; discriminate H|]. constructor; [intros []|constructor].
    + constructor; [|constructor; [|constructor; [|constructor]]]; cbn [fst snd];
        (split; [vm_compute; auto 6 | eexists; apply opt_delta_occ; vm_compute; reflexivity]).
  - constructor; [|constructor; [|constructor; [|constructor]]]; exact I.
  - exact Hp.
Qed.

(* THE OBSTACLE.  The alternatives of a choice (OneOf) are all tried, one after the other, on what is left:
   when an occurrence of a choice is directly followed by the keyword of a later alternative of the same
   choice, that alternative runs too.  Hence the condition [sib_ok] on what follows the two occurrences:
   without it the two orders still both fail, but not always with the same error. *)
Example oneof_needs_rest_condition :
  run_pipeline fl ParseSpecs.spec_string_ParseSet (["k"; "v"] ++ ["ex"; "10"] ++ ["get"] ++ ["px"; "abc"]) = inr PErrSyntax /\
  run_pipeline fl ParseSpecs.spec_string_ParseSet (["k"; "v"] ++ ["get"] ++ ["ex"; "10"] ++ ["px"; "abc"]) = inr PErrInt /\
  sib_okb set_ttl ["px"; "abc"] = false.
Proof. vm_compute. repeat split; reflexivity. Qed.

(* ... and with [options_commute_weak], which has no condition on what follows, the two orders above are
   known to both fail or both succeed, before evaluating anything *)
Example set_weak :
  weak_equiv (run_pipeline fl ParseSpecs.spec_string_ParseSet (["k"; "v"] ++ ["ex"; "10"] ++ ["get"] ++ ["px"; "abc"]))
             (run_pipeline fl ParseSpecs.spec_string_ParseSet (["k"; "v"] ++ ["get"] ++ ["ex"; "10"] ++ ["px"; "abc"])).
Proof.
  apply (options_commute_weak fl ParseSpecs.spec_string_ParseSet ["k"; "v"] ["ex"; "10"] ["get"] ["px"; "abc"]
           ["k"; "v"] [("value", PVStr "v"); ("key", PVStr "k")] [] set_ttl set_get).
  - vm_compute. reflexivity.
  - reflexivity.
  - vm_compute. reflexivity.
  - split.
    + cbn [app map fst]. constructor; [intros [H|[]]; discriminate H|]. constructor; [intros []|constructor].
    + constructor; [|constructor; [|constructor]]; cbn [fst snd];
        (split; [vm_compute; auto 6 | eexists; apply opt_delta_occ; vm_compute; reflexivity]).
Qed.

Print Assumptions options_commute_state.
Print Assumptions options_commute.
Print Assumptions options_permute.
Print Assumptions options_commute_state_weak.
Print Assumptions options_commute_weak.
Print Assumptions all_specs_order_ok.
