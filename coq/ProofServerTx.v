(* ProofServerTx.v — the server's EXEC, instantiated with the model's operations, IS the
   caller-managed transaction of Ops.v: the generic connection machine of Server.v (C15) and the
   refinement theorem for transactions (ProofRefineTx.v) meet.  [run_op now] is what one queued
   command does at Tx level: the state after it (partial effects stay) and whether it succeeded. *)
From Coq Require Import List Bool ZArith.
Import ListNotations.
From Redka Require Import Base Db Ops Spec Inv Refine Server ProofRefineEvery ProofRefineTx.

Definition run_op (now : Z) (o : op) (d : db) : db * bool :=
  let '(d1, r) := exec_tx true now o d in (d1, negb (is_err r)).

Lemma run_block_is_exec_block now q : forall d,
  let '(d1, _, okb) := @Server.run_block db op (run_op now) q d in
  let '(d2, _, failed) := Ops.exec_block now q true d in
  d1 = d2 /\ okb = negb failed.
Proof.
  induction q as [|o rest IH]; intros d; cbn [Server.run_block Ops.exec_block].
  - split; reflexivity.
  - unfold run_op at 1. destruct (exec_tx true now o d) as [d1 r] eqn:E.
    cbn [andb]. destruct (is_err r) eqn:Er; cbn [negb].
    + split; reflexivity.
    + specialize (IH d1).
      destruct (@Server.run_block db op (run_op now) rest d1) as [[da ta] oka].
      destruct (Ops.exec_block now rest true d1) as [[db' rs] f].
      exact IH.
Qed.

(* the database after EXEC is the database after the transaction *)
Theorem exec_is_the_transaction : forall now q d,
  fst (@Server.exec_block db op (run_op now) q d) = fst (exec_update now q true d).
Proof.
  intros now q d. unfold Server.exec_block, exec_update.
  pose proof (run_block_is_exec_block now q d) as H.
  destruct (@Server.run_block db op (run_op now) q d) as [[d1 ts] okb].
  destruct (Ops.exec_block now q true d) as [[d2 rs] failed].
  destruct H as [-> ->]. destruct failed; reflexivity.
Qed.

(* ... hence EXEC of a queue of commands refines the specification's transaction: the state the
   connection machine leaves is related to the abstract keyspace after [spec_update] *)
Theorem exec_refines_the_specification : forall now q d s,
  no_delete_all q -> block_ok now q d -> Inv d -> R now d s ->
  R now (fst (@Server.exec_block db op (run_op now) q d)) (fst (spec_update now q true s))
  /\ Inv (fst (@Server.exec_block db op (run_op now) q d)).
Proof.
  intros now q d s Hn Hb I HR. rewrite exec_is_the_transaction.
  pose proof (tx_refines now q d s Hn Hb I HR) as H.
  destruct (exec_update now q true d) as [d' rs]. destruct (spec_update now q true s) as [s' rs'].
  cbn [fst]. destruct H as (H1 & H2 & _). split; assumption.
Qed.

Print Assumptions exec_is_the_transaction.
Print Assumptions exec_refines_the_specification.
