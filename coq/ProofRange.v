From Redka Require Import Base Db Ops Spec ImplList ImplZSet.
From Coq Require Import Lia ZifyBool List ZArith.
Import ListNotations.

(* ---------- ztake / zdrop are firstn / skipn ---------- *)

Lemma ztake_firstn : forall (A : Type) (n : Z) (l : list A), ztake n l = firstn (Z.to_nat n) l.
Proof.
  intros A n l; revert n; induction l as [|x r IH]; intros n; cbn [ztake].
  - now rewrite firstn_nil.
  - destruct (n <=? 0) eqn:E.
    + replace (Z.to_nat n) with 0%nat by lia. reflexivity.
    + replace (Z.to_nat n) with (S (Z.to_nat (n - 1))) by lia.
      cbn [firstn]. now rewrite IH.
Qed.

Lemma zdrop_skipn : forall (A : Type) (n : Z) (l : list A), zdrop n l = skipn (Z.to_nat n) l.
Proof.
  intros A n l; revert n; induction l as [|x r IH]; intros n; cbn [zdrop].
  - now rewrite skipn_nil.
  - destruct (n <=? 0) eqn:E.
    + replace (Z.to_nat n) with 0%nat by lia. reflexivity.
    + replace (Z.to_nat n) with (S (Z.to_nat (n - 1))) by lia.
      cbn [skipn]. now rewrite IH.
Qed.

(* ---------- small facts ---------- *)

Lemma zlen_nonneg : forall (A : Type) (l : list A), 0 <= zlen l.
Proof. intros A l; unfold zlen; lia. Qed.

Lemma zlen_map : forall (A B : Type) (f : A -> B) (l : list A), zlen (map f l) = zlen l.
Proof. intros; unfold zlen; now rewrite map_length. Qed.

Lemma zlen_rev : forall (A : Type) (l : list A), zlen (rev l) = zlen l.
Proof. intros; unfold zlen; now rewrite rev_length. Qed.

Lemma ztake_nil : forall (A : Type) (n : Z), ztake n (@nil A) = [].
Proof. reflexivity. Qed.

Lemma ztake_le0 : forall (A : Type) (n : Z) (l : list A), n <= 0 -> ztake n l = [].
Proof.
  intros A n l Hn. rewrite ztake_firstn.
  replace (Z.to_nat n) with 0%nat by lia. reflexivity.
Qed.

Lemma zdrop_all : forall (A : Type) (n : Z) (l : list A), zlen l <= n -> zdrop n l = [].
Proof.
  intros A n l Hn. rewrite zdrop_skipn. apply skipn_all2. unfold zlen in Hn; lia.
Qed.

Lemma ztake_all : forall (A : Type) (n : Z) (l : list A), zlen l <= n -> ztake n l = l.
Proof.
  intros A n l Hn. rewrite ztake_firstn. apply firstn_all2. unfold zlen in Hn; lia.
Qed.

Lemma zdrop_0 : forall (A : Type) (l : list A), zdrop 0 l = l.
Proof. intros; rewrite zdrop_skipn; reflexivity. Qed.

Lemma ztake_map : forall (A B : Type) (f : A -> B) (n : Z) (l : list A),
  ztake n (map f l) = map f (ztake n l).
Proof. intros; rewrite !ztake_firstn; apply firstn_map. Qed.

Lemma zdrop_map : forall (A B : Type) (f : A -> B) (n : Z) (l : list A),
  zdrop n (map f l) = map f (zdrop n l).
Proof. intros; rewrite !zdrop_skipn; apply skipn_map. Qed.

Lemma slice_map : forall (A B : Type) (f : A -> B) (l : list A) (start stop : Z),
  slice (map f l) start stop = map f (slice l start stop).
Proof.
  intros A B f l start stop. unfold slice. rewrite zlen_map.
  destruct (redis_range (zlen l) start stop) as [[off cnt]|]; [|reflexivity].
  now rewrite zdrop_map, ztake_map.
Qed.

(* ---------- the window of Range/Trim is the Redis slice ---------- *)

Theorem range_window_is_slice : forall (A : Type) (l : list A) (start stop : Z),
  let '(off, cnt) := range_window (Some (zlen l)) start stop in
  sql_limit off cnt l = slice l start stop.
Proof.
  intros A l start stop.
  pose proof (zlen_nonneg A l) as Hn.
  unfold slice, redis_range, range_window, sql_limit. cbv zeta.
  remember (zlen l) as n eqn:Hnl.
  remember (if start <? 0 then Z.max (n + start) 0 else start) as s eqn:Hs.
  assert (Hs0 : 0 <= s) by (subst s; destruct (start <? 0) eqn:?; lia).
  remember (if stop <? 0 then n + stop else Z.min stop (n - 1)) as e eqn:He.
  assert (He1 : Z.min (if stop <? 0 then n + stop else stop) (n - 1) = e)
    by (subst e; destruct (stop <? 0) eqn:?; lia).
  rewrite He1.
  replace (Z.max s 0) with s by lia.
  replace (Z.max (e - s + 1) 0 <? 0) with false by lia.
  destruct ((e <? s) || (n <=? s) || (e <? 0)) eqn:C.
  - destruct (n <=? s) eqn:C2.
    + rewrite zdrop_all by lia. apply ztake_nil.
    + apply ztake_le0. lia.
  - replace (Z.max (e - s + 1) 0) with (e - s + 1) by lia. reflexivity.
Qed.

Theorem range_precheck_sound : forall (A : Type) (l : list A) (start stop : Z),
  (stop <? start) && (((0 <? start) && (0 <? stop)) || ((start <? 0) && (stop <? 0))) = true ->
  slice l start stop = [].
Proof.
  intros A l start stop H.
  pose proof (zlen_nonneg A l) as Hn.
  unfold slice, redis_range.
  remember (zlen l) as n eqn:Hnl.
  destruct (start <? 0) eqn:Es; destruct (stop <? 0) eqn:Ee;
    match goal with
    | |- match (if ?c then _ else _) with _ => _ end = _ =>
        replace c with true by lia; reflexivity
    end.
Qed.

Theorem range_window_missing : forall start stop,
  let '(off, cnt) := range_window None start stop in sql_limit off cnt (@nil bytes) = [].
Proof.
  intros start stop.
  destruct (range_window None start stop) as [off cnt].
  unfold sql_limit. cbn [zdrop ztake]. now destruct (cnt <? 0).
Qed.

Theorem list_range_spec : forall now d key start stop k,
  live_key now d key T_LIST = Some k ->
  k_len k = Some (zlen (rows_asc d (k_id k))) ->
  list_range now key start stop d = (d, Ok (slice (map l_elem (rows_asc d (k_id k))) start stop)).
Proof.
  intros now d key start stop k Hk Hl.
  unfold list_range.
  destruct ((stop <? start) && (((0 <? start) && (0 <? stop)) || ((start <? 0) && (stop <? 0)))) eqn:P.
  - unfold ret. now rewrite (range_precheck_sound _ _ _ _ P).
  - rewrite Hk, Hl.
    pose proof (range_window_is_slice _ (rows_asc d (k_id k)) start stop) as W.
    destruct (range_window (Some (zlen (rows_asc d (k_id k)))) start stop) as [off cnt].
    now rewrite W, slice_map.
Qed.

Theorem list_range_missing : forall now d key start stop,
  live_key now d key T_LIST = None -> list_range now key start stop d = (d, Ok []).
Proof.
  intros now d key start stop Hk. unfold list_range.
  destruct ((stop <? start) && (((0 <? start) && (0 <? stop)) || ((start <? 0) && (stop <? 0)))).
  - reflexivity.
  - now rewrite Hk.
Qed.

(* ---------- Get by index ---------- *)

Lemma hd_error_skipn : forall (A : Type) (n : nat) (l : list A),
  hd_error (skipn n l) = nth_error l n.
Proof.
  intros A n; induction n as [|n IH]; intros [|x r]; cbn; auto.
Qed.

Lemma znth_nth_error : forall (A : Type) (n : Z) (l : list A),
  0 <= n -> znth n l = nth_error l (Z.to_nat n).
Proof.
  intros A n l Hn. unfold znth.
  replace (n <? 0) with false by lia.
  rewrite zdrop_skipn. apply hd_error_skipn.
Qed.

Lemma znth_beyond : forall (A : Type) (n : Z) (l : list A),
  zlen l <= n -> znth n l = None.
Proof.
  intros A n l Hn. unfold znth.
  destruct (n <? 0); [reflexivity|]. now rewrite zdrop_all.
Qed.

Lemma nth_error_rev' : forall (A : Type) (l : list A) (k : nat),
  (k < List.length l)%nat ->
  nth_error (rev l) k = nth_error l (List.length l - S k).
Proof.
  intros A l k Hk. destruct l as [|d r]; [cbn in Hk; lia|].
  remember (d :: r) as l eqn:Hl.
  rewrite (nth_error_nth' (rev l) d) by (rewrite rev_length; exact Hk).
  rewrite (nth_error_nth' l d) by lia.
  now rewrite rev_nth.
Qed.

Lemma wrap64_small : forall z, int64_min <= z <= int64_max -> wrap64 z = z.
Proof.
  intros z Hz. unfold wrap64, int64_min, int64_max in *.
  rewrite Z.mod_small; lia.
Qed.

Theorem norm_index_nth : forall (A : Type) (l : list A) (idx : Z),
  int64_min <= idx <= int64_max ->
  (let '(rev_, i) := norm_idx idx in znth i (if rev_ then rev l else l))
  = match norm_index (zlen l) idx with Some j => znth j l | None => None end.
Proof.
  intros A l idx Hidx. unfold norm_idx, norm_index.
  pose proof (zlen_nonneg A l) as Hn.
  destruct (idx <? 0) eqn:E.
  - rewrite wrap64_small by (unfold int64_min, int64_max in *; lia).
    destruct ((0 <=? zlen l + idx) && (zlen l + idx <? zlen l)) eqn:C.
    + rewrite !znth_nth_error by lia.
      rewrite nth_error_rev' by (unfold zlen in *; lia).
      f_equal. unfold zlen in *; lia.
    + apply znth_beyond. rewrite zlen_rev. lia.
  - destruct ((0 <=? idx) && (idx <? zlen l)) eqn:C.
    + reflexivity.
    + apply znth_beyond. lia.
Qed.

(* ---------- sorted sets: rank ranges ---------- *)

Theorem rank_segment_take_drop : forall (A : Type) (l : list A) (start stop : Z),
  0 <= start -> 0 <= stop ->
  rank_segment l start stop = (if stop <? start then [] else ztake (stop - start + 1) (zdrop start l)).
Proof.
  intros A l start stop Hs He. unfold rank_segment.
  replace (start <? 0) with false by lia.
  replace (stop <? 0) with false by lia.
  reflexivity.
Qed.

(* The statement of delete_rank_window as given holds whenever the count
   stop - start + 1 does not overflow int64, and also in the overflowing corner
   (start = 0, stop = int64_max) provided the sequence has at most 2^63
   elements.  For a (purely mathematical) sequence of more than 2^63 elements
   the corner fails: LIMIT -2^63 means "no limit" whereas rank_segment keeps
   2^63 elements.  See delete_rank_window_false below. *)

Lemma delete_rank_window_gen : forall (A : Type) (l : list A) (start stop : Z),
  0 <= start -> start <= stop -> stop <= int64_max ->
  stop - start + 1 <= int64_max \/ zlen l <= int64_max + 1 ->
  sql_limit start (wrap64 (stop - start + 1)) l = rank_segment l start stop.
Proof.
  intros A l start stop Hs Hle Hmax Hcase.
  rewrite rank_segment_take_drop by lia.
  replace (stop <? start) with false by lia.
  unfold sql_limit. replace (Z.max start 0) with start by lia.
  destruct (Z_le_gt_dec (stop - start + 1) int64_max) as [Hsmall|Hbig].
  - rewrite wrap64_small by (unfold int64_min, int64_max in *; lia).
    replace (stop - start + 1 <? 0) with false by lia. reflexivity.
  - assert (Hst : start = 0) by (unfold int64_max in *; lia).
    assert (Hsp : stop = int64_max) by (unfold int64_max in *; lia).
    subst start stop.
    replace (wrap64 (int64_max - 0 + 1)) with (- 2 ^ 63) by reflexivity.
    replace (- 2 ^ 63 <? 0) with true by lia.
    rewrite zdrop_0. symmetry. apply ztake_all.
    destruct Hcase as [Hc|Hc]; lia.
Qed.

Theorem delete_rank_window_partial : forall (A : Type) (l : list A) (start stop : Z),
  0 <= start -> start <= stop -> stop <= int64_max ->
  stop - start + 1 <= int64_max ->
  sql_limit start (wrap64 (stop - start + 1)) l = rank_segment l start stop.
Proof.
  intros A l start stop Hs Hle Hmax Hc.
  apply delete_rank_window_gen; auto.
Qed.

(* the overflowing corner included, for every sequence a database can hold *)
Theorem delete_rank_window_bounded : forall (A : Type) (l : list A) (start stop : Z),
  0 <= start -> start <= stop -> stop <= int64_max ->
  zlen l <= int64_max + 1 ->
  sql_limit start (wrap64 (stop - start + 1)) l = rank_segment l start stop.
Proof.
  intros A l start stop Hs Hle Hmax Hc.
  apply delete_rank_window_gen; auto.
Qed.

(* the counter-example to the unrestricted statement, kept symbolic: a list of
   2^63 + 1 elements cannot be computed with, but it can be reasoned about *)
Lemma delete_rank_window_corner : forall (N : nat),
  Z.of_nat N = 2 ^ 63 ->
  sql_limit 0 (wrap64 (int64_max - 0 + 1)) (repeat tt (S N))
  <> rank_segment (repeat tt (S N)) 0 int64_max.
Proof.
  intros N HN Heq.
  apply (f_equal (@List.length unit)) in Heq.
  rewrite rank_segment_take_drop in Heq by (unfold int64_max; lia).
  replace (int64_max <? 0) with false in Heq by (unfold int64_max; lia).
  unfold sql_limit in Heq.
  replace (wrap64 (int64_max - 0 + 1)) with (- 2 ^ 63) in Heq by reflexivity.
  replace (- 2 ^ 63 <? 0) with true in Heq by lia.
  replace (Z.max 0 0) with 0 in Heq by lia.
  rewrite zdrop_0, ztake_firstn, firstn_length, repeat_length in Heq.
  unfold int64_max in Heq. lia.
Qed.

Theorem delete_rank_window_false :
  ~ (forall (A : Type) (l : list A) (start stop : Z),
       0 <= start -> start <= stop -> stop <= int64_max ->
       sql_limit start (wrap64 (stop - start + 1)) l = rank_segment l start stop).
Proof.
  intros H.
  assert (HN : Z.of_nat (Z.to_nat (2 ^ 63)) = 2 ^ 63) by (apply Z2Nat.id; lia).
  apply (delete_rank_window_corner _ HN).
  apply H; unfold int64_max; lia.
Qed.

Print Assumptions ztake_firstn.
Print Assumptions zdrop_skipn.
Print Assumptions range_window_is_slice.
Print Assumptions range_precheck_sound.
Print Assumptions range_window_missing.
Print Assumptions list_range_spec.
Print Assumptions list_range_missing.
Print Assumptions norm_index_nth.
Print Assumptions rank_segment_take_drop.
Print Assumptions delete_rank_window_partial.
Print Assumptions delete_rank_window_bounded.
Print Assumptions delete_rank_window_false.
