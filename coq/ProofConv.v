From Redka Require Import Base.
From Coq Require Import Lia ZifyBool.

(* ---------- digits ---------- *)

Lemma digit_cases : forall d, 0 <= d <= 9 ->
  d = 0 \/ d = 1 \/ d = 2 \/ d = 3 \/ d = 4 \/ d = 5 \/ d = 6 \/ d = 7 \/ d = 8 \/ d = 9.
Proof. intros d H. lia. Qed.

Lemma digit_of_digit_char : forall d, 0 <= d <= 9 -> digit_of (digit_char d) = Some d.
Proof.
  intros d H. apply digit_cases in H.
  repeat (destruct H as [H | H]; [subst d; reflexivity | ]). subst d; reflexivity.
Qed.

Lemma digit_char_not_sign : forall d, 0 <= d <= 9 ->
  Ascii.eqb (digit_char d) "-" = false /\ Ascii.eqb (digit_char d) "+" = false.
Proof.
  intros d H. apply digit_cases in H.
  repeat (destruct H as [H | H]; [subst d; split; reflexivity | ]). subst d; split; reflexivity.
Qed.

(* ---------- itoa_pos ---------- *)

Lemma atoi_digits_cons : forall d acc k, 0 <= d <= 9 ->
  atoi_digits (String (digit_char d) acc) k = atoi_digits acc (k * 10 + d).
Proof.
  intros d acc k H. cbn [atoi_digits]. rewrite (digit_of_digit_char d H). reflexivity.
Qed.

Lemma pow2_S : forall f : nat, 2 ^ Z.of_nat (S f) = 2 * 2 ^ Z.of_nat f.
Proof.
  intros f. rewrite Nat2Z.inj_succ. rewrite Z.pow_succ_r by lia. reflexivity.
Qed.

Lemma itoa_pos_spec : forall fuel n acc,
  0 <= n -> n < 2 ^ Z.of_nat fuel -> fuel <> O ->
  (exists p, forall k, atoi_digits (itoa_pos fuel n acc) k = atoi_digits acc (k * p + n)) /\
  (exists d r, 0 <= d <= 9 /\ itoa_pos fuel n acc = String (digit_char d) r).
Proof.
  induction fuel as [| f IH]; intros n acc Hn Hlt Hf.
  - congruence.
  - cbn [itoa_pos].
    assert (Hm : 0 <= n mod 10 <= 9) by (pose proof (Z.mod_pos_bound n 10); lia).
    destruct (n <? 10) eqn:E.
    + split.
      * exists 10. intros k. rewrite atoi_digits_cons by exact Hm.
        rewrite Z.mod_small by lia. reflexivity.
      * exists (n mod 10), acc. split; [exact Hm | reflexivity].
    + rewrite pow2_S in Hlt.
      assert (Hd : 1 <= n / 10) by (apply Z.div_le_lower_bound; lia).
      assert (Hd2 : n / 10 < 2 ^ Z.of_nat f).
      { apply Z.div_lt_upper_bound; [lia |].
        assert (0 < 2 ^ Z.of_nat f) by (apply Z.pow_pos_nonneg; lia). lia. }
      assert (Hf' : f <> O).
      { intros ->. change (2 ^ Z.of_nat 0) with 1 in Hd2. lia. }
      destruct (IH (n / 10) (String (digit_char (n mod 10)) acc) ltac:(lia) Hd2 Hf') as [[p Hp] Hfst].
      split; [| exact Hfst].
      exists (p * 10). intros k. rewrite Hp. rewrite atoi_digits_cons by exact Hm.
      f_equal. pose proof (Z.div_mod n 10). lia.
Qed.

Lemma log2_fuel : forall n, 0 <= n -> n < 2 ^ Z.of_nat (S (Z.to_nat (Z.log2 n))).
Proof.
  intros n Hn. rewrite Nat2Z.inj_succ. rewrite Z2Nat.id by apply Z.log2_nonneg.
  assert (H : n = 0 \/ 0 < n) by lia. destruct H as [H | H].
  - subst n. reflexivity.
  - apply Z.log2_spec. exact H.
Qed.

Lemma itoa_pos_atoi : forall n, 0 <= n ->
  atoi_digits (itoa_pos (S (Z.to_nat (Z.log2 n))) n "") 0 = Some n.
Proof.
  intros n Hn.
  destruct (itoa_pos_spec _ n "" Hn (log2_fuel n Hn) ltac:(discriminate)) as [[p Hp] _].
  rewrite Hp. reflexivity.
Qed.

Lemma itoa_pos_first : forall n, 0 <= n ->
  exists d r, 0 <= d <= 9 /\ itoa_pos (S (Z.to_nat (Z.log2 n))) n "" = String (digit_char d) r.
Proof.
  intros n Hn.
  destruct (itoa_pos_spec _ n "" Hn (log2_fuel n Hn) ltac:(discriminate)) as [_ H]. exact H.
Qed.

(* ---------- atoi shapes ---------- *)

Definition atoi_tail (neg : bool) (body : string) : option Z :=
  match atoi_digits body 0 with
  | Some n => let v := if neg then - n else n in if in_int64 v then Some v else None
  | None => None
  end.

Lemma atoi_nosign : forall c r,
  Ascii.eqb c "-" = false -> Ascii.eqb c "+" = false ->
  atoi (String c r) = atoi_tail false (String c r).
Proof.
  intros c r H1 H2. unfold atoi, atoi_tail. rewrite H1, H2. reflexivity.
Qed.

Lemma atoi_minus : forall c r,
  atoi (String "-" (String c r)) = atoi_tail true (String c r).
Proof. intros c r. reflexivity. Qed.

(* ---------- main theorems ---------- *)

Theorem atoi_itoa : forall z, in_int64 z = true -> atoi (itoa z) = Some z.
Proof.
  intros z Hz. unfold itoa. destruct (z <? 0) eqn:E.
  - assert (Hn : 0 <= - z) by lia.
    destruct (itoa_pos_first (- z) Hn) as (d & r & Hd & Heq).
    pose proof (itoa_pos_atoi (- z) Hn) as Ha.
    rewrite Heq in *. rewrite atoi_minus. unfold atoi_tail. rewrite Ha.
    cbv zeta. rewrite Z.opp_involutive. rewrite Hz. reflexivity.
  - assert (Hn : 0 <= z) by lia.
    destruct (itoa_pos_first z Hn) as (d & r & Hd & Heq).
    pose proof (itoa_pos_atoi z Hn) as Ha.
    rewrite Heq in *. destruct (digit_char_not_sign d Hd) as [H1 H2].
    rewrite atoi_nosign by assumption. unfold atoi_tail. rewrite Ha.
    cbv zeta. rewrite Hz. reflexivity.
Qed.

Theorem itoa_nonempty : forall z, itoa z <> "".
Proof.
  intros z. unfold itoa. destruct (z <? 0) eqn:E.
  - discriminate.
  - assert (Hn : 0 <= z) by lia.
    destruct (itoa_pos_first z Hn) as (d & r & Hd & Heq). rewrite Heq. discriminate.
Qed.

Theorem value_int_itoa : forall z, in_int64 z = true -> value_int (itoa z) = Some z.
Proof.
  intros z Hz. unfold value_int. pose proof (itoa_nonempty z) as Hne.
  destruct (itoa z) eqn:E; [congruence |]. rewrite <- E. apply atoi_itoa. exact Hz.
Qed.

Theorem itoa_injective : forall a b, in_int64 a = true -> in_int64 b = true -> itoa a = itoa b -> a = b.
Proof.
  intros a b Ha Hb H. pose proof (atoi_itoa a Ha) as H1. pose proof (atoi_itoa b Hb) as H2.
  rewrite H in H1. congruence.
Qed.

Lemma atoi_tail_in_range : forall neg body z, atoi_tail neg body = Some z -> in_int64 z = true.
Proof.
  intros neg body z. unfold atoi_tail.
  destruct (atoi_digits body 0) as [n |]; [| discriminate].
  cbv zeta. destruct (in_int64 (if neg then - n else n)) eqn:E; [| discriminate].
  intros H. injection H as H. subst z. exact E.
Qed.

Lemma atoi_is_tail : forall s z, atoi s = Some z -> exists neg body, atoi_tail neg body = Some z.
Proof.
  intros s z. destruct s as [| c r]; [discriminate |].
  unfold atoi.
  destruct (Ascii.eqb c "-"); [| destruct (Ascii.eqb c "+")].
  - destruct r as [| c' r']; [discriminate |]. intros H. exists true, (String c' r'). exact H.
  - destruct r as [| c' r']; [discriminate |]. intros H. exists false, (String c' r'). exact H.
  - intros H. exists false, (String c r). exact H.
Qed.

Theorem atoi_in_range : forall s z, atoi s = Some z -> in_int64 z = true.
Proof.
  intros s z H. destruct (atoi_is_tail s z H) as (neg & body & Ht).
  eapply atoi_tail_in_range. exact Ht.
Qed.

Theorem atoi_empty : atoi "" = None.
Proof. reflexivity. Qed.

Theorem value_int_empty : value_int "" = Some 0.
Proof. reflexivity. Qed.

Theorem wrap64_id : forall z, in_int64 z = true -> wrap64 z = z.
Proof.
  intros z H. unfold in_int64, int64_min, int64_max in H. unfold wrap64.
  change (2 ^ 63) with 9223372036854775808 in *.
  change (2 ^ 64) with 18446744073709551616.
  rewrite Z.mod_small by lia. lia.
Qed.

Theorem wrap64_range : forall z, in_int64 (wrap64 z) = true.
Proof.
  intros z. unfold in_int64, int64_min, int64_max, wrap64.
  change (2 ^ 63) with 9223372036854775808.
  change (2 ^ 64) with 18446744073709551616.
  pose proof (Z.mod_pos_bound (z + 9223372036854775808) 18446744073709551616). lia.
Qed.

Theorem to_bytes_int : forall z, to_bytes (AInt z) = to_bytes (AStr (itoa z)).
Proof. reflexivity. Qed.

Theorem to_bytes_bool : forall b, to_bytes (ABool b) = to_bytes (AStr (if b then "1" else "0")).
Proof. reflexivity. Qed.

Theorem to_bytes_str_bytes : forall s, to_bytes (AStr s) = to_bytes (ABytes s).
Proof. reflexivity. Qed.

Example itoa_examples : itoa 0 = "0" /\ itoa (-7) = "-7" /\ itoa 9223372036854775807 = "9223372036854775807" /\ itoa (-9223372036854775808) = "-9223372036854775808".
Proof. repeat split; vm_compute; reflexivity. Qed.

Example atoi_examples : atoi "+5" = Some 5 /\ atoi "05" = Some 5 /\ atoi "-0" = Some 0 /\ atoi " 5" = None /\ atoi "5 " = None /\ atoi "+" = None /\ atoi "-" = None /\ atoi "1_0" = None /\ atoi "9223372036854775808" = None /\ atoi "-9223372036854775808" = Some (-9223372036854775808).
Proof. repeat split; vm_compute; reflexivity. Qed.

Print Assumptions atoi_itoa.
Print Assumptions value_int_itoa.
Print Assumptions itoa_injective.
Print Assumptions itoa_nonempty.
Print Assumptions atoi_in_range.
Print Assumptions atoi_empty.
Print Assumptions value_int_empty.
Print Assumptions wrap64_id.
Print Assumptions wrap64_range.
Print Assumptions to_bytes_int.
Print Assumptions to_bytes_bool.
Print Assumptions to_bytes_str_bytes.
Print Assumptions itoa_examples.
Print Assumptions atoi_examples.
