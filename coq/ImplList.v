(* ImplList.v — internal/rlist/tx.go, statement by statement, with the
   rlist_on_update / rlist_on_delete triggers of schema.sql.  Positions are
   binary64 values, exactly as stored.  No proofs here. *)
From Redka Require Import Base Db.

Definition pos_leb (a b : lrow) : bool := (l_pos a <=? l_pos b)%float.
Definition pos_geb (a b : lrow) : bool := (l_pos b <=? l_pos a)%float.

Definition list_rows (d : db) (kid : Z) : list lrow :=
  filter (fun r => l_kid r =? kid) (rlist d).
(* "order by pos" / "order by pos desc" *)
Definition rows_asc (d : db) (kid : Z) : list lrow := isort pos_leb (list_rows d kid).
Definition rows_desc (d : db) (kid : Z) : list lrow := isort pos_geb (list_rows d kid).

Definition fmax (l : list float) : option float :=
  fold_left (fun acc p => match acc with
                          | None => Some p
                          | Some m => if (m <? p)%float then Some p else Some m
                          end) l None.
Definition fmin (l : list float) : option float :=
  fold_left (fun acc p => match acc with
                          | None => Some p
                          | Some m => if (p <? m)%float then Some p else Some m
                          end) l None.

Definition same_row (a b : lrow) : bool :=
  (l_kid a =? l_kid b) && (l_pos a =? l_pos b)%float.

(* rlist_on_update, fired once per updated row: version+1, mtime *)
Definition trig_list_update (now : Z) (kid : Z) (n : Z) (d : db) : db :=
  if n =? 0 then d else
  upd_key_id kid (fun r => with_mtime (with_ver r (k_ver r + n)) now) d.

(* delete the given rows (all of one key) and fire the trigger for each *)
Definition delete_rows (now : Z) (kid : Z) (victims : list lrow) (d : db) : db * Z :=
  let keep := filter (fun r => negb (existsb (same_row r) victims)) (rlist d) in
  (trig_list_delete now kid (zlen victims) (set_rlist d keep), zlen victims).

(* insert into rlist (kid, pos, elem): NOT NULL on pos then elem, unique (kid,pos) *)
Definition insert_row (kid : Z) (pos : option float) (elem : option bytes) : M unit :=
  fun d =>
    match pos with
    | None => (d, Err (ESql (SqNotNull "rlist.pos")))
    | Some p =>
        if negb (p =? p)%float then (d, Err (ESql (SqNotNull "rlist.pos"))) else
        match elem with
        | None => (d, Err (ESql (SqNotNull "rlist.elem")))
        | Some e =>
            if existsb (fun r => (l_kid r =? kid) && (l_pos r =? p)%float) (rlist d)
            then (d, Err (ESql (SqUnique "rlist.kid,rlist.pos")))
            else (set_rlist d (rlist d ++ [mkL kid p e]), Ok tt)
        end
    end.

Definition bytes_arg (v : value) : M (option bytes) :=
  match to_bytes v with Some b => ret b | None => fail EValueType end.

Definition scan_len (r : keyrow) : M Z :=
  match k_len r with Some n => ret n | None => fail (ESql SqScanNull) end.

(* push(): sqlPush then sqlPushBack / sqlPushFront *)
Definition list_push (now : Z) (key : bytes) (v : value) (front : bool) : M Z :=
  elemb <- bytes_arg v ;;
  r <- typed_error (upsert_key now key T_LIST None (Some 1)
                      (fun r => with_len r (opt_add (k_len r) 1))) ;;
  n <- scan_len r ;;
  d <- get_db ;;
  let ps := map l_pos (list_rows d (k_id r)) in
  let pos := if front
             then match fmin ps with Some m => (m - 1)%float | None => zero end
             else match fmax ps with Some m => (m + 1)%float | None => zero end in
  insert_row (k_id r) (Some pos) elemb ;;;
  ret n.

(* sqlInsert: update rkey set version+1, mtime, len+1 where key, type 2, live
   returning id, len *)
Definition sql_insert (now : Z) (key : bytes) : M (option keyrow) :=
  fun d =>
    match live_key now d key T_LIST with
    | None => (d, Ok None)
    | Some r =>
        let r' := with_len (with_mtime (with_ver r (k_ver r + 1)) now) (opt_add (k_len r) 1) in
        (upd_key_id (k_id r) (fun _ => r') d, Ok (Some r'))
    end.

(* the position computed by sqlInsertAfter / sqlInsertBefore (NULL when the
   pivot is absent) *)
Definition insert_pos (d : db) (kid : Z) (pivot : option bytes) (after : bool) : option float :=
  let rows := list_rows d kid in
  match pivot with
  | None => None
  | Some pv =>
      let at_pivot := map l_pos (filter (fun r => String.eqb (l_elem r) pv) rows) in
      match fmin at_pivot with
      | None => None
      | Some p =>
          if after then
            match fmin (filter (fun q => (p <? q)%float) (map l_pos rows)) with
            | None => Some (p + 1)%float
            | Some nx => Some ((p + nx) / 2)%float
            end
          else
            match fmax (filter (fun q => (q <? p)%float) (map l_pos rows)) with
            | None => Some (p - 1)%float
            | Some pr => Some ((pr + p) / 2)%float
            end
      end
  end.

(* insert(): sqlInsertKey, then sqlInsertAfter / sqlInsertBefore, then
   sqlInsert.  Returns (n, err); a missing pivot -- or a list without rows, into
   which "insert ... select ... from rlist where kid = ? limit 1" inserts
   nothing -- gives (-1, ErrNotFound) before anything has been written. *)
Definition list_insert (now : Z) (key : bytes) (pivot elem : value) (after : bool)
  : db -> db * out :=
  fun d =>
    match to_bytes pivot, to_bytes elem with
    | None, _ | _, None => (d, out_both (VI 0) EValueType)
    | Some pivotb, Some elemb =>
        match live_key now d key T_LIST with
        | None => (d, out_both (VI 0) ENotFound)
        | Some k0 =>
            match list_rows d (k_id k0) with
            | [] => (d, out_both (VI (-1)) ENotFound)
            | _ =>
                let '(d1, w) := insert_row (k_id k0) (insert_pos d (k_id k0) pivotb after) elemb d in
                match w with
                | Err (ESql (SqNotNull "rlist.pos")) => (d1, out_both (VI (-1)) ENotFound)
                | Err e => (d1, out_both (VI 0) e)
                | Ok _ =>
                    let '(d2, r) := sql_insert now key d1 in
                    match r with
                    | Ok (Some k) =>
                        match k_len k with
                        | Some n => (d2, out_ok (VI n))
                        | None => (d2, out_both (VI 0) (ESql SqScanNull))
                        end
                    | Ok None => (d2, out_both (VI 0) (ESql SqScanNull))
                    | Err e => (d2, out_both (VI 0) e)
                    end
                end
            end
        end
    end.

(* pop(): sqlPopBack / sqlPopFront *)
Definition list_pop (now : Z) (key : bytes) (back : bool) : M bytes :=
  fun d =>
    match live_key now d key T_LIST with
    | None => (d, Err ENotFound)
    | Some k =>
        match (if back then rows_desc d (k_id k) else rows_asc d (k_id k)) with
        | [] => (d, Err ENotFound)
        | r :: _ =>
            let '(d', _) := delete_rows now (k_id k) [r] d in (d', Ok (l_elem r))
        end
    end.

Definition list_pop_push (now : Z) (src dest : bytes) : db -> db * out :=
  fun d =>
    let '(d1, r) := list_pop now src true d in
    match r with
    | Err e => (d1, out_err e)
    | Ok e =>
        let '(d2, w) := list_push now dest (ABytes e) true d1 in
        match w with
        | Ok _ => (d2, out_ok (VS e))
        | Err er => (d2, out_both (VS e) er)
        end
    end.

(* sqlDelete: all occurrences *)
Definition list_delete (now : Z) (key : bytes) (v : value) : M Z :=
  elemb <- bytes_arg v ;;
  fun d =>
    match live_key now d key T_LIST, elemb with
    | Some k, Some e =>
        let victims := filter (fun r => String.eqb (l_elem r) e) (list_rows d (k_id k)) in
        let '(d', n) := delete_rows now (k_id k) victims d in (d', Ok n)
    | _, _ => (d, Ok 0)
    end.

(* delete(): sqlDeleteBack / sqlDeleteFront with "limit count" *)
Definition list_delete_n (now : Z) (key : bytes) (v : value) (count : Z) (back : bool) : M Z :=
  if count <=? 0 then ret 0 else
  elemb <- bytes_arg v ;;
  fun d =>
    match live_key now d key T_LIST, elemb with
    | Some k, Some e =>
        let ordered := if back then rows_desc d (k_id k) else rows_asc d (k_id k) in
        let victims := ztake count (filter (fun r => String.eqb (l_elem r) e) ordered) in
        let '(d', n) := delete_rows now (k_id k) victims d in (d', Ok n)
    | _, _ => (d, Ok 0)
    end.

(* Get: a negative index walks the list backwards, idx := -idx - 1 (Go int) *)
Definition norm_idx (idx : Z) : bool * Z :=
  if idx <? 0 then (true, wrap64 (- idx - 1)) else (false, idx).

Definition znth {A} (n : Z) (l : list A) : option A :=
  if n <? 0 then None else hd_error (zdrop n l).

Definition list_get (now : Z) (key : bytes) (idx : Z) : M bytes :=
  fun d =>
    let '(rev_, i) := norm_idx idx in
    match live_key now d key T_LIST with
    | None => (d, Err ENotFound)
    | Some k =>
        match znth i (if rev_ then rows_desc d (k_id k) else rows_asc d (k_id k)) with
        | Some r => (d, Ok (l_elem r))
        | None => (d, Err ENotFound)
        end
    end.

(* sqlLen *)
Definition list_len (now : Z) (key : bytes) : M Z :=
  fun d =>
    match live_key now d key T_LIST with
    | None => (d, Ok 0)
    | Some k => match k_len k with Some n => (d, Ok n) | None => (d, Err (ESql SqScanNull)) end
    end.

(* the "counts" and "bounds" CTEs shared by sqlRange and sqlTrim, and the LIMIT
   they feed:  len = coalesce(len of the key, 0);
   start' = start < 0 ? max(len + start, 0) : start;
   stop'  = stop < 0 ? len + stop : min(stop, len - 1);
   "limit start', max(stop' - start' + 1, 0)".
   (An int64 overflow in stop' - start' + 1 can only be negative; SQLite then
   computes a negative REAL and max(.., 0) is 0, which is what Z gives.) *)
Definition range_window (len : option Z) (start stop : Z) : Z * Z :=
  let n := match len with Some n => n | None => 0 end in
  let s := if start <? 0 then Z.max (n + start) 0 else start in
  let e := if stop <? 0 then n + stop else Z.min stop (n - 1) in
  (s, Z.max (e - s + 1) 0).

Definition list_range (now : Z) (key : bytes) (start stop : Z) : M (list bytes) :=
  if (stop <? start) && (((0 <? start) && (0 <? stop)) || ((start <? 0) && (stop <? 0)))
  then ret []
  else fun d =>
    match live_key now d key T_LIST with
    | None => (d, Ok [])
    | Some r =>
        let '(off, cnt) := range_window (k_len r) start stop in
        (d, Ok (map l_elem (sql_limit off cnt (rows_asc d (k_id r)))))
    end.

(* sqlSet *)
Definition list_set (now : Z) (key : bytes) (idx : Z) (v : value) : M unit :=
  elemb <- bytes_arg v ;;
  fun d =>
    let '(rev_, i) := norm_idx idx in
    match live_key now d key T_LIST with
    | None => (d, Err ENotFound)
    | Some k =>
        match znth i (if rev_ then rows_desc d (k_id k) else rows_asc d (k_id k)) with
        | None => (d, Err ENotFound)
        | Some r =>
            match elemb with
            | None => (d, Err (ESql (SqNotNull "rlist.elem")))
            | Some e =>
                let d1 := set_rlist d (map (fun x => if same_row x r then mkL (l_kid x) (l_pos x) e else x) (rlist d)) in
                (trig_list_update now (k_id k) 1 d1, Ok tt)
            end
        end
    end.

(* sqlTrim *)
Definition list_trim (now : Z) (key : bytes) (start stop : Z) : M Z :=
  fun d =>
    match live_key now d key T_LIST with
    | None => (d, Ok 0)
    | Some r =>
        let all := rows_asc d (k_id r) in
        let '(off, cnt) := range_window (k_len r) start stop in
        let remain := sql_limit off cnt all in
        let victims := filter (fun x => negb (existsb (same_row x) remain)) all in
        let '(d', n) := delete_rows now (k_id r) victims d in (d', Ok n)
    end.
