(* Ops.v — the operation vocabulary shared by the faithful model (Impl), the
   abstract specification (Spec), the Go harness and the OCaml driver, and the
   dispatcher that runs one operation on the faithful model.  No proofs here. *)
From Redka Require Import Base Db Glob ImplKey ImplString.

(* builder calls of rstring.SetCmd, in the order the caller made them *)
Inductive setcall :=
| CIfExists | CIfNotExists
| CTTL (ttl : Z)              (* milliseconds *)
| CAt (at_ : option Z)        (* None = the zero time.Time *)
| CKeepTTL.

Definition apply_setcall (o : setopts) (c : setcall) : setopts :=
  match c with
  | CIfExists => mkSetOpts true false (so_ttl o) (so_at o) (so_keep o)
  | CIfNotExists => mkSetOpts false true (so_ttl o) (so_at o) (so_keep o)
  | CTTL t => mkSetOpts (so_ifx o) (so_ifnx o) t None false
  | CAt a => mkSetOpts (so_ifx o) (so_ifnx o) 0 a false
  | CKeepTTL => mkSetOpts (so_ifx o) (so_ifnx o) 0 None true
  end.
Definition setopts_of (cs : list setcall) : setopts :=
  fold_left apply_setcall cs (mkSetOpts false false 0 None false).

Inductive op :=
(* rkey *)
| KCount (keys : list bytes)
| KDelete (keys : list bytes)
| KDeleteAll
| KDeleteExpired (n : Z)
| KExists (key : bytes)
| KExpire (key : bytes) (ttl : Z)
| KExpireAt (key : bytes) (at_ : Z)
| KGet (key : bytes)
| KKeys (pat : bytes)
| KLen
| KPersist (key : bytes)
| KRandom (choice : option bytes)
| KRename (key newkey : bytes)
| KRenameNX (key newkey : bytes)
| KScan (cursor : Z) (pat : bytes) (ktype : Z) (count : Z)
(* rstring *)
| SGet (key : bytes)
| SGetMany (keys : list bytes)
| SIncr (key : bytes) (delta : Z)
| SIncrFloat (key : bytes) (delta : float)
             (parsed : list (bytes * option float)) (sumtext : bytes)
| SSet (key : bytes) (v : value)
| SSetExpires (key : bytes) (v : value) (ttl : Z)
| SSetMany (items : list (bytes * value))
| SSetWith (key : bytes) (v : value) (calls : list setcall).

(* ---------- helpers to turn M results into [out] ---------- *)

Definition run {A} (m : M A) (f : A -> rv) : db -> db * out :=
  fun d => let '(d', r) := m d in
           match r with Ok a => (d', out_ok (f a)) | Err e => (d', out_err e) end.

Definition unit_rv (_ : unit) : rv := VNone.
Definition opt_lookup {B} (tbl : list (bytes * B)) (k : bytes) : option B :=
  match find (fun p => String.eqb (fst p) k) tbl with
  | Some p => Some (snd p)
  | None => None
  end.

(* Is the DB-level method wrapped in sqlx.DB.Update (a transaction)?
   The rkey methods other than the renames run one statement directly on the
   read-write handle; reads go to the read-only handle. *)
Definition wrapped (o : op) : bool :=
  match o with
  | KRename _ _ | KRenameNX _ _ => true
  | SIncr _ _ | SIncrFloat _ _ _ _ | SSet _ _ | SSetExpires _ _ _
  | SSetMany _ | SSetWith _ _ _ => true
  | _ => false
  end.

(* Does the operation only read? (it goes to the read-only handle at DB level) *)
Definition is_read (o : op) : bool :=
  match o with
  | KCount _ | KExists _ | KGet _ | KKeys _ | KLen | KRandom _ | KScan _ _ _ _
  | SGet _ | SGetMany _ => true
  | _ => false
  end.

(* one Tx-level call: partial effects stay when it fails *)
Definition exec_tx (in_tx : bool) (now : Z) (o : op) : db -> db * out :=
  match o with
  | KCount keys => run (key_count now keys) VI
  | KDelete keys => run (key_delete now keys) VI
  | KDeleteAll => run (key_delete_all in_tx) unit_rv
  | KDeleteExpired n => run (key_delete_expired now n) VI
  | KExists k => run (key_exists now k) VB
  | KExpire k ttl => run (key_expire_at now k (now + ttl)) unit_rv
  | KExpireAt k a => run (key_expire_at now k a) unit_rv
  | KGet k => run (key_get now k) key_rv
  | KKeys p => run (key_keys now p) (fun l => VU (map key_rv l))
  | KLen => run key_len VI
  | KPersist k => run (key_persist now k) unit_rv
  | KRandom c => run (key_random now c) key_rv
  | KRename k nk => run (key_rename now k nk) unit_rv
  | KRenameNX k nk => run (key_rename_nx now k nk) VB
  | KScan c p t n => run (key_scan now c p t n)
                         (fun r => VL [VI (fst r); VL (map key_rv (snd r))])
  | SGet k => run (str_get now k) VS
  | SGetMany ks => run (str_get_many now ks)
                       (fun l => VU (map (fun kv => VL [VS (fst kv); VS (snd kv)]) l))
  | SIncr k dl => run (str_incr now k dl) VI
  | SIncrFloat k dl parsed sumtext =>
      run (str_incr_float now k dl
             (fun t => match opt_lookup parsed t with Some r => r | None => None end)
             (fun _ => sumtext)) VF
  | SSet k v => run (str_set_at now k v None) unit_rv
  | SSetExpires k v ttl => run (str_set_expires now k v ttl) unit_rv
  | SSetMany items => run (str_set_many now items) unit_rv
  | SSetWith k v calls => str_set_with now k v (setopts_of calls)
  end.

(* the DB-level method: a transaction around the Tx-level call where the Go
   code has one *)
Definition exec_db (now : Z) (o : op) (d : db) : db * out :=
  let '(d', r) := exec_tx (wrapped o) now o d in
  if wrapped o && is_err r then (d, r) else (d', r).

(* a caller-managed transaction (DB.Update with a callback): the Tx-level calls
   in order; [stop_on_err] = the callback returns the first error it sees
   (rollback), otherwise it ignores errors and commits *)
Fixpoint exec_block (now : Z) (ops : list op) (stop_on_err : bool) (d : db)
  : db * list out * bool (* failed *) :=
  match ops with
  | [] => (d, [], false)
  | o :: rest =>
      let '(d1, r) := exec_tx true now o d in
      if stop_on_err && is_err r then (d1, [r], true)
      else let '(d2, rs, f) := exec_block now rest stop_on_err d1 in (d2, r :: rs, f)
  end.

Definition exec_update (now : Z) (ops : list op) (stop_on_err : bool) (d : db)
  : db * list out :=
  let '(d1, rs, failed) := exec_block now ops stop_on_err d in
  if failed then (d, rs) else (d1, rs).
