(* Ops.v — the operation vocabulary shared by the faithful model (Impl), the
   abstract specification (Spec), the Go harness and the OCaml driver, and the
   dispatcher that runs one operation on the faithful model.  No proofs here. *)
From Redka Require Import Base Db Glob ImplKey ImplString ImplList ImplSet ImplHash ImplZSet.

(* builder calls of rstring.SetCmd, in the order the caller made them *)
Inductive setcall :=
| CIfExists | CIfNotExists
| CTTL (ttl : Z)              (* milliseconds *)
| CAt (at_ : option Z)        (* None = the zero time.Time *)
| CKeepTTL.

Definition apply_setcall (o : setopts) (c : setcall) : setopts :=
  match c with
  | CIfExists => mkSetOpts true false (so_ttl o) (so_at o) (so_keep o)
  | CIfNotExists => mkSetOpts false true (so_ttl o) (so_at o) (so_keep o)
  | CTTL t => mkSetOpts (so_ifx o) (so_ifnx o) t None false
  | CAt a => mkSetOpts (so_ifx o) (so_ifnx o) 0 a false
  | CKeepTTL => mkSetOpts (so_ifx o) (so_ifnx o) 0 None true
  end.
Definition setopts_of (cs : list setcall) : setopts :=
  fold_left apply_setcall cs (mkSetOpts false false 0 None false).

Inductive op :=
(* rkey *)
| KCount (keys : list bytes)
| KDelete (keys : list bytes)
| KDeleteAll
| KDeleteExpired (n : Z)
| KExists (key : bytes)
| KExpire (key : bytes) (ttl : Z)
| KExpireAt (key : bytes) (at_ : Z)
| KGet (key : bytes)
| KKeys (pat : bytes)
| KLen
| KPersist (key : bytes)
| KRandom (choice : option bytes)
| KRename (key newkey : bytes)
| KRenameNX (key newkey : bytes)
| KScan (cursor : Z) (pat : bytes) (ktype : Z) (count : Z)
(* rstring *)
| SGet (key : bytes)
| SGetMany (keys : list bytes)
| SIncr (key : bytes) (delta : Z)
| SIncrFloat (key : bytes) (delta : float)
             (parsed : list (bytes * option float)) (sumtext : bytes)
| SSet (key : bytes) (v : value)
| SSetExpires (key : bytes) (v : value) (ttl : Z)
| SSetMany (items : list (bytes * value))
| SSetWith (key : bytes) (v : value) (calls : list setcall)
(* rlist *)
| LDelete (key : bytes) (v : value)
| LDeleteBack (key : bytes) (v : value) (count : Z)
| LDeleteFront (key : bytes) (v : value) (count : Z)
| LGet (key : bytes) (idx : Z)
| LInsertAfter (key : bytes) (pivot elem : value)
| LInsertBefore (key : bytes) (pivot elem : value)
| LLen (key : bytes)
| LPopBack (key : bytes)
| LPopBackPushFront (src dest : bytes)
| LPopFront (key : bytes)
| LPushBack (key : bytes) (v : value)
| LPushFront (key : bytes) (v : value)
| LRange (key : bytes) (start stop : Z)
| LSet (key : bytes) (idx : Z) (v : value)
| LTrim (key : bytes) (start stop : Z)
(* rset *)
| EAdd (key : bytes) (vs : list value)
| EDelete (key : bytes) (vs : list value)
| EAlg (a : setalg) (keys : list bytes)                 (* Union / Inter / Diff *)
| EStore (a : setalg) (dest : bytes) (keys : list bytes)
| EExists (key : bytes) (v : value)
| EItems (key : bytes)
| ELen (key : bytes)
| EMove (src dest : bytes) (v : value)
| EPop (key : bytes) (choice : option bytes)
| ERandom (key : bytes) (choice : option bytes)
| EScan (key : bytes) (cursor : Z) (pat : bytes) (count : Z)
(* rhash *)
| HDelete (key : bytes) (fields : list bytes)
| HExists (key field : bytes)
| HFields (key : bytes)
| HGet (key field : bytes)
| HGetMany (key : bytes) (fields : list bytes)
| HIncr (key field : bytes) (delta : Z)
| HIncrFloat (key field : bytes) (delta : float)
             (parsed : list (bytes * option float)) (sumtext : bytes)
| HItems (key : bytes)
| HLen (key : bytes)
| HScan (key : bytes) (cursor : Z) (pat : bytes) (count : Z)
| HSet (key field : bytes) (v : value)
| HSetMany (key : bytes) (items : list (bytes * value))
| HSetNX (key field : bytes) (v : value)
| HValues (key : bytes)
(* rzset *)
| ZAdd (key : bytes) (v : value) (score : float)
| ZAddMany (key : bytes) (items : list (value * float))
| ZCount (key : bytes) (lo hi : float)
| ZDelete (key : bytes) (vs : list value)
| ZDeleteRank (key : bytes) (start stop : Z)
| ZDeleteScore (key : bytes) (lo hi : float)
| ZGetRank (key : bytes) (v : value) (desc : bool)
| ZGetScore (key : bytes) (v : value)
| ZIncr (key : bytes) (v : value) (delta : float)
| ZAlg (inter : bool) (g : zagg) (keys : list bytes)
| ZStore (inter : bool) (g : zagg) (dest : bytes) (keys : list bytes)
| ZLen (key : bytes)
| ZRangeRank (key : bytes) (start stop : Z) (desc : bool)
| ZRangeScore (key : bytes) (lo hi : float) (desc : bool) (offset count : Z)
| ZScan (key : bytes) (cursor : Z) (pat : bytes) (count : Z).

(* ---------- helpers to turn M results into [out] ---------- *)

Definition run {A} (m : M A) (f : A -> rv) : db -> db * out :=
  fun d => let '(d', r) := m d in
           match r with Ok a => (d', out_ok (f a)) | Err e => (d', out_err e) end.

Definition unit_rv (_ : unit) : rv := VNone.
Definition opt_lookup {B} (tbl : list (bytes * B)) (k : bytes) : option B :=
  match find (fun p => String.eqb (fst p) k) tbl with
  | Some p => Some (snd p)
  | None => None
  end.

(* Is the DB-level method wrapped in sqlx.DB.Update (a transaction)?
   The rkey methods other than the renames run one statement directly on the
   read-write handle; reads go to the read-only handle. *)
Definition wrapped (o : op) : bool :=
  match o with
  | KRename _ _ | KRenameNX _ _ => true
  | SIncr _ _ | SIncrFloat _ _ _ _ | SSet _ _ | SSetExpires _ _ _
  | SSetMany _ | SSetWith _ _ _ => true
  | LDelete _ _ | LDeleteBack _ _ _ | LDeleteFront _ _ _ | LInsertAfter _ _ _
  | LInsertBefore _ _ _ | LPopBack _ | LPopBackPushFront _ _ | LPopFront _
  | LPushBack _ _ | LPushFront _ _ | LSet _ _ _ | LTrim _ _ _ => true
  | EAdd _ _ | EDelete _ _ | EStore _ _ _ | EMove _ _ _ | EPop _ _ => true
  | HDelete _ _ | HIncr _ _ _ | HIncrFloat _ _ _ _ _ | HSet _ _ _ | HSetMany _ _
  | HSetNX _ _ _ => true
  | ZAdd _ _ _ | ZAddMany _ _ | ZDelete _ _ | ZDeleteRank _ _ _ | ZDeleteScore _ _ _
  | ZIncr _ _ _ | ZStore _ _ _ _ => true
  | _ => false
  end.

(* Does the operation only read? (it goes to the read-only handle at DB level) *)
Definition is_read (o : op) : bool :=
  match o with
  | KCount _ | KExists _ | KGet _ | KKeys _ | KLen | KRandom _ | KScan _ _ _ _
  | SGet _ | SGetMany _ => true
  | LGet _ _ | LLen _ | LRange _ _ _ => true
  | EAlg _ _ | EExists _ _ | EItems _ | ELen _ | ERandom _ _ | EScan _ _ _ _ => true
  | HExists _ _ | HFields _ | HGet _ _ | HGetMany _ _ | HItems _ | HLen _
  | HScan _ _ _ _ | HValues _ => true
  | ZCount _ _ _ | ZGetRank _ _ _ | ZGetScore _ _ | ZAlg _ _ _ | ZLen _
  | ZRangeRank _ _ _ _ | ZRangeScore _ _ _ _ _ _ | ZScan _ _ _ _ => true
  | _ => false
  end.

(* one Tx-level call: partial effects stay when it fails *)
Definition exec_tx (in_tx : bool) (now : Z) (o : op) : db -> db * out :=
  match o with
  | KCount keys => run (key_count now keys) VI
  | KDelete keys => run (key_delete now keys) VI
  | KDeleteAll => run (key_delete_all in_tx) unit_rv
  | KDeleteExpired n => run (key_delete_expired now n) VI
  | KExists k => run (key_exists now k) VB
  | KExpire k ttl => run (key_expire_at now k (now + ttl)) unit_rv
  | KExpireAt k a => run (key_expire_at now k a) unit_rv
  | KGet k => run (key_get now k) key_rv
  | KKeys p => run (key_keys now p) (fun l => VU (map key_rv l))
  | KLen => run key_len VI
  | KPersist k => run (key_persist now k) unit_rv
  | KRandom c => run (key_random now c) key_rv
  | KRename k nk => run (key_rename now k nk) unit_rv
  | KRenameNX k nk => run (key_rename_nx now k nk) VB
  | KScan c p t n => run (key_scan now c p t n)
                         (fun r => VL [VI (fst r); VL (map key_rv (snd r))])
  | SGet k => run (str_get now k) VS
  | SGetMany ks => run (str_get_many now ks)
                       (fun l => VU (map (fun kv => VL [VS (fst kv); VS (snd kv)]) l))
  | SIncr k dl => run (str_incr now k dl) VI
  | SIncrFloat k dl parsed sumtext =>
      run (str_incr_float now k dl
             (fun t => match opt_lookup parsed t with Some r => r | None => None end)
             (fun _ => sumtext)) VF
  | SSet k v => run (str_set_at now k v None) unit_rv
  | SSetExpires k v ttl => run (str_set_expires now k v ttl) unit_rv
  | SSetMany items => run (str_set_many now items) unit_rv
  | SSetWith k v calls => str_set_with now k v (setopts_of calls)
  | LDelete k v => run (list_delete now k v) VI
  | LDeleteBack k v n => run (list_delete_n now k v n true) VI
  | LDeleteFront k v n => run (list_delete_n now k v n false) VI
  | LGet k i => run (list_get now k i) VS
  | LInsertAfter k p e => list_insert now k p e true
  | LInsertBefore k p e => list_insert now k p e false
  | LLen k => run (list_len now k) VI
  | LPopBack k => run (list_pop now k true) VS
  | LPopBackPushFront s dst => list_pop_push now s dst
  | LPopFront k => run (list_pop now k false) VS
  | LPushBack k v => run (list_push now k v false) VI
  | LPushFront k v => run (list_push now k v true) VI
  | LRange k a b => run (list_range now k a b) (fun l => VL (map VS l))
  | LSet k i v => run (list_set now k i v) unit_rv
  | LTrim k a b => run (list_trim now k a b) VI
  | EAdd k vs => run (set_add now k vs) VI
  | EDelete k vs => run (set_delete now k vs) VI
  | EAlg a ks => run (set_alg a now ks) (fun l => VU (map VS l))
  | EStore a dst ks => run (set_store a now dst ks) VI
  | EExists k v => run (set_exists now k v) VB
  | EItems k => run (set_items now k) (fun l => VU (map VS l))
  | ELen k => run (set_len now k) VI
  | EMove s dst v => run (set_move now s dst v) unit_rv
  | EPop k c => run (set_pop now k c) VS
  | ERandom k c => run (set_random now k c) VS
  | EScan k c p n => run (set_scan now k c p n) (fun r => VL [VI (fst r); VL (map VS (snd r))])
  | HDelete k fs => run (hash_delete now k fs) VI
  | HExists k f => run (hash_exists now k f) VB
  | HFields k => run (hash_fields now k) (fun l => VU (map VS l))
  | HGet k f => run (hash_get now k f) VS
  | HGetMany k fs => run (hash_get_many now k fs)
                         (fun l => VU (map (fun fv => VL [VS (fst fv); VS (snd fv)]) l))
  | HIncr k f dl => run (hash_incr now k f dl) VI
  | HIncrFloat k f dl parsed sumtext =>
      run (hash_incr_float now k f dl
             (fun t => match opt_lookup parsed t with Some r => r | None => None end)
             (fun _ => sumtext)) VF
  | HItems k => run (hash_items now k)
                    (fun l => VU (map (fun fv => VL [VS (fst fv); VS (snd fv)]) l))
  | HLen k => run (hash_len now k) VI
  | HScan k c p n => run (hash_scan now k c p n)
                         (fun r => VL [VI (fst r); VL (map (fun fv => VL [VS (fst fv); VS (snd fv)]) (snd r))])
  | HSet k f v => run (hash_set now k f v) VB
  | HSetMany k items => run (hash_set_many now k items) VI
  | HSetNX k f v => run (hash_set_nx now k f v) VB
  | HValues k => run (hash_values now k) (fun l => VU (map VS l))
  | ZAdd k v sc => run (zset_add now k v sc) VB
  | ZAddMany k items => run (zset_add_many now k items) VI
  | ZCount k lo hi => run (zset_count now k lo hi) VI
  | ZDelete k vs => run (zset_delete now k vs) VI
  | ZDeleteRank k a b => run (zset_delete_rank now k a b) VI
  | ZDeleteScore k lo hi => run (zset_delete_score now k lo hi) VI
  | ZGetRank k v desc => run (zset_get_rank now k v desc) (fun p => VL [VI (fst p); VF (snd p)])
  | ZGetScore k v => run (zset_get_score now k v) VF
  | ZIncr k v dl => run (zset_incr now k v dl) VF
  | ZAlg inter g ks => run (zset_alg inter g now ks) (fun l => VL (map item_rv l))
  | ZStore inter g dst ks => run (zset_store inter g now dst ks) VI
  | ZLen k => run (zset_len now k) VI
  | ZRangeRank k a b desc => run (zset_range_rank now k a b desc) (fun l => VL (map item_rv l))
  | ZRangeScore k lo hi desc off cnt =>
      run (zset_range_score now k lo hi desc off cnt) (fun l => VL (map item_rv l))
  | ZScan k c p n => run (zset_scan now k c p n) (fun r => VL [VI (fst r); VL (map item_rv (snd r))])
  end.

(* the DB-level method: a transaction around the Tx-level call where the Go
   code has one *)
Definition exec_db (now : Z) (o : op) (d : db) : db * out :=
  let '(d', r) := exec_tx (wrapped o) now o d in
  if wrapped o && is_err r then (d, r) else (d', r).

(* a caller-managed transaction (DB.Update with a callback): the Tx-level calls
   in order; [stop_on_err] = the callback returns the first error it sees
   (rollback), otherwise it ignores errors and commits *)
Fixpoint exec_block (now : Z) (ops : list op) (stop_on_err : bool) (d : db)
  : db * list out * bool (* failed *) :=
  match ops with
  | [] => (d, [], false)
  | o :: rest =>
      let '(d1, r) := exec_tx true now o d in
      if stop_on_err && is_err r then (d1, [r], true)
      else let '(d2, rs, f) := exec_block now rest stop_on_err d1 in (d2, r :: rs, f)
  end.

Definition exec_update (now : Z) (ops : list op) (stop_on_err : bool) (d : db)
  : db * list out :=
  let '(d1, rs, failed) := exec_block now ops stop_on_err d in
  if failed then (d, rs) else (d1, rs).
