(* Refine.v — the vocabulary of the refinement (simulation) theorems: the
   relation between a faithful state and an abstract one, equality of results
   up to the order of unordered collections, and purging.  Definitions only. *)
From Redka Require Import Base Db Ops Spec Abs Inv.
From Coq Require Import Permutation.

(* the structural invariant, with foreign keys on *)
Definition Inv (d : db) : Prop := inv_ok d = true /\ fk_on d = true.

(* the abstract state [s] describes the faithful state [d] at time [now]:
   names are distinct, and every name reads the same in both *)
Definition R (now : Z) (d : db) (s : sstate) : Prop :=
  NoDup (map fst s) /\ forall k, sget (spurge now s) k = sget (abs now d) k.

(* results are compared exactly, except that an unordered collection (VU) may
   list its items in any order *)
Inductive rv_equiv : rv -> rv -> Prop :=
| rve_refl : forall v, rv_equiv v v
| rve_perm : forall l l', Permutation l l' -> rv_equiv (VU l) (VU l').

Definition out_equiv (o : op) (impl spec : out) : Prop :=
  o_err impl = o_err spec /\ rv_equiv (proj_result o (o_val impl)) (o_val spec).

(* one DB-level step refines the specification *)
Definition step_refines (now : Z) (o : op) (d : db) (s : sstate) : Prop :=
  let '(d', r) := exec_db now o d in
  let '(s', r') := spec_step now o s in
  out_equiv o r r' /\ R now d' s'.

(* physically remove what has expired (what the background cleaner does) *)
Definition purge (now : Z) (d : db) : db := fst (delete_keys (expired now) d).
