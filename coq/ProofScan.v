(* ProofScan.v — property C16: cursor iteration returns every element exactly once. *)
From Redka Require Import Base Db Glob ImplKey ImplString ImplList ImplSet ImplHash ImplZSet Ops Inv Refine.
From Coq Require Import Lia ZifyBool Sorted.

(* ids / rowids ascend in table order: SQLite hands out max+1, rows are appended *)
Fixpoint ascending (l : list Z) : bool :=
  match l with
  | [] => true
  | x :: r => match r with [] => true | y :: _ => (x <? y) && ascending r end
  end.
Definition ids_ascending (d : db) : bool :=
  ascending (map k_id (rkey d)) && ascending (map e_rid (rset d)) &&
  ascending (map h_rid (rhash d)) && ascending (map z_rid (rzset d)) &&
  forallb (fun r => 0 <? k_id r) (rkey d) && forallb (fun r => 0 <? e_rid r) (rset d) &&
  forallb (fun r => 0 <? h_rid r) (rhash d) && forallb (fun r => 0 <? z_rid r) (rzset d).

(* the iteration protocol, with fuel *)
Fixpoint key_iter (fuel : nat) (now : Z) (pat : bytes) (ktype count : Z) (d : db) (cursor : Z) : list keyrow :=
  match fuel with
  | O => []
  | S f =>
      match snd (key_scan now cursor pat ktype count d) with
      | Ok (c, page) => match page with [] => [] | _ => page ++ key_iter f now pat ktype count d c end
      | Err _ => []
      end
  end.
Fixpoint set_iter (fuel : nat) (now : Z) (key pat : bytes) (count : Z) (d : db) (cursor : Z) : list bytes :=
  match fuel with
  | O => []
  | S f =>
      match snd (set_scan now key cursor pat count d) with
      | Ok (c, page) => match page with [] => [] | _ => page ++ set_iter f now key pat count d c end
      | Err _ => []
      end
  end.
Fixpoint hash_iter (fuel : nat) (now : Z) (key pat : bytes) (count : Z) (d : db) (cursor : Z) : list (bytes * bytes) :=
  match fuel with
  | O => []
  | S f =>
      match snd (hash_scan now key cursor pat count d) with
      | Ok (c, page) => match page with [] => [] | _ => page ++ hash_iter f now key pat count d c end
      | Err _ => []
      end
  end.
Fixpoint zset_iter (fuel : nat) (now : Z) (key pat : bytes) (count : Z) (d : db) (cursor : Z) : list zrow :=
  match fuel with
  | O => []
  | S f =>
      match snd (zset_scan now key cursor pat count d) with
      | Ok (c, page) => match page with [] => [] | _ => page ++ zset_iter f now key pat count d c end
      | Err _ => []
      end
  end.

Definition key_matches (now : Z) (pat : bytes) (ktype : Z) (r : keyrow) : bool :=
  glob pat (k_key r) && ((ktype =? 0) || (k_type r =? ktype)) && live now r.

(* ---------- list facts ---------- *)

Lemma filter_filter {A} (f g : A -> bool) l :
  filter f (filter g l) = filter (fun x => g x && f x) l.
Proof.
  induction l as [|x l IH]; cbn [filter]; auto.
  destruct (g x) eqn:Eg; cbn [filter andb].
  - destruct (f x); rewrite IH; reflexivity.
  - exact IH.
Qed.

Lemma filter_true_all {A} (f : A -> bool) l :
  (forall a, In a l -> f a = true) -> filter f l = l.
Proof.
  induction l as [|x l IH]; intros H; cbn [filter]; auto.
  rewrite (H x (or_introl eq_refl)). f_equal. apply IH. intros a Ha. apply H. right; exact Ha.
Qed.

Lemma filter_false_all {A} (f : A -> bool) l :
  (forall a, In a l -> f a = false) -> filter f l = [].
Proof.
  induction l as [|x l IH]; intros H; cbn [filter]; auto.
  rewrite (H x (or_introl eq_refl)). apply IH. intros a Ha. apply H. right; exact Ha.
Qed.

Lemma filter_len_le {A} (f : A -> bool) l : (List.length (filter f l) <= List.length l)%nat.
Proof.
  induction l as [|x l IH]; cbn [filter List.length]; auto.
  destruct (f x); cbn [List.length]; lia.
Qed.

Lemma ztake_split {A} : forall (l : list A) n, exists rest, l = ztake n l ++ rest.
Proof.
  induction l as [|x l IH]; intros n; cbn [ztake].
  - exists []. reflexivity.
  - destruct (n <=? 0).
    + exists (x :: l). reflexivity.
    + destruct (IH (n - 1)) as [rest Hr]. exists rest. cbn [app]. f_equal. exact Hr.
Qed.

Lemma ztake_nil_inv {A} (l : list A) n : 0 < n -> ztake n l = [] -> l = [].
Proof.
  destruct l as [|x l]; intros Hn H; auto. cbn [ztake] in H.
  destruct (n <=? 0) eqn:E; [lia | discriminate].
Qed.

Lemma zdrop0 {A} (l : list A) : zdrop 0 l = l.
Proof. destruct l; reflexivity. Qed.

Lemma sql_limit0 {A} cnt (l : list A) :
  sql_limit 0 cnt l = if cnt <? 0 then l else ztake cnt l.
Proof. unfold sql_limit. change (Z.max 0 0) with 0. rewrite zdrop0. reflexivity. Qed.

Lemma lim_split {A} cnt (l : list A) : exists rest, l = sql_limit 0 cnt l ++ rest.
Proof.
  rewrite sql_limit0. destruct (cnt <? 0).
  - exists []. rewrite app_nil_r. reflexivity.
  - apply ztake_split.
Qed.

Lemma lim_nil_inv {A} cnt (l : list A) : cnt <> 0 -> sql_limit 0 cnt l = [] -> l = [].
Proof.
  rewrite sql_limit0. intros Hc. destruct (cnt <? 0) eqn:E; auto.
  apply ztake_nil_inv. lia.
Qed.

Lemma zmax_ge0 l : 0 <= zmax_list l.
Proof. induction l; cbn [zmax_list]; lia. Qed.

Lemma zmax_ge_in x l : In x l -> x <= zmax_list l.
Proof.
  induction l as [|y l IH]; cbn [zmax_list In]; [tauto|].
  intros [E|H]; [subst; lia | specialize (IH H); lia].
Qed.

Lemma forallb_In {A} (f : A -> bool) l : forallb f l = true -> forall a, In a l -> f a = true.
Proof. intros H. apply forallb_forall. exact H. Qed.

(* ---------- the generic argument ---------- *)

Section Generic.
  Context {A : Type} (id : A -> Z).

  Definition Asc (l : list A) := StronglySorted (fun a b => id a < id b) l.

  Lemma ascending_Asc l : ascending (map id l) = true -> Asc l.
  Proof.
    induction l as [|x r IH]; intros H; [constructor|].
    destruct r as [|y r'].
    - constructor; constructor.
    - cbn [map ascending] in H. apply andb_true_iff in H. destruct H as [Hxy Hr].
      specialize (IH Hr). constructor; [exact IH|].
      inversion IH as [|? ? Hs Hf]; subst. constructor; [lia|].
      eapply Forall_impl; [|exact Hf]. cbn beta. intros; lia.
  Qed.

  Lemma Asc_filter f l : Asc l -> Asc (filter f l).
  Proof.
    induction 1 as [|a l Hs IH Hf]; cbn [filter]; [constructor|].
    destruct (f a); [|exact IH]. constructor; [exact IH|].
    rewrite Forall_forall in *. intros y Hy. apply filter_In in Hy. apply Hf, Hy.
  Qed.

  Lemma Asc_app p q : Asc (p ++ q) ->
    Asc p /\ Asc q /\ forall a b, In a p -> In b q -> id a < id b.
  Proof.
    induction p as [|x p IH]; cbn [app]; intros H.
    - split; [constructor|]. split; [exact H|]. intros a b [].
    - inversion H as [|? ? Hs Hf]; subst. destruct (IH Hs) as [Hp [Hq Hpq]].
      rewrite Forall_forall in Hf.
      split; [|split].
      + constructor; [exact Hp|]. rewrite Forall_forall. intros y Hy. apply Hf, in_or_app. left; exact Hy.
      + exact Hq.
      + intros a b [E|Ha] Hb; [subst; apply Hf, in_or_app; right; exact Hb | apply Hpq; assumption].
  Qed.

  Lemma after_after c b l : c <= b ->
    filter (fun r => b <? id r) (filter (fun r => c <? id r) l) = filter (fun r => b <? id r) l.
  Proof.
    intros Hcb. rewrite filter_filter. apply filter_ext. intros a.
    destruct (c <? id a) eqn:E1, (b <? id a) eqn:E2; cbn [andb]; auto; lia.
  Qed.

  (* the cursor of the collection scans: the largest rowid of the page *)
  Lemma zmax_last p x : Asc (p ++ [x]) -> 0 < id x -> zmax_list (map id (p ++ [x])) = id x.
  Proof.
    induction p as [|a p IH]; cbn [app map zmax_list]; intros H Hx; [lia|].
    inversion H as [|? ? Hs Hf]; subst. rewrite (IH Hs Hx).
    rewrite Forall_forall in Hf.
    assert (id a < id x) by (apply Hf, in_or_app; right; left; reflexivity). lia.
  Qed.

  Variable count : Z.
  Variable L : list A.
  Variable cur : list A -> Z.
  Hypothesis Hcount : count <> 0.
  Hypothesis HL : Asc L.
  Hypothesis Hpos : forall a, In a L -> 0 < id a.
  Hypothesis Hcur : forall p x, Asc (p ++ [x]) -> 0 < id x -> cur (p ++ [x]) = id x.

  Definition after (c : Z) : list A := filter (fun r => c <? id r) L.
  Definition gpage (c : Z) : list A := sql_limit 0 count (after c).

  Fixpoint giter (fuel : nat) (c : Z) : list A :=
    match fuel with
    | O => []
    | S f => match gpage c with [] => [] | _ => gpage c ++ giter f (cur (gpage c)) end
    end.

  (* one page: it is a prefix of the remaining rows, its cursor is the id of its last
     row, and the rows after that cursor are exactly the rest *)
  Lemma gpage_step c x p : gpage c = p ++ [x] ->
    cur (gpage c) = id x /\ c < id x /\ 0 < id x /\ after c = gpage c ++ after (id x).
  Proof.
    intros Hp. destruct (lim_split count (after c)) as [rest Hsplit].
    fold (gpage c) in Hsplit.
    assert (Hasc : Asc (after c)) by (apply Asc_filter, HL).
    rewrite Hsplit in Hasc. destruct (Asc_app _ _ Hasc) as [Hpg [_ Hlt]].
    assert (Hin : In x (after c)).
    { rewrite Hsplit, Hp. apply in_or_app. left. apply in_or_app. right. left. reflexivity. }
    unfold after in Hin. apply filter_In in Hin. destruct Hin as [HinL Hcx].
    assert (Hx : 0 < id x) by (apply Hpos, HinL).
    split; [|split; [lia|split; [exact Hx|]]].
    - rewrite Hp. apply Hcur; [rewrite <- Hp; exact Hpg | exact Hx].
    - rewrite Hsplit at 1. f_equal.
      unfold after at 1. rewrite <- (after_after c (id x)) by lia. fold (after c).
      rewrite Hsplit, filter_app.
      rewrite (filter_false_all _ (gpage c)), (filter_true_all _ rest); [reflexivity| |].
      + intros b Hb. specialize (Hlt x b). rewrite Hp in Hlt.
        assert (id x < id b); [|lia].
        apply Hlt; [apply in_or_app; right; left; reflexivity | exact Hb].
      + intros a Ha. rewrite Hp in Ha, Hpg. apply in_app_or in Ha. destruct Ha as [Ha|[Ha|[]]].
        * destruct (Asc_app _ _ Hpg) as [_ [_ Hl2]].
          assert (id a < id x); [|lia]. apply Hl2; [exact Ha | left; reflexivity].
        * subst. lia.
  Qed.

  Lemma giter_complete : forall fuel c,
    (List.length (after c) < fuel)%nat -> giter fuel c = after c.
  Proof.
    induction fuel as [|f IH]; intros c Hlen; [lia|].
    cbn [giter]. destruct (gpage c) as [|y pg] eqn:Hp.
    - symmetry. apply (lim_nil_inv count); [exact Hcount | exact Hp].
    - destruct (@exists_last _ (y :: pg)) as [p [x Hpx]]; [discriminate|].
      assert (Hp' : gpage c = p ++ [x]) by congruence.
      rewrite <- Hp.
      destruct (gpage_step c x p Hp') as [Hc [_ [_ Hsplit]]].
      rewrite Hc, Hsplit. f_equal. apply IH.
      rewrite Hsplit, app_length, Hp in Hlen. cbn [List.length] in Hlen. lia.
  Qed.

  Lemma after0 : after 0 = L.
  Proof. apply filter_true_all. intros a Ha. specialize (Hpos a Ha). lia. Qed.

  Lemma giter_all fuel : (List.length L < fuel)%nat -> giter fuel 0 = L.
  Proof. intros H. rewrite giter_complete; rewrite after0; auto. Qed.
End Generic.

(* ---------- reading the invariant ---------- *)

Lemma ids_ascending_inv d : ids_ascending d = true ->
  (Asc k_id (rkey d) /\ forall r, In r (rkey d) -> 0 < k_id r) /\
  (Asc e_rid (rset d) /\ forall r, In r (rset d) -> 0 < e_rid r) /\
  (Asc h_rid (rhash d) /\ forall r, In r (rhash d) -> 0 < h_rid r) /\
  (Asc z_rid (rzset d) /\ forall r, In r (rzset d) -> 0 < z_rid r).
Proof.
  unfold ids_ascending. rewrite !andb_true_iff.
  intros [[[[[[[H1 H2] H3] H4] H5] H6] H7] H8].
  repeat split; try (apply ascending_Asc; assumption);
    intros r Hr.
  - pose proof (forallb_In _ _ H5 r Hr). lia.
  - pose proof (forallb_In _ _ H6 r Hr). lia.
  - pose proof (forallb_In _ _ H7 r Hr). lia.
  - pose proof (forallb_In _ _ H8 r Hr). lia.
Qed.

Lemma count_norm_nz count : (if count =? 0 then 10 else count) <> 0.
Proof. destruct (count =? 0) eqn:E; lia. Qed.

Lemma filtered_ok {A} (id : A -> Z) (P : A -> bool) l :
  Asc id l -> (forall r, In r l -> 0 < id r) ->
  Asc id (filter P l) /\ forall r, In r (filter P l) -> 0 < id r.
Proof.
  intros Ha Hp. split; [apply Asc_filter, Ha|].
  intros r Hr. apply filter_In in Hr. apply Hp, Hr.
Qed.

(* ---------- keys ---------- *)

Definition key_cur (page : list keyrow) : Z :=
  match rev page with last :: _ => k_id last | [] => 0 end.

Lemma key_cur_last p x : key_cur (p ++ [x]) = k_id x.
Proof. unfold key_cur. rewrite rev_app_distr. reflexivity. Qed.

Lemma key_scan_rows now pat ktype cursor l :
  filter (fun r => (cursor <? k_id r) && glob pat (k_key r)
                   && ((ktype =? 0) || (k_type r =? ktype)) && live now r) l
  = filter (fun r => cursor <? k_id r) (filter (key_matches now pat ktype) l).
Proof.
  rewrite filter_filter. apply filter_ext. intros a. unfold key_matches.
  destruct (cursor <? k_id a), (glob pat (k_key a)), ((ktype =? 0) || (k_type a =? ktype)), (live now a);
    reflexivity.
Qed.

Lemma key_scan_unfold now cursor pat ktype count d :
  snd (key_scan now cursor pat ktype count d) =
  let pg := gpage k_id (if count =? 0 then 10 else count)
                  (filter (key_matches now pat ktype) (rkey d)) cursor in
  Ok (key_cur pg, pg).
Proof.
  unfold key_scan, lift_read, gpage, after, key_cur, scan_page_size. cbn [snd].
  rewrite key_scan_rows. reflexivity.
Qed.

Lemma key_iter_giter now pat ktype count d : forall fuel c,
  key_iter fuel now pat ktype count d c =
  giter k_id (if count =? 0 then 10 else count)
        (filter (key_matches now pat ktype) (rkey d)) key_cur fuel c.
Proof.
  induction fuel as [|f IH]; intros c; [reflexivity|].
  cbn [key_iter giter]. rewrite key_scan_unfold. cbv zeta.
  destruct (gpage _ _ _ c) eqn:E; [reflexivity|]. rewrite IH. reflexivity.
Qed.

Theorem C16_key_iteration_complete : forall now pat ktype count d,
  ids_ascending d = true ->
  key_iter (S (List.length (rkey d))) now pat ktype count d 0 = filter (key_matches now pat ktype) (rkey d).
Proof.
  intros now pat ktype count d H.
  destruct (ids_ascending_inv d H) as [[Ha Hp] _].
  destruct (filtered_ok k_id (key_matches now pat ktype) _ Ha Hp) as [Ha' Hp'].
  rewrite key_iter_giter. apply giter_all.
  - apply count_norm_nz.
  - exact Ha'.
  - exact Hp'.
  - intros p x _ _. apply key_cur_last.
  - pose proof (filter_len_le (key_matches now pat ktype) (rkey d)). lia.
Qed.

Theorem C16_key_scan_end_signal : forall now cursor pat ktype count d c page,
  ids_ascending d = true -> snd (key_scan now cursor pat ktype count d) = Ok (c, page) ->
  (page = [] -> c = 0) /\ (page <> [] -> 0 < c /\ cursor < c \/ cursor < 0 /\ 0 < c).
Proof.
  intros now cursor pat ktype count d c page H Hs.
  destruct (ids_ascending_inv d H) as [[Ha Hp] _].
  destruct (filtered_ok k_id (key_matches now pat ktype) _ Ha Hp) as [Ha' Hp'].
  rewrite key_scan_unfold in Hs. cbv zeta in Hs. injection Hs as Hc Hpg.
  split.
  - intros E. rewrite <- Hc, Hpg, E. reflexivity.
  - intros Hne. left.
    destruct (@exists_last _ page Hne) as [p [x Hpx]].
    rewrite Hpx in Hpg.
    destruct (gpage_step k_id _ _ key_cur Ha' Hp' (fun p x _ _ => key_cur_last p x) cursor x p Hpg)
      as [Hcur [Hlt [Hx _]]].
    rewrite Hpg, key_cur_last in Hc. subst c. split; assumption.
Qed.

(* ---------- sets ---------- *)

Definition rid_cur {A} (id : A -> Z) (page : list A) : Z := zmax_list (map id page).

Lemma coll_rows {A} (id kid : A -> Z) (g : A -> bool) cursor k l :
  filter (fun r => (cursor <? id r) && g r) (filter (fun r => kid r =? k) l)
  = filter (fun r => cursor <? id r) (filter (fun r => (kid r =? k) && g r) l).
Proof.
  rewrite !filter_filter. apply filter_ext. intros a.
  destruct (cursor <? id a), (g a), (kid a =? k); reflexivity.
Qed.

Section SetScan.
  Variables (now : Z) (key pat : bytes) (count : Z) (d : db) (k : keyrow).
  Hypothesis Hk : live_key now d key T_SET = Some k.
  Let Ls := filter (fun r => (e_kid r =? k_id k) && glob pat (e_elem r)) (rset d).
  Let cnt := if count =? 0 then 10 else count.

  Lemma set_scan_unfold cursor :
    snd (set_scan now key cursor pat count d) =
    let pg := gpage e_rid cnt Ls cursor in Ok (rid_cur e_rid pg, map e_elem pg).
  Proof.
    unfold set_scan, lift_read, gpage, after, rid_cur, set_rows. cbn [snd]. rewrite Hk.
    rewrite (coll_rows e_rid e_kid (fun r => glob pat (e_elem r))). reflexivity.
  Qed.

  Lemma set_iter_giter : forall fuel c,
    set_iter fuel now key pat count d c = map e_elem (giter e_rid cnt Ls (rid_cur e_rid) fuel c).
  Proof.
    induction fuel as [|f IH]; intros c; [reflexivity|].
    cbn [set_iter giter]. rewrite set_scan_unfold. cbv zeta.
    destruct (gpage _ _ _ c) eqn:E; [reflexivity|]. rewrite IH, map_app. reflexivity.
  Qed.
End SetScan.

Theorem C16_set_iteration_complete : forall now key pat count d k,
  ids_ascending d = true -> live_key now d key T_SET = Some k ->
  set_iter (S (List.length (rset d))) now key pat count d 0
  = map e_elem (filter (fun r => (e_kid r =? k_id k) && glob pat (e_elem r)) (rset d)).
Proof.
  intros now key pat count d k H Hk.
  destruct (ids_ascending_inv d H) as [_ [[Ha Hp] _]].
  destruct (filtered_ok e_rid (fun r => (e_kid r =? k_id k) && glob pat (e_elem r)) _ Ha Hp) as [Ha' Hp'].
  rewrite (set_iter_giter now key pat count d k Hk). f_equal. apply giter_all.
  - apply count_norm_nz.
  - exact Ha'.
  - exact Hp'.
  - intros p x. apply zmax_last.
  - match goal with |- (List.length (filter ?f ?l) < _)%nat => pose proof (filter_len_le f l) end. lia.
Qed.

Theorem C16_set_iteration_missing : forall now key pat count d fuel,
  live_key now d key T_SET = None -> set_iter fuel now key pat count d 0 = [].
Proof.
  intros now key pat count d fuel Hk. destruct fuel as [|f]; [reflexivity|].
  cbn [set_iter]. unfold set_scan, lift_read. cbn [snd]. rewrite Hk. reflexivity.
Qed.

(* ---------- hashes ---------- *)

Section HashScan.
  Variables (now : Z) (key pat : bytes) (count : Z) (d : db) (k : keyrow).
  Hypothesis Hk : live_key now d key T_HASH = Some k.
  Let Lh := filter (fun r => (h_kid r =? k_id k) && glob pat (h_field r)) (rhash d).
  Let cnt := if count =? 0 then 10 else count.

  Lemma hash_scan_unfold cursor :
    snd (hash_scan now key cursor pat count d) =
    let pg := gpage h_rid cnt Lh cursor in
    Ok (rid_cur h_rid pg, map (fun r => (h_field r, h_val r)) pg).
  Proof.
    unfold hash_scan, lift_read, gpage, after, rid_cur, live_hash_rows, hash_rows. cbn [snd]. rewrite Hk.
    rewrite (coll_rows h_rid h_kid (fun r => glob pat (h_field r))). reflexivity.
  Qed.

  Lemma hash_iter_giter : forall fuel c,
    hash_iter fuel now key pat count d c =
    map (fun r => (h_field r, h_val r)) (giter h_rid cnt Lh (rid_cur h_rid) fuel c).
  Proof.
    induction fuel as [|f IH]; intros c; [reflexivity|].
    cbn [hash_iter giter]. rewrite hash_scan_unfold. cbv zeta.
    destruct (gpage _ _ _ c) eqn:E; [reflexivity|]. rewrite IH, map_app. reflexivity.
  Qed.
End HashScan.

Theorem C16_hash_iteration_complete : forall now key pat count d k,
  ids_ascending d = true -> live_key now d key T_HASH = Some k ->
  hash_iter (S (List.length (rhash d))) now key pat count d 0
  = map (fun r => (h_field r, h_val r)) (filter (fun r => (h_kid r =? k_id k) && glob pat (h_field r)) (rhash d)).
Proof.
  intros now key pat count d k H Hk.
  destruct (ids_ascending_inv d H) as [_ [_ [[Ha Hp] _]]].
  destruct (filtered_ok h_rid (fun r => (h_kid r =? k_id k) && glob pat (h_field r)) _ Ha Hp) as [Ha' Hp'].
  rewrite (hash_iter_giter now key pat count d k Hk). f_equal. apply giter_all.
  - apply count_norm_nz.
  - exact Ha'.
  - exact Hp'.
  - intros p x. apply zmax_last.
  - match goal with |- (List.length (filter ?f ?l) < _)%nat => pose proof (filter_len_le f l) end. lia.
Qed.

(* ---------- sorted sets ---------- *)

Section ZSetScan.
  Variables (now : Z) (key pat : bytes) (count : Z) (d : db) (k : keyrow).
  Hypothesis Hk : live_key now d key T_ZSET = Some k.
  Let Lz := filter (fun r => (z_kid r =? k_id k) && glob pat (z_elem r)) (rzset d).
  Let cnt := if count =? 0 then 10 else count.

  Lemma zset_scan_unfold cursor :
    snd (zset_scan now key cursor pat count d) =
    let pg := gpage z_rid cnt Lz cursor in Ok (rid_cur z_rid pg, pg).
  Proof.
    unfold zset_scan, lift_read, gpage, after, rid_cur, live_zset_rows, zset_rows. cbn [snd]. rewrite Hk.
    rewrite (coll_rows z_rid z_kid (fun r => glob pat (z_elem r))). reflexivity.
  Qed.

  Lemma zset_iter_giter : forall fuel c,
    zset_iter fuel now key pat count d c = giter z_rid cnt Lz (rid_cur z_rid) fuel c.
  Proof.
    induction fuel as [|f IH]; intros c; [reflexivity|].
    cbn [zset_iter giter]. rewrite zset_scan_unfold. cbv zeta.
    destruct (gpage _ _ _ c) eqn:E; [reflexivity|]. rewrite IH. reflexivity.
  Qed.
End ZSetScan.

Theorem C16_zset_iteration_complete : forall now key pat count d k,
  ids_ascending d = true -> live_key now d key T_ZSET = Some k ->
  zset_iter (S (List.length (rzset d))) now key pat count d 0
  = filter (fun r => (z_kid r =? k_id k) && glob pat (z_elem r)) (rzset d).
Proof.
  intros now key pat count d k H Hk.
  destruct (ids_ascending_inv d H) as [_ [_ [_ [Ha Hp]]]].
  destruct (filtered_ok z_rid (fun r => (z_kid r =? k_id k) && glob pat (z_elem r)) _ Ha Hp) as [Ha' Hp'].
  rewrite (zset_iter_giter now key pat count d k Hk). apply giter_all.
  - apply count_norm_nz.
  - exact Ha'.
  - exact Hp'.
  - intros p x. apply zmax_last.
  - match goal with |- (List.length (filter ?f ?l) < _)%nat => pose proof (filter_len_le f l) end. lia.
Qed.

(* ---------- the inserts keep ids ascending ---------- *)

Theorem ids_ascending_empty : ids_ascending empty_db = true.
Proof. reflexivity. Qed.

Lemma ascending_snoc l x :
  ascending l = true -> (forall y, In y l -> y < x) -> ascending (l ++ [x]) = true.
Proof.
  induction l as [|a l IH]; intros Ha Hlt; [reflexivity|].
  destruct l as [|b l'].
  - cbn [app ascending]. rewrite andb_true_r. specialize (Hlt a (or_introl eq_refl)). lia.
  - cbn [ascending] in Ha. apply andb_true_iff in Ha. destruct Ha as [Hab Hr].
    change ((a :: b :: l') ++ [x]) with (a :: (b :: l') ++ [x]).
    assert (IH' := IH Hr (fun y Hy => Hlt y (or_intror Hy))).
    cbn [app] in IH' |- *. cbn [ascending]. cbn [ascending] in IH'. rewrite IH'.
    rewrite andb_true_r. exact Hab.
Qed.

Theorem ids_ascending_append_key : forall d r,
  ids_ascending d = true -> k_id r = next_key_id d -> ids_ascending (set_rkey d (rkey d ++ [r])) = true.
Proof.
  intros d r H Hid. unfold ids_ascending in *. rewrite !andb_true_iff in H.
  destruct H as [[[[[[[H1 H2] H3] H4] H5] H6] H7] H8].
  unfold set_rkey. cbn [rkey rset rhash rzset].
  rewrite H2, H3, H4, H6, H7, H8, !andb_true_r.
  unfold next_key_id in Hid.
  apply andb_true_iff. split.
  - rewrite map_app. cbn [map]. apply ascending_snoc; [exact H1|].
    intros y Hy. apply zmax_ge_in in Hy. lia.
  - rewrite forallb_app, H5. cbn [forallb andb].
    pose proof (zmax_ge0 (map k_id (rkey d))). rewrite andb_true_r. lia.
Qed.

Print Assumptions C16_key_iteration_complete.
Print Assumptions C16_set_iteration_complete.
Print Assumptions C16_hash_iteration_complete.
Print Assumptions C16_zset_iteration_complete.
Print Assumptions C16_key_scan_end_signal.
Print Assumptions C16_set_iteration_missing.
Print Assumptions ids_ascending_empty.
Print Assumptions ids_ascending_append_key.
