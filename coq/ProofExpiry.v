From Redka Require Import Base Db Glob ImplKey ImplString ImplList ImplSet ImplHash ImplZSet Ops Spec Abs Inv Excl Refine ProofNoTrace ProofInv.
From Coq Require Import Lia ZifyBool.
From Coq Require Import Permutation.

(* ================================================================== *)
(* Part 0: the boundary                                               *)
(* ================================================================== *)

Theorem C10_boundary : forall r e, k_etime r = Some e ->
  live (e - 1) r = true /\ live e r = false /\ expired e r = true /\ expired (e - 1) r = false.
Proof.
  intros r e E. unfold live, expired. rewrite E. lia.
Qed.

Theorem C10_live_not_expired : forall now r, live now r = negb (expired now r).
Proof.
  intros now r. unfold live, expired. destruct (k_etime r); [lia | reflexivity].
Qed.

(* ================================================================== *)
(* Part 1: list lemmas                                                *)
(* ================================================================== *)

Lemma filter_filter_sub {A} (p q : A -> bool) l :
  (forall x, In x l -> p x = true -> q x = true) ->
  filter p (filter q l) = filter p l.
Proof.
  induction l as [|x r IH]; intros H; [reflexivity|].
  cbn [filter]. destruct (q x) eqn:Q.
  - cbn [filter]. rewrite IH; [reflexivity|]. intros y Hy. apply H. right. exact Hy.
  - destruct (p x) eqn:P.
    + rewrite (H x (or_introl eq_refl) P) in Q. discriminate.
    + apply IH. intros y Hy. apply H. right. exact Hy.
Qed.

Lemma find_filter_sub {A} (p q : A -> bool) l :
  (forall x, In x l -> p x = true -> q x = true) ->
  find p (filter q l) = find p l.
Proof.
  induction l as [|x r IH]; intros H; [reflexivity|].
  cbn [filter find]. destruct (q x) eqn:Q.
  - cbn [find]. destruct (p x); [reflexivity|]. apply IH. intros y Hy. apply H. right. exact Hy.
  - destruct (p x) eqn:P.
    + rewrite (H x (or_introl eq_refl) P) in Q. discriminate.
    + apply IH. intros y Hy. apply H. right. exact Hy.
Qed.

Lemma flat_map_filter {A B} (f g : A -> list B) (q : A -> bool) l :
  (forall x, In x l -> q x = true -> f x = g x) ->
  (forall x, In x l -> q x = false -> g x = []) ->
  flat_map f (filter q l) = flat_map g l.
Proof.
  induction l as [|x r IH]; intros H1 H2; [reflexivity|].
  cbn [filter flat_map]. destruct (q x) eqn:Q.
  - cbn [flat_map]. rewrite (H1 x (or_introl eq_refl) Q). f_equal.
    apply IH; intros y Hy; [apply H1 | apply H2]; right; exact Hy.
  - rewrite (H2 x (or_introl eq_refl) Q). cbn [app].
    apply IH; intros y Hy; [apply H1 | apply H2]; right; exact Hy.
Qed.

Lemma find_none_notin (key : bytes) (l : list keyrow) :
  ~ In key (map k_key l) -> find (fun r => String.eqb (k_key r) key) l = None.
Proof.
  induction l as [|x r IH]; intros H; [reflexivity|].
  cbn [find]. destruct (String.eqb_spec (k_key x) key) as [E|E].
  - exfalso. apply H. left. exact E.
  - apply IH. intros K. apply H. right. exact K.
Qed.

Lemma find_filter_uniq (q : keyrow -> bool) (key : bytes) (l : list keyrow) :
  NoDup (map k_key l) ->
  find (fun r => String.eqb (k_key r) key) (filter q l) =
  match find (fun r => String.eqb (k_key r) key) l with
  | Some r => if q r then Some r else None
  | None => None
  end.
Proof.
  induction l as [|x r IH]; intros ND; [reflexivity|].
  cbn [map] in ND. inversion ND as [|? ? Hn Hr]; subst.
  cbn [filter find]. destruct (q x) eqn:Q.
  - cbn [find]. destruct (String.eqb_spec (k_key x) key) as [E|E].
    + rewrite Q. reflexivity.
    + apply IH. exact Hr.
  - destruct (String.eqb_spec (k_key x) key) as [E|E].
    + rewrite Q. subst key. rewrite (IH Hr).
      rewrite (find_none_notin _ _ Hn). reflexivity.
    + apply IH. exact Hr.
Qed.

Lemma find_map_key (F : keyrow -> keyrow) (key : bytes) (l : list keyrow) :
  (forall x, k_key (F x) = k_key x) ->
  find (fun r => String.eqb (k_key r) key) (map F l) =
  option_map F (find (fun r => String.eqb (k_key r) key) l).
Proof.
  intros HF. induction l as [|x r IH]; [reflexivity|].
  cbn [map find]. rewrite HF. destruct (String.eqb (k_key x) key); [reflexivity | exact IH].
Qed.

(* ================================================================== *)
(* Part 2: the shape of a purged state                                *)
(* ================================================================== *)

Definition gone (now : Z) (d : db) : list Z := map k_id (filter (expired now) (rkey d)).

Lemma rkey_purge now d :
  rkey (purge now d) = filter (fun r => negb (expired now r)) (rkey d).
Proof. unfold purge. apply rkey_delete. Qed.

Lemma rstring_purge now d : fk_on d = true ->
  rstring (purge now d) = filter (fun r => negb (zmem (s_kid r) (gone now d))) (rstring d).
Proof. intros FK. unfold purge, delete_keys. rewrite FK. reflexivity. Qed.
Lemma rlist_purge now d : fk_on d = true ->
  rlist (purge now d) = filter (fun r => negb (zmem (l_kid r) (gone now d))) (rlist d).
Proof. intros FK. unfold purge, delete_keys. rewrite FK. reflexivity. Qed.
Lemma rset_purge now d : fk_on d = true ->
  rset (purge now d) = filter (fun r => negb (zmem (e_kid r) (gone now d))) (rset d).
Proof. intros FK. unfold purge, delete_keys. rewrite FK. reflexivity. Qed.
Lemma rhash_purge now d : fk_on d = true ->
  rhash (purge now d) = filter (fun r => negb (zmem (h_kid r) (gone now d))) (rhash d).
Proof. intros FK. unfold purge, delete_keys. rewrite FK. reflexivity. Qed.
Lemma rzset_purge now d : fk_on d = true ->
  rzset (purge now d) = filter (fun r => negb (zmem (z_kid r) (gone now d))) (rzset d).
Proof. intros FK. unfold purge, delete_keys. rewrite FK. reflexivity. Qed.

Lemma Inv_fk d : Inv d -> fk_on d = true.
Proof. intros [_ H]. exact H. Qed.

Lemma Inv_ids d : Inv d -> NoDup (map k_id (rkey d)).
Proof. intros I. apply Inv_iff in I. exact (a_ids _ _ _ (i_a _ _ I)). Qed.

Lemma Inv_names d : Inv d -> NoDup (map k_key (rkey d)).
Proof. intros I. apply Inv_iff in I. exact (a_names _ _ _ (i_a _ _ I)). Qed.

(* a key row that is not expired is not among the removed ids *)
Lemma not_gone now d r :
  Inv d -> In r (rkey d) -> expired now r = false -> zmem (k_id r) (gone now d) = false.
Proof.
  intros I Hr E. apply zmem_false. unfold gone. intros Hin.
  apply in_map_iff in Hin as [r' [Eid Hr']]. apply filter_In in Hr' as [Hr' E'].
  assert (r' = r) by (eapply NoDup_map_inj; [apply Inv_ids; exact I | | | ]; eauto).
  subst. congruence.
Qed.

Lemma not_gone_live now d r :
  Inv d -> In r (rkey d) -> live now r = true -> zmem (k_id r) (gone now d) = false.
Proof.
  intros I Hr L. apply not_gone; auto. rewrite C10_live_not_expired in L.
  destruct (expired now r); [discriminate | reflexivity].
Qed.

Definition Safe now d id : Prop := zmem id (gone now d) = false.

(* child rows of an id that was not removed are all still there *)
Lemma child_filter_purge {A} (kid : A -> Z) now d id (tbl : list A) :
  Safe now d id ->
  filter (fun x => kid x =? id) (filter (fun r => negb (zmem (kid r) (gone now d))) tbl) =
  filter (fun x => kid x =? id) tbl.
Proof.
  intros S. apply filter_filter_sub. intros x _ E. apply Z.eqb_eq in E. rewrite E, S. reflexivity.
Qed.

Lemma child_find_purge {A} (kid : A -> Z) now d id (tbl : list A) :
  Safe now d id ->
  find (fun x => kid x =? id) (filter (fun r => negb (zmem (kid r) (gone now d))) tbl) =
  find (fun x => kid x =? id) tbl.
Proof.
  intros S. apply find_filter_sub. intros x _ E. apply Z.eqb_eq in E. rewrite E, S. reflexivity.
Qed.

Lemma sfilter_purge now d id : Inv d -> Safe now d id ->
  filter (fun x => s_kid x =? id) (rstring (purge now d)) = filter (fun x => s_kid x =? id) (rstring d).
Proof. intros I S. rewrite rstring_purge by (apply Inv_fk; exact I). apply child_filter_purge. exact S. Qed.
Lemma lfilter_purge now d id : Inv d -> Safe now d id ->
  filter (fun x => l_kid x =? id) (rlist (purge now d)) = filter (fun x => l_kid x =? id) (rlist d).
Proof. intros I S. rewrite rlist_purge by (apply Inv_fk; exact I). apply child_filter_purge. exact S. Qed.
Lemma efilter_purge now d id : Inv d -> Safe now d id ->
  filter (fun x => e_kid x =? id) (rset (purge now d)) = filter (fun x => e_kid x =? id) (rset d).
Proof. intros I S. rewrite rset_purge by (apply Inv_fk; exact I). apply child_filter_purge. exact S. Qed.
Lemma hfilter_purge now d id : Inv d -> Safe now d id ->
  filter (fun x => h_kid x =? id) (rhash (purge now d)) = filter (fun x => h_kid x =? id) (rhash d).
Proof. intros I S. rewrite rhash_purge by (apply Inv_fk; exact I). apply child_filter_purge. exact S. Qed.
Lemma zfilter_purge now d id : Inv d -> Safe now d id ->
  filter (fun x => z_kid x =? id) (rzset (purge now d)) = filter (fun x => z_kid x =? id) (rzset d).
Proof. intros I S. rewrite rzset_purge by (apply Inv_fk; exact I). apply child_filter_purge. exact S. Qed.

Lemma find_sval_purge now d id : Inv d -> Safe now d id ->
  find_sval (purge now d) id = find_sval d id.
Proof.
  intros I S. unfold find_sval. rewrite rstring_purge by (apply Inv_fk; exact I).
  rewrite (child_find_purge s_kid) by exact S. reflexivity.
Qed.

Lemma list_rows_purge now d id : Inv d -> Safe now d id -> list_rows (purge now d) id = list_rows d id.
Proof. intros. unfold list_rows. apply lfilter_purge; assumption. Qed.
Lemma set_rows_purge now d id : Inv d -> Safe now d id -> set_rows (purge now d) id = set_rows d id.
Proof. intros. unfold set_rows. apply efilter_purge; assumption. Qed.
Lemma hash_rows_purge now d id : Inv d -> Safe now d id -> hash_rows (purge now d) id = hash_rows d id.
Proof. intros. unfold hash_rows. apply hfilter_purge; assumption. Qed.
Lemma zset_rows_purge now d id : Inv d -> Safe now d id -> zset_rows (purge now d) id = zset_rows d id.
Proof. intros. unfold zset_rows. apply zfilter_purge; assumption. Qed.

(* ---------- key lookups ---------- *)

Lemma find_key_purge now d key : Inv d ->
  find_key (purge now d) key =
  match find_key d key with
  | Some r => if live now r then Some r else None
  | None => None
  end.
Proof.
  intros I. unfold find_key. rewrite rkey_purge.
  rewrite find_filter_uniq by (apply Inv_names; exact I).
  destruct (find _ (rkey d)) as [r|]; [|reflexivity].
  rewrite C10_live_not_expired. reflexivity.
Qed.

Lemma live_any_purge now d key : Inv d -> live_any now (purge now d) key = live_any now d key.
Proof.
  intros I. unfold live_any. rewrite find_key_purge by exact I.
  destruct (find_key d key) as [r|]; [|reflexivity].
  destruct (live now r) eqn:L; [rewrite L|]; reflexivity.
Qed.

Lemma live_key_purge now d key T : Inv d -> live_key now (purge now d) key T = live_key now d key T.
Proof.
  intros I. unfold live_key. rewrite find_key_purge by exact I.
  destruct (find_key d key) as [r|]; [|reflexivity].
  destruct (live now r) eqn:L; [rewrite L; reflexivity|].
  rewrite andb_false_r. reflexivity.
Qed.

Lemma live_key_safe now d key T k : Inv d -> live_key now d key T = Some k -> Safe now d (k_id k).
Proof.
  intros I H. apply live_key_some in H as [Hin [_ [_ L]]]. apply not_gone_live; assumption.
Qed.

(* filters over rkey that demand liveness *)
Lemma live_filter_purge (P : keyrow -> bool) now d :
  filter (fun r => P r && live now r) (rkey (purge now d)) =
  filter (fun r => P r && live now r) (rkey d).
Proof.
  rewrite rkey_purge. apply filter_filter_sub. intros x _ H.
  apply andb_true_iff in H as [_ L]. rewrite C10_live_not_expired in L. exact L.
Qed.

Lemma live_only_purge now d :
  filter (live now) (rkey (purge now d)) = filter (live now) (rkey d).
Proof.
  rewrite rkey_purge. apply filter_filter_sub. intros x _ L.
  rewrite C10_live_not_expired in L. exact L.
Qed.

(* ================================================================== *)
(* Part 3: purge and the abstraction                                  *)
(* ================================================================== *)

Lemma abs_val_purge now d r : Inv d -> Safe now d (k_id r) ->
  abs_val (purge now d) r = abs_val d r.
Proof.
  intros I S. unfold abs_val.
  rewrite find_sval_purge, lfilter_purge, efilter_purge, hfilter_purge, zfilter_purge by assumption.
  reflexivity.
Qed.

Theorem C10_purge_abs : forall now d, Inv d -> abs now (purge now d) = abs now d.
Proof.
  intros now d I. unfold abs. rewrite rkey_purge. apply flat_map_filter.
  - intros r Hr E. apply negb_true_iff in E.
    rewrite abs_val_purge; [reflexivity | exact I | apply not_gone; assumption].
  - intros r Hr E. apply negb_false_iff in E.
    rewrite C10_live_not_expired, E. reflexivity.
Qed.

Theorem C10_purge_inv : forall now d, Inv d -> Inv (purge now d).
Proof.
  intros now d I. apply Inv_iff. unfold purge. apply InvH_delete. apply Inv_iff. exact I.
Qed.

Theorem C10_purge_no_expired : forall now d r, In r (rkey (purge now d)) -> expired now r = false.
Proof.
  intros now d r H. rewrite rkey_purge in H. apply filter_In in H as [_ H].
  apply negb_true_iff in H. exact H.
Qed.

(* ================================================================== *)
(* Part 4: every read ignores expired keys                            *)
(* ================================================================== *)

Lemma run_snd {A} (m : M A) f d1 d2 :
  snd (m d1) = snd (m d2) -> snd (run m f d1) = snd (run m f d2).
Proof.
  unfold run. destruct (m d1) as [a1 r1], (m d2) as [a2 r2]. cbn [snd]. intros ->.
  destruct r2; reflexivity.
Qed.

Lemma run_lift_read {A} (g : db -> A) f d1 d2 :
  g d1 = g d2 -> snd (run (lift_read g) f d1) = snd (run (lift_read g) f d2).
Proof. intros E. apply run_snd. unfold lift_read. cbn [snd]. rewrite E. reflexivity. Qed.

(* derived row sets *)
Lemma live_hash_rows_purge now d key : Inv d ->
  live_hash_rows now (purge now d) key = live_hash_rows now d key.
Proof.
  intros I. unfold live_hash_rows. rewrite live_key_purge by exact I.
  destruct (live_key now d key T_HASH) as [k|] eqn:L; [|reflexivity].
  apply hash_rows_purge; [exact I | eapply live_key_safe; eauto].
Qed.

Lemma live_zset_rows_purge now d key : Inv d ->
  live_zset_rows now (purge now d) key = live_zset_rows now d key.
Proof.
  intros I. unfold live_zset_rows. rewrite live_key_purge by exact I.
  destruct (live_key now d key T_ZSET) as [k|] eqn:L; [|reflexivity].
  apply zset_rows_purge; [exact I | eapply live_key_safe; eauto].
Qed.

Lemma live_ids_safe (P : keyrow -> bool) now d id : Inv d ->
  In id (map k_id (filter (fun r => P r && live now r) (rkey d))) -> Safe now d id.
Proof.
  intros I H. apply in_map_iff in H as [r [<- Hr]]. apply filter_In in Hr as [Hr C].
  apply andb_true_iff in C as [_ L]. apply not_gone_live; assumption.
Qed.

Lemma rows_of_keys_purge now d keys : Inv d ->
  rows_of_keys now (purge now d) keys = rows_of_keys now d keys.
Proof.
  intros I. unfold rows_of_keys, live_set_ids.
  rewrite (live_filter_purge (fun r => str_in (k_key r) keys && (k_type r =? T_SET))).
  rewrite rset_purge by (apply Inv_fk; exact I).
  apply filter_filter_sub. intros x _ H. apply zmem_In in H.
  apply (live_ids_safe (fun r => str_in (k_key r) keys && (k_type r =? T_SET))) in H; [|exact I].
  unfold Safe in H. rewrite H. reflexivity.
Qed.

Lemma zrows_of_keys_purge now d keys : Inv d ->
  zrows_of_keys now (purge now d) keys = zrows_of_keys now d keys.
Proof.
  intros I. unfold zrows_of_keys, live_zset_ids.
  rewrite (live_filter_purge (fun r => str_in (k_key r) keys && (k_type r =? T_ZSET))).
  rewrite rzset_purge by (apply Inv_fk; exact I).
  apply filter_filter_sub. intros x _ H. apply zmem_In in H.
  apply (live_ids_safe (fun r => str_in (k_key r) keys && (k_type r =? T_ZSET))) in H; [|exact I].
  unfold Safe in H. rewrite H. reflexivity.
Qed.

Lemma rows_asc_purge now d id : Inv d -> Safe now d id -> rows_asc (purge now d) id = rows_asc d id.
Proof. intros. unfold rows_asc. rewrite list_rows_purge by assumption. reflexivity. Qed.
Lemma rows_desc_purge now d id : Inv d -> Safe now d id -> rows_desc (purge now d) id = rows_desc d id.
Proof. intros. unfold rows_desc. rewrite list_rows_purge by assumption. reflexivity. Qed.

(* ---------- rkey ---------- *)

Lemma rd_key_count now keys d :
  snd (key_count now keys (purge now d)) = snd (key_count now keys d).
Proof.
  unfold key_count, lift_read, count_keys. cbn [snd].
  rewrite (live_filter_purge (key_in keys)). reflexivity.
Qed.

Lemma rd_key_exists now key d :
  snd (key_exists now key (purge now d)) = snd (key_exists now key d).
Proof.
  unfold key_exists, bind, key_count, lift_read, count_keys, ret. cbn [snd].
  rewrite (live_filter_purge (key_in [key])). reflexivity.
Qed.

Lemma rd_key_get now key d : Inv d ->
  snd (key_get now key (purge now d)) = snd (key_get now key d).
Proof.
  intros I. unfold key_get. rewrite live_any_purge by exact I.
  destruct (live_any now d key); reflexivity.
Qed.

Lemma rd_key_random now c d :
  snd (key_random now c (purge now d)) = snd (key_random now c d).
Proof.
  unfold key_random. rewrite live_only_purge.
  destruct (filter (live now) (rkey d)) as [|first rest]; [reflexivity|].
  destruct c as [c|]; [|reflexivity].
  destruct (find _ (first :: rest)); reflexivity.
Qed.

(* ---------- rstring ---------- *)

Lemma rd_str_get now key d : Inv d ->
  snd (str_get now key (purge now d)) = snd (str_get now key d).
Proof.
  intros I. unfold str_get. rewrite live_key_purge by exact I.
  destruct (live_key now d key T_STRING) as [k|] eqn:L; [|reflexivity].
  rewrite find_sval_purge; [| exact I | eapply live_key_safe; eauto].
  destruct (find_sval d (k_id k)); reflexivity.
Qed.

Lemma str_get_many_purge now keys d : Inv d ->
  flat_map (fun k =>
      if str_in (k_key k) keys && (k_type k =? T_STRING) && live now k
      then match find_sval (purge now d) (k_id k) with Some v => [(k_key k, v)] | None => [] end
      else []) (rkey (purge now d)) =
  flat_map (fun k =>
      if str_in (k_key k) keys && (k_type k =? T_STRING) && live now k
      then match find_sval d (k_id k) with Some v => [(k_key k, v)] | None => [] end
      else []) (rkey d).
Proof.
  intros I. rewrite rkey_purge. apply flat_map_filter.
  - intros r Hr E. apply negb_true_iff in E.
    rewrite find_sval_purge; [reflexivity | exact I | apply not_gone; assumption].
  - intros r Hr E. apply negb_false_iff in E.
    rewrite C10_live_not_expired, E. cbn [negb]. rewrite andb_false_r. reflexivity.
Qed.

(* ---------- rlist ---------- *)

Lemma rd_list_get now key idx d : Inv d ->
  snd (list_get now key idx (purge now d)) = snd (list_get now key idx d).
Proof.
  intros I. unfold list_get. destruct (norm_idx idx) as [rev_ i].
  rewrite live_key_purge by exact I.
  destruct (live_key now d key T_LIST) as [k|] eqn:L; [|reflexivity].
  pose proof (live_key_safe _ _ _ _ _ I L) as S.
  rewrite rows_desc_purge, rows_asc_purge by assumption.
  destruct (znth i _); reflexivity.
Qed.

Lemma rd_list_len now key d : Inv d ->
  snd (list_len now key (purge now d)) = snd (list_len now key d).
Proof.
  intros I. unfold list_len. rewrite live_key_purge by exact I.
  destruct (live_key now d key T_LIST) as [k|]; [|reflexivity].
  destruct (k_len k); reflexivity.
Qed.

Lemma rd_list_range now key a b d : Inv d ->
  snd (list_range now key a b (purge now d)) = snd (list_range now key a b d).
Proof.
  intros I. unfold list_range.
  destruct ((b <? a) && ((0 <? a) && (0 <? b) || (a <? 0) && (b <? 0))); [reflexivity|].
  rewrite live_key_purge by exact I.
  destruct (live_key now d key T_LIST) as [k|] eqn:L; [|reflexivity].
  pose proof (live_key_safe _ _ _ _ _ I L) as S.
  destruct (range_window (k_len k) a b) as [off cnt].
  rewrite rows_asc_purge by assumption. reflexivity.
Qed.

(* ---------- rset ---------- *)

Lemma q_alg_purge a now d keys : Inv d -> q_alg a now (purge now d) keys = q_alg a now d keys.
Proof.
  intros I. destruct a; unfold q_alg.
  - unfold q_union. rewrite rows_of_keys_purge by exact I. reflexivity.
  - unfold q_inter. rewrite rows_of_keys_purge by exact I. reflexivity.
  - unfold q_diff. destruct keys as [|first others]; [reflexivity|].
    rewrite rows_of_keys_purge, live_key_purge by exact I.
    destruct (live_key now d first T_SET) as [k|] eqn:L; [|reflexivity].
    rewrite set_rows_purge; [reflexivity | exact I | eapply live_key_safe; eauto].
Qed.

Lemma rd_set_alg a now keys d : Inv d ->
  snd (set_alg a now keys (purge now d)) = snd (set_alg a now keys d).
Proof.
  intros I. unfold set_alg. destruct keys as [|k ks]; [reflexivity|].
  unfold lift_read. cbn [snd]. rewrite q_alg_purge by exact I. reflexivity.
Qed.

Lemma rd_set_exists now key v d : Inv d ->
  snd (set_exists now key v (purge now d)) = snd (set_exists now key v d).
Proof.
  intros I. unfold set_exists, bind, lift_read, ret, fail.
  destruct (to_bytes v) as [eb|]; [|reflexivity]. cbn [snd].
  rewrite live_key_purge by exact I.
  destruct (live_key now d key T_SET) as [k|] eqn:L; [|reflexivity].
  rewrite set_rows_purge; [reflexivity | exact I | eapply live_key_safe; eauto].
Qed.

Lemma set_items_purge now key d : Inv d ->
  match live_key now (purge now d) key T_SET with
  | Some k => map e_elem (set_rows (purge now d) (k_id k))
  | None => []
  end =
  match live_key now d key T_SET with
  | Some k => map e_elem (set_rows d (k_id k))
  | None => []
  end.
Proof.
  intros I. rewrite live_key_purge by exact I.
  destruct (live_key now d key T_SET) as [k|] eqn:L; [|reflexivity].
  rewrite set_rows_purge; [reflexivity | exact I | eapply live_key_safe; eauto].
Qed.

Lemma rd_set_len now key d : Inv d ->
  snd (set_len now key (purge now d)) = snd (set_len now key d).
Proof.
  intros I. unfold set_len. rewrite live_key_purge by exact I.
  destruct (live_key now d key T_SET) as [k|]; [|reflexivity].
  destruct (k_len k); reflexivity.
Qed.

Lemma rd_set_random now key c d : Inv d ->
  snd (set_random now key c (purge now d)) = snd (set_random now key c d).
Proof.
  intros I. unfold set_random. rewrite live_key_purge by exact I.
  destruct (live_key now d key T_SET) as [k|] eqn:L; [|reflexivity].
  rewrite set_rows_purge; [| exact I | eapply live_key_safe; eauto].
  destruct (set_rows d (k_id k)) as [|first rest]; [reflexivity|].
  destruct c as [c|]; [|reflexivity].
  destruct (existsb _ (first :: rest)); reflexivity.
Qed.

Lemma set_scan_purge now key cursor pat count d : Inv d ->
  match live_key now (purge now d) key T_SET with
  | None => (0, [])
  | Some k =>
      let rows := filter (fun r => (cursor <? e_rid r) && glob pat (e_elem r))
                         (set_rows (purge now d) (k_id k)) in
      let page := sql_limit 0 count rows in
      (zmax_list (map e_rid page), map e_elem page)
  end =
  match live_key now d key T_SET with
  | None => (0, [])
  | Some k =>
      let rows := filter (fun r => (cursor <? e_rid r) && glob pat (e_elem r))
                         (set_rows d (k_id k)) in
      let page := sql_limit 0 count rows in
      (zmax_list (map e_rid page), map e_elem page)
  end.
Proof.
  intros I. rewrite live_key_purge by exact I.
  destruct (live_key now d key T_SET) as [k|] eqn:L; [|reflexivity].
  rewrite set_rows_purge; [reflexivity | exact I | eapply live_key_safe; eauto].
Qed.

(* ---------- rhash ---------- *)

Lemma rd_hash_get now key f d : Inv d ->
  snd (hash_get now key f (purge now d)) = snd (hash_get now key f d).
Proof.
  intros I. unfold hash_get. rewrite live_hash_rows_purge by exact I.
  destruct (find _ (live_hash_rows now d key)); reflexivity.
Qed.

Lemma rd_hash_exists now key f d : Inv d ->
  snd (hash_exists now key f (purge now d)) = snd (hash_exists now key f d).
Proof.
  intros I. unfold hash_exists, bind, hash_count, lift_read, ret. cbn [snd].
  rewrite live_hash_rows_purge by exact I. reflexivity.
Qed.

Lemma rd_hash_len now key d : Inv d ->
  snd (hash_len now key (purge now d)) = snd (hash_len now key d).
Proof.
  intros I. unfold hash_len. rewrite live_key_purge by exact I.
  destruct (live_key now d key T_HASH) as [k|]; [|reflexivity].
  destruct (k_len k); reflexivity.
Qed.

(* ---------- rzset ---------- *)

Lemma rd_zset_get_rank now key v desc d : Inv d ->
  snd (zset_get_rank now key v desc (purge now d)) = snd (zset_get_rank now key v desc d).
Proof.
  intros I. unfold zset_get_rank, bind, bytes_args.
  destruct (values_bytes [v]) as [l|]; [|reflexivity]. unfold ret.
  rewrite live_zset_rows_purge by exact I.
  destruct l as [|[e|] [|? ?]]; try reflexivity.
  destruct (index_of e _ 0); reflexivity.
Qed.

Lemma rd_zset_get_score now key v d : Inv d ->
  snd (zset_get_score now key v (purge now d)) = snd (zset_get_score now key v d).
Proof.
  intros I. unfold zset_get_score, bind, bytes_args.
  destruct (values_bytes [v]) as [l|]; [|reflexivity]. unfold ret.
  rewrite live_zset_rows_purge by exact I.
  destruct l as [|[e|] [|? ?]]; try reflexivity.
  destruct (find _ (live_zset_rows now d key)); reflexivity.
Qed.

Lemma rd_zset_alg inter g now keys d : Inv d ->
  snd (zset_alg inter g now keys (purge now d)) = snd (zset_alg inter g now keys d).
Proof.
  intros I. unfold zset_alg, zq. rewrite zrows_of_keys_purge by exact I.
  destruct (has_nan _); reflexivity.
Qed.

Lemma rd_zset_len now key d : Inv d ->
  snd (zset_len now key (purge now d)) = snd (zset_len now key d).
Proof.
  intros I. unfold zset_len. rewrite live_key_purge by exact I.
  destruct (live_key now d key T_ZSET) as [k|]; [|reflexivity].
  destruct (k_len k); reflexivity.
Qed.

Lemma rd_zset_range_rank now key a b desc d : Inv d ->
  snd (zset_range_rank now key a b desc (purge now d)) = snd (zset_range_rank now key a b desc d).
Proof.
  intros I. unfold zset_range_rank. destruct ((a <? 0) || (b <? 0)); [reflexivity|].
  unfold lift_read. cbn [snd]. rewrite live_zset_rows_purge by exact I. reflexivity.
Qed.

Theorem C10_reads_ignore_expired : forall b now o d,
  Inv d -> is_read o = true -> o <> KLen ->
  snd (exec_tx b now o (purge now d)) = snd (exec_tx b now o d).
Proof.
  intros b now o d I R NL.
  destruct o; try discriminate R; cbn [exec_tx].
  - (* KCount *) apply run_snd. apply rd_key_count.
  - (* KExists *) apply run_snd. apply rd_key_exists.
  - (* KGet *) apply run_snd. apply rd_key_get. exact I.
  - (* KKeys *) apply run_lift_read. apply (live_filter_purge (fun r => glob pat (k_key r))).
  - (* KLen *) congruence.
  - (* KRandom *) apply run_snd. apply rd_key_random.
  - (* KScan *) apply run_lift_read.
    rewrite (live_filter_purge (fun r => (cursor <? k_id r) && glob pat (k_key r)
                                          && ((ktype =? 0) || (k_type r =? ktype)))).
    reflexivity.
  - (* SGet *) apply run_snd. apply rd_str_get. exact I.
  - (* SGetMany *) apply run_lift_read. apply str_get_many_purge. exact I.
  - (* LGet *) apply run_snd. apply rd_list_get. exact I.
  - (* LLen *) apply run_snd. apply rd_list_len. exact I.
  - (* LRange *) apply run_snd. apply rd_list_range. exact I.
  - (* EAlg *) apply run_snd. apply rd_set_alg. exact I.
  - (* EExists *) apply run_snd. apply rd_set_exists. exact I.
  - (* EItems *) apply run_lift_read. apply set_items_purge. exact I.
  - (* ELen *) apply run_snd. apply rd_set_len. exact I.
  - (* ERandom *) apply run_snd. apply rd_set_random. exact I.
  - (* EScan *) apply run_lift_read. apply set_scan_purge. exact I.
  - (* HExists *) apply run_snd. apply rd_hash_exists. exact I.
  - (* HFields *) apply run_lift_read. rewrite live_hash_rows_purge by exact I. reflexivity.
  - (* HGet *) apply run_snd. apply rd_hash_get. exact I.
  - (* HGetMany *) apply run_lift_read. rewrite live_hash_rows_purge by exact I. reflexivity.
  - (* HItems *) apply run_lift_read. rewrite live_hash_rows_purge by exact I. reflexivity.
  - (* HLen *) apply run_snd. apply rd_hash_len. exact I.
  - (* HScan *) apply run_lift_read. rewrite live_hash_rows_purge by exact I. reflexivity.
  - (* HValues *) apply run_lift_read. rewrite live_hash_rows_purge by exact I. reflexivity.
  - (* ZCount *) apply run_lift_read. rewrite live_zset_rows_purge by exact I. reflexivity.
  - (* ZGetRank *) apply run_snd. apply rd_zset_get_rank. exact I.
  - (* ZGetScore *) apply run_snd. apply rd_zset_get_score. exact I.
  - (* ZAlg *) apply run_snd. apply rd_zset_alg. exact I.
  - (* ZLen *) apply run_snd. apply rd_zset_len. exact I.
  - (* ZRangeRank *) apply run_snd. apply rd_zset_range_rank. exact I.
  - (* ZRangeScore *) apply run_lift_read. rewrite live_zset_rows_purge by exact I. reflexivity.
  - (* ZScan *) apply run_lift_read. rewrite live_zset_rows_purge by exact I. reflexivity.
Qed.

(* ================================================================== *)
(* Part 5: the cleaner                                                *)
(* ================================================================== *)

Lemma zlen_map {A B} (f : A -> B) l : zlen (map f l) = zlen l.
Proof. unfold zlen. rewrite map_length. reflexivity. Qed.

(* children of the purged state: exactly those whose owner is still there *)
Lemma child_purge_iff {A} (kid : A -> Z) (tbl : list A) now d T :
  Inv d -> 1 <= T <= 5 -> kidsOf d T = map kid tbl ->
  forall x, In x (filter (fun r => negb (zmem (kid r) (gone now d))) tbl) <->
            In x tbl /\ exists k, In k (rkey (purge now d)) /\ k_id k = kid x.
Proof.
  intros I HT HK x. rewrite filter_In. split.
  - intros [Hx G]. split; [exact Hx|]. apply negb_true_iff in G.
    pose proof I as IH. apply Inv_iff in IH.
    destruct (a_own _ _ _ (i_a _ _ IH) T (kid x) HT) as [r [Hr [E _]]].
    { rewrite HK. apply in_map. exact Hx. }
    exists r. split; [|exact E]. rewrite rkey_purge. apply filter_In. split; [exact Hr|].
    destruct (expired now r) eqn:X; [|reflexivity]. exfalso.
    apply zmem_false in G. apply G. unfold gone. rewrite <- E. apply in_map.
    apply filter_In. split; assumption.
  - intros [Hx [k [Hk E]]]. split; [exact Hx|]. rewrite rkey_purge in Hk.
    apply filter_In in Hk as [Hk X]. apply negb_true_iff in X.
    rewrite <- E. rewrite (not_gone now d k I Hk X). reflexivity.
Qed.

Theorem C10_cleaner_exact : forall now d, Inv d ->
  let '(d', r) := key_delete_expired now 0 d in
  d' = purge now d /\
  r = Ok (zlen (filter (expired now) (rkey d))) /\
  rkey d' = filter (fun k => negb (expired now k)) (rkey d) /\
  (forall x, In x (rstring d') <-> In x (rstring d) /\ exists k, In k (rkey d') /\ k_id k = s_kid x) /\
  (forall x, In x (rlist d') <-> In x (rlist d) /\ exists k, In k (rkey d') /\ k_id k = l_kid x) /\
  (forall x, In x (rset d') <-> In x (rset d) /\ exists k, In k (rkey d') /\ k_id k = e_kid x) /\
  (forall x, In x (rhash d') <-> In x (rhash d) /\ exists k, In k (rkey d') /\ k_id k = h_kid x) /\
  (forall x, In x (rzset d') <-> In x (rzset d) /\ exists k, In k (rkey d') /\ k_id k = z_kid x).
Proof.
  intros now d I. unfold key_delete_expired. change (0 <? 0) with false. cbv iota.
  destruct (delete_keys (expired now) d) as [d' c] eqn:D.
  assert (E1 : d' = purge now d) by (unfold purge; rewrite D; reflexivity).
  assert (E2 : c = zlen (filter (expired now) (rkey d))).
  { unfold delete_keys in D. injection D as _ <-. apply zlen_map. }
  subst d' c. pose proof (Inv_fk _ I) as FK.
  split; [reflexivity|]. split; [reflexivity|]. split; [apply rkey_purge|].
  split; [|split; [|split; [|split]]].
  - rewrite rstring_purge by exact FK. apply (child_purge_iff s_kid _ now d 1 I); [lia | reflexivity].
  - rewrite rlist_purge by exact FK. apply (child_purge_iff l_kid _ now d 2 I); [lia | reflexivity].
  - rewrite rset_purge by exact FK. apply (child_purge_iff e_kid _ now d 3 I); [lia | reflexivity].
  - rewrite rhash_purge by exact FK. apply (child_purge_iff h_kid _ now d 4 I); [lia | reflexivity].
  - rewrite rzset_purge by exact FK. apply (child_purge_iff z_kid _ now d 5 I); [lia | reflexivity].
Qed.

(* ---------- sorting and taking ---------- *)

Lemma insert_sorted_perm {A} (le : A -> A -> bool) x l :
  Permutation (insert_sorted le x l) (x :: l).
Proof.
  induction l as [|y r IH]; cbn [insert_sorted]; [apply Permutation_refl|].
  destruct (le x y); [apply Permutation_refl|].
  eapply Permutation_trans; [apply perm_skip; exact IH | apply perm_swap].
Qed.

Lemma isort_perm {A} (le : A -> A -> bool) l : Permutation (isort le l) l.
Proof.
  induction l as [|x r IH]; cbn [isort]; [apply Permutation_refl|].
  eapply Permutation_trans; [apply insert_sorted_perm | apply perm_skip; exact IH].
Qed.

Lemma ztake_In {A} (l : list A) : forall n x, In x (ztake n l) -> In x l.
Proof.
  induction l as [|y r IH]; intros n x H; cbn [ztake] in H; [exact H|].
  destruct (n <=? 0); [destruct H|]. destruct H as [H|H]; [left; exact H | right; eapply IH; exact H].
Qed.

Lemma ztake_NoDup {A} (l : list A) : forall n, NoDup l -> NoDup (ztake n l).
Proof.
  induction l as [|y r IH]; intros n H; cbn [ztake]; [constructor|].
  destruct (n <=? 0); [constructor|]. inversion H as [|? ? Hn Hr]; subst.
  constructor; [|apply IH; exact Hr]. intros K. apply Hn. eapply ztake_In; exact K.
Qed.

Lemma ztake_zlen {A} (l : list A) : forall n, 0 <= n -> zlen (ztake n l) = Z.min n (zlen l).
Proof.
  induction l as [|y r IH]; intros n Hn; cbn [ztake].
  - rewrite zlen_nil. lia.
  - destruct (Z.leb_spec n 0).
    + rewrite zlen_nil. pose proof (zlen_nonneg (y :: r)). lia.
    + rewrite !zlen_cons, IH by lia. lia.
Qed.

Lemma NoDup_of_map {A B} (f : A -> B) l : NoDup (map f l) -> NoDup l.
Proof.
  induction l as [|x r IH]; intros H; [constructor|].
  cbn [map] in H. inversion H as [|? ? Hn Hr]; subst. constructor; [|apply IH; exact Hr].
  intros K. apply Hn. apply in_map. exact K.
Qed.

Lemma zlen_perm {A} (a b : list A) : Permutation a b -> zlen a = zlen b.
Proof. intros P. unfold zlen. rewrite (Permutation_length P). reflexivity. Qed.

Theorem C10_cleaner_limited : forall now n d, 0 < n -> Inv d ->
  let '(d', r) := key_delete_expired now n d in
  r = Ok (Z.min n (zlen (filter (expired now) (rkey d)))) /\
  (forall k, In k (rkey d) -> expired now k = false -> In k (rkey d')) /\
  (forall k, In k (rkey d') -> In k (rkey d)).
Proof.
  intros now n d Hn I. unfold key_delete_expired.
  assert (N : (0 <? n) = true) by lia. rewrite N.
  set (V := ztake n (isort key_le (filter (expired now) (rkey d)))).
  destruct (delete_keys (fun r => zmem (k_id r) (map k_id V)) d) as [d' c] eqn:D.
  assert (Ed : d' = fst (delete_keys (fun r => zmem (k_id r) (map k_id V)) d)) by (rewrite D; reflexivity).
  assert (Ec : c = zlen (filter (fun r => zmem (k_id r) (map k_id V)) (rkey d))).
  { unfold delete_keys in D. injection D as _ <-. apply zlen_map. }
  pose proof (Inv_ids _ I) as ND.
  assert (VS : forall v, In v V -> In v (rkey d) /\ expired now v = true).
  { intros v Hv. unfold V in Hv. apply ztake_In in Hv.
    apply (Permutation_in _ (isort_perm key_le _)) in Hv. apply filter_In in Hv. exact Hv. }
  assert (VN : NoDup V).
  { unfold V. apply ztake_NoDup. eapply Permutation_NoDup; [apply Permutation_sym, isort_perm|].
    apply NoDup_filter'. eapply NoDup_of_map; exact ND. }
  assert (HIT : forall r, In r (rkey d) -> (zmem (k_id r) (map k_id V) = true <-> In r V)).
  { intros r Hr. rewrite zmem_In. split.
    - intros H. apply in_map_iff in H as [v [E Hv]].
      assert (v = r) by (eapply NoDup_map_inj; [exact ND | apply VS; exact Hv | exact Hr | exact E]).
      subst. exact Hv.
    - intros H. apply in_map. exact H. }
  split; [|split].
  - rewrite Ec. f_equal.
    assert (P : Permutation (filter (fun r => zmem (k_id r) (map k_id V)) (rkey d)) V).
    { apply NoDup_Permutation.
      - apply NoDup_filter'. eapply NoDup_of_map; exact ND.
      - exact VN.
      - intros r. rewrite filter_In. split.
        + intros [Hr H]. apply HIT; assumption.
        + intros H. split; [apply VS; exact H|]. apply HIT; [apply VS; exact H | exact H]. }
    rewrite (zlen_perm _ _ P). unfold V. rewrite ztake_zlen by lia.
    rewrite (zlen_perm _ _ (isort_perm key_le _)). reflexivity.
  - intros k Hk X. rewrite Ed, rkey_delete. apply filter_In. split; [exact Hk|].
    apply negb_true_iff. destruct (zmem (k_id k) (map k_id V)) eqn:Z; [|reflexivity].
    apply HIT in Z; [|exact Hk]. apply VS in Z as [_ Z]. congruence.
  - intros k Hk. rewrite Ed, rkey_delete in Hk. apply filter_In in Hk as [Hk _]. exact Hk.
Qed.

(* ================================================================== *)
(* Part 6: an expired row is reset before a creating write            *)
(* ================================================================== *)

Lemma trigG_id now n r : k_id (trigG now n r) = k_id r.
Proof. unfold trigG. destruct (n =? 0); reflexivity. Qed.
Lemma trigG_key now n r : k_key (trigG now n r) = k_key r.
Proof. unfold trigG. destruct (n =? 0); reflexivity. Qed.

Theorem C10_reset_makes_fresh : forall now key typ d r,
  find_key d key = Some r -> expired now r = true ->
  let d' := reset_expired now key typ d in
  exists r', find_key d' key = Some r' /\ k_id r' = k_id r /\ k_type r' = typ /\ k_etime r' = None /\
             k_len r' = (if typ =? 1 then None else Some 0) /\
             (forall x, In x (rstring d') -> s_kid x <> k_id r) /\ (forall x, In x (rlist d') -> l_kid x <> k_id r) /\
             (forall x, In x (rset d') -> e_kid x <> k_id r) /\ (forall x, In x (rhash d') -> h_kid x <> k_id r) /\
             (forall x, In x (rzset d') -> z_kid x <> k_id r).
Proof.
  intros now key typ d r F X. cbv zeta. unfold reset_expired. rewrite F, X.
  rewrite trig_list_delete_eq.
  set (id := k_id r).
  set (nl := zlen (filter (fun x => l_kid x =? id) (rlist d))).
  set (G := fun x => mkKey (k_id x) (k_key x) typ (k_ver x) None (k_mtime x)
                          (if typ =? 1 then None else Some 0)).
  set (F1 := fun x => if k_id x =? id then trigG now nl x else x).
  set (F2 := fun x => if k_id x =? id then G x else x).
  exists (F2 (F1 r)).
  assert (K1 : forall x, k_key (F1 x) = k_key x).
  { intros x. unfold F1. destruct (k_id x =? id); [apply trigG_key | reflexivity]. }
  assert (K2 : forall x, k_key (F2 x) = k_key x).
  { intros x. unfold F2. destruct (k_id x =? id); reflexivity. }
  assert (R1 : F1 r = trigG now nl r).
  { unfold F1. fold id. rewrite Z.eqb_refl. reflexivity. }
  assert (R2 : F2 (F1 r) = G (trigG now nl r)).
  { rewrite R1. unfold F2. rewrite trigG_id. fold id. rewrite Z.eqb_refl. reflexivity. }
  split.
  - unfold find_key, upd_key_id, upd_keys. cbn [rkey set_rkey].
    change (map (fun a => if k_id a =? id then G a else a)
                (map (fun b => if k_id b =? id then trigG now nl b else b) (rkey d)))
      with (map F2 (map F1 (rkey d))).
    rewrite (find_map_key F2 key _ K2), (find_map_key F1 key _ K1).
    unfold find_key in F. rewrite F. reflexivity.
  - rewrite R2. unfold G. cbn [k_id k_type k_etime k_len]. rewrite trigG_id.
    split; [reflexivity|]. split; [reflexivity|]. split; [reflexivity|]. split; [reflexivity|].
    unfold upd_key_id, upd_keys. cbn [rstring rlist rset rhash rzset set_rkey].
    repeat split; intros x H; apply filter_In in H as [_ H];
      apply negb_true_iff in H; lia.
Qed.

Print Assumptions C10_boundary.
Print Assumptions C10_live_not_expired.
Print Assumptions C10_purge_abs.
Print Assumptions C10_purge_inv.
Print Assumptions C10_purge_no_expired.
Print Assumptions C10_reads_ignore_expired.
Print Assumptions C10_cleaner_exact.
Print Assumptions C10_cleaner_limited.
Print Assumptions C10_reset_makes_fresh.
