(* ImplSet.v — internal/rset/tx.go, statement by statement, with the
   rset_on_insert trigger.  No proofs here. *)
From Redka Require Import Base Db Glob.

Definition set_rows (d : db) (kid : Z) : list erow :=
  filter (fun r => e_kid r =? kid) (rset d).
Definition next_set_rid (d : db) : Z := zmax_list (map e_rid (rset d)) + 1.

Fixpoint values_bytes (vs : list value) : option (list (option bytes)) :=
  match vs with
  | [] => Some []
  | v :: r =>
      match to_bytes v, values_bytes r with
      | Some b, Some bs => Some (b :: bs)
      | _, _ => None
      end
  end.
Definition bytes_args (vs : list value) : M (list (option bytes)) :=
  match values_bytes vs with Some l => ret l | None => fail EValueType end.

Definition opt_in (e : bytes) (l : list (option bytes)) : bool :=
  existsb (fun o => match o with Some x => String.eqb x e | None => false end) l.

(* sqlAdd1: the type-guarded upsert of a set key (len 0 for a new key) *)
Definition set_add1 (now : Z) (key : bytes) : M keyrow :=
  typed_error (upsert_key now key T_SET None (Some 0) (fun r => r)).

(* sqlAdd2: insert into rset (kid, elem) values (?, ?) on conflict (kid, elem)
   do nothing returning 1; the AFTER INSERT trigger adds 1 to len *)
Definition set_add2 (kid : Z) (elem : option bytes) : M bool :=
  fun d =>
    match elem with
    | None => (d, Err (ESql (SqNotNull "rset.elem")))
    | Some e =>
        if existsb (fun r => (e_kid r =? kid) && String.eqb (e_elem r) e) (rset d)
        then (d, Ok false)
        else
          let d1 := set_rset d (rset d ++ [mkE (next_set_rid d) kid e]) in
          (upd_key_id kid (fun r => with_len r (opt_add (k_len r) 1)) d1, Ok true)
    end.

Fixpoint set_add_each (kid : Z) (elems : list (option bytes)) (n : Z) : M Z :=
  match elems with
  | [] => ret n
  | e :: r => c <- set_add2 kid e ;; set_add_each kid r (if c then n + 1 else n)
  end.

Definition set_add (now : Z) (key : bytes) (vs : list value) : M Z :=
  elembs <- bytes_args vs ;;
  k <- set_add1 now key ;;
  set_add_each (k_id k) elembs 0.

(* sqlDelete1 / sqlDelete2 *)
Definition set_delete (now : Z) (key : bytes) (vs : list value) : M Z :=
  elembs <- bytes_args vs ;;
  fun d =>
    match live_key now d key T_SET with
    | None => (d, Ok 0)
    | Some k =>
        let hit := fun r => (e_kid r =? k_id k) && opt_in (e_elem r) elembs in
        let n := zlen (filter hit (rset d)) in
        if n =? 0 then (d, Ok 0)
        else (bump_key_len now key T_SET n (set_rset d (filter (fun r => negb (hit r)) (rset d))), Ok n)
    end.

(* ids of the live set keys named in [keys] *)
Definition live_set_ids (now : Z) (d : db) (keys : list bytes) : list Z :=
  map k_id (filter (fun r => str_in (k_key r) keys && (k_type r =? T_SET) && live now r) (rkey d)).

(* elements of the rows joined with those keys *)
Definition rows_of_keys (now : Z) (d : db) (keys : list bytes) : list erow :=
  let ids := live_set_ids now d keys in
  filter (fun r => zmem (e_kid r) ids) (rset d).

Fixpoint dedup_bytes (l : list bytes) : list bytes :=
  match l with
  | [] => []
  | x :: r => if str_in x r then dedup_bytes r else x :: dedup_bytes r
  end.

(* "group by elem": the distinct elements, in elem order *)
Definition group_elems (rows : list erow) : list bytes :=
  isort String.leb (dedup_bytes (map e_elem rows)).

Definition count_distinct_kid (rows : list erow) (e : bytes) : Z :=
  let kids := map e_kid (filter (fun r => String.eqb (e_elem r) e) rows) in
  zlen (fold_right (fun k acc => if zmem k acc then acc else k :: acc) [] kids).

Definition q_union (now : Z) (d : db) (keys : list bytes) : list bytes :=
  group_elems (rows_of_keys now d keys).
(* having count(distinct kid) = sqlx.CountDistinct(keys) *)
Definition q_inter (now : Z) (d : db) (keys : list bytes) : list bytes :=
  let rows := rows_of_keys now d keys in
  filter (fun e => count_distinct_kid rows e =? zlen (dedup keys)) (group_elems rows).
Definition q_diff (now : Z) (d : db) (keys : list bytes) : list bytes :=
  match keys with
  | [] => []
  | first :: others =>
      let oth := map e_elem (rows_of_keys now d others) in
      match live_key now d first T_SET with
      | None => []
      | Some k => isort String.leb (filter (fun e => negb (str_in e oth)) (map e_elem (set_rows d (k_id k))))
      end
  end.

Inductive setalg := AUnion | AInter | ADiff.
Definition q_alg (a : setalg) := match a with AUnion => q_union | AInter => q_inter | ADiff => q_diff end.

Definition set_alg (a : setalg) (now : Z) (keys : list bytes) : M (list bytes) :=
  match keys with
  | [] => ret []
  | _ => lift_read (fun d => q_alg a now d keys)
  end.

(* deleteKey: sqlDeleteKey1 (no trigger on rset deletes) and sqlDeleteKey2 *)
Definition set_delete_key (now : Z) (key : bytes) : M unit :=
  fun d =>
    match live_key now d key T_SET with
    | None => (d, Ok tt)
    | Some k =>
        let d1 := set_rset d (filter (fun r => negb (e_kid r =? k_id k)) (rset d)) in
        (upd_key_id (k_id k) (fun r => with_len (with_mtime (with_ver r 0) 0) (Some 0)) d1, Ok tt)
    end.

(* replace(): deleteKey, createKey, then one sqlAdd2 per element; the result
   was computed by the caller before the destination is emptied *)
Fixpoint set_add_all (kid : Z) (elems : list bytes) : M unit :=
  match elems with
  | [] => ret tt
  | e :: r => set_add2 kid (Some e) ;;; set_add_all kid r
  end.

Definition set_replace (now : Z) (dest : bytes) (elems : list bytes) : M Z :=
  set_delete_key now dest ;;;
  k <- set_add1 now dest ;;
  set_add_all (k_id k) elems ;;;
  ret (zlen elems).

Definition set_store (a : setalg) (now : Z) (dest : bytes) (keys : list bytes) : M Z :=
  match keys with
  | [] => ret 0
  | _ =>
      elems <- set_alg a now keys ;;
      set_replace now dest elems
  end.

(* statement-level atomicity of a multi-row statement *)
Definition stmt_atomic {A} (m : M A) : M A :=
  fun d => let '(d1, r) := m d in match r with Ok _ => (d1, r) | Err _ => (d, r) end.

Definition set_exists (now : Z) (key : bytes) (v : value) : M bool :=
  elemb <- (match to_bytes v with Some b => ret b | None => fail EValueType end) ;;
  lift_read (fun d =>
    match live_key now d key T_SET, elemb with
    | Some k, Some e => existsb (fun r => String.eqb (e_elem r) e) (set_rows d (k_id k))
    | _, _ => false
    end).

Definition set_items (now : Z) (key : bytes) : M (list bytes) :=
  lift_read (fun d => match live_key now d key T_SET with
                      | Some k => map e_elem (set_rows d (k_id k))
                      | None => []
                      end).

Definition set_len (now : Z) (key : bytes) : M Z :=
  fun d =>
    match live_key now d key T_SET with
    | None => (d, Ok 0)
    | Some k => match k_len k with Some n => (d, Ok n) | None => (d, Err (ESql SqScanNull)) end
    end.

Definition set_move (now : Z) (src dest : bytes) (v : value) : M unit :=
  n <- set_delete now src [v] ;;
  if n =? 0 then fail ENotFound else
  set_add now dest [v] ;;; ret tt.

(* sqlPop1 ("order by random() limit 1": the chosen element is an oracle
   input and must be a member) then sqlPop2 *)
Definition set_pop (now : Z) (key : bytes) (choice : option bytes) : M bytes :=
  fun d =>
    match live_key now d key T_SET with
    | None => (d, Err ENotFound)
    | Some k =>
        match set_rows d (k_id k) with
        | [] => (d, Err ENotFound)
        | first :: _ =>
            let e := match choice with
                     | Some c => if existsb (fun r => String.eqb (e_elem r) c) (set_rows d (k_id k))
                                 then c else e_elem first
                     | None => e_elem first
                     end in
            let d1 := set_rset d (filter (fun r => negb ((e_kid r =? k_id k) && String.eqb (e_elem r) e)) (rset d)) in
            (bump_key_len now key T_SET 1 d1, Ok e)
        end
    end.

Definition set_random (now : Z) (key : bytes) (choice : option bytes) : M bytes :=
  fun d =>
    match live_key now d key T_SET with
    | None => (d, Err ENotFound)
    | Some k =>
        match set_rows d (k_id k) with
        | [] => (d, Err ENotFound)
        | first :: _ =>
            match choice with
            | Some c => if existsb (fun r => String.eqb (e_elem r) c) (set_rows d (k_id k))
                        then (d, Ok c) else (d, Ok (e_elem first))
            | None => (d, Ok (e_elem first))
            end
        end
    end.

(* sqlScan: "... rset.rowid > ? and elem glob ? order by rset.rowid limit ?" *)
Definition set_scan (now : Z) (key : bytes) (cursor : Z) (pat : bytes) (count : Z)
  : M (Z * list bytes) :=
  lift_read (fun d =>
    let count := if count =? 0 then 10 else count in
    match live_key now d key T_SET with
    | None => (0, [])
    | Some k =>
        let rows := filter (fun r => (cursor <? e_rid r) && glob pat (e_elem r))
                           (set_rows d (k_id k)) in
        let page := sql_limit 0 count rows in
        (zmax_list (map e_rid page), map e_elem page)
    end).
