(* ProofRefineList.v — C02: the DB-level list operations of the faithful model
   refine the abstract sequence specification. *)
From Redka Require Import Base Db Glob ImplKey ImplString ImplList ImplSet ImplHash ImplZSet Ops Spec Abs Inv Excl Refine ProofNoTrace ProofInv ProofInv2 ProofRange ProofRefineStr.
From Coq Require Import Permutation Lia ZifyBool Sorted.

Definition list_op (o : op) : bool :=
  match o with
  | LDelete _ _ | LDeleteBack _ _ _ | LDeleteFront _ _ _ | LGet _ _ | LLen _ | LPopBack _ | LPopFront _
  | LPushBack _ _ | LPushFront _ _ | LRange _ _ _ | LSet _ _ _ | LTrim _ _ _ | LPopBackPushFront _ _ => true
  | _ => false
  end.   (* the pivot inserts are treated separately *)
(* index arguments are Go ints *)
Definition wf_lop (o : op) : Prop :=
  match o with
  | LGet _ i | LSet _ i _ => in_int64 i = true
  | _ => True
  end.

(* the element sequence of a key: rows sorted by position *)
Definition seq_of (d : db) (kid : Z) : list bytes := map l_elem (rows_asc d kid).

(* ================================================================== *)
(* Part 1: insertion sort with a total preorder                       *)
(* ================================================================== *)

Section SortGen.
  Context {A : Type} (le : A -> A -> bool).
  Definition leP (a b : A) : Prop := le a b = true.
  Hypothesis le_trans : forall x y z, le x y = true -> le y z = true -> le x z = true.

  Definition TotOn (l : list A) : Prop :=
    forall x y, In x l -> In y l -> le x y = true \/ le y x = true.
  Definition AntiOn (l : list A) : Prop :=
    forall x y, In x l -> In y l -> le x y = true -> le y x = true -> x = y.

  Lemma insert_sorted_In x l y : In y (insert_sorted le x l) <-> y = x \/ In y l.
  Proof.
    induction l as [|z r IH]; cbn [insert_sorted].
    - cbn. intuition congruence.
    - destruct (le x z).
      + cbn. intuition congruence.
      + cbn [In]. rewrite IH. intuition congruence.
  Qed.

  Lemma insert_sorted_SS x l :
    StronglySorted leP l -> (forall y, In y l -> le x y = true \/ le y x = true) ->
    StronglySorted leP (insert_sorted le x l).
  Proof.
    induction l as [|z r IH]; intros S T; cbn [insert_sorted].
    - constructor; constructor.
    - inversion S as [|? ? Sr Fz]; subst. destruct (le x z) eqn:E.
      + constructor; [exact S|]. constructor; [exact E|].
        rewrite Forall_forall in *. intros y Hy. eapply le_trans; [exact E | apply Fz; exact Hy].
      + constructor.
        * apply IH; [exact Sr|]. intros y Hy. apply T. right. exact Hy.
        * rewrite Forall_forall in *. intros y Hy. apply insert_sorted_In in Hy as [-> | Hy].
          -- destruct (T z (or_introl eq_refl)) as [C | C]; [congruence | exact C].
          -- apply Fz. exact Hy.
  Qed.

  Lemma isort_SS l : TotOn l -> StronglySorted leP (isort le l).
  Proof.
    induction l as [|x r IH]; intros T; cbn [isort]; [constructor|].
    apply insert_sorted_SS.
    - apply IH. intros a b Ha Hb. apply T; right; assumption.
    - intros y Hy. apply In_isort in Hy. apply T; [left; reflexivity | right; exact Hy].
  Qed.

  Lemma SS_unique l1 : forall l2,
    StronglySorted leP l1 -> StronglySorted leP l2 -> Permutation l1 l2 -> AntiOn l1 -> l1 = l2.
  Proof.
    induction l1 as [|x r1 IH]; intros l2 S1 S2 P An.
    - apply Permutation_nil in P. auto.
    - destruct l2 as [|y r2]; [apply Permutation_sym, Permutation_nil in P; discriminate|].
      inversion S1 as [|? ? S1r F1]; subst. inversion S2 as [|? ? S2r F2]; subst.
      rewrite Forall_forall in F1, F2.
      assert (E : x = y).
      { assert (Hx : In x (y :: r2)) by (eapply Permutation_in; [exact P | left; reflexivity]).
        assert (Hy : In y (x :: r1)) by (eapply Permutation_in; [apply Permutation_sym; exact P | left; reflexivity]).
        destruct Hx as [Hx | Hx]; [auto|]. destruct Hy as [Hy | Hy]; [auto|].
        apply An; [left; reflexivity | right; exact Hy | apply F1; exact Hy | apply F2; exact Hx]. }
      subst y. f_equal. apply IH; auto.
      + eapply Permutation_cons_inv; exact P.
      + intros a b Ha Hb. apply An; right; assumption.
  Qed.

  Lemma isort_unique l l' :
    TotOn l -> AntiOn l -> Permutation l l' -> StronglySorted leP l' -> isort le l = l'.
  Proof.
    intros T An P S. apply SS_unique.
    - apply isort_SS. exact T.
    - exact S.
    - eapply Permutation_trans; [apply perm_isort | exact P].
    - intros a b Ha Hb. apply An; apply In_isort with (le := le); assumption.
  Qed.

  Lemma SS_filter (p : A -> bool) l : StronglySorted leP l -> StronglySorted leP (filter p l).
  Proof.
    induction 1 as [|x r S IH F]; cbn [filter]; [constructor|].
    destruct (p x); [| exact IH]. constructor; [exact IH|].
    rewrite Forall_forall in *. intros y Hy. apply filter_In in Hy as [Hy _]. auto.
  Qed.

  Lemma SS_snoc l x :
    StronglySorted leP l -> (forall y, In y l -> le y x = true) -> StronglySorted leP (l ++ [x]).
  Proof.
    induction 1 as [|z r S IH F]; intros H; cbn [app].
    - constructor; constructor.
    - constructor.
      + apply IH. intros y Hy. apply H. right. exact Hy.
      + rewrite Forall_forall in *. intros y Hy. apply in_app_iff in Hy as [Hy | [<- | []]].
        * apply F. exact Hy.
        * apply H. left. reflexivity.
  Qed.

  Lemma SS_cons l x :
    StronglySorted leP l -> (forall y, In y l -> le x y = true) -> StronglySorted leP (x :: l).
  Proof. intros S H. constructor; [exact S|]. rewrite Forall_forall. exact H. Qed.
End SortGen.

Lemma SS_rev {A} (le : A -> A -> bool) l :
  StronglySorted (leP le) l -> StronglySorted (leP (fun a b => le b a)) (rev l).
Proof.
  induction 1 as [|x r S IH F]; cbn [rev]; [constructor|].
  apply SS_snoc; [exact IH|]. rewrite Forall_forall in F. intros y Hy. apply in_rev in Hy.
  apply F. exact Hy.
Qed.

Lemma SS_map {A} (le : A -> A -> bool) (g : A -> A) l :
  (forall a b, le (g a) (g b) = le a b) ->
  StronglySorted (leP le) l -> StronglySorted (leP le) (map g l).
Proof.
  intros Hg. induction 1 as [|x r S IH F]; cbn [map]; [constructor|].
  constructor; [exact IH|]. rewrite Forall_forall in *. intros y Hy.
  apply in_map_iff in Hy as [z [<- Hz]]. unfold leP. rewrite Hg. apply F. exact Hz.
Qed.

(* ================================================================== *)
(* Part 2: plain list facts                                           *)
(* ================================================================== *)

Lemma filter_all_true {A} (p : A -> bool) l : (forall x, In x l -> p x = true) -> filter p l = l.
Proof.
  induction l as [|x r IH]; intros H; [reflexivity|]. cbn [filter].
  rewrite (H x (or_introl eq_refl)). f_equal. apply IH. intros y Hy. apply H. right. exact Hy.
Qed.

Lemma filter_ext_in' {A} (p q : A -> bool) l :
  (forall x, In x l -> p x = q x) -> filter p l = filter q l.
Proof.
  induction l as [|x r IH]; intros H; [reflexivity|]. cbn [filter].
  rewrite (H x (or_introl eq_refl)), IH; [reflexivity|]. intros y Hy. apply H. right. exact Hy.
Qed.

Lemma nodup_by_eq2 {A} (eq : A -> A -> bool) l a b :
  nodup_by eq l = true -> In a l -> In b l -> eq a b = true -> eq b a = true -> a = b.
Proof.
  induction l as [|x r IH]; intros ND Ha Hb E1 E2; [destruct Ha|].
  cbn [nodup_by] in ND. apply andb_true_iff in ND as [N1 N2]. apply negb_true_iff in N1.
  assert (K : forall y, In y r -> eq x y = false).
  { intros y Hy. destruct (eq x y) eqn:Q; [|reflexivity].
    assert (existsb (eq x) r = true) by (apply existsb_exists; exists y; auto). congruence. }
  destruct Ha as [<- | Ha], Hb as [<- | Hb].
  - reflexivity.
  - rewrite (K b Hb) in E1. discriminate.
  - rewrite (K a Ha) in E2. discriminate.
  - apply IH; assumption.
Qed.

(* ================================================================== *)
(* Part 3: everything that needs the order facts of binary64          *)
(* ================================================================== *)

Section FloatFacts.
  (* <=? is a total preorder on numbers, <? its strict part, =? its equivalence *)
  Hypothesis fle_refl : forall x, (x =? x)%float = true -> (x <=? x)%float = true.
  Hypothesis fle_trans : forall x y z, (x <=? y)%float = true -> (y <=? z)%float = true -> (x <=? z)%float = true.
  Hypothesis fle_total : forall x y, (x =? x)%float = true -> (y =? y)%float = true -> (x <=? y)%float = true \/ (y <=? x)%float = true.
  Hypothesis flt_le : forall x y, (x <? y)%float = true <-> ((x <=? y)%float = true /\ (y <=? x)%float = false).
  Hypothesis feq_le : forall x y, (x =? y)%float = true <-> ((x <=? y)%float = true /\ (y <=? x)%float = true).
  Hypothesis fle_num : forall x y, (x <=? y)%float = true -> (x =? x)%float = true /\ (y =? y)%float = true.
  (* rounding is monotone: adding / subtracting one does not go the wrong way *)
  Hypothesis fadd1_ge : forall x, (x =? x)%float = true -> (x <=? x + 1)%float = true.
  Hypothesis fsub1_le : forall x, (x =? x)%float = true -> (x - 1 <=? x)%float = true.
  Hypothesis fzero_num : (zero =? zero)%float = true.

  Lemma feq_sym x y : (x =? y)%float = true -> (y =? x)%float = true.
  Proof. rewrite !feq_le. tauto. Qed.

  (* ---- fmax / fmin ---- *)

  Definition fmaxF (acc : option float) (p : float) : option float :=
    match acc with None => Some p | Some m => if (m <? p)%float then Some p else Some m end.
  Definition fminF (acc : option float) (p : float) : option float :=
    match acc with None => Some p | Some m => if (p <? m)%float then Some p else Some m end.

  Lemma fmax_acc l : forall m,
    (m =? m)%float = true -> (forall p, In p l -> (p =? p)%float = true) ->
    exists m', fold_left fmaxF l (Some m) = Some m' /\ (m <=? m')%float = true /\
               (forall p, In p l -> (p <=? m')%float = true).
  Proof.
    induction l as [|p r IH]; intros m Hm Hn; cbn [fold_left].
    - exists m. split; [reflexivity|]. split; [apply fle_refl; exact Hm | intros p []].
    - assert (Hp : (p =? p)%float = true) by (apply Hn; left; reflexivity).
      assert (Hr : forall q, In q r -> (q =? q)%float = true) by (intros q Hq; apply Hn; right; exact Hq).
      unfold fmaxF at 2. destruct (m <? p)%float eqn:C.
      + apply flt_le in C as [C _]. destruct (IH p Hp Hr) as [m' [E [L1 L2]]].
        exists m'. split; [exact E|]. split; [eapply fle_trans; eassumption|].
        intros q [<- | Hq]; [exact L1 | apply L2; exact Hq].
      + destruct (IH m Hm Hr) as [m' [E [L1 L2]]].
        exists m'. split; [exact E|]. split; [exact L1|].
        intros q [<- | Hq]; [| apply L2; exact Hq].
        destruct (p <=? m)%float eqn:D; [eapply fle_trans; eassumption|].
        exfalso. destruct (fle_total m p Hm Hp) as [T | T]; [| congruence].
        assert ((m <? p)%float = true) by (apply flt_le; auto). congruence.
  Qed.

  Lemma fmax_spec l :
    (forall p, In p l -> (p =? p)%float = true) ->
    match fmax l with
    | Some m => (m =? m)%float = true /\ forall p, In p l -> (p <=? m)%float = true
    | None => l = []
    end.
  Proof.
    intros Hn. unfold fmax. change (fun acc p => _) with fmaxF.
    destruct l as [|p r]; [reflexivity|]. cbn [fold_left fmaxF].
    destruct (fmax_acc r p) as [m' [E [L1 L2]]].
    - apply Hn. left. reflexivity.
    - intros q Hq. apply Hn. right. exact Hq.
    - rewrite E. split; [exact (proj2 (fle_num _ _ L1))|].
      intros q [<- | Hq]; [exact L1 | apply L2; exact Hq].
  Qed.

  Lemma fmin_acc l : forall m,
    (m =? m)%float = true -> (forall p, In p l -> (p =? p)%float = true) ->
    exists m', fold_left fminF l (Some m) = Some m' /\ (m' <=? m)%float = true /\
               (forall p, In p l -> (m' <=? p)%float = true).
  Proof.
    induction l as [|p r IH]; intros m Hm Hn; cbn [fold_left].
    - exists m. split; [reflexivity|]. split; [apply fle_refl; exact Hm | intros p []].
    - assert (Hp : (p =? p)%float = true) by (apply Hn; left; reflexivity).
      assert (Hr : forall q, In q r -> (q =? q)%float = true) by (intros q Hq; apply Hn; right; exact Hq).
      unfold fminF at 2. destruct (p <? m)%float eqn:C.
      + apply flt_le in C as [C _]. destruct (IH p Hp Hr) as [m' [E [L1 L2]]].
        exists m'. split; [exact E|]. split; [eapply fle_trans; eassumption|].
        intros q [<- | Hq]; [exact L1 | apply L2; exact Hq].
      + destruct (IH m Hm Hr) as [m' [E [L1 L2]]].
        exists m'. split; [exact E|]. split; [exact L1|].
        intros q [<- | Hq]; [| apply L2; exact Hq].
        destruct (m <=? p)%float eqn:D; [eapply fle_trans; eassumption|].
        exfalso. destruct (fle_total m p Hm Hp) as [T | T]; [congruence|].
        assert ((p <? m)%float = true) by (apply flt_le; auto). congruence.
  Qed.

  Lemma fmin_spec l :
    (forall p, In p l -> (p =? p)%float = true) ->
    match fmin l with
    | Some m => (m =? m)%float = true /\ forall p, In p l -> (m <=? p)%float = true
    | None => l = []
    end.
  Proof.
    intros Hn. unfold fmin. change (fun acc p => _) with fminF.
    destruct l as [|p r]; [reflexivity|]. cbn [fold_left fminF].
    destruct (fmin_acc r p) as [m' [E [L1 L2]]].
    - apply Hn. left. reflexivity.
    - intros q Hq. apply Hn. right. exact Hq.
    - rewrite E. split; [exact (proj1 (fle_num _ _ L1))|].
      intros q [<- | Hq]; [exact L1 | apply L2; exact Hq].
  Qed.

  (* ---- the rows of one key ---- *)

  Definition PosOK (l : list lrow) : Prop :=
    (forall x, In x l -> (l_pos x =? l_pos x)%float = true) /\
    (forall x y, In x l -> In y l -> (l_pos x =? l_pos y)%float = true -> x = y).

  Lemma rows_PosOK d kid : InvH None d -> PosOK (list_rows d kid).
  Proof.
    intros I. destruct (i_l _ _ I) as [T1 T2]. rewrite forallb_forall in T2. split.
    - intros x Hx. apply filter_In in Hx as [Hx _]. apply T2. exact Hx.
    - intros x y Hx Hy E. apply filter_In in Hx as [Hx Kx]. apply filter_In in Hy as [Hy Ky].
      apply (nodup_by_eq2 eqL (rlist d)); auto; unfold eqL.
      + rewrite E. replace (l_kid x =? l_kid y) with true by lia. reflexivity.
      + rewrite (feq_sym _ _ E). replace (l_kid y =? l_kid x) with true by lia. reflexivity.
  Qed.

  Lemma PosOK_perm l l' : Permutation l l' -> PosOK l -> PosOK l'.
  Proof.
    intros P [A B]. apply Permutation_sym in P. split.
    - intros x Hx. apply A. eapply Permutation_in; eassumption.
    - intros x y Hx Hy. apply B; eapply Permutation_in; eassumption.
  Qed.

  Lemma PosOK_sub l l' : (forall x, In x l' -> In x l) -> PosOK l -> PosOK l'.
  Proof. intros S [A B]. split; [intros x Hx; auto | intros x y Hx Hy; auto]. Qed.

  Lemma pos_leb_trans x y z : pos_leb x y = true -> pos_leb y z = true -> pos_leb x z = true.
  Proof. unfold pos_leb. apply fle_trans. Qed.
  Lemma pos_geb_trans x y z : pos_geb x y = true -> pos_geb y z = true -> pos_geb x z = true.
  Proof. unfold pos_geb. intros A B. eapply fle_trans; eassumption. Qed.

  Lemma PosOK_tot l : PosOK l -> TotOn pos_leb l.
  Proof. intros [A _] x y Hx Hy. unfold pos_leb. apply fle_total; auto. Qed.
  Lemma PosOK_tot_ge l : PosOK l -> TotOn pos_geb l.
  Proof. intros [A _] x y Hx Hy. unfold pos_geb. apply fle_total; auto. Qed.
  Lemma PosOK_anti l : PosOK l -> AntiOn pos_leb l.
  Proof. intros [_ B] x y Hx Hy E1 E2. apply B; auto. apply feq_le. auto. Qed.
  Lemma PosOK_anti_ge l : PosOK l -> AntiOn pos_geb l.
  Proof. intros [_ B] x y Hx Hy E1 E2. apply B; auto. apply feq_le. auto. Qed.

  Lemma rows_NoDup d kid : InvH None d -> NoDup (list_rows d kid).
  Proof. intros I. apply NoDup_filter'. apply TL_NoDup. exact (i_l _ _ I). Qed.

  Lemma rows_asc_perm d kid : Permutation (rows_asc d kid) (list_rows d kid).
  Proof. apply perm_isort. Qed.
  Lemma rows_asc_in d kid x : In x (rows_asc d kid) <-> In x (list_rows d kid).
  Proof.
    split; apply Permutation_in; [| apply Permutation_sym]; apply rows_asc_perm.
  Qed.
  Lemma rows_asc_NoDup d kid : InvH None d -> NoDup (rows_asc d kid).
  Proof. intros I. apply NoDup_isort. apply rows_NoDup. exact I. Qed.
  Lemma rows_asc_PosOK d kid : InvH None d -> PosOK (rows_asc d kid).
  Proof.
    intros I. eapply PosOK_perm; [apply Permutation_sym, rows_asc_perm | apply rows_PosOK; exact I].
  Qed.
  Lemma rows_asc_SS d kid : InvH None d -> StronglySorted (leP pos_leb) (rows_asc d kid).
  Proof. intros I. apply isort_SS; [exact pos_leb_trans | apply PosOK_tot, rows_PosOK; exact I]. Qed.

  Lemma rows_asc_char d kid L :
    InvH None d -> Permutation (list_rows d kid) L -> StronglySorted (leP pos_leb) L ->
    rows_asc d kid = L.
  Proof.
    intros I P S. pose proof (rows_PosOK d kid I) as OK.
    apply isort_unique; auto; [exact pos_leb_trans | apply PosOK_tot | apply PosOK_anti]; exact OK.
  Qed.

  Lemma rows_desc_rev d kid : InvH None d -> rows_desc d kid = rev (rows_asc d kid).
  Proof.
    intros I. pose proof (rows_PosOK d kid I) as OK.
    apply isort_unique; [exact pos_geb_trans | apply PosOK_tot_ge; exact OK | apply PosOK_anti_ge; exact OK | |].
    - eapply Permutation_trans; [apply Permutation_sym, rows_asc_perm | apply Permutation_rev].
    - apply (SS_rev pos_leb). apply rows_asc_SS. exact I.
  Qed.

  (* ---- a live list key ---- *)

  Lemma live_list_facts now d key k :
    InvH None d -> live_key now d key T_LIST = Some k ->
    In k (rkey d) /\ k_key k = key /\ k_type k = 2 /\ live now k = true /\
    k_len k = Some (zlen (rows_asc d (k_id k))) /\ live_any now d key = Some k /\
    find_key d key = Some k.
  Proof.
    intros I LK. pose proof (live_key_some _ _ _ _ _ LK) as [Hk [Kk [Tk Lk]]]. unfold T_LIST in Tk.
    split; [exact Hk|]. split; [exact Kk|]. split; [exact Tk|]. split; [exact Lk|].
    assert (F : find_key d key = Some k).
    { rewrite <- Kk. apply find_key_in; [eapply InvH_names; exact I | exact Hk]. }
    split; [| split; [| exact F]].
    - pose proof (LenH_None _ _ (a_len _ _ _ (i_a _ _ I) k Hk)) as [[T1 _] | [_ L]]; [lia|].
      rewrite L, Tk. change (kidsOf d 2) with (map l_kid (rlist d)). rewrite <- cntz_map.
      f_equal. apply zlen_perm. apply Permutation_sym. apply rows_asc_perm.
    - unfold live_any. rewrite F, Lk. reflexivity.
  Qed.

  Lemma abs_val_list d k : k_type k = 2 -> abs_val d k = Some (AVList (seq_of d (k_id k))).
  Proof. intros T. unfold abs_val. rewrite T. reflexivity. Qed.

  Lemma view_live_list now d key k :
    InvH None d -> live_key now d key T_LIST = Some k ->
    view now d key = Some (mkEntry (AVList (seq_of d (k_id k))) (k_etime k)).
  Proof.
    intros I LK. destruct (live_list_facts _ _ _ _ I LK) as [_ [_ [Tk [_ [_ [LA _]]]]]].
    unfold view. rewrite LA, abs_val_list by exact Tk. reflexivity.
  Qed.

  Lemma live_key_any now d key :
    live_key now d key T_LIST =
    match live_any now d key with
    | Some r => if k_type r =? 2 then Some r else None
    | None => None
    end.
  Proof.
    unfold live_key, live_any, T_LIST. destruct (find_key d key) as [r|]; [| reflexivity].
    destruct (live now r); [rewrite andb_true_r | rewrite andb_false_r]; reflexivity.
  Qed.

  (* ---- simulation between a faithful state and a purged abstract one ---- *)

  Definition Sim (now : Z) (d : db) (s1 : sstate) : Prop :=
    InvH None d /\ NoDup (map fst s1) /\ forall k, sget s1 k = view now d k.

  Lemma Sim_of_R now d s : InvH None d -> R now d s -> Sim now d (spurge now s).
  Proof.
    intros I HR. destruct (R_facts _ _ _ I HR) as [N [G _]]. split; [exact I | split; assumption].
  Qed.

  Lemma Sim_R now d s1 : Sim now d s1 -> R now d s1.
  Proof.
    intros [I [N G]]. apply R_intro; [exact I | exact N|]. intros k. rewrite G. apply purged_view.
  Qed.

  Lemma Sim_put now d s1 d' key e :
    Sim now d s1 -> InvH None d' ->
    (forall k, view now d' k = if String.eqb key k then Some e else view now d k) ->
    Sim now d' (sput key e s1).
  Proof.
    intros [I [N G]] I' Hv. split; [exact I'|]. split; [apply NoDup_sput; exact N|].
    intros k. rewrite sget_sput, Hv. destruct (String.eqb key k); [reflexivity | apply G].
  Qed.

  Lemma Sim_same now d s1 d' :
    Sim now d s1 -> InvH None d' -> (forall k, view now d' k = view now d k) -> Sim now d' s1.
  Proof.
    intros [I [N G]] I' Hv. split; [exact I' | split; [exact N|]]. intros k. rewrite Hv. apply G.
  Qed.

  Lemma spec_list_sim now d s1 key :
    Sim now d s1 ->
    spec_list s1 key =
    match live_key now d key T_LIST with Some k => Some (seq_of d (k_id k)) | None => None end.
  Proof.
    intros [I [N G]]. unfold spec_list. rewrite G, live_key_any. unfold view.
    destruct (live_any now d key) as [r|] eqn:LA; [| reflexivity].
    pose proof (live_any_some _ _ _ _ LA) as [Hr _].
    destruct (Z.eqb_spec (k_type r) 2) as [T|T].
    - rewrite abs_val_list by exact T. reflexivity.
    - destruct (abs_val_typed d r I Hr) as [v [Ev Tv]]. rewrite Ev.
      destruct v; try reflexivity. cbn in Tv. congruence.
  Qed.

  Lemma keep_exp_sim now d s1 key k :
    Sim now d s1 -> live_key now d key T_LIST = Some k -> keep_exp s1 key = k_etime k.
  Proof.
    intros S LK. pose proof S as [I [N G]]. unfold keep_exp. rewrite G, (view_live_list _ _ _ _ I LK).
    reflexivity.
  Qed.

  Lemma other_type_sim now d s1 key :
    Sim now d s1 ->
    other_type s1 key 2 =
    match live_any now d key with Some r => negb (k_type r =? 2) | None => false end.
  Proof.
    intros [I [N G]]. unfold other_type. rewrite G. unfold view.
    destruct (live_any now d key) as [r|] eqn:LA; [| reflexivity].
    pose proof (live_any_some _ _ _ _ LA) as [Hr _].
    destruct (abs_val_typed d r I Hr) as [v [Ev Tv]]. rewrite Ev. cbn. rewrite Tv. reflexivity.
  Qed.

  (* ---- a change confined to the rows of one list key ---- *)

  Definition list_upd (kid : Z) (f : keyrow -> keyrow) (d d' : db) : Prop :=
    rkey d' = map (fun r => if k_id r =? kid then f r else r) (rkey d) /\
    rstring d' = rstring d /\ rset d' = rset d /\ rhash d' = rhash d /\ rzset d' = rzset d /\
    (forall id, id <> kid ->
       filter (fun x => l_kid x =? id) (rlist d') = filter (fun x => l_kid x =? id) (rlist d)).

  Lemma view_list_upd now key d d' k f :
    InvH None d -> InvH None d' -> live_key now d key T_LIST = Some k ->
    list_upd (k_id k) f d d' ->
    k_id (f k) = k_id k -> k_key (f k) = k_key k -> k_type (f k) = k_type k ->
    k_etime (f k) = k_etime k ->
    forall k', view now d' k' =
      if String.eqb key k'
      then Some (mkEntry (AVList (seq_of d' (k_id k))) (k_etime k))
      else view now d k'.
  Proof.
    intros I I' LK [U1 [U2 [U3 [U4 [U5 U6]]]]] F1 F2 F3 F4.
    destruct (live_list_facts _ _ _ _ I LK) as [Hk [Kk [Tk [Lk _]]]].
    pose proof (InvH_names _ _ I) as N. pose proof (InvH_names _ _ I') as N'.
    apply view_after; [exact N | exact N' | |].
    - split.
      + intros r Hr Hne.
        assert (Hid : k_id r <> k_id k).
        { intros Eid. apply Hne. rewrite <- Kk. f_equal. apply (row_same_id _ d r k I Hr Hk Eid). }
        split.
        * rewrite U1. apply in_map_iff. exists r. split; [| exact Hr].
          destruct (Z.eqb_spec (k_id r) (k_id k)); [contradiction | reflexivity].
        * unfold same_rows, find_sval. rewrite U2, U3, U4, U5, (U6 _ Hid). repeat split.
      + intros r' Hr' Hne. rewrite U1 in Hr'. apply in_map_iff in Hr' as [r [<- Hr]].
        destruct (Z.eqb_spec (k_id r) (k_id k)) as [Eid|Eid]; [| exact Hr].
        exfalso. apply Hne. assert (r = k) by (apply (row_same_id _ d r k I Hr Hk Eid)). subst r.
        congruence.
    - assert (Hin : In (f k) (rkey d')).
      { rewrite U1. apply in_map_iff. exists k. rewrite Z.eqb_refl. auto. }
      rewrite (view_row' now d' (f k) key N' Hin) by congruence.
      unfold live. rewrite F4. fold (live now k). rewrite Lk.
      rewrite abs_val_list by congruence. rewrite F1. reflexivity.
  Qed.

  (* ---- the invariant after deleting rows, with the symmetry of =? taken from feq_le
          (ProofInv2.HI_delete_rows goes through FloatAxioms.eqb_spec) ---- *)

  Lemma TL_inj' l a b : TL l -> In a l -> In b l -> eqL a b = true -> a = b.
  Proof.
    intros [A _] Ha Hb E. apply (nodup_by_eq2 eqL l); auto.
    unfold eqL in *. apply andb_true_iff in E as [E1 E2].
    rewrite (feq_sym _ _ E2). replace (l_kid b =? l_kid a) with true by lia. reflexivity.
  Qed.

  Lemma delete_rows_count' d kid vs :
    TL (rlist d) -> Vict d kid vs ->
    zlen (filter (fun r => existsb (same_row r) vs) (rlist d)) = zlen vs.
  Proof.
    intros T [N H]. apply zlen_filter_sub; [apply TL_NoDup; exact T | exact N | |].
    - intros x Hx Hh. apply existsb_exists in Hh as [v [Hv E]].
      assert (x = v); [| subst; exact Hv].
      apply (TL_inj' (rlist d)); [exact T | exact Hx | apply H; exact Hv | exact E].
    - intros v Hv. destruct (H v Hv) as [H1 _]. split; [exact H1|].
      apply existsb_exists. exists v. split; [exact Hv|]. apply (TL_refl (rlist d)); assumption.
  Qed.

  Lemma HI_delete_rows' now kid vs d :
    HI d -> HasList kid d -> Vict d kid vs -> HI (fst (delete_rows now kid vs d)).
  Proof.
    intros I Hex V. unfold delete_rows. cbn [fst]. rewrite trig_list_delete_eq.
    pose proof I as [A L E H ZZ FK].
    set (hit := fun r => existsb (same_row r) vs).
    set (F := fun r => if k_id r =? kid then trigG now (zlen vs) r else r).
    constructor; try assumption.
    - change (AInv None (map F (rkey d))
                (kidsOf (set_rlist d (filter (fun r => negb (hit r)) (rlist d))))).
      apply (AInv_adjust None (rkey d) (kidsOf d) _ F 2 kid (- zlen vs)); auto; try lia.
      + intros T NE. rewrite kidsOf_set_rlist. destruct (Z.eqb_spec T 2); [contradiction | reflexivity].
      + intros k. rewrite kidsOf_set_rlist. change (2 =? 2) with true. cbv iota.
        intros Hk. left. apply in_map_iff in Hk as [y [<- Hy]]. apply filter_In in Hy as [Hy _].
        change (kidsOf d 2) with (map l_kid (rlist d)). apply in_map; exact Hy.
      + intros id. rewrite kidsOf_set_rlist. change (2 =? 2) with true. cbv iota.
        change (kidsOf d 2) with (map l_kid (rlist d)).
        rewrite (cntz_filter_hit_in l_kid hit kid id (rlist d)).
        * unfold hit. rewrite (delete_rows_count' d kid vs L V). destruct (id =? kid); lia.
        * intros x Hx Hh. apply existsb_exists in Hh as [v [Hv Ev]].
          destruct V as [_ V]. destruct (V v Hv) as [_ Kv].
          unfold same_row in Ev. lia.
      + intros r Hr Hne. unfold F. destruct (Z.eqb_spec (k_id r) kid); [contradiction | reflexivity].
      + intros r Hr Heq. unfold F. rewrite Heq, Z.eqb_refl. unfold trigG.
        destruct (Z.eqb_spec (zlen vs) 0) as [Z0|Z0]; cbn.
        * repeat split; auto. intros ->. f_equal. lia.
        * repeat split; auto. intros ->. reflexivity.
    - apply TL_filter. exact L.
  Qed.

  Lemma HI_delete_rows_run' now kid vs d d' n :
    HI d -> HasList kid d -> Vict d kid vs -> delete_rows now kid vs d = (d', n) -> HI d'.
  Proof.
    intros I Hex V E. change d' with (fst (d', n)). rewrite <- E. apply HI_delete_rows'; assumption.
  Qed.

  (* ---- deleting rows of a live list key ---- *)

  Lemma filter_comm {A} (p q : A -> bool) l : filter p (filter q l) = filter q (filter p l).
  Proof. rewrite !filter_filter. apply filter_ext. intros x. apply andb_comm. Qed.

  Lemma same_row_in d kid x vs :
    InvH None d -> In x (list_rows d kid) -> (forall v, In v vs -> In v (list_rows d kid)) ->
    (existsb (same_row x) vs = true <-> In x vs).
  Proof.
    intros I Hx Hvs. destruct (rows_PosOK d kid I) as [A B]. rewrite existsb_exists. split.
    - intros [v [Hv E]]. unfold same_row in E. apply andb_true_iff in E as [_ E].
      rewrite (B x v Hx (Hvs v Hv) E). exact Hv.
    - intros Hin. exists x. split; [exact Hin|]. unfold same_row. rewrite Z.eqb_refl, (A x Hx). reflexivity.
  Qed.

  Definition keepP (vs : list lrow) (x : lrow) : bool := negb (existsb (same_row x) vs).

  Lemma Vict_in_rows d kid vs : Vict d kid vs -> forall v, In v vs -> In v (list_rows d kid).
  Proof.
    intros [_ H] v Hv. destruct (H v Hv) as [H1 H2]. apply filter_In. split; [exact H1 | lia].
  Qed.

  Lemma trigG_keeps now n r :
    k_id (trigG now n r) = k_id r /\ k_key (trigG now n r) = k_key r /\
    k_type (trigG now n r) = k_type r /\ k_etime (trigG now n r) = k_etime r.
  Proof. unfold trigG. destruct (n =? 0); cbn; auto. Qed.

  Lemma delete_rows_eff now d key k vs :
    InvH None d -> live_key now d key T_LIST = Some k -> Vict d (k_id k) vs ->
    exists d', delete_rows now (k_id k) vs d = (d', zlen vs) /\ InvH None d' /\
      rows_asc d' (k_id k) = filter (keepP vs) (rows_asc d (k_id k)) /\
      forall k', view now d' k' =
        if String.eqb key k'
        then Some (mkEntry (AVList (seq_of d' (k_id k))) (k_etime k))
        else view now d k'.
  Proof.
    intros I LK V. destruct (delete_rows now (k_id k) vs d) as [d' n] eqn:DR.
    assert (I' : InvH None d').
    { eapply HI_delete_rows_run'; [exact I | eapply HasList_live; exact LK | exact V | exact DR]. }
    unfold delete_rows in DR. rewrite trig_list_delete_eq in DR. injection DR as <- <-.
    exists (upd_key_id (k_id k) (trigG now (zlen vs))
              (set_rlist d (filter (fun r => negb (existsb (same_row r) vs)) (rlist d)))).
    split; [reflexivity|]. split; [exact I'|].
    set (d' := upd_key_id _ _ _) in *.
    assert (RL : rlist d' = filter (keepP vs) (rlist d)) by reflexivity.
    split.
    - apply rows_asc_char; [exact I' | |].
      + unfold list_rows. rewrite RL, filter_comm. apply Permutation_filter'.
        apply Permutation_sym. apply rows_asc_perm.
      + apply SS_filter. apply rows_asc_SS. exact I.
    - destruct (trigG_keeps now (zlen vs) k) as [G1 [G2 [G3 G4]]].
      apply (view_list_upd now key d d' k (trigG now (zlen vs))); auto.
      split; [reflexivity|]. repeat (split; [reflexivity|]).
      intros id Hid. rewrite RL, filter_filter. apply filter_ext_in'. intros x Hx.
      destruct (Z.eqb_spec (l_kid x) id) as [E|E]; [| apply andb_false_r]. rewrite andb_true_r.
      unfold keepP. apply negb_true_iff. destruct (existsb (same_row x) vs) eqn:X; [| reflexivity].
      apply existsb_exists in X as [v [Hv Ev]]. destruct V as [_ V]. destruct (V v Hv) as [_ Kv].
      unfold same_row in Ev. lia.
  Qed.

  (* membership among the victims, for the rows of the key *)
  Lemma keepP_spec d kid vs x :
    InvH None d -> Vict d kid vs -> In x (rows_asc d kid) -> (keepP vs x = false <-> In x vs).
  Proof.
    intros I V Hx. unfold keepP. rewrite negb_false_iff.
    apply (same_row_in d kid); [exact I | apply rows_asc_in; exact Hx | apply Vict_in_rows; exact V].
  Qed.

  (* ---- list-level lemmas about removing chosen elements of a duplicate-free list ---- *)

  Lemma filter_keep_tl {A} (q : A -> bool) x L :
    NoDup (x :: L) -> (forall y, In y (x :: L) -> (q y = false <-> In y [x])) ->
    filter q (x :: L) = L.
  Proof.
    intros ND H. inversion ND as [|? ? Hn _]; subst. cbn [filter].
    rewrite (proj2 (H x (or_introl eq_refl)) (or_introl eq_refl)).
    apply filter_all_true. intros y Hy. destruct (q y) eqn:Q; [reflexivity|].
    apply (H y (or_intror Hy)) in Q as [<- | []]. contradiction.
  Qed.

  Lemma filter_keep_init {A} (q : A -> bool) x L :
    NoDup (L ++ [x]) -> (forall y, In y (L ++ [x]) -> (q y = false <-> In y [x])) ->
    filter q (L ++ [x]) = L.
  Proof.
    intros ND H. rewrite filter_app. cbn [filter].
    assert (Hx : In x (L ++ [x])) by (apply in_or_app; right; left; reflexivity).
    rewrite (proj2 (H x Hx) (or_introl eq_refl)).
    rewrite app_nil_r. apply filter_all_true. intros y Hy. destruct (q y) eqn:Q; [reflexivity|].
    apply (H y (in_or_app _ _ _ (or_introl Hy))) in Q as [<- | []].
    apply NoDup_remove_2 in ND. rewrite app_nil_r in ND. contradiction.
  Qed.

  Lemma filter_none' {A} (q : A -> bool) L : (forall y, In y L -> q y = false) -> filter q L = [].
  Proof. apply filter_none. Qed.

  Lemma NoDup_app_disj {A} (a b : list A) : NoDup (a ++ b) -> forall y, In y a -> ~ In y b.
  Proof.
    induction a as [|z a IH]; intros ND y Hy Hb; [destruct Hy|].
    cbn in ND. inversion ND as [|? ? Hn Hr]; subst. destruct Hy as [<- | Hy].
    - apply Hn. apply in_or_app. right. exact Hb.
    - eapply IH; eauto.
  Qed.
  Lemma NoDup_app_r' {A} (a b : list A) : NoDup (a ++ b) -> NoDup b.
  Proof. induction a as [|z a IH]; [auto|]. cbn. intros ND. inversion ND; subst. auto. Qed.

  (* keeping exactly a middle segment *)
  Lemma filter_keep_mid {A} (q : A -> bool) a m b :
    NoDup (a ++ m ++ b) -> (forall y, In y (a ++ m ++ b) -> (q y = true <-> In y m)) ->
    filter q (a ++ m ++ b) = m.
  Proof.
    intros ND H. rewrite !filter_app.
    assert (Da : forall y, In y a -> ~ In y m).
    { intros y Hy Hm. apply (NoDup_app_disj _ _ ND y Hy). apply in_or_app. left. exact Hm. }
    assert (Db : forall y, In y b -> ~ In y m).
    { intros y Hy Hm. apply NoDup_app_r' in ND. apply (NoDup_app_disj _ _ ND y Hm Hy). }
    rewrite (filter_none' q a), (filter_none' q b), (filter_all_true q m), app_nil_r; [reflexivity | | |].
    - intros y Hy. apply H; [| exact Hy]. apply in_or_app. right. apply in_or_app. left. exact Hy.
    - intros y Hy. destruct (q y) eqn:Q; [| reflexivity]. exfalso. apply (Db y Hy).
      apply H; [| exact Q]. apply in_or_app. right. apply in_or_app. right. exact Hy.
    - intros y Hy. destruct (q y) eqn:Q; [| reflexivity]. exfalso. apply (Da y Hy).
      apply H; [| exact Q]. apply in_or_app. left. exact Hy.
  Qed.

  Lemma window_split {A} (off cnt : Z) (L : list A) :
    exists a b, L = a ++ ztake cnt (zdrop off L) ++ b.
  Proof.
    rewrite ztake_firstn, zdrop_skipn.
    exists (firstn (Z.to_nat off) L), (skipn (Z.to_nat cnt) (skipn (Z.to_nat off) L)).
    rewrite firstn_skipn, firstn_skipn. reflexivity.
  Qed.

  Lemma slice_split {A} (L : list A) start stop : exists a b, L = a ++ slice L start stop ++ b.
  Proof.
    unfold slice. destruct (redis_range (zlen L) start stop) as [[off cnt]|].
    - apply window_split.
    - exists [], L. reflexivity.
  Qed.

  Lemma zlen_filter_split {A} (q : A -> bool) L :
    zlen (filter q L) + zlen (filter (fun x => negb (q x)) L) = zlen L.
  Proof.
    induction L as [|x r IH]; [reflexivity|]. cbn [filter]. destruct (q x); cbn [negb];
      rewrite !zlen_cons; lia.
  Qed.

  (* removing the first [c] occurrences of [e] *)
  Lemma remove_first_n_filter (q : lrow -> bool) e L : forall c,
    NoDup L ->
    (forall y, In y L ->
       (q y = false <-> In y (ztake c (filter (fun r => String.eqb (l_elem r) e) L)))) ->
    map l_elem (filter q L) = remove_first_n e c (map l_elem L).
  Proof.
    induction L as [|x r IH]; intros c ND H; [reflexivity|].
    inversion ND as [|? ? Hn Hr]; subst. cbn [map remove_first_n filter] in *.
    destruct (String.eqb (l_elem x) e) eqn:Ex.
    - cbn [ztake] in H. destruct (c <=? 0) eqn:C.
      + replace (0 <? c) with false by lia. cbn [andb].
        assert (Q : q x = true).
        { destruct (q x) eqn:Q; [reflexivity|]. apply (H x (or_introl eq_refl)) in Q. destruct Q. }
        rewrite Q. cbn [map]. f_equal. apply IH; [exact Hr|].
        intros y Hy. rewrite (H y (or_intror Hy)).
        rewrite (ztake_le0 _ c) by lia. tauto.
      + replace (0 <? c) with true by lia. cbn [andb].
        rewrite (proj2 (H x (or_introl eq_refl)) (or_introl eq_refl)).
        apply IH; [exact Hr|]. intros y Hy. rewrite (H y (or_intror Hy)). cbn [In].
        split; [intros [<- | K]; [contradiction | exact K] | auto].
    - rewrite andb_false_r.
      assert (Q : q x = true).
      { destruct (q x) eqn:Q; [reflexivity|]. apply (H x (or_introl eq_refl)) in Q.
        apply In_ztake in Q. apply filter_In in Q as [Q _]. contradiction. }
      rewrite Q. cbn [map]. f_equal. apply IH; [exact Hr|].
      intros y Hy. apply (H y (or_intror Hy)).
  Qed.

  Lemma remove_first_n_len e L : forall c,
    zlen (remove_first_n e c (map l_elem L)) =
    zlen L - zlen (ztake c (filter (fun r => String.eqb (l_elem r) e) L)).
  Proof.
    induction L as [|x r IH]; intros c; [reflexivity|]. cbn [map remove_first_n filter].
    destruct (String.eqb (l_elem x) e) eqn:Ex.
    - cbn [ztake]. destruct (c <=? 0) eqn:C.
      + replace (0 <? c) with false by lia. cbn [andb]. rewrite !zlen_cons, IH.
        rewrite (ztake_le0 _ c) by lia. change (zlen (@nil lrow)) with 0. lia.
      + replace (0 <? c) with true by lia. cbn [andb]. rewrite IH, !zlen_cons. lia.
    - rewrite andb_false_r. rewrite !zlen_cons, IH. lia.
  Qed.

  (* ---- the abstract state after a write to a live list key ---- *)

  Definition list_view (now : Z) (key : bytes) (k : keyrow) (d d' : db) : Prop :=
    forall k', view now d' k' =
      if String.eqb key k'
      then Some (mkEntry (AVList (seq_of d' (k_id k))) (k_etime k))
      else view now d k'.

  Lemma Sim_list_put now d s1 d' key k newl :
    Sim now d s1 -> InvH None d' -> live_key now d key T_LIST = Some k ->
    list_view now key k d d' -> seq_of d' (k_id k) = newl ->
    Sim now d' (sput_val s1 key (AVList newl)).
  Proof.
    intros S I' LK V E. unfold sput_val. rewrite (keep_exp_sim _ _ _ _ _ S LK).
    apply (Sim_put now d); [exact S | exact I' |]. rewrite <- E. exact V.
  Qed.

  Lemma Sim_list_same now d s1 d' key k :
    Sim now d s1 -> InvH None d' -> live_key now d key T_LIST = Some k ->
    list_view now key k d d' -> seq_of d' (k_id k) = seq_of d (k_id k) ->
    Sim now d' s1.
  Proof.
    intros S I' LK V E. apply (Sim_same now d); [exact S | exact I' |].
    intros k'. rewrite V. destruct (String.eqb_spec key k') as [<- | NE]; [| reflexivity].
    rewrite E. symmetry. apply view_live_list; [apply S | exact LK].
  Qed.

  (* ---- pop ---- *)

  Lemma spec_pop_eq s k back :
    spec_pop s k back =
    match spec_list s k with
    | None => (s, out_err ENotFound)
    | Some l =>
        match (if back then rev l else l) with
        | [] => (s, out_err ENotFound)
        | e :: r => (sput_val s k (AVList (if back then rev r else r)), out_ok (VS e))
        end
    end.
  Proof.
    unfold spec_pop. destruct (spec_list s k) as [l|]; [| reflexivity].
    destruct l as [|x l]; [destruct back; reflexivity|]. destruct back; reflexivity.
  Qed.

  Lemma list_pop_eff now key (back : bool) d k :
    InvH None d -> live_key now d key T_LIST = Some k ->
    match (if back then rev (rows_asc d (k_id k)) else rows_asc d (k_id k)) return Prop with
    | [] => list_pop now key back d = (d, Err ENotFound)
    | r :: rest =>
        exists d', list_pop now key back d = (d', Ok (l_elem r)) /\ InvH None d' /\
          rows_asc d' (k_id k) = (if back then rev rest else rest) /\
          list_view now key k d d'
    end.
  Proof.
    intros I LK. unfold list_pop. rewrite LK, (rows_desc_rev d (k_id k) I).
    destruct (if back then rev (rows_asc d (k_id k)) else rows_asc d (k_id k)) as [|r rest] eqn:RW;
      [reflexivity|].
    assert (Hin : In r (rows_asc d (k_id k))).
    { destruct back; [apply in_rev|]; rewrite RW; left; reflexivity. }
    assert (V : Vict d (k_id k) [r]).
    { apply (Vict_one d (k_id k) (rows_asc d (k_id k))); [| exact Hin].
      apply Vict_sorted. exact (i_l _ _ I). }
    destruct (delete_rows_eff now d key k [r] I LK V) as [d' [DR [I' [RA VW]]]].
    exists d'. rewrite DR. split; [reflexivity|]. split; [exact I'|]. split; [| exact VW].
    rewrite RA. pose proof (rows_asc_NoDup d (k_id k) I) as ND.
    assert (KS : forall y, In y (rows_asc d (k_id k)) -> keepP [r] y = false <-> In y [r]).
    { intros y Hy. apply (keepP_spec d (k_id k)); assumption. }
    destruct back.
    - assert (E : rows_asc d (k_id k) = rev rest ++ [r]).
      { rewrite <- (rev_involutive (rows_asc d (k_id k))), RW. reflexivity. }
      rewrite E in *. apply filter_keep_init; assumption.
    - rewrite RW in *. apply filter_keep_tl; assumption.
  Qed.

  Lemma list_pop_sim now key back d s1 :
    Sim now d s1 ->
    match list_pop now key back d with
    | (d', Ok e) => exists s', spec_pop s1 key back = (s', out_ok (VS e)) /\ Sim now d' s'
    | (d', Err er) => d' = d /\ spec_pop s1 key back = (s1, out_err er)
    end.
  Proof.
    intros S. pose proof S as [I _]. rewrite spec_pop_eq, (spec_list_sim _ _ _ key S).
    destruct (live_key now d key T_LIST) as [k|] eqn:LK.
    2:{ unfold list_pop. rewrite LK. auto. }
    pose proof (list_pop_eff now key back d k I LK) as H.
    unfold seq_of. rewrite <- map_rev.
    replace (if back then map l_elem (rev (rows_asc d (k_id k))) else map l_elem (rows_asc d (k_id k)))
      with (map l_elem (if back then rev (rows_asc d (k_id k)) else rows_asc d (k_id k)))
      by (destruct back; reflexivity).
    destruct (if back then rev (rows_asc d (k_id k)) else rows_asc d (k_id k)) as [|r rest].
    - rewrite H. auto.
    - destruct H as [d' [E [I' [RA VW]]]]. rewrite E. cbn [map]. eexists. split; [reflexivity|].
      apply (Sim_list_put now d s1 d' key k); auto.
      unfold seq_of. rewrite RA. destruct back; [rewrite map_rev|]; reflexivity.
  Qed.

  (* ---- trim ---- *)

  Lemma keepP_remain d kid remain y :
    InvH None d -> Vict d kid remain -> In y (rows_asc d kid) ->
    (keepP (filter (keepP remain) (rows_asc d kid)) y = true <-> In y remain).
  Proof.
    intros I V Hy.
    assert (V2 : Vict d kid (filter (keepP remain) (rows_asc d kid))).
    { apply Vict_filter. apply Vict_sorted. exact (i_l _ _ I). }
    pose proof (keepP_spec d kid _ y I V2 Hy) as K2.
    pose proof (keepP_spec d kid _ y I V Hy) as K1.
    rewrite filter_In in K2. split.
    - intros T. apply K1. destruct (keepP remain y) eqn:Q; [| reflexivity].
      assert (keepP (filter (keepP remain) (rows_asc d kid)) y = false) by (apply K2; auto). congruence.
    - intros Hr. apply K1 in Hr.
      apply not_false_iff_true. intros Q. apply K2 in Q as [_ Q]. congruence.
  Qed.

  Lemma app_zlen_all {A} (a m b : list A) : zlen (a ++ m ++ b) = zlen m -> a ++ m ++ b = m.
  Proof.
    rewrite !zlen_app. intros H. pose proof (ProofInv.zlen_nonneg a). pose proof (ProofInv.zlen_nonneg b).
    assert (a = []) by (apply ProofNoTrace.zlen_nil; lia).
    assert (b = []) by (apply ProofNoTrace.zlen_nil; lia). subst. rewrite app_nil_r. reflexivity.
  Qed.

  Lemma list_trim_sim now key a b d s1 :
    Sim now d s1 ->
    exists d' n s', list_trim now key a b d = (d', Ok n) /\
      spec_ltrim s1 key a b = (s', out_ok (VI n)) /\ Sim now d' s'.
  Proof.
    intros S. pose proof S as [I _]. unfold spec_ltrim. rewrite (spec_list_sim _ _ _ key S).
    unfold list_trim. destruct (live_key now d key T_LIST) as [k|] eqn:LK.
    2:{ exists d, 0, s1. auto. }
    destruct (live_list_facts _ _ _ _ I LK) as [_ [_ [_ [_ [KL _]]]]]. rewrite KL.
    set (L := rows_asc d (k_id k)) in *.
    pose proof (range_window_is_slice _ L a b) as W.
    destruct (range_window (Some (zlen L)) a b) as [off cnt]. rewrite W.
    set (remain := slice L a b).
    change (fun x => negb (existsb (same_row x) remain)) with (keepP remain).
    assert (VL : Vict d (k_id k) L) by (apply Vict_sorted; exact (i_l _ _ I)).
    destruct (slice_split L a b) as [pa [pb EL]]. fold remain in EL.
    assert (Vr : Vict d (k_id k) remain).
    { apply (Vict_sub d (k_id k) L); [exact VL | |].
      - rewrite EL in VL. destruct VL as [ND _]. apply NoDup_app_r' in ND.
        clear -ND. induction remain as [|x r IH]; [constructor|]. cbn in ND. inversion ND; subst.
        constructor; [| auto]. intros Hin. apply H1. apply in_or_app. left. exact Hin.
      - intros v Hv. rewrite EL. apply in_or_app. right. apply in_or_app. left. exact Hv. }
    assert (Vv : Vict d (k_id k) (filter (keepP remain) L)) by (apply Vict_filter; exact VL).
    destruct (delete_rows_eff now d key k _ I LK Vv) as [d' [DR [I' [RA VW]]]].
    rewrite DR. fold L in RA.
    pose proof (rows_asc_NoDup d (k_id k) I) as ND. fold L in ND.
    assert (RA' : rows_asc d' (k_id k) = remain).
    { rewrite RA. rewrite EL at 2. apply filter_keep_mid; [rewrite <- EL; exact ND|].
      rewrite <- EL. intros y Hy. apply (keepP_remain d (k_id k)); assumption. }
    assert (RM : filter (fun x => negb (keepP remain x)) L = remain).
    { rewrite EL at 1. apply filter_keep_mid; [rewrite <- EL; exact ND|].
      rewrite <- EL. intros y Hy. rewrite negb_true_iff. apply (keepP_spec d (k_id k)); assumption. }
    assert (CN : zlen (filter (keepP remain) L) = zlen (seq_of d (k_id k)) - zlen (slice (seq_of d (k_id k)) a b)).
    { unfold seq_of. fold L. rewrite slice_map, !zlen_map. fold remain.
      pose proof (zlen_filter_split (keepP remain) L) as Z. rewrite RM in Z. lia. }
    rewrite <- CN.
    destruct (Z.eqb_spec (zlen (filter (keepP remain) L)) 0) as [Z0|Z0];
      (eexists _, _, _; split; [reflexivity|]).
    - split; [rewrite Z0; reflexivity|].
      apply (Sim_list_same now d s1 d' key k); auto.
      unfold seq_of. rewrite RA'. fold L. f_equal.
      pose proof (zlen_filter_split (keepP remain) L) as Z. rewrite RM, Z0 in Z.
      rewrite EL. symmetry. apply app_zlen_all. rewrite <- EL. lia.
    - split; [reflexivity|].
      apply (Sim_list_put now d s1 d' key k); auto.
      unfold seq_of. rewrite RA'. fold L. unfold remain. rewrite slice_map. reflexivity.
  Qed.

  (* ---- delete by value ---- *)

  Lemma keepP_nil L : filter (keepP []) L = L.
  Proof. apply filter_all_true. intros x _. reflexivity. Qed.

  Lemma delete_finish now d s1 key k vs newl :
    Sim now d s1 -> live_key now d key T_LIST = Some k -> Vict d (k_id k) vs ->
    map l_elem (filter (keepP vs) (rows_asc d (k_id k))) = newl ->
    exists d', delete_rows now (k_id k) vs d = (d', zlen vs) /\
      Sim now d' (if zlen vs =? 0 then s1 else sput_val s1 key (AVList newl)).
  Proof.
    intros S LK V E. pose proof S as [I _].
    destruct (delete_rows_eff now d key k vs I LK V) as [d' [DR [I' [RA VW]]]].
    exists d'. split; [exact DR|]. destruct (Z.eqb_spec (zlen vs) 0) as [Z0|Z0].
    - apply ProofNoTrace.zlen_nil in Z0. subst vs. rewrite keepP_nil in RA.
      apply (Sim_list_same now d s1 d' key k); auto. unfold seq_of. rewrite RA. reflexivity.
    - apply (Sim_list_put now d s1 d' key k); auto. unfold seq_of. rewrite RA. exact E.
  Qed.

  Lemma bytes_arg_none v d : to_bytes v = None -> bytes_arg v d = (d, Err EValueType).
  Proof. unfold bytes_arg. intros ->. reflexivity. Qed.
  Lemma bytes_arg_some v d b : to_bytes v = Some (Some b) -> bytes_arg v d = (d, Ok (Some b)).
  Proof. unfold bytes_arg. intros ->. reflexivity. Qed.

  Lemma if_same_VI (n : Z) (s s' : sstate) :
    (if n =? 0 then (s, out_ok (VI 0)) else (s', out_ok (VI n))) =
    (if n =? 0 then s else s', out_ok (VI n)).
  Proof. destruct (Z.eqb_spec n 0) as [->|]; reflexivity. Qed.

  Lemma list_delete_sim now key v d s1 :
    Sim now d s1 ->
    match list_delete now key v d with
    | (d', Ok n) => exists s', spec_ldelete s1 key v None false = (s', out_ok (VI n)) /\ Sim now d' s'
    | (d', Err er) => d' = d /\ spec_ldelete s1 key v None false = (s1, out_err er)
    end.
  Proof.
    intros S. pose proof S as [I _]. unfold list_delete, spec_ldelete.
    destruct (to_bytes_cases v) as [[Tb [Bv _]] | [b [Tb [Bv _]]]]; rewrite Bv.
    - rewrite (bind_err _ _ _ _ _ (bytes_arg_none v d Tb)). auto.
    - rewrite (bind_ok _ _ _ _ _ (bytes_arg_some v d b Tb)).
      rewrite (spec_list_sim _ _ _ key S).
      destruct (live_key now d key T_LIST) as [k|] eqn:LK; [| eexists; split; [reflexivity | exact S]].
      set (L := rows_asc d (k_id k)).
      set (vs := filter (fun r => String.eqb (l_elem r) b) (list_rows d (k_id k))).
      assert (V : Vict d (k_id k) vs) by (apply Vict_filter, Vict_rows; exact (i_l _ _ I)).
      assert (FK : filter (keepP vs) L = filter (fun y => negb (String.eqb (l_elem y) b)) L).
      { apply filter_ext_in'. intros y Hy. pose proof (keepP_spec d (k_id k) vs y I V Hy) as K.
        unfold vs in K at 2. rewrite filter_In in K.
        destruct (String.eqb (l_elem y) b) eqn:Q; cbn [negb].
        - apply K. split; [apply rows_asc_in; exact Hy | reflexivity].
        - apply not_false_iff_true. intros C. apply K in C as [_ C]. discriminate. }
      destruct (delete_finish now d s1 key k vs
                  (filter (fun x => negb (String.eqb x b)) (seq_of d (k_id k))) S LK V) as [d' [DR S']].
      { fold L. rewrite FK. unfold seq_of. fold L. rewrite filter_map_comm. reflexivity. }
      rewrite DR.
      assert (CN : count_occ b (seq_of d (k_id k)) = zlen vs).
      { unfold count_occ, seq_of, vs. fold L. rewrite filter_map_comm, zlen_map.
        rewrite (zlen_perm _ _ (Permutation_filter' _ _ _ (rows_asc_perm d (k_id k)))).
        f_equal. apply filter_ext. intros x. apply String.eqb_sym. }
      rewrite CN, if_same_VI. eexists. split; [reflexivity | exact S'].
  Qed.

  Lemma filter_rev' {A} (p : A -> bool) l : filter p (rev l) = rev (filter p l).
  Proof.
    induction l as [|x r IH]; [reflexivity|]. cbn [rev filter]. rewrite filter_app, IH. cbn [filter].
    destruct (p x); [reflexivity | apply app_nil_r].
  Qed.

  Lemma list_delete_n_sim now key v count back d s1 :
    Sim now d s1 ->
    match list_delete_n now key v count back d with
    | (d', Ok n) => exists s', spec_ldelete s1 key v (Some count) back = (s', out_ok (VI n)) /\ Sim now d' s'
    | (d', Err er) => d' = d /\ spec_ldelete s1 key v (Some count) back = (s1, out_err er)
    end.
  Proof.
    intros S. pose proof S as [I _]. unfold list_delete_n, spec_ldelete.
    destruct (count <=? 0) eqn:C0; [eexists; split; [reflexivity | exact S]|].
    destruct (to_bytes_cases v) as [[Tb [Bv _]] | [b [Tb [Bv _]]]]; rewrite Bv.
    - rewrite (bind_err _ _ _ _ _ (bytes_arg_none v d Tb)). auto.
    - rewrite (bind_ok _ _ _ _ _ (bytes_arg_some v d b Tb)).
      rewrite (spec_list_sim _ _ _ key S).
      destruct (live_key now d key T_LIST) as [k|] eqn:LK; [| eexists; split; [reflexivity | exact S]].
      set (L := rows_asc d (k_id k)).
      set (ordered := if back then rows_desc d (k_id k) else rows_asc d (k_id k)).
      assert (VO : Vict d (k_id k) ordered) by (unfold ordered; destruct back; apply Vict_sorted; exact (i_l _ _ I)).
      assert (EO : ordered = if back then rev L else L).
      { unfold ordered. rewrite (rows_desc_rev d (k_id k) I). reflexivity. }
      set (vs := ztake count (filter (fun r => String.eqb (l_elem r) b) ordered)).
      assert (V : Vict d (k_id k) vs) by (apply Vict_ztake, Vict_filter; exact VO).
      pose proof (rows_asc_NoDup d (k_id k) I) as ND. fold L in ND.
      set (l := seq_of d (k_id k)).
      set (l' := if back then rev (remove_first_n b count (rev l)) else remove_first_n b count l).
      assert (EL : map l_elem (filter (keepP vs) L) = l' /\ zlen l - zlen l' = zlen vs).
      { assert (KS : forall y, In y L -> keepP vs y = false <-> In y vs)
          by (intros y Hy; apply (keepP_spec d (k_id k)); assumption).
        unfold l', l, seq_of. fold L. destruct back.
        - assert (EV : vs = ztake count (filter (fun r => String.eqb (l_elem r) b) (rev L)))
            by (unfold vs; rewrite EO; reflexivity).
          assert (H : map l_elem (filter (keepP vs) (rev L)) = remove_first_n b count (map l_elem (rev L))).
          { apply remove_first_n_filter; [apply NoDup_rev; exact ND|].
            intros y Hy. apply in_rev in Hy. rewrite <- EV. apply KS. exact Hy. }
          rewrite <- map_rev, <- H. split.
          + rewrite filter_rev', map_rev, rev_involutive. reflexivity.
          + rewrite ProofRange.zlen_rev, H, remove_first_n_len, <- EV, ProofRange.zlen_rev, zlen_map. lia.
        - assert (EV : vs = ztake count (filter (fun r => String.eqb (l_elem r) b) L))
            by (unfold vs; rewrite EO; reflexivity).
          split.
          + apply remove_first_n_filter; [exact ND|]. intros y Hy. rewrite <- EV. apply KS; exact Hy.
          + rewrite remove_first_n_len, <- EV, zlen_map. lia. }
      destruct EL as [EL1 EL2].
      destruct (delete_finish now d s1 key k vs l' S LK V EL1) as [d' [DR S']].
      change (delete_rows now (k_id k) (ztake count (filter (fun r => String.eqb (l_elem r) b)
                (if back then rows_desc d (k_id k) else L))) d) with (delete_rows now (k_id k) vs d).
      rewrite DR. rewrite EL2, if_same_VI.
      eexists. split; [reflexivity | exact S'].
  Qed.

  (* ---- index access ---- *)

  Lemma in_int64_range i : in_int64 i = true -> int64_min <= i <= int64_max.
  Proof. unfold in_int64. lia. Qed.

  Lemma norm_index_bounds n idx j : norm_index n idx = Some j -> 0 <= j < n.
  Proof.
    unfold norm_index. destruct ((0 <=? (if idx <? 0 then n + idx else idx)) &&
      ((if idx <? 0 then n + idx else idx) <? n)) eqn:C; [| discriminate].
    intros E. injection E as <-. lia.
  Qed.

  Lemma znth_hd {A} j (l : list A) : 0 <= j -> znth j l = hd_error (zdrop j l).
  Proof. intros H. unfold znth. replace (j <? 0) with false by lia. reflexivity. Qed.

  Lemma hd_error_map {A B} (f : A -> B) l : hd_error (map f l) = option_map f (hd_error l).
  Proof. destruct l; reflexivity. Qed.

  Lemma znth_some {A} j (l : list A) : 0 <= j < zlen l -> exists x, znth j l = Some x.
  Proof.
    intros H. rewrite znth_nth_error by lia.
    destruct (nth_error l (Z.to_nat j)) as [x|] eqn:E; [eauto|].
    apply nth_error_None in E. unfold zlen in H. lia.
  Qed.

  (* the row an index designates, on both sides *)
  Lemma index_row now d key k idx :
    InvH None d -> live_key now d key T_LIST = Some k -> in_int64 idx = true ->
    (let '(rev_, i) := norm_idx idx in
     znth i (if rev_ then rows_desc d (k_id k) else rows_asc d (k_id k))) =
    match norm_index (zlen (seq_of d (k_id k))) idx with
    | Some j => znth j (rows_asc d (k_id k))
    | None => None
    end.
  Proof.
    intros I LK Hi. rewrite (rows_desc_rev d (k_id k) I). unfold seq_of. rewrite zlen_map.
    apply norm_index_nth. apply in_int64_range. exact Hi.
  Qed.

  Lemma list_get_sim now key idx d s1 :
    Sim now d s1 -> in_int64 idx = true ->
    list_get now key idx d =
    (d, match norm_index (zlen (or_nil (spec_list s1 key))) idx with
        | Some j => match hd_error (zdrop j (or_nil (spec_list s1 key))) with
                    | Some e => Ok e
                    | None => Err ENotFound
                    end
        | None => Err ENotFound
        end).
  Proof.
    intros S Hi. pose proof S as [I _]. rewrite (spec_list_sim _ _ _ key S). unfold list_get.
    destruct (live_key now d key T_LIST) as [k|] eqn:LK.
    - pose proof (index_row now d key k idx I LK Hi) as H.
      destruct (norm_idx idx) as [rv i]. rewrite H. cbn [or_nil].
      destruct (norm_index (zlen (seq_of d (k_id k))) idx) as [j|] eqn:NI; [| reflexivity].
      apply norm_index_bounds in NI. rewrite znth_hd by lia. unfold seq_of.
      rewrite zdrop_map, hd_error_map. destruct (hd_error (zdrop j (rows_asc d (k_id k)))); reflexivity.
    - destruct (norm_idx idx) as [rv i]. cbn [or_nil].
      destruct (norm_index (zlen (@nil bytes)) idx) as [j|] eqn:NI; [| reflexivity].
      apply norm_index_bounds in NI. change (zlen (@nil bytes)) with 0 in NI. lia.
  Qed.

  (* ---- set ---- *)

  Lemma filter_kid_map (g : lrow -> lrow) id rl :
    (forall x, l_kid (g x) = l_kid x) -> (forall x, l_kid x = id -> g x = x) ->
    filter (fun x => l_kid x =? id) (map g rl) = filter (fun x => l_kid x =? id) rl.
  Proof.
    intros G1 G2. induction rl as [|x r IH]; [reflexivity|]. cbn [map filter].
    rewrite G1. destruct (Z.eqb_spec (l_kid x) id) as [E|E]; [rewrite (G2 x E), IH | rewrite IH]; reflexivity.
  Qed.

  Lemma set_nth_map (q : lrow -> bool) e L : forall j r,
    0 <= j -> nth_error L (Z.to_nat j) = Some r -> NoDup L ->
    (forall x, In x L -> (q x = true <-> x = r)) ->
    map l_elem (map (fun x => if q x then mkL (l_kid x) (l_pos x) e else x) L) =
    set_nth j e (map l_elem L).
  Proof.
    induction L as [|x L' IH]; intros j r Hj E ND H; [destruct (Z.to_nat j); discriminate|].
    inversion ND as [|? ? Hn Hr]; subst. cbn [map set_nth].
    destruct (j <=? 0) eqn:J.
    - replace (Z.to_nat j) with 0%nat in E by lia. cbn in E. injection E as <-.
      rewrite (proj2 (H x (or_introl eq_refl)) eq_refl). cbn [l_elem]. f_equal.
      rewrite map_map. apply map_ext_in. intros y Hy.
      destruct (q y) eqn:Q; [| reflexivity]. apply (H y (or_intror Hy)) in Q. subst y. contradiction.
    - replace (Z.to_nat j) with (S (Z.to_nat (j - 1))) in E by lia. cbn [nth_error] in E.
      assert (Qx : q x = false).
      { destruct (q x) eqn:Q; [| reflexivity]. apply (H x (or_introl eq_refl)) in Q. subst r.
        apply nth_error_In in E. contradiction. }
      rewrite Qx. f_equal. apply (IH (j - 1) r); [lia | exact E | exact Hr|].
      intros y Hy. apply H. right. exact Hy.
  Qed.

  Lemma list_set_sim now key idx v d s1 :
    Sim now d s1 -> in_int64 idx = true ->
    match list_set now key idx v d with
    | (d', Ok _) => exists s', spec_lset s1 key idx v = (s', out_ok VNone) /\ Sim now d' s'
    | (d', Err er) => d' = d /\ spec_lset s1 key idx v = (s1, out_err er)
    end.
  Proof.
    intros S Hi. pose proof S as [I _].
    destruct (list_set now key idx v d) as [d' w] eqn:LS.
    assert (I' : match w with Ok _ => InvH None d' | Err _ => True end).
    { destruct w; [| exact Logic.I]. eapply pres_list_set; eauto. }
    revert LS. unfold list_set, spec_lset.
    destruct (to_bytes_cases v) as [[Tb [Bv _]] | [b [Tb [Bv _]]]]; rewrite Bv.
    { rewrite (bind_err _ _ _ _ _ (bytes_arg_none v d Tb)). intros E. injection E as <- <-. auto. }
    rewrite (bind_ok _ _ _ _ _ (bytes_arg_some v d b Tb)).
    rewrite (spec_list_sim _ _ _ key S).
    destruct (live_key now d key T_LIST) as [k|] eqn:LK.
    2:{ destruct (norm_idx idx). intros E. injection E as <- <-. auto. }
    pose proof (index_row now d key k idx I LK Hi) as H.
    destruct (norm_idx idx) as [rv i]. rewrite H.
    destruct (norm_index (zlen (seq_of d (k_id k))) idx) as [j|] eqn:NI.
    2:{ intros E. injection E as <- <-. auto. }
    apply norm_index_bounds in NI. unfold seq_of in NI. rewrite zlen_map in NI.
    destruct (znth_some j (rows_asc d (k_id k)) NI) as [r Er]. rewrite Er.
    unfold trig_list_update. change (1 =? 0) with false. cbv iota.
    intros E. injection E as <- <-. 
    set (g := fun x => if same_row x r then mkL (l_kid x) (l_pos x) b else x) in *.
    set (f := fun r0 : keyrow => with_mtime (with_ver r0 (k_ver r0 + 1)) now) in *.
    set (d' := upd_key_id (k_id k) f (set_rlist d (map g (rlist d)))) in *.
    assert (Gk : forall x, l_kid (g x) = l_kid x /\ l_pos (g x) = l_pos x).
    { intros x. unfold g. destruct (same_row x r); auto. }
    set (L := rows_asc d (k_id k)) in *.
    assert (Hr : In r L).
    { rewrite znth_nth_error in Er by lia. apply nth_error_In in Er. exact Er. }
    assert (Kr : l_kid r = k_id k).
    { apply rows_asc_in in Hr. apply filter_In in Hr as [_ Hr]. lia. }
    assert (RA : rows_asc d' (k_id k) = map g L).
    { apply rows_asc_char; [exact I' | |].
      - unfold list_rows. change (rlist d') with (map g (rlist d)).
        rewrite filter_map_comm.
        rewrite (filter_ext (fun x => l_kid (g x) =? k_id k) (fun x => l_kid x =? k_id k))
          by (intros x; rewrite (proj1 (Gk x)); reflexivity).
        apply Permutation_map. apply Permutation_sym. apply rows_asc_perm.
      - apply SS_map; [| apply rows_asc_SS; exact I].
        intros x y. unfold pos_leb. rewrite (proj2 (Gk x)), (proj2 (Gk y)). reflexivity. }
    assert (VW : list_view now key k d d').
    { unfold list_view. apply (view_list_upd now key d d' k f); auto.
      split; [reflexivity|]. repeat (split; [reflexivity|]).
      intros id Hid. change (rlist d') with (map g (rlist d)). apply filter_kid_map.
      - intros x. apply Gk.
      - intros x Ex. unfold g. destruct (same_row x r) eqn:SR; [| reflexivity].
        unfold same_row in SR. lia. }
    eexists. split; [reflexivity|].
    apply (Sim_list_put now d s1 d' key k); auto.
    unfold seq_of. rewrite RA. fold L. unfold g.
    apply (set_nth_map (fun x => same_row x r) b L j r); [lia | | apply rows_asc_NoDup; exact I |].
    - rewrite znth_nth_error in Er by lia. exact Er.
    - intros x Hx. pose proof (same_row_in d (k_id k) x [r] I) as SI.
      cbn [existsb] in SI. rewrite orb_false_r in SI. rewrite SI.
      + cbn. intuition.
      + apply rows_asc_in. exact Hx.
      + intros v0 [<- | []]. apply rows_asc_in. exact Hr.
  Qed.

  (* ---- len, range ---- *)

  Lemma list_len_sim now key d s1 :
    Sim now d s1 -> list_len now key d = (d, Ok (zlen (or_nil (spec_list s1 key)))).
  Proof.
    intros S. pose proof S as [I _]. rewrite (spec_list_sim _ _ _ key S). unfold list_len.
    destruct (live_key now d key T_LIST) as [k|] eqn:LK; [| reflexivity].
    destruct (live_list_facts _ _ _ _ I LK) as [_ [_ [_ [_ [KL _]]]]]. rewrite KL. cbn [or_nil].
    unfold seq_of. rewrite zlen_map. reflexivity.
  Qed.

  Lemma slice_nil {A} a b : slice (@nil A) a b = [].
  Proof.
    unfold slice. destruct (redis_range (zlen (@nil A)) a b) as [[off cnt]|]; [| reflexivity].
    reflexivity.
  Qed.

  Lemma list_range_sim now key a b d s1 :
    Sim now d s1 -> list_range now key a b d = (d, Ok (slice (or_nil (spec_list s1 key)) a b)).
  Proof.
    intros S. pose proof S as [I _]. rewrite (spec_list_sim _ _ _ key S).
    destruct (live_key now d key T_LIST) as [k|] eqn:LK.
    - destruct (live_list_facts _ _ _ _ I LK) as [_ [_ [_ [_ [KL _]]]]].
      rewrite (list_range_spec now d key a b k LK KL). reflexivity.
    - rewrite (list_range_missing now d key a b LK). cbn [or_nil]. rewrite slice_nil. reflexivity.
  Qed.

  (* ---- push ---- *)

  Definition push_oc (r : keyrow) : keyrow := with_len r (opt_add (k_len r) 1).

  Definition push_pos (front : bool) (ps : list float) : float :=
    if front
    then match fmin ps with Some m => (m - 1)%float | None => zero end
    else match fmax ps with Some m => (m + 1)%float | None => zero end.

  Lemma push_pos_num front ps :
    (forall p, In p ps -> (p =? p)%float = true) -> (push_pos front ps =? push_pos front ps)%float = true.
  Proof.
    intros Hn. unfold push_pos. destruct front.
    - pose proof (fmin_spec ps Hn) as H. destruct (fmin ps) as [m|]; [| exact fzero_num].
      destruct H as [Hm _]. exact (proj1 (fle_num _ _ (fsub1_le m Hm))).
    - pose proof (fmax_spec ps Hn) as H. destruct (fmax ps) as [m|]; [| exact fzero_num].
      destruct H as [Hm _]. exact (proj2 (fle_num _ _ (fadd1_ge m Hm))).
  Qed.

  (* the new position is beyond every old one (not necessarily strictly) *)
  Lemma push_pos_bound (front : bool) ps p :
    (forall p, In p ps -> (p =? p)%float = true) -> In p ps ->
    if front then (push_pos front ps <=? p)%float = true else (p <=? push_pos front ps)%float = true.
  Proof.
    intros Hn Hp. unfold push_pos. destruct front.
    - pose proof (fmin_spec ps Hn) as H. destruct (fmin ps) as [m|]; [| subst ps; destruct Hp].
      destruct H as [Hm H]. eapply fle_trans; [apply fsub1_le; exact Hm | apply H; exact Hp].
    - pose proof (fmax_spec ps Hn) as H. destruct (fmax ps) as [m|]; [| subst ps; destruct Hp].
      destruct H as [Hm H]. eapply fle_trans; [apply H; exact Hp | apply fadd1_ge; exact Hm].
  Qed.

  Lemma list_push_after_upsert now key v front d b d1 r n :
    to_bytes v = Some (Some b) ->
    upsert_key now key T_LIST None (Some 1) (fun r => with_len r (opt_add (k_len r) 1)) d = (d1, Ok r) ->
    k_len r = Some n ->
    (forall x, In x (list_rows d1 (k_id r)) -> (l_pos x =? l_pos x)%float = true) ->
    list_push now key v front d =
    if existsb (fun x => (l_kid x =? k_id r) &&
                         (l_pos x =? push_pos front (map l_pos (list_rows d1 (k_id r))))%float) (rlist d1)
    then (d1, Err (ESql (SqUnique "rlist.kid,rlist.pos")))
    else (set_rlist d1 (rlist d1 ++ [mkL (k_id r) (push_pos front (map l_pos (list_rows d1 (k_id r)))) b]), Ok n).
  Proof.
    intros Tb U K Hn. unfold list_push.
    rewrite (bind_ok _ _ _ _ _ (bytes_arg_some v d b Tb)).
    rewrite (bind_ok _ _ _ _ _ (typed_error_ok_eq _ _ _ _ U)).
    unfold scan_len. rewrite K.
    cbv beta iota zeta delta [bind ret get_db insert_row].
    fold (push_pos front (map l_pos (list_rows d1 (k_id r)))).
    rewrite push_pos_num.
    - cbn [negb]. destruct (existsb _ (rlist d1)); reflexivity.
    - intros p Hp. apply in_map_iff in Hp as [x [<- Hx]]. apply Hn. exact Hx.
  Qed.

  Lemma reset_live now key typ d r :
    find_key d key = Some r -> live now r = true -> reset_expired now key typ d = d.
  Proof.
    intros F L. unfold reset_expired. rewrite F. rewrite live_expired in L.
    apply negb_true_iff in L. rewrite L. reflexivity.
  Qed.

  Lemma map_l_pos_nil (l : list lrow) : map l_pos l = [] -> l = [].
  Proof. destruct l; [reflexivity | discriminate]. Qed.

  Lemma list_push_live now key v front d k b :
    InvH None d -> live_key now d key T_LIST = Some k -> to_bytes v = Some (Some b) ->
    match list_push now key v front d with
    | (d', Ok n) =>
        exists new, l_elem new = b /\ InvH None d' /\
          rows_asc d' (k_id k) =
            (if front then new :: rows_asc d (k_id k) else rows_asc d (k_id k) ++ [new]) /\
          n = zlen (rows_asc d (k_id k)) + 1 /\ list_view now key k d d'
    | (d', Err e) => exists c, e = ESql (SqUnique c)
    end.
  Proof.
    intros I LK Tb.
    destruct (live_list_facts _ _ _ _ I LK) as [Hk [Kk [Tk [Lk [KL [LA F]]]]]].
    set (r' := with_len (with_mtime (with_ver k (k_ver k + 1)) now) (opt_add (k_len k) 1)).
    set (d1 := upd_key_id (k_id k) (fun _ => r') d).
    assert (U : upsert_key now key T_LIST None (Some 1)
                  (fun r => with_len r (opt_add (k_len r) 1)) d = (d1, Ok r')).
    { unfold upsert_key. rewrite (reset_live now key T_LIST d k F Lk), F.
      unfold T_LIST. rewrite Tk. reflexivity. }
    assert (K' : k_len r' = Some (zlen (rows_asc d (k_id k)) + 1)).
    { unfold r'. cbn [k_len with_len]. rewrite KL. reflexivity. }
    pose proof (rows_PosOK d (k_id k) I) as [Num _].
    destruct (list_push now key v front d) as [d' w] eqn:LP.
    assert (I' : match w with Ok _ => InvH None d' | Err _ => True end).
    { destruct w; [| exact Logic.I]. eapply pres_list_push; eauto. }
    rewrite (list_push_after_upsert now key v front d b d1 r' _ Tb U K') in LP by exact Num.
    change (k_id r') with (k_id k) in LP. change (list_rows d1 (k_id k)) with (list_rows d (k_id k)) in LP.
    change (rlist d1) with (rlist d) in LP.
    set (ps := map l_pos (list_rows d (k_id k))) in *.
    set (new := mkL (k_id k) (push_pos front ps) b) in *.
    destruct (existsb _ (rlist d)); injection LP as <- <-; [eauto|].
    exists new. split; [reflexivity|]. split; [exact I'|].
    set (d' := set_rlist d1 (rlist d ++ [new])) in *.
    assert (LR : list_rows d' (k_id k) = list_rows d (k_id k) ++ [new]).
    { unfold list_rows. change (rlist d') with (rlist d ++ [new]). rewrite filter_app.
      cbn [filter new l_kid]. rewrite Z.eqb_refl. reflexivity. }
    assert (Bd : forall y, In y (rows_asc d (k_id k)) ->
                 if front then pos_leb new y = true else pos_leb y new = true).
    { intros y Hy. apply rows_asc_in in Hy. unfold pos_leb. cbn [new l_pos].
      apply (push_pos_bound front ps (l_pos y)).
      - intros p Hp. apply in_map_iff in Hp as [x [<- Hx]]. apply Num. exact Hx.
      - apply in_map. exact Hy. }
    split; [| split; [reflexivity|]].
    - apply rows_asc_char; [exact I' | |].
      + rewrite LR. destruct front.
        * eapply Permutation_trans; [apply Permutation_app_comm|]. cbn [app].
          apply perm_skip. apply Permutation_sym. apply rows_asc_perm.
        * apply Permutation_app_tail. apply Permutation_sym. apply rows_asc_perm.
      + destruct front.
        * apply SS_cons; [apply rows_asc_SS; exact I | exact Bd].
        * apply SS_snoc; [apply rows_asc_SS; exact I | exact Bd].
    - unfold list_view. apply (view_list_upd now key d d' k (fun _ => r')); auto.
      split; [reflexivity|]. repeat (split; [reflexivity|]).
      intros id Hid. change (rlist d') with (rlist d ++ [new]). rewrite filter_app.
      cbn [filter new l_kid]. destruct (Z.eqb_spec (k_id k) id); [congruence | apply app_nil_r].
  Qed.

  (* ---- the four sequence theorems ---- *)

  Theorem push_back_appends : forall now key v d d' n k b,
    Inv d -> live_key now d key T_LIST = Some k -> to_bytes v = Some (Some b) ->
    list_push now key v false d = (d', Ok n) ->
    seq_of d' (k_id k) = seq_of d (k_id k) ++ [b] /\ n = zlen (seq_of d' (k_id k)).
  Proof.
    intros now key v d d' n k b I LK Tb LP. apply Inv_iff in I.
    pose proof (list_push_live now key v false d k b I LK Tb) as H. rewrite LP in H.
    destruct H as [new [En [I' [RA [Hn _]]]]]. unfold seq_of. rewrite RA, map_app. cbn [map]. rewrite En.
    split; [reflexivity|]. rewrite zlen_app, zlen_map, zlen_cons. change (zlen (@nil bytes)) with 0. lia.
  Qed.

  Theorem push_front_prepends : forall now key v d d' n k b,
    Inv d -> live_key now d key T_LIST = Some k -> to_bytes v = Some (Some b) ->
    list_push now key v true d = (d', Ok n) ->
    seq_of d' (k_id k) = b :: seq_of d (k_id k) /\ n = zlen (seq_of d' (k_id k)).
  Proof.
    intros now key v d d' n k b I LK Tb LP. apply Inv_iff in I.
    pose proof (list_push_live now key v true d k b I LK Tb) as H. rewrite LP in H.
    destruct H as [new [En [I' [RA [Hn _]]]]]. unfold seq_of. rewrite RA. cbn [map]. rewrite En.
    split; [reflexivity|]. rewrite zlen_cons, zlen_map. lia.
  Qed.

  Theorem pop_back_removes_last : forall now key d d' e k,
    Inv d -> live_key now d key T_LIST = Some k -> list_pop now key true d = (d', Ok e) ->
    seq_of d (k_id k) = seq_of d' (k_id k) ++ [e].
  Proof.
    intros now key d d' e k I LK LP. apply Inv_iff in I.
    pose proof (list_pop_eff now key true d k I LK) as H.
    destruct (rev (rows_asc d (k_id k))) as [|r rest] eqn:RW; [congruence|].
    destruct H as [d2 [E [_ [RA _]]]]. rewrite LP in E. injection E as E1 E2. subst d2 e.
    unfold seq_of. rewrite RA, <- (rev_involutive (rows_asc d (k_id k))), RW. cbn [rev].
    rewrite map_app. reflexivity.
  Qed.

  Theorem pop_front_removes_first : forall now key d d' e k,
    Inv d -> live_key now d key T_LIST = Some k -> list_pop now key false d = (d', Ok e) ->
    seq_of d (k_id k) = e :: seq_of d' (k_id k).
  Proof.
    intros now key d d' e k I LK LP. apply Inv_iff in I.
    pose proof (list_pop_eff now key false d k I LK) as H.
    destruct (rows_asc d (k_id k)) as [|r rest] eqn:RW; [congruence|].
    destruct H as [d2 [E [_ [RA _]]]]. rewrite LP in E. injection E as E1 E2. subst d2 e.
    unfold seq_of. rewrite RA, RW. reflexivity.
  Qed.

  (* ---- push: a name that holds another type ---- *)

  Lemma live_any_find now d key r : live_any now d key = Some r -> find_key d key = Some r /\ live now r = true.
  Proof.
    unfold live_any. destruct (find_key d key) as [r0|]; [| discriminate].
    destruct (live now r0) eqn:L; [| discriminate]. intros E. injection E as <-. auto.
  Qed.

  Lemma list_push_wrongtype now key v front d r b :
    live_any now d key = Some r -> k_type r <> 2 -> to_bytes v = Some (Some b) ->
    list_push now key v front d = (d, Err EKeyType).
  Proof.
    intros LA T Tb. apply live_any_find in LA as [F L]. unfold list_push.
    rewrite (bind_ok _ _ _ _ _ (bytes_arg_some v d b Tb)).
    apply bind_err. unfold typed_error, upsert_key.
    rewrite (reset_live now key T_LIST d r F L), F. unfold T_LIST.
    destruct (Z.eqb_spec (k_type r) 2); [contradiction | reflexivity].
  Qed.

  (* ---- push: a name that is absent or expired ---- *)

  Lemma no_rows_fresh d : InvH None d -> forall x, In x (rlist d) -> (l_kid x =? next_key_id d) = false.
  Proof.
    intros I x Hx. destruct (a_own _ _ _ (i_a _ _ I) 2 (l_kid x)) as [r [Hr [E _]]]; [lia | |].
    - change (kidsOf d 2) with (map l_kid (rlist d)). apply in_map. exact Hx.
    - unfold next_key_id. assert (k_id r <= zmax_list (map k_id (rkey d))) by (apply zmax_ge, in_map; exact Hr).
      lia.
  Qed.

  Lemma reset_struct2 now key d r0 :
    find_key d key = Some r0 -> expired now r0 = true ->
    exists G,
      (forall x, k_id (G x) = k_id x /\ k_key (G x) = k_key x /\ k_type (G x) = 2 /\ k_etime (G x) = None) /\
      rkey (reset_expired now key T_LIST d) = map (fun x => if k_id x =? k_id r0 then G x else x) (rkey d) /\
      rstring (reset_expired now key T_LIST d) = filter (fun x => negb (s_kid x =? k_id r0)) (rstring d) /\
      rlist (reset_expired now key T_LIST d) = filter (fun x => negb (l_kid x =? k_id r0)) (rlist d) /\
      rset (reset_expired now key T_LIST d) = filter (fun x => negb (e_kid x =? k_id r0)) (rset d) /\
      rhash (reset_expired now key T_LIST d) = filter (fun x => negb (h_kid x =? k_id r0)) (rhash d) /\
      rzset (reset_expired now key T_LIST d) = filter (fun x => negb (z_kid x =? k_id r0)) (rzset d).
  Proof.
    intros F X. unfold reset_expired. rewrite F, X. rewrite trig_list_delete_eq.
    set (nl := zlen (filter (fun x => l_kid x =? k_id r0) (rlist d))).
    exists (fun x => mkKey (k_id (trigG now nl x)) (k_key (trigG now nl x)) 2 (k_ver (trigG now nl x)) None
                           (k_mtime (trigG now nl x)) (Some 0)).
    assert (TG : forall x, k_id (trigG now nl x) = k_id x /\ k_key (trigG now nl x) = k_key x).
    { intros x. unfold trigG. destruct (nl =? 0); cbn; auto. }
    split; [intros x; cbn; destruct (TG x); auto|].
    split; [| repeat split].
    unfold upd_key_id, upd_keys, set_rkey. cbn [rkey]. rewrite map_map. apply map_ext. intros x.
    destruct (k_id x =? k_id r0) eqn:E.
    - rewrite (proj1 (TG x)), E. reflexivity.
    - rewrite E. reflexivity.
  Qed.

  Lemma list_push_fresh now key v front d b :
    InvH None d -> live_any now d key = None -> to_bytes v = Some (Some b) ->
    match list_push now key v front d with
    | (d', Ok n) =>
        InvH None d' /\ n = 1 /\
        forall k', view now d' k' =
          if String.eqb key k' then Some (mkEntry (AVList [b]) None) else view now d k'
    | (d', Err e) => exists c, e = ESql (SqUnique c)
    end.
  Proof.
    intros I LA Tb. pose proof (InvH_names _ _ I) as N.
    destruct (find_key_cases d key) as [[r0 [Hr0 [K0 F]]] | [Hno F]].
    - (* an expired row: it is stripped first, then it is a live empty list *)
      assert (X : expired now r0 = true).
      { unfold live_any in LA. rewrite F in LA. rewrite live_expired in LA.
        destruct (expired now r0); [reflexivity | discriminate]. }
      pose proof (InvH_reset now key T_LIST d I ltac:(unfold T_LIST; lia)) as I1.
      change (T_LIST =? 1) with false in I1. cbv iota in I1.
      destruct (reset_struct2 now key d r0 F X) as [G [HG [E0 [E1 [E2 [E3 [E4 E5]]]]]]].
      set (d1 := reset_expired now key T_LIST d) in *.
      destruct (HG r0) as [G1 [G2 [G3 G4]]].
      pose proof (InvH_names _ _ I1) as N1.
      assert (In1 : In (G r0) (rkey d1)).
      { rewrite E0. apply in_map_iff. exists r0. rewrite Z.eqb_refl. auto. }
      assert (F1 : find_key d1 key = Some (G r0)).
      { rewrite <- K0, <- G2. apply find_key_in; assumption. }
      assert (L1 : live now (G r0) = true) by (unfold live; rewrite G4; reflexivity).
      assert (LK1 : live_key now d1 key T_LIST = Some (G r0)).
      { unfold live_key. rewrite F1, L1. unfold T_LIST. rewrite G3. reflexivity. }
      assert (Fr : frame key d d1).
      { split.
        - intros r Hr Hk.
          assert (Hid : k_id r <> k_id r0).
          { intros Eid. apply Hk. rewrite <- K0. f_equal. apply (row_same_id _ d r r0 I Hr Hr0 Eid). }
          split.
          + rewrite E0. apply in_map_iff. exists r. split; [| exact Hr].
            destruct (Z.eqb_spec (k_id r) (k_id r0)); [contradiction | reflexivity].
          + apply same_rows_filtered with (keep := fun k => negb (k =? k_id r0)); try assumption.
            apply negb_true_iff. lia.
        - intros r' Hr' Hk. rewrite E0 in Hr'. apply in_map_iff in Hr' as [r [<- Hr]].
          destruct (Z.eqb_spec (k_id r) (k_id r0)) as [Eid|Eid]; [| exact Hr].
          exfalso. apply Hk. rewrite (proj1 (proj2 (HG r))).
          rewrite <- K0. f_equal. apply (row_same_id _ d r r0 I Hr Hr0 Eid). }
      assert (Emp : list_rows d1 (k_id (G r0)) = []).
      { unfold list_rows. rewrite E2, G1. apply filter_none. intros x Hx.
        apply filter_In in Hx as [_ Hx]. apply negb_true_iff in Hx. exact Hx. }
      assert (RS : reset_expired now key T_LIST d1 = d1) by (apply (reset_live now key T_LIST d1 (G r0) F1 L1)).
      assert (UE : upsert_key now key T_LIST None (Some 1) (fun r => with_len r (opt_add (k_len r) 1)) d =
                   upsert_key now key T_LIST None (Some 1) (fun r => with_len r (opt_add (k_len r) 1)) d1).
      { unfold upsert_key. fold d1. rewrite RS, F1. unfold T_LIST. rewrite G3. reflexivity. }
      assert (PE : list_push now key v front d = list_push now key v front d1).
      { unfold list_push.
        rewrite (bind_ok _ _ _ _ _ (bytes_arg_some v d b Tb)), (bind_ok _ _ _ _ _ (bytes_arg_some v d1 b Tb)).
        unfold bind at 1 3. unfold typed_error. rewrite UE. reflexivity. }
      rewrite PE. pose proof (list_push_live now key v front d1 (G r0) b I1 LK1 Tb) as H.
      destruct (list_push now key v front d1) as [d' [n|e]]; [| exact H].
      destruct H as [new [En [I' [RA [Hn VW]]]]].
      assert (RA0 : rows_asc d1 (k_id (G r0)) = []) by (unfold rows_asc; rewrite Emp; reflexivity).
      rewrite RA0 in RA, Hn. split; [exact I'|]. split; [exact Hn|].
      intros k'. rewrite VW. destruct (String.eqb_spec key k') as [<- | NE].
      + unfold seq_of. rewrite RA, G4. destruct front; cbn; rewrite En; reflexivity.
      + apply (view_frame now key d d1 k' N N1 Fr). congruence.
    - (* no row of that name *)
      set (r0 := mkKey (next_key_id d) key T_LIST 1 None now (Some 1)).
      set (d1 := set_rkey d (rkey d ++ [r0])).
      assert (U : upsert_key now key T_LIST None (Some 1)
                    (fun r => with_len r (opt_add (k_len r) 1)) d = (d1, Ok r0)).
      { unfold upsert_key.
        replace (reset_expired now key T_LIST d) with d by (unfold reset_expired; rewrite F; reflexivity).
        rewrite F. reflexivity. }
      assert (Emp : list_rows d1 (k_id r0) = []).
      { unfold list_rows. change (rlist d1) with (rlist d). apply filter_none.
        intros x Hx. apply (no_rows_fresh d I x Hx). }
      destruct (list_push now key v front d) as [d' w] eqn:LP.
      assert (I' : match w with Ok _ => InvH None d' | Err _ => True end).
      { destruct w; [| exact Logic.I]. eapply pres_list_push; eauto. }
      rewrite (list_push_after_upsert now key v front d b d1 r0 1 Tb U eq_refl) in LP
        by (rewrite Emp; intros x []).
      rewrite Emp in LP. change (rlist d1) with (rlist d) in LP. cbn [map] in LP.
      set (new := mkL (k_id r0) (push_pos front []) b) in *.
      destruct (existsb _ (rlist d)); injection LP as <- <-; [eauto|].
      set (d' := set_rlist d1 (rlist d ++ [new])) in *.
      split; [exact I'|]. split; [reflexivity|].
      pose proof (InvH_names _ _ I') as N'.
      apply view_after; [exact N | exact N' | |].
      + split.
        * intros r Hr Hk. split; [apply in_or_app; left; exact Hr|].
          unfold same_rows, find_sval. change (rlist d') with (rlist d ++ [new]).
          rewrite filter_app. cbn [filter new l_kid r0 k_id].
          assert (k_id r <= zmax_list (map k_id (rkey d))) by (apply zmax_ge, in_map; exact Hr).
          unfold next_key_id. destruct (Z.eqb_spec (zmax_list (map k_id (rkey d)) + 1) (k_id r)); [lia|].
          rewrite app_nil_r. repeat split.
        * intros r Hr Hk. change (rkey d') with (rkey d ++ [r0]) in Hr.
          apply in_app_iff in Hr as [Hr | [<- | []]]; [exact Hr|]. exfalso. apply Hk. reflexivity.
      + assert (Hin : In r0 (rkey d')) by (apply in_or_app; right; left; reflexivity).
        rewrite (view_row' now d' r0 key N' Hin eq_refl). cbn [live k_etime r0].
        rewrite abs_val_list by reflexivity. unfold seq_of, rows_asc, list_rows.
        change (rlist d') with (rlist d ++ [new]). rewrite filter_app.
        fold (list_rows d (k_id r0)). change (list_rows d (k_id r0)) with (list_rows d1 (k_id r0)).
        rewrite Emp. cbn [filter new l_kid app]. rewrite Z.eqb_refl. reflexivity.
  Qed.

  Lemma list_push_sim now key v front d s1 :
    Sim now d s1 ->
    match list_push now key v front d with
    | (d', Ok n) => exists s', spec_push s1 key v front = (s', out_ok (VI n)) /\ Sim now d' s'
    | (d', Err e) => (exists c, e = ESql (SqUnique c)) \/ spec_push s1 key v front = (s1, out_err e)
    end.
  Proof.
    intros S. pose proof S as [I [N G]]. unfold spec_push.
    destruct (to_bytes_cases v) as [[Tb [Bv _]] | [b [Tb [Bv _]]]]; rewrite Bv.
    { unfold list_push. rewrite (bind_err _ _ _ _ _ (bytes_arg_none v d Tb)). right. reflexivity. }
    rewrite (other_type_sim _ _ _ key S), (spec_list_sim _ _ _ key S), live_key_any.
    destruct (live_any now d key) as [r|] eqn:LA.
    - destruct (Z.eqb_spec (k_type r) 2) as [T|T]; cbn [negb].
      + assert (LK : live_key now d key T_LIST = Some r).
        { rewrite live_key_any, LA. replace (k_type r =? 2) with true by lia. reflexivity. }
        pose proof (list_push_live now key v front d r b I LK Tb) as H.
        destruct (list_push now key v front d) as [d' [n|e]]; [| left; exact H].
        destruct H as [new [En [I' [RA [Hn VW]]]]]. cbn [or_nil].
        assert (SQ : seq_of d' (k_id r) = if front then b :: seq_of d (k_id r) else seq_of d (k_id r) ++ [b]).
        { unfold seq_of. rewrite RA. destruct front; [| rewrite map_app]; cbn [map]; rewrite En; reflexivity. }
        eexists. split.
        * f_equal. f_equal. f_equal. rewrite <- SQ. unfold seq_of. rewrite RA, zlen_map, Hn.
          destruct front; [rewrite zlen_cons | rewrite zlen_app, zlen_cons]; change (zlen (@nil lrow)) with 0; lia.
        * apply (Sim_list_put now d s1 d' key r); auto.
      + rewrite (list_push_wrongtype now key v front d r b LA T Tb). right. reflexivity.
    - pose proof (list_push_fresh now key v front d b I LA Tb) as H.
      destruct (list_push now key v front d) as [d' [n|e]]; [| left; exact H].
      destruct H as [I' [-> VW]]. cbn [or_nil].
      assert (KE : keep_exp s1 key = None).
      { unfold keep_exp. rewrite G, (view_dead now d key LA). reflexivity. }
      eexists. split.
      * f_equal. destruct front; reflexivity.
      * unfold sput_val. rewrite KE. apply (Sim_put now d); [exact S | exact I' |].
        destruct front; exact VW.
  Qed.

  (* ---- pop at the back of one list, push at the front of another ---- *)

  Lemma list_pop_push_sim now src dest d s1 :
    Sim now d s1 ->
    let '(d', r) := list_pop_push now src dest d in
    (exists c, o_err r = Some (ESql (SqUnique c))) \/
    exists s', spec_pop_push s1 src dest = (s', r) /\ Sim now (if is_err r then d else d') s'.
  Proof.
    intros S. unfold list_pop_push, spec_pop_push.
    pose proof (list_pop_sim now src true d s1 S) as H.
    destruct (list_pop now src true d) as [d1 [e|er]].
    - destruct H as [s' [Esp S']]. rewrite Esp. cbn [o_err o_val out_ok].
      pose proof (list_push_sim now dest (ABytes e) true d1 s' S') as H2.
      destruct (list_push now dest (ABytes e) true d1) as [d2 [n|er]].
      + destruct H2 as [s'' [Esp2 S'']]. right. exists s''.
        assert (OT : other_type s' dest 2 = false).
        { unfold spec_push in Esp2. cbn [bytes_of_value to_bytes] in Esp2.
          destruct (other_type s' dest 2); [discriminate | reflexivity]. }
        rewrite OT, Esp2. split; [reflexivity | exact S''].
      + destruct H2 as [[c ->] | Esp2]; [left; exists c; reflexivity|]. right. exists s1.
        unfold spec_push in Esp2. cbn [bytes_of_value to_bytes] in Esp2.
        destruct (other_type s' dest 2); [| discriminate].
        injection Esp2 as <-. split; [reflexivity | exact S].
    - destruct H as [-> Esp]. rewrite Esp. right. exists s1. split; [reflexivity | exact S].
  Qed.

  (* ---- the step theorem ---- *)

  Definition is_push (o : op) : bool :=
    match o with LPushBack _ _ | LPushFront _ _ | LPopBackPushFront _ _ => true | _ => false end.
  (* the push did not hit the UNIQUE (kid, pos) index: max+1 (min-1) was a new position *)
  Definition push_free (now : Z) (o : op) (d : db) : Prop :=
    forall c, o_err (snd (exec_db now o d)) <> Some (ESql (SqUnique c)).

  Lemma step_sim now o d s d' r s' :
    exec_db now o d = (d', r) -> spec_step now o s = (s', r) ->
    (forall x, proj_result o x = x) -> Sim now d' s' -> step_refines now o d s.
  Proof.
    intros E1 E2 Pj S. eapply step_intro; [exact E1 | exact E2 | apply out_equiv_refl; apply Pj | apply Sim_R; exact S].
  Qed.

  Ltac fin_w E Es S' :=
    eapply step_sim; [eapply exec_wrapped_run; [reflexivity | reflexivity | exact E]
                     | exact Es | intros x; reflexivity | exact S'].

  Theorem C02_list_step_refines_partial : forall now o d s,
    list_op o = true -> wf_lop o -> Inv d -> R now d s ->
    (is_push o = true -> push_free now o d) -> step_refines now o d s.
  Proof.
    intros now o d s Ho Wf I HR PF. apply Inv_iff in I.
    pose proof (Sim_of_R now d s I HR) as S. set (s1 := spurge now s) in *.
    destruct o; try discriminate Ho; clear Ho; cbn [wf_lop] in Wf.
    - (* LDelete *)
      pose proof (list_delete_sim now key v d s1 S) as H.
      destruct (list_delete now key v d) as [d' [n|e]] eqn:E.
      + destruct H as [s' [Es S']]. fin_w E Es S'.
      + destruct H as [-> Es]. fin_w E Es S.
    - (* LDeleteBack *)
      pose proof (list_delete_n_sim now key v count true d s1 S) as H.
      destruct (list_delete_n now key v count true d) as [d' [n|e]] eqn:E.
      + destruct H as [s' [Es S']]. fin_w E Es S'.
      + destruct H as [-> Es]. fin_w E Es S.
    - (* LDeleteFront *)
      pose proof (list_delete_n_sim now key v count false d s1 S) as H.
      destruct (list_delete_n now key v count false d) as [d' [n|e]] eqn:E.
      + destruct H as [s' [Es S']]. fin_w E Es S'.
      + destruct H as [-> Es]. fin_w E Es S.
    - (* LGet *)
      pose proof (list_get_sim now key idx d s1 S Wf) as H.
      eapply step_sim with (s' := s1);
        [eapply exec_unwrapped_run; [reflexivity | reflexivity | exact H] | | intros x; reflexivity | exact S].
      cbn [spec_step]. fold s1. cbv zeta.
      destruct (norm_index (zlen (or_nil (spec_list s1 key))) idx) as [j|]; [| reflexivity].
      destruct (hd_error (zdrop j (or_nil (spec_list s1 key)))); reflexivity.
    - (* LLen *)
      pose proof (list_len_sim now key d s1 S) as H.
      eapply step_sim with (s' := s1);
        [eapply exec_unwrapped_run; [reflexivity | reflexivity | exact H] | reflexivity | intros x; reflexivity | exact S].
    - (* LPopBack *)
      pose proof (list_pop_sim now key true d s1 S) as H.
      destruct (list_pop now key true d) as [d' [n|e]] eqn:E.
      + destruct H as [s' [Es S']]. fin_w E Es S'.
      + destruct H as [-> Es]. fin_w E Es S.
    - (* LPopBackPushFront *)
      pose proof (list_pop_push_sim now src dest d s1 S) as H.
      specialize (PF eq_refl). unfold push_free in PF.
      rewrite exec_db_wrapped in PF by reflexivity. cbn [exec_tx snd] in PF.
      destruct (list_pop_push now src dest d) as [d' r] eqn:E.
      destruct H as [[c Hc] | [s' [Es S']]]; [exfalso; exact (PF c Hc)|].
      eapply step_sim; [| exact Es | intros x; reflexivity | exact S'].
      rewrite exec_db_wrapped by reflexivity. cbn [exec_tx]. rewrite E. reflexivity.
    - (* LPopFront *)
      pose proof (list_pop_sim now key false d s1 S) as H.
      destruct (list_pop now key false d) as [d' [n|e]] eqn:E.
      + destruct H as [s' [Es S']]. fin_w E Es S'.
      + destruct H as [-> Es]. fin_w E Es S.
    - (* LPushBack *)
      pose proof (list_push_sim now key v false d s1 S) as H.
      destruct (list_push now key v false d) as [d' [n|e]] eqn:E.
      + destruct H as [s' [Es S']]. fin_w E Es S'.
      + destruct H as [[c ->] | Es]; [| fin_w E Es S].
        exfalso. apply (PF eq_refl c).
        erewrite exec_wrapped_run; [| reflexivity | reflexivity | exact E]. reflexivity.
    - (* LPushFront *)
      pose proof (list_push_sim now key v true d s1 S) as H.
      destruct (list_push now key v true d) as [d' [n|e]] eqn:E.
      + destruct H as [s' [Es S']]. fin_w E Es S'.
      + destruct H as [[c ->] | Es]; [| fin_w E Es S].
        exfalso. apply (PF eq_refl c).
        erewrite exec_wrapped_run; [| reflexivity | reflexivity | exact E]. reflexivity.
    - (* LRange *)
      pose proof (list_range_sim now key start stop d s1 S) as H.
      eapply step_sim with (s' := s1);
        [eapply exec_unwrapped_run; [reflexivity | reflexivity | exact H] | reflexivity | intros x; reflexivity | exact S].
    - (* LSet *)
      pose proof (list_set_sim now key idx v d s1 S Wf) as H.
      destruct (list_set now key idx v d) as [d' [n|e]] eqn:E.
      + destruct H as [s' [Es S']]. fin_w E Es S'.
      + destruct H as [-> Es]. fin_w E Es S.
    - (* LTrim *)
      destruct (list_trim_sim now key start stop d s1 S) as [d' [n [s' [E [Es S']]]]].
      fin_w E Es S'.
  Qed.

  (* without pushes the statement holds as given *)
  Theorem C02_list_step_refines_nopush : forall now o d s,
    list_op o = true -> is_push o = false -> wf_lop o -> Inv d -> R now d s -> step_refines now o d s.
  Proof.
    intros now o d s Ho Np Wf I HR. apply C02_list_step_refines_partial; auto.
    intros C. congruence.
  Qed.

End FloatFacts.

(* ================================================================== *)
(* The step statement without the side condition on pushes is false:  *)
(* at 2^53 the position max+1 rounds back to max, the UNIQUE index on *)
(* (kid, pos) refuses the row and the call fails, while the abstract  *)
(* push succeeds.                                                     *)
(* ================================================================== *)

Definition cex_dl : db :=
  mkDb [mkKey 1 "k" 2 1 None 0 (Some 1)] [] [mkL 1 9007199254740992%float "a"] [] [] [] true.
Definition cex_sl : sstate := [("k", mkEntry (AVList ["a"]) None)].

Eval vm_compute in (exec_db 0 (LPushBack "k" (AStr "b")) cex_dl).
Eval vm_compute in (snd (spec_step 0 (LPushBack "k" (AStr "b")) cex_sl)).

Theorem C02_list_step_refines_counterexample :
  ~ (forall now o d s,
       list_op o = true -> wf_lop o -> Inv d -> R now d s -> step_refines now o d s).
Proof.
  intros H.
  assert (IV : Inv cex_dl) by (split; vm_compute; reflexivity).
  assert (RR : R 0 cex_dl cex_sl).
  { split; [repeat constructor; intros []|]. intros k.
    replace (abs 0 cex_dl) with cex_sl by (vm_compute; reflexivity).
    replace (spurge 0 cex_sl) with cex_sl by (vm_compute; reflexivity). reflexivity. }
  specialize (H 0 (LPushBack "k" (AStr "b")) cex_dl cex_sl eq_refl Logic.I IV RR).
  unfold step_refines in H.
  replace (exec_db 0 (LPushBack "k" (AStr "b")) cex_dl)
    with (cex_dl, out_err (ESql (SqUnique "rlist.kid,rlist.pos"))) in H by (vm_compute; reflexivity).
  destruct (spec_step 0 (LPushBack "k" (AStr "b")) cex_sl) as [s' r'] eqn:E.
  assert (E2 : o_err r' = None).
  { replace r' with (snd (spec_step 0 (LPushBack "k" (AStr "b")) cex_sl)) by (rewrite E; reflexivity).
    vm_compute. reflexivity. }
  destruct H as [[C _] _]. rewrite E2 in C. discriminate C.
Qed.

Print Assumptions push_back_appends.
Print Assumptions push_front_prepends.
Print Assumptions pop_back_removes_last.
Print Assumptions pop_front_removes_first.
Print Assumptions C02_list_step_refines_partial.
Print Assumptions C02_list_step_refines_nopush.
Print Assumptions C02_list_step_refines_counterexample.
