(* Abs.v — the abstraction function from the faithful state to the abstract
   keyspace: forget ids, rowids, positions, versions, mtime and cached lengths,
   and drop every key whose expiry has been reached.  No proofs here. *)
From Redka Require Import Base Db Ops Spec.

Definition pos_le (a b : lrow) : bool := (l_pos a <=? l_pos b)%float.

Definition abs_val (d : db) (r : keyrow) : option aval :=
  let id := k_id r in
  match k_type r with
  | 1 => match ImplString.find_sval d id with Some v => Some (AVStr v) | None => None end
  | 2 => Some (AVList (map l_elem (isort pos_le (filter (fun x => l_kid x =? id) (rlist d)))))
  | 3 => Some (AVSet (map e_elem (filter (fun x => e_kid x =? id) (rset d))))
  | 4 => Some (AVHash (map (fun x => (h_field x, h_val x)) (filter (fun x => h_kid x =? id) (rhash d))))
  | 5 => Some (AVZSet (map (fun x => (z_elem x, z_score x)) (filter (fun x => z_kid x =? id) (rzset d))))
  | _ => None
  end.

Definition abs (now : Z) (d : db) : sstate :=
  flat_map (fun r =>
    if live now r then
      match abs_val d r with
      | Some v => [(k_key r, mkEntry v (k_etime r))]
      | None => []
      end
    else []) (rkey d).
