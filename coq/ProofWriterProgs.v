(* ProofWriterProgs.v - every command of the repository writes exactly one
   complete reply value, whatever the data.
   gen/WriterProgs.v is regenerated from the Go source by harness/cmd/wprogs
   (one IR program per command type: what its Run method, with the helpers it
   hands the writer to inlined, does with the redis.Writer).  The checker of
   Writer.v accepts every one of them (by computation), so by check_sound
   every trace of every command is one complete RESP value for EVERY
   environment, i.e. for all lengths of the collections involved.
   This discharges the assumption of Properties/C14.v ("a command's Run writes
   exactly one complete value") up to the translation Go -> IR. *)
From Coq Require Import List Bool String.
Import ListNotations.
From Redka Require Import Writer ProofWriter.
From Redka.gen Require WriterProgs.

Theorem all_commands_check :
  forallb (fun p => check (snd p)) WriterProgs.progs = true.
Proof. vm_compute. reflexivity. Qed.

Theorem every_command_writes_one_value : forall name p,
  In (name, p) WriterProgs.progs ->
  forall env tr ret, runs p env tr ret -> one_value tr.
Proof.
  intros name p Hin. apply check_sound.
  pose proof all_commands_check as Hall.
  rewrite forallb_forall in Hall. exact (Hall (name, p) Hin).
Qed.

(* the table is not empty: the number of command types translated *)
Definition n_commands : nat := List.length WriterProgs.progs.
Eval vm_compute in n_commands.

Print Assumptions all_commands_check.
Print Assumptions every_command_writes_one_value.
