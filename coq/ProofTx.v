(* ProofTx.v — property C07: every write is all-or-nothing, whatever fails and
   wherever.  Theorems about the definitions of Tx.v. *)
From Redka Require Import Base Db Ops Inv Refine ProofNoTrace ProofInv ProofInv2 Tx.

(* ---------- the un-faulted body is the block of Ops.v ---------- *)

Lemma run_body_None now ops : forall d,
  run_body now ops d None =
  let '(d1, rs, failed) := exec_block now ops true d in (d1, rs, negb failed).
Proof.
  induction ops as [|o rest IH]; intros d; cbn [run_body exec_block option_map].
  - reflexivity.
  - destruct (exec_tx true now o d) as [d1 r]. cbn [andb].
    destruct (is_err r); [reflexivity|].
    rewrite IH. destruct (exec_block now rest true d1) as [[d2 rs] f]. reflexivity.
Qed.

Lemma exec_block_ok_results now ops : forall d,
  snd (exec_block now ops true d) = false ->
  forallb (fun r => negb (is_err r)) (snd (fst (exec_block now ops true d))) = true.
Proof.
  induction ops as [|o rest IH]; intros d; cbn [exec_block].
  - reflexivity.
  - destruct (exec_tx true now o d) as [d1 r]. cbn [andb].
    destruct (is_err r) eqn:Er; [cbn; discriminate|].
    specialize (IH d1). destruct (exec_block now rest true d1) as [[d2 rs] f].
    cbn [fst snd forallb] in *. intros F. rewrite Er, (IH F). reflexivity.
Qed.

(* what NoFault does, in terms of Ops.exec_update *)
Lemma update_NoFault now ops d :
  update_with_fault now ops NoFault d =
  (fst (exec_update now ops true d), negb (snd (exec_block now ops true d))).
Proof.
  unfold update_with_fault, exec_update, fault_limit. rewrite run_body_None.
  destruct (exec_block now ops true d) as [[d1 rs] failed].
  destruct failed; reflexivity.
Qed.

(* every fault aborts and restores the snapshot *)
Lemma update_fault_aborts now ops f d :
  f <> NoFault -> update_with_fault now ops f d = (d, false).
Proof.
  intros N. unfold update_with_fault.
  destruct f; try reflexivity; try (exfalso; apply N; reflexivity);
    destruct (run_body now ops d _) as [[w rs] fin]; reflexivity.
Qed.

(* ---------- C07 ---------- *)

Theorem C07_all_or_nothing : forall now ops f d,
  let '(d', committed) := update_with_fault now ops f d in
  (committed = false -> d' = d) /\
  (committed = true ->
     f = NoFault /\ d' = fst (exec_update now ops true d) /\
     forallb (fun r => negb (is_err r)) (snd (exec_update now ops true d)) = true).
Proof.
  intros now ops f d.
  assert (D : f = NoFault \/ f <> NoFault) by (destruct f; auto; right; discriminate).
  destruct D as [-> | N].
  - rewrite update_NoFault. unfold exec_update.
    pose proof (exec_block_ok_results now ops d) as R.
    destruct (exec_block now ops true d) as [[d1 rs] failed]. cbn [fst snd] in *.
    destruct failed; cbn [negb fst snd]; split; intros H; try discriminate H.
    + reflexivity.
    + repeat split. apply R. reflexivity.
  - rewrite update_fault_aborts by exact N. split; [reflexivity | discriminate].
Qed.

Theorem C07_single_operation_atomic : forall now o d,
  is_err (snd (exec_db now o d)) = true -> fst (exec_db now o d) = d.
Proof. exact db_error_no_trace. Qed.

Theorem C07_same_behaviour_afterwards : forall now ops f d,
  fst (update_with_fault now ops f d) = d \/
  fst (update_with_fault now ops f d) = fst (exec_update now ops true d).
Proof.
  intros now ops f d.
  assert (D : f = NoFault \/ f <> NoFault) by (destruct f; auto; right; discriminate).
  destruct D as [-> | N].
  - right. rewrite update_NoFault. reflexivity.
  - left. rewrite update_fault_aborts by exact N. reflexivity.
Qed.

Theorem C07_usable_afterwards : forall now ops f d,
  Inv d -> Inv (fst (update_with_fault now ops f d)).
Proof.
  intros now ops f d I.
  destruct (C07_same_behaviour_afterwards now ops f d) as [E | E]; rewrite E.
  - exact I.
  - apply C11_inv_update_stop. exact I.
Qed.

Theorem C07_read_only_never_writes : forall now o d, fst (read_only_handle now o d) = d.
Proof.
  intros now o d. unfold read_only_handle. destruct (is_read o) eqn:Rd.
  - apply read_no_trace. exact Rd.
  - reflexivity.
Qed.

(* every DB-level method that is not wrapped in a transaction is a read or one
   of the six single-statement key writes *)
Theorem C07_wrapped_table : forall o, wrapped o = false ->
  is_read o = true \/ (exists ks, o = KDelete ks) \/ o = KDeleteAll \/
  (exists n, o = KDeleteExpired n) \/ (exists k t, o = KExpire k t) \/
  (exists k t, o = KExpireAt k t) \/ (exists k, o = KPersist k).
Proof.
  intros o W. destruct o; try discriminate W; try (left; reflexivity); right.
  - left. eexists. reflexivity.
  - right. left. reflexivity.
  - do 2 right. left. eexists. reflexivity.
  - do 3 right. left. do 2 eexists. reflexivity.
  - do 4 right. left. do 2 eexists. reflexivity.
  - do 5 right. eexists. reflexivity.
Qed.

(* ---------- a concrete run ---------- *)

Definition ex_db : db :=
  fst (exec_db 12 (HSet "h" "f" (AStr "1"))
    (fst (exec_db 11 (LPushBack "l" (AStr "x"))
      (fst (exec_db 10 (SSet "s" (AStr "v")) empty_db))))).
Definition ex_body : list op :=
  [SSet "s" (AStr "w"); LPushBack "l" (AStr "y"); HSet "h" "g" (AStr "2")].

(* three writes, the storage fails at the third call (two have run): the two
   calls did change the working state, the durable state is what it was; without
   the fault the same body commits and changes it *)
Example C07_example :
  update_with_fault 20 ex_body (FailAt 2) ex_db = (ex_db, false) /\
  List.length (snd (fst (run_body 20 ex_body ex_db (Some 2%nat)))) = 2%nat /\
  fst (fst (run_body 20 ex_body ex_db (Some 2%nat))) <> ex_db /\
  snd (update_with_fault 20 ex_body NoFault ex_db) = true /\
  fst (update_with_fault 20 ex_body NoFault ex_db) <> ex_db /\
  (* a body call that is refused (wrong type) aborts the whole block *)
  update_with_fault 20 (ex_body ++ [SIncr "l" 1]) NoFault ex_db = (ex_db, false).
Proof.
  assert (N : forall a b : db, map k_ver (rkey a) <> map k_ver (rkey b) -> a <> b)
    by (intros a b H E; apply H; rewrite E; reflexivity).
  split; [vm_compute; reflexivity|].
  split; [vm_compute; reflexivity|].
  split; [apply N; vm_compute; discriminate|].
  split; [vm_compute; reflexivity|].
  split; [apply N; vm_compute; discriminate|].
  vm_compute; reflexivity.
Qed.

Print Assumptions C07_all_or_nothing.
Print Assumptions C07_single_operation_atomic.
Print Assumptions C07_usable_afterwards.
Print Assumptions C07_same_behaviour_afterwards.
Print Assumptions C07_read_only_never_writes.
Print Assumptions C07_wrapped_table.
Print Assumptions C07_example.
