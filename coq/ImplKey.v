(* ImplKey.v — internal/rkey/tx.go, statement by statement.  No proofs here. *)
From Redka Require Import Base Db Glob.

(* the six columns every key query returns *)
Definition key_rv (r : keyrow) : rv :=
  VL [VI (k_id r); VS (k_key r); VI (k_type r); VI (k_ver r);
      match k_etime r with Some e => VI e | None => VNone end; VI (k_mtime r)].

Definition key_in (keys : list bytes) (r : keyrow) : bool := str_in (k_key r) keys.

(* sqlCount: select count(id) from rkey where key in (:keys) and live *)
Definition key_count (now : Z) (keys : list bytes) : M Z :=
  lift_read (count_keys (fun r => key_in keys r && live now r)).

(* sqlDelete: delete from rkey where key in (:keys) and live *)
Definition key_delete (now : Z) (keys : list bytes) : M Z :=
  fun d => let '(d', n) := delete_keys (fun r => key_in keys r && live now r) d in (d', Ok n).

(* sqlDeleteAll: "delete from rkey; vacuum; pragma integrity_check;" run as
   one multi-statement Exec.  Inside a transaction the vacuum fails after the
   delete has been executed. *)
Definition key_delete_all (in_tx : bool) : M unit :=
  fun d => let '(d', _) := delete_keys (fun _ => true) d in
           if in_tx then (d', Err (ESql SqVacuum)) else (d', Ok tt).

Definition key_exists (now : Z) (key : bytes) : M bool :=
  n <- key_count now [key] ;; ret (0 <? n).

(* sqlExpire: update rkey set version = version+1, etime = ? where key = ? and live *)
Definition key_expire_at (now : Z) (key : bytes) (at_ : Z) : M unit :=
  fun d =>
    let p := fun r => String.eqb (k_key r) key && live now r in
    if 0 <? count_keys p d
    then (upd_keys p (fun r => with_etime (with_ver r (k_ver r + 1)) (Some at_)) d, Ok tt)
    else (d, Err ENotFound).

(* sqlPersist *)
Definition key_persist (now : Z) (key : bytes) : M unit :=
  fun d =>
    let p := fun r => String.eqb (k_key r) key && live now r in
    if 0 <? count_keys p d
    then (upd_keys p (fun r => with_etime (with_ver r (k_ver r + 1)) None) d, Ok tt)
    else (d, Err ENotFound).

(* sqlGet *)
Definition key_get (now : Z) (key : bytes) : M keyrow :=
  fun d => match live_any now d key with
           | Some r => (d, Ok r)
           | None => (d, Err ENotFound)
           end.

(* sqlKeys: where key glob ? and live (no order by: compared as a set) *)
Definition key_keys (now : Z) (pat : bytes) : M (list keyrow) :=
  lift_read (fun d => filter (fun r => glob pat (k_key r) && live now r) (rkey d)).

(* sqlLen: select count( * ) from rkey  -- no expiry filter *)
Definition key_len : M Z := lift_read (fun d => zlen (rkey d)).

(* sqlRandom: order by random() limit 1 -- the choice is an oracle input:
   the key name the implementation returned; it must be a live key *)
Definition key_random (now : Z) (choice : option bytes) : M keyrow :=
  fun d =>
    let cands := filter (live now) (rkey d) in
    match cands with
    | [] => (d, Err ENotFound)
    | first :: _ =>
        match choice with
        | Some c =>
            match find (fun r => String.eqb (k_key r) c) cands with
            | Some r => (d, Ok r)
            | None => (d, Ok first)   (* illegal oracle choice: will disagree *)
            end
        | None => (d, Ok first)
        end
    end.

(* sqlRename: update or replace rkey set id = old.id, key = ?, type = old.type,
   version = old.version+1, etime = old.etime, mtime = ? from (live row key) old
   where rkey.key = ? and live.
   REPLACE resolves the conflict on the unique index rkey(key) by deleting the
   row that holds the new name -- whether live or expired -- and the foreign
   keys cascade from it. *)
Definition sql_rename (now : Z) (key newkey : bytes) : M unit :=
  fun d =>
    match live_any now d key with
    | None => (d, Ok tt)
    | Some old =>
        let '(d1, _) :=
          delete_keys (fun r => String.eqb (k_key r) newkey && negb (k_id r =? k_id old)) d in
        (upd_key_id (k_id old)
           (fun r => with_mtime (with_ver (with_key r newkey) (k_ver r + 1)) now) d1, Ok tt)
    end.

(* core.Key.Exists: ID != 0 *)
Definition key_struct_exists (r : keyrow) : bool := negb (k_id r =? 0).

Definition key_rename (now : Z) (key newkey : bytes) : M unit :=
  oldk <- key_get now key ;;
  if negb (key_struct_exists oldk) then fail ENotFound else
  if String.eqb key newkey then ret tt else
  try_ (key_get now newkey) (fun r =>
    match r with
    | Ok newk => if k_type oldk =? k_type newk then sql_rename now key newkey else fail EKeyType
    | Err ENotFound => sql_rename now key newkey
    | Err e => fail e
    end).

Definition key_rename_nx (now : Z) (key newkey : bytes) : M bool :=
  oldk <- key_get now key ;;
  if negb (key_struct_exists oldk) then fail ENotFound else
  if String.eqb key newkey then ret false else
  ex <- key_exists now newkey ;;
  if ex then ret false else
  sql_rename now key newkey ;;; ret true.

(* sqlScan: id > ? and key glob ? and (type = ? or true | type = ?) and live
   order by id asc limit ?   (count 0 -> scanPageSize; negative -> unlimited) *)
Definition scan_page_size := 10.
Definition key_scan (now : Z) (cursor : Z) (pat : bytes) (ktype : Z) (count : Z)
  : M (Z * list keyrow) :=
  lift_read (fun d =>
    let count := if count =? 0 then scan_page_size else count in
    let rows := filter (fun r => (cursor <? k_id r) && glob pat (k_key r)
                                 && ((ktype =? 0) || (k_type r =? ktype)) && live now r) (rkey d) in
    let page := sql_limit 0 count rows in
    (match rev page with last :: _ => k_id last | [] => 0 end, page)).

(* deleteExpired: n > 0 -> "delete ... where rowid in (select rowid from rkey
   where etime <= ? limit ?)" (which n rows is the planner's choice: the
   partial index rkey_etime_idx yields them by (etime, rowid));
   otherwise "delete from rkey where etime <= ?" *)
Definition key_le (a b : keyrow) : bool :=
  match k_etime a, k_etime b with
  | Some x, Some y => (x <? y) || ((x =? y) && (k_id a <=? k_id b))
  | _, _ => true
  end.
Definition key_delete_expired (now : Z) (n : Z) : M Z :=
  fun d =>
    if 0 <? n then
      let victims := map k_id (ztake n (isort key_le (filter (expired now) (rkey d)))) in
      let '(d', c) := delete_keys (fun r => zmem (k_id r) victims) d in (d', Ok c)
    else
      let '(d', c) := delete_keys (expired now) d in (d', Ok c).
