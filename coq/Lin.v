(* Lin.v — concurrent callers (property C08), the logical part.
   Clients issue calls on one database handle; a call is either one DB-level
   method or one caller-managed transaction (DB.Update with a callback).  The
   system is a labelled transition system in which the ONLY transition that
   touches the database applies a whole call at once ([Eff]): that is what
   SQLite's single writer and redka's "one transaction per method" give, and it
   is the assumption of this model, not something it derives.  Everything else
   (which interleavings are possible, what each caller is told, what order
   callers can infer from real time) is then a matter of logic.
   Definitions only; the theorems are in ProofLin.v. *)
From Redka Require Import Base Db ImplString ImplList Ops.
From Coq Require Import Permutation.

(* ---------- calls ---------- *)

Inductive work :=
| One (o : op)              (* a DB-level method: Ops.exec_db *)
| Block (ops : list op).    (* a caller-managed transaction: Ops.exec_update ... true *)

Record call := mkCall { c_client : nat; c_time : Z; c_work : work }.

(* what the caller is told: one result, or the results of the block's calls *)
Definition reply := list out.

(* the atomic effect of a call *)
Definition apply_call (c : call) (d : db) : db * reply :=
  match c_work c with
  | One o => let '(d', r) := exec_db (c_time c) o d in (d', [r])
  | Block ops => exec_update (c_time c) ops true d
  end.

(* ---------- the transition system ---------- *)

Inductive event :=
| Inv_ (c : call)              (* the client invokes the call *)
| Eff (c : call)               (* the call takes effect *)
| Ret (c : call) (r : reply).  (* the client gets its answer *)

Definition ev_call (e : event) : call := match e with Inv_ c | Eff c | Ret c _ => c end.
Definition ev_client (e : event) : nat := c_client (ev_call e).

(* calls in progress, with their reply once they have taken effect *)
Definition pending := list (call * option reply).
Definition sys := (db * pending)%type.

Definition idle (cl : nat) (p : pending) : Prop := forall x, In x p -> c_client (fst x) <> cl.

Inductive lts_step : sys -> event -> sys -> Prop :=
| step_inv : forall d p c,            (* a client has at most one call in progress *)
    idle (c_client c) p ->
    lts_step (d, p) (Inv_ c) (d, (c, None) :: p)
| step_eff : forall d p1 p2 c,        (* the whole call, at once *)
    lts_step (d, p1 ++ (c, None) :: p2) (Eff c)
             (fst (apply_call c d), p1 ++ (c, Some (snd (apply_call c d))) :: p2)
| step_ret : forall d p1 p2 c r,      (* only after the effect, with exactly its reply *)
    lts_step (d, p1 ++ (c, Some r) :: p2) (Ret c r) (d, p1 ++ p2).

(* the runs from the state [d0] with no call in progress *)
Inductive reach (d0 : db) : list event -> sys -> Prop :=
| reach_nil : reach d0 [] (d0, [])
| reach_snoc : forall tr s e s', reach d0 tr s -> lts_step s e s' -> reach d0 (tr ++ [e]) s'.

(* the well-formed histories *)
Definition trace (d : db) (tr : list event) (d' : db) : Prop := exists p, reach d tr (d', p).

(* ---------- linearization ---------- *)

(* the calls in the order of their effects *)
Definition effects (tr : list event) : list call :=
  flat_map (fun e => match e with Eff c => [c] | _ => [] end) tr.

(* the place in the linearization of an [Eff] event that comes right after [pre] *)
Definition lin_index (pre : list event) : nat := List.length (effects pre).

(* sequential execution, one call after the other *)
Fixpoint seq_run (d : db) (cs : list call) : db * list reply :=
  match cs with
  | [] => (d, [])
  | c :: rest =>
      let '(d1, r) := apply_call c d in
      let '(d2, rs) := seq_run d1 rest in (d2, r :: rs)
  end.

(* no event of client [cl] in this stretch of a history *)
Definition quiet (cl : nat) (tr : list event) : Prop := forall e, In e tr -> ev_client e <> cl.

(* ---------- vocabulary of the consequences ---------- *)

(* a string key read as a counter, the way Incr reads it: a missing key is 0 *)
Definition stored_text (d : db) (k : bytes) : option bytes :=
  match find_key d k with
  | Some r => if k_type r =? T_STRING then find_sval d (k_id r) else None
  | None => None
  end.
Definition stored_int (d : db) (k : bytes) : option Z :=
  match find_key d k with
  | Some r => match stored_text d k with Some s => value_int s | None => None end
  | None => Some 0
  end.
Definition no_expiry (d : db) (k : bytes) : Prop :=
  forall r, find_key d k = Some r -> k_etime r = None.

(* the element rows stored under a list key *)
Definition list_of (d : db) (key : bytes) : list lrow :=
  match find_key d key with
  | Some k => if k_type k =? T_LIST then list_rows d (k_id k) else []
  | None => []
  end.
Definition is_pop (key : bytes) (c : call) : Prop :=
  c_work c = One (LPopFront key) \/ c_work c = One (LPopBack key).
(* the values handed out by the pops that succeeded, in order *)
Definition popped_values (rs : list reply) : list bytes :=
  flat_map (fun r => match r with
                     | [mkOut (VS v) None] => [v]
                     | _ => []
                     end) rs.
