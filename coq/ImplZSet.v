(* ImplZSet.v — internal/rzset/{tx,range,delete,inter,union}.go, statement by
   statement, with the rzset_on_insert trigger.  Scores are binary64 values
   compared as SQLite compares REALs.  No proofs here. *)
From Redka Require Import Base Db Glob ImplSet.

Definition zset_rows (d : db) (kid : Z) : list zrow :=
  filter (fun r => z_kid r =? kid) (rzset d).
Definition next_zset_rid (d : db) : Z := zmax_list (map z_rid (rzset d)) + 1.

Definition live_zset_rows (now : Z) (d : db) (key : bytes) : list zrow :=
  match live_key now d key T_ZSET with
  | Some k => zset_rows d (k_id k)
  | None => []
  end.

(* "order by score asc, elem asc" and its desc/desc mirror *)
Definition z_le_asc (a b : zrow) : bool :=
  (z_score a <? z_score b)%float || ((z_score a =? z_score b)%float && String.leb (z_elem a) (z_elem b)).
Definition z_le_desc (a b : zrow) : bool := z_le_asc b a.
Definition z_sorted (desc : bool) (rows : list zrow) : list zrow :=
  isort (if desc then z_le_desc else z_le_asc) rows.

(* "score between ? and ?" *)
Definition score_between (lo hi : float) (r : zrow) : bool :=
  (lo <=? z_score r)%float && (z_score r <=? hi)%float.

Definition item_rv (r : zrow) : rv := VL [VS (z_elem r); VF (z_score r)].

(* sqlCount *)
Definition zset_count_elems (now : Z) (key : bytes) (elems : list (option bytes)) : M Z :=
  lift_read (fun d => zlen (filter (fun r => opt_in (z_elem r) elems) (live_zset_rows now d key))).

(* sqlAdd1 *)
Definition zset_add1 (now : Z) (key : bytes) : M keyrow :=
  typed_error (upsert_key now key T_ZSET None (Some 0) (fun r => r)).

(* SQLite stores a REAL with an integral value as an integer, so -0.0 comes
   back as +0.0 *)
Definition norm_zero (f : float) : float := if (f =? zero)%float then zero else f.

(* sqlAdd2 / sqlIncr2: upsert of (kid, elem); BEFORE INSERT trigger: len+1 when
   the pair is new.  [combine old new] is the score stored on conflict. *)
Definition zset_upsert (kid : Z) (elem : option bytes) (score : float)
           (combine : float -> float -> float) : M float :=
  fun d =>
    match elem with
    | None => (d, Err (ESql (SqNotNull "rzset.elem")))
    | Some e =>
        match find (fun r => (z_kid r =? kid) && String.eqb (z_elem r) e) (rzset d) with
        | Some old =>
            let s := norm_zero (combine (z_score old) score) in
            if negb (s =? s)%float then (d, Err (ESql (SqNotNull "rzset.score"))) else
            (set_rzset d (map (fun r => if (z_kid r =? kid) && String.eqb (z_elem r) e
                                        then mkZ (z_rid r) kid e s else r) (rzset d)), Ok s)
        | None =>
            if negb (score =? score)%float then (d, Err (ESql (SqNotNull "rzset.score"))) else
            let score := norm_zero score in
            let d1 := upd_key_id kid (fun r => with_len r (opt_add (k_len r) 1)) d in
            (set_rzset d1 (rzset d1 ++ [mkZ (next_zset_rid d1) kid e score]), Ok score)
        end
    end.

(* add() *)
Definition zset_add_raw (now : Z) (key : bytes) (v : value) (score : float) : M unit :=
  match to_bytes v with
  | None => fail EValueType
  | Some eb =>
      k <- zset_add1 now key ;;
      zset_upsert (k_id k) eb score (fun _ new => new) ;;; ret tt
  end.

Definition zset_add (now : Z) (key : bytes) (v : value) (score : float) : M bool :=
  elembs <- bytes_args [v] ;;
  c <- zset_count_elems now key elembs ;;
  zset_add_raw now key v score ;;;
  ret (c =? 0).

Fixpoint zset_add_each (now : Z) (key : bytes) (items : list (value * float)) : M unit :=
  match items with
  | [] => ret tt
  | (v, s) :: r => zset_add_raw now key v s ;;; zset_add_each now key r
  end.

(* AddMany: items is a Go map (distinct members, iteration order given) *)
Definition zset_add_many (now : Z) (key : bytes) (items : list (value * float)) : M Z :=
  elembs <- bytes_args (map fst items) ;;
  c <- zset_count_elems now key elembs ;;
  zset_add_each now key items ;;;
  ret (zlen items - c).

(* sqlCountScore *)
Definition zset_count (now : Z) (key : bytes) (lo hi : float) : M Z :=
  lift_read (fun d => zlen (filter (score_between lo hi) (live_zset_rows now d key))).

Definition zset_delete (now : Z) (key : bytes) (vs : list value) : M Z :=
  elembs <- bytes_args vs ;;
  fun d =>
    match live_key now d key T_ZSET with
    | None => (d, Ok 0)
    | Some k =>
        let hit := fun r => (z_kid r =? k_id k) && opt_in (z_elem r) elembs in
        let n := zlen (filter hit (rzset d)) in
        if n =? 0 then (d, Ok 0)
        else (bump_key_len now key T_ZSET n (set_rzset d (filter (fun r => negb (hit r)) (rzset d))), Ok n)
    end.

Definition delete_zrows (now : Z) (key : bytes) (victims : list zrow) : M Z :=
  fun d =>
    let n := zlen victims in
    if n =? 0 then (d, Ok 0) else
    let gone := map z_rid victims in
    (bump_key_len now key T_ZSET n
       (set_rzset d (filter (fun r => negb (zmem (z_rid r) gone)) (rzset d))), Ok n).

(* DeleteCmd: by rank "order by score, elem limit start, stop-start+1" *)
Definition zset_delete_rank (now : Z) (key : bytes) (start stop : Z) : M Z :=
  if (start <? 0) || (stop <? 0) then ret 0 else
  if stop <? start then ret 0 else
  d <- get_db ;;
  delete_zrows now key (sql_limit start (wrap64 (stop - start + 1))
                          (z_sorted false (live_zset_rows now d key))).

Definition zset_delete_score (now : Z) (key : bytes) (lo hi : float) : M Z :=
  d <- get_db ;;
  delete_zrows now key (filter (score_between lo hi) (live_zset_rows now d key)).

(* getRank: row_number() over (order by score dir, elem dir) - 1 *)
Fixpoint index_of (e : bytes) (rows : list zrow) (i : Z) : option (Z * float) :=
  match rows with
  | [] => None
  | r :: rest => if String.eqb (z_elem r) e then Some (i, z_score r) else index_of e rest (i + 1)
  end.

Definition zset_get_rank (now : Z) (key : bytes) (v : value) (desc : bool) : M (Z * float) :=
  elembs <- bytes_args [v] ;;
  fun d =>
    match elembs with
    | [Some e] =>
        match index_of e (z_sorted desc (live_zset_rows now d key)) 0 with
        | Some p => (d, Ok p)
        | None => (d, Err ENotFound)
        end
    | _ => (d, Err ENotFound)
    end.

Definition zset_get_score (now : Z) (key : bytes) (v : value) : M float :=
  elembs <- bytes_args [v] ;;
  fun d =>
    match elembs with
    | [Some e] =>
        match find (fun r => String.eqb (z_elem r) e) (live_zset_rows now d key) with
        | Some r => (d, Ok (z_score r))
        | None => (d, Err ENotFound)
        end
    | _ => (d, Err ENotFound)
    end.

(* Incr: sqlIncr1 then sqlIncr2 "score = score + excluded.score returning score" *)
Definition zset_incr (now : Z) (key : bytes) (v : value) (delta : float) : M float :=
  elembs <- bytes_args [v] ;;
  k <- zset_add1 now key ;;
  zset_upsert (k_id k) (match elembs with [e] => e | _ => None end) delta
              (fun old new => (old + new)%float).

Definition zset_len (now : Z) (key : bytes) : M Z :=
  fun d =>
    match live_key now d key T_ZSET with
    | None => (d, Ok 0)
    | Some k => match k_len k with Some n => (d, Ok n) | None => (d, Err (ESql SqScanNull)) end
    end.

(* RangeCmd.rangeRank: negative ranks select nothing; "rank between ? and ?" *)
Definition zset_range_rank (now : Z) (key : bytes) (start stop : Z) (desc : bool) : M (list zrow) :=
  if (start <? 0) || (stop <? 0) then ret [] else
  lift_read (fun d =>
    if stop <? start then [] else
    ztake (stop - start + 1) (zdrop start (z_sorted desc (live_zset_rows now d key)))).

(* RangeCmd.rangeScore with its three LIMIT forms *)
Definition zset_range_score (now : Z) (key : bytes) (lo hi : float) (desc : bool)
           (offset count : Z) : M (list zrow) :=
  lift_read (fun d =>
    let rows := z_sorted desc (filter (score_between lo hi) (live_zset_rows now d key)) in
    if (0 <? offset) && (0 <? count) then sql_limit offset count rows
    else if 0 <? count then sql_limit 0 count rows
    else if 0 <? offset then sql_limit offset (-1) rows
    else rows).

(* sqlScan: "... order by rzset.rowid limit ?" *)
Definition zset_scan (now : Z) (key : bytes) (cursor : Z) (pat : bytes) (count : Z)
  : M (Z * list zrow) :=
  lift_read (fun d =>
    let count := if count =? 0 then 10 else count in
    let rows := filter (fun r => (cursor <? z_rid r) && glob pat (z_elem r))
                       (live_zset_rows now d key) in
    let page := sql_limit 0 count rows in
    (zmax_list (map z_rid page), page)).

(* ---------- inter / union ---------- *)

Inductive zagg := GSum | GMin | GMax.

Definition agg_scores (g : zagg) (l : list float) : float :=
  match l with
  | [] => zero
  | x :: r =>
      fold_left (fun acc s =>
                   match g with
                   | GSum => (acc + s)%float
                   | GMin => if (s <? acc)%float then s else acc
                   | GMax => if (acc <? s)%float then s else acc
                   end) r x
  end.

Definition live_zset_ids (now : Z) (d : db) (keys : list bytes) : list Z :=
  map k_id (filter (fun r => str_in (k_key r) keys && (k_type r =? T_ZSET) && live now r) (rkey d)).
Definition zrows_of_keys (now : Z) (d : db) (keys : list bytes) : list zrow :=
  let ids := live_zset_ids now d keys in
  filter (fun r => zmem (z_kid r) ids) (rzset d).

Definition zcount_distinct_kid (rows : list zrow) (e : bytes) : Z :=
  let kids := map z_kid (filter (fun r => String.eqb (z_elem r) e) rows) in
  zlen (fold_right (fun k acc => if zmem k acc then acc else k :: acc) [] kids).

(* group by elem [having count(distinct kid) = n] order by agg(score), elem;
   the result rows reuse [zrow] with rid = kid = 0 *)
Definition zq (g : zagg) (need : option Z) (now : Z) (d : db) (keys : list bytes) : list zrow :=
  let rows := zrows_of_keys now d keys in
  let elems := dedup_bytes (map z_elem rows) in
  let groups := filter (fun e => match need with
                                 | Some n => zcount_distinct_kid rows e =? n
                                 | None => true
                                 end) elems in
  z_sorted false
    (map (fun e => mkZ 0 0 e (agg_scores g (map z_score (filter (fun r => String.eqb (z_elem r) e) rows))))
         groups).

Definition has_nan (rows : list zrow) : bool :=
  existsb (fun r => negb (z_score r =? z_score r)%float) rows.

(* InterCmd.run / UnionCmd.run *)
Definition zset_alg (inter : bool) (g : zagg) (now : Z) (keys : list bytes) : M (list zrow) :=
  fun d =>
    let rows := zq g (if inter then Some (zlen (dedup keys)) else None) now d keys in
    if has_nan rows then (d, Err (ESql SqScanNull)) else (d, Ok rows).

Fixpoint zset_add_all (kid : Z) (rows : list zrow) : M unit :=
  match rows with
  | [] => ret tt
  | r :: rest =>
      zset_upsert kid (Some (z_elem r)) (z_score r) (fun _ new => new) ;;;
      zset_add_all kid rest
  end.

(* sqlDeleteAll1 / sqlDeleteAll2 *)
Definition zset_delete_key (now : Z) (key : bytes) : M unit :=
  fun d =>
    match live_key now d key T_ZSET with
    | None => (d, Ok tt)
    | Some k =>
        let d1 := set_rzset d (filter (fun r => negb (z_kid r =? k_id k)) (rzset d)) in
        (upd_key_id (k_id k) (fun r => with_len (with_mtime (with_ver r 0) 0) (Some 0)) d1, Ok tt)
    end.

(* InterCmd.store / UnionCmd.store: run() first (the destination may be one of
   the sources), then empty and re-create the destination and add the items *)
Definition zset_store (inter : bool) (g : zagg) (now : Z) (dest : bytes) (keys : list bytes) : M Z :=
  items <- zset_alg inter g now keys ;;
  zset_delete_key now dest ;;;
  k <- zset_add1 now dest ;;
  zset_add_all (k_id k) items ;;;
  ret (zlen items).
