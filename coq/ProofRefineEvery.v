(* ProofRefineEvery.v — the history theorem over EVERY operation.

   ProofRefineAll.v speaks about histories in which every operation satisfies [covered o = true].
   The seven operations outside [covered] are
       KDeleteExpired n, KLen, KRandom c, KScan, EScan, HScan, ZScan.
   For four of them (the cursor scans) and for KDeleteExpired the specification does not determine the
   result ([spec_mode] = CmpState): what can be proved, and is proved here, is that the state keeps
   refining the specification's state.  KRandom's result is determined once the oracle choice is a
   legal one (a live key), like SPOP / SRANDMEMBER.  KLen's result is determined by the specification
   (CmpFull) but the code counts the rows of rkey, expired ones included (recorded known finding
   kf_keylen_counts_expired, Excl.v): the state part holds unconditionally, the result part holds when
   no stored key has expired ([klen_ok], which is [excluded now d KLen = None]) and is REFUTED
   otherwise ([KLen_result_refuted]).

   The step relation used here, [step_refines_m], is the mode-aware one: the state always, the result
   when the mode is CmpFull.  For a covered operation under its side conditions the mode IS CmpFull
   ([covered_mode_full]), so nothing is lost with respect to [step_refines]. *)
From Coq Require Import Permutation Lia ZifyBool Floats.
From Redka Require Import Base Db Glob ImplKey ImplSet ImplHash ImplZSet Ops Spec Abs Inv Excl Refine
  ProofNoTrace ProofInv ProofInv2 ProofExpiry ProofRefineStr ProofRefineHash ProofRefineSet
  ProofRefineList ProofRefineZSet ProofRefineZAlg ProofRefineAll.

(* ================================================================== *)
(* Part 0: the operations outside [covered]                           *)
(* ================================================================== *)

Definition uncovered_op (o : op) : bool :=
  match o with
  | KDeleteExpired _ | KLen | KRandom _ | KScan _ _ _ _
  | EScan _ _ _ _ | HScan _ _ _ _ | ZScan _ _ _ _ => true
  | _ => false
  end.

(* exactly these seven *)
Lemma covered_iff_not_uncovered o : covered o = negb (uncovered_op o).
Proof. destruct o; reflexivity. Qed.

(* ================================================================== *)
(* Part 1: the mode-aware step relation                               *)
(* ================================================================== *)

(* state refinement always; result agreement when the specification determines the result *)
Definition step_refines_m (now : Z) (o : op) (d : db) (s : sstate) : Prop :=
  let '(d', r) := exec_db now o d in
  let '(s', r') := spec_step now o s in
  R now d' s' /\ (spec_mode false o = CmpFull -> out_equiv o r r').

(* the state half alone *)
Definition state_refines (now : Z) (o : op) (d : db) (s : sstate) : Prop :=
  R now (fst (exec_db now o d)) (fst (spec_step now o s)).

Lemma step_m_intro now o d s d' r s' r' :
  exec_db now o d = (d', r) -> spec_step now o s = (s', r') ->
  R now d' s' -> (spec_mode false o = CmpFull -> out_equiv o r r') -> step_refines_m now o d s.
Proof. unfold step_refines_m. intros -> -> H1 H2. split; assumption. Qed.

(* the relation of Refine.v is the stronger one *)
Lemma step_refines_m_of now o d s : step_refines now o d s -> step_refines_m now o d s.
Proof.
  unfold step_refines, step_refines_m.
  destruct (exec_db now o d) as [d' r]. destruct (spec_step now o s) as [s' r'].
  intros [OE HR]. split; [exact HR | intros _; exact OE].
Qed.

Lemma step_refines_m_state now o d s : step_refines_m now o d s -> state_refines now o d s.
Proof.
  unfold step_refines_m, state_refines.
  destruct (exec_db now o d) as [d' r]. destruct (spec_step now o s) as [s' r'].
  intros [HR _]. exact HR.
Qed.

(* ... and for a covered operation under its side conditions the two say the same: the mode is CmpFull *)
Lemma no_nan_items (items : list (value * float)) :
  Forall (fun p => not_nan (snd p)) items -> existsb (fun p => is_nanf (snd p)) items = false.
Proof.
  induction 1 as [|p r Hp _ IH]; [reflexivity|]. cbn [existsb]. rewrite IH.
  unfold is_nanf. unfold not_nan in Hp. rewrite Hp. reflexivity.
Qed.

Lemma covered_mode_full o : covered o = true -> wf_zop o -> spec_mode false o = CmpFull.
Proof.
  intros Hc Wz. destruct o; try discriminate Hc; try reflexivity; cbn [spec_mode wf_zop] in *.
  - unfold is_nanf. unfold not_nan in Wz. rewrite Wz. reflexivity.
  - destruct Wz as [_ Wz]. rewrite (no_nan_items _ Wz). reflexivity.
  - unfold is_nanf. unfold not_nan in Wz. rewrite Wz. reflexivity.
Qed.

Lemma step_refines_m_covered now o d s :
  covered o = true -> wf_zop o -> (step_refines_m now o d s <-> step_refines now o d s).
Proof.
  intros Hc Wz. split; [| apply step_refines_m_of].
  pose proof (covered_mode_full o Hc Wz) as M.
  unfold step_refines, step_refines_m.
  destruct (exec_db now o d) as [d' r]. destruct (spec_step now o s) as [s' r'].
  intros [HR OE]. split; [exact (OE M) | exact HR].
Qed.

(* ================================================================== *)
(* Part 2: the premises of the two operations that need one           *)
(* ================================================================== *)

(* Key.Random is "order by random() limit 1"; the model takes the key the implementation returned
   as an oracle input.  As for SPOP / SRANDMEMBER ([legal_choice], ProofRefineSet.v) the choice must
   name one of the candidates - here: a stored key that is live at [now] - when there is one, and may
   be anything when there is none (the model then answers ENotFound without looking at it). *)
Definition legal_key_choice (now : Z) (d : db) (c : option bytes) : Prop :=
  match filter (live now) (rkey d) with
  | [] => True
  | rows => exists k, c = Some k /\ In k (map k_key rows)
  end.

(* Key.Len counts rows: it agrees with the specification when no stored key has expired.
   This is the negation of the recorded known finding, literally as Excl.v phrases it. *)
Definition klen_ok (now : Z) (d : db) : Prop := existsb (expired now) (rkey d) = false.

Lemma klen_ok_excluded now d : klen_ok now d <-> excluded now d KLen = None.
Proof.
  unfold klen_ok, excluded. destruct (existsb (expired now) (rkey d)); split; intros H;
    try reflexivity; discriminate H.
Qed.

Lemma klen_ok_forallb now d :
  klen_ok now d <-> forallb (fun k => negb (expired now k)) (rkey d) = true.
Proof.
  unfold klen_ok. induction (rkey d) as [|r ks IH]; [split; reflexivity|].
  cbn [existsb forallb]. destruct (expired now r); cbn [orb negb andb]; [split; intros H; discriminate H | exact IH].
Qed.

Lemma klen_ok_rows now d r : klen_ok now d -> In r (rkey d) -> expired now r = false.
Proof.
  unfold klen_ok. intros K Hr. destruct (expired now r) eqn:X; [| reflexivity].
  assert (E : existsb (expired now) (rkey d) = true) by (apply existsb_exists; exists r; split; assumption).
  congruence.
Qed.

(* ================================================================== *)
(* Part 3: the seven step theorems                                    *)
(* ================================================================== *)

Lemma run_lift_read_eq {A} (f : db -> A) (g : A -> rv) d : run (lift_read f) g d = (d, out_ok (g (f d))).
Proof. reflexivity. Qed.

Lemma filter_all {A} (p : A -> bool) l : (forall x, In x l -> p x = true) -> filter p l = l.
Proof.
  induction l as [|x r IH]; intros H; [reflexivity|]. cbn [filter].
  rewrite (H x (or_introl eq_refl)). f_equal. apply IH. intros y Hy. apply H. right. exact Hy.
Qed.

Lemma match_nonempty {A B} (l : list A) (x y : B) :
  l <> [] -> match l with [] => x | _ :: _ => y end = y.
Proof. destruct l; [intros H; exfalso; apply H; reflexivity | reflexivity]. Qed.

(* none of the six reading operations changes the database *)
Lemma uncovered_read_keeps_db now o d : is_read o = true -> fst (exec_db now o d) = d.
Proof.
  intros Rd. rewrite exec_unwrapped_fst by (apply read_not_wrapped; exact Rd). apply read_no_trace. exact Rd.
Qed.

(* ---- KDeleteExpired: which rows go ---- *)

Definition dx_pred (now n : Z) (d : db) : keyrow -> bool :=
  if 0 <? n
  then (fun r => zmem (k_id r) (map k_id (ztake n (isort key_le (filter (expired now) (rkey d))))))
  else expired now.

Lemma key_delete_expired_eq now n d :
  key_delete_expired now n d =
  (fst (delete_keys (dx_pred now n d) d), Ok (zlen (filter (dx_pred now n d) (rkey d)))).
Proof.
  unfold key_delete_expired, dx_pred. destruct (0 <? n); rewrite delete_keys_eq; reflexivity.
Qed.

(* limited or not, only expired rows are selected *)
Lemma dx_pred_expired now n d r :
  InvH None d -> In r (rkey d) -> dx_pred now n d r = true -> expired now r = true.
Proof.
  intros I Hr Hp. unfold dx_pred in Hp. destruct (0 <? n); [| exact Hp].
  apply zmem_In in Hp. apply in_map_iff in Hp as [v [E Hv]].
  apply ztake_In in Hv. apply (Permutation_in _ (isort_perm key_le _)) in Hv.
  apply filter_In in Hv as [Hv X].
  assert (Evr : v = r) by (apply (row_same_id _ d v r I Hv Hr); exact E).
  subst v. exact X.
Qed.

(* physically removing expired rows changes no name's reading *)
Lemma view_delete_only_expired now p d k :
  InvH None d -> (forall r, In r (rkey d) -> p r = true -> expired now r = true) ->
  view now (fst (delete_keys p d)) k = view now d k.
Proof.
  intros I Hp. rewrite view_delete by exact I.
  destruct (find_key d k) as [r|] eqn:F.
  - destruct (p r) eqn:Pr; [| reflexivity].
    pose proof (find_key_some _ _ _ F) as [Hr _].
    pose proof (Hp r Hr Pr) as X.
    unfold view, live_any. rewrite F, live_expired, X. reflexivity.
  - unfold view, live_any. rewrite F. reflexivity.
Qed.

Section StepsEvery.
Variable now : Z.
Variable d : db.
Variable s : sstate.
Hypothesis I : InvH None d.
Hypothesis HR : R now d s.

Let s1 := spurge now s.
Let N1' : NoDup (map fst s1) := ProofRefineStr.N1 now d s I HR.
Let G1' : forall k, sget s1 k = view now d k := ProofRefineStr.G1 now d s I HR.
Let P1' : Permutation (abs now d) s1 := ProofRefineStr.P1 now d s I HR.
Let R1' : R now d s1 := ProofRefineStr.R1 now d s HR.

(* ---- the four cursor scans: pure reads, result outside the specification ---- *)

Lemma step_KScan c p t n : step_refines_m now (KScan c p t n) d s.
Proof.
  eapply step_m_intro.
  - rewrite exec_db_unwrapped by reflexivity. cbn [exec_tx]. unfold key_scan. apply run_lift_read_eq.
  - cbn [spec_step]. reflexivity.
  - exact R1'.
  - intros H. discriminate H.
Qed.

Lemma step_EScan k c p n : step_refines_m now (EScan k c p n) d s.
Proof.
  eapply step_m_intro.
  - rewrite exec_db_unwrapped by reflexivity. cbn [exec_tx]. unfold set_scan. apply run_lift_read_eq.
  - cbn [spec_step]. reflexivity.
  - exact R1'.
  - intros H. discriminate H.
Qed.

Lemma step_HScan k c p n : step_refines_m now (HScan k c p n) d s.
Proof.
  eapply step_m_intro.
  - rewrite exec_db_unwrapped by reflexivity. cbn [exec_tx]. unfold hash_scan. apply run_lift_read_eq.
  - cbn [spec_step]. reflexivity.
  - exact R1'.
  - intros H. discriminate H.
Qed.

Lemma step_ZScan k c p n : step_refines_m now (ZScan k c p n) d s.
Proof.
  eapply step_m_intro.
  - rewrite exec_db_unwrapped by reflexivity. cbn [exec_tx]. unfold zset_scan. apply run_lift_read_eq.
  - cbn [spec_step]. reflexivity.
  - exact R1'.
  - intros H. discriminate H.
Qed.

(* ---- KLen ---- *)

(* the state part needs nothing *)
Lemma step_KLen_state : state_refines now KLen d s.
Proof.
  unfold state_refines. rewrite uncovered_read_keeps_db by reflexivity. cbn [spec_step fst]. exact R1'.
Qed.

(* what the two sides answer, in general: all rows against the live rows *)
Lemma KLen_answers :
  snd (exec_db now KLen d) = out_ok (VI (zlen (rkey d))) /\
  snd (spec_step now KLen s) = out_ok (VI (zlen (filter (live now) (rkey d)))).
Proof.
  split.
  - rewrite exec_db_unwrapped by reflexivity. reflexivity.
  - cbn [spec_step snd]. fold s1. rewrite <- (zlen_perm _ _ P1').
    rewrite abs_map by exact I. rewrite zlen_map. reflexivity.
Qed.

Lemma step_KLen : klen_ok now d -> step_refines_m now KLen d s.
Proof.
  intros K. eapply step_m_intro.
  - rewrite exec_db_unwrapped by reflexivity. cbn [exec_tx]. unfold key_len. apply run_lift_read_eq.
  - cbn [spec_step]. reflexivity.
  - exact R1'.
  - intros _. split; [reflexivity|]. cbn [proj_result o_val out_ok]. apply VI_equiv.
    fold s1. rewrite <- (zlen_perm _ _ P1'). rewrite abs_map by exact I. rewrite zlen_map.
    f_equal. symmetry. apply filter_all. intros r Hr.
    rewrite live_expired, (klen_ok_rows now d r K Hr). reflexivity.
Qed.

(* ---- KRandom ---- *)

Lemma step_KRandom c : legal_key_choice now d c -> step_refines_m now (KRandom c) d s.
Proof.
  intros L. unfold legal_key_choice in L.
  pose proof P1' as P. rewrite abs_map in P by exact I.
  destruct (filter (live now) (rkey d)) as [|first rest] eqn:C.
  - (* no live key: both sides answer "not found" whatever the choice *)
    cbn [map] in P. apply Permutation_nil in P. fold s1.
    eapply step_m_intro.
    + rewrite exec_db_unwrapped by reflexivity. cbn [exec_tx]. apply run_eq.
      unfold key_random. rewrite C. reflexivity.
    + cbn [spec_step]. fold s1. rewrite P. reflexivity.
    + rewrite <- P. exact R1'.
    + intros _. apply out_equiv_refl. reflexivity.
  - destruct L as [k [-> Hk]]. apply in_map_iff in Hk as [r0 [K0 H0]].
    destruct (find (fun x => String.eqb (k_key x) k) (first :: rest)) as [r|] eqn:F.
    2:{ exfalso. pose proof (find_none _ _ F r0 H0) as N. cbv beta in N.
        rewrite K0, String.eqb_refl in N. discriminate N. }
    pose proof (find_some _ _ F) as [Hr Kr]. apply String.eqb_eq in Kr.
    rewrite <- C in Hr. apply filter_In in Hr as [Hr Lr].
    assert (LA : live_any now d k = Some r).
    { unfold live_any. rewrite <- Kr. rewrite (find_key_in d r (InvH_names _ _ I) Hr), Lr. reflexivity. }
    destruct (view_live _ _ _ _ I LA) as [v [_ [T V]]].
    eapply step_m_intro.
    + rewrite exec_db_unwrapped by reflexivity. cbn [exec_tx]. apply run_eq.
      unfold key_random. rewrite C, F. reflexivity.
    + cbn [spec_step]. fold s1. rewrite G1', V. apply match_nonempty.
      intros E. rewrite E in P. apply Permutation_sym, Permutation_nil in P. discriminate P.
    + exact R1'.
    + intros _. split; [reflexivity|]. cbn. unfold key_info. cbn [en_val en_exp].
      rewrite T, Kr. apply rve_refl.
Qed.

(* ---- KDeleteExpired: up to n expired rows go, with their elements; the abstract state stays ---- *)

Lemma step_KDeleteExpired n : step_refines_m now (KDeleteExpired n) d s.
Proof.
  eapply step_m_intro.
  - eapply exec_unwrapped_run; [reflexivity | reflexivity | apply key_delete_expired_eq].
  - cbn [spec_step]. reflexivity.
  - apply R_intro.
    + apply InvH_delete. exact I.
    + exact N1'.
    + intros k. rewrite view_delete_only_expired; [| exact I |].
      * fold s1. rewrite G1'. apply purged_view.
      * intros r Hr Hp. apply (dx_pred_expired now n d r I Hr Hp).
  - intros H. discriminate H.
Qed.

End StepsEvery.

(* the seven, with [Inv] *)
Theorem KScan_step_refines : forall now c p t n d s,
  Inv d -> R now d s -> step_refines_m now (KScan c p t n) d s /\ fst (exec_db now (KScan c p t n) d) = d.
Proof.
  intros now c p t n d s I HR. split; [apply step_KScan; solve [exact HR | apply Inv_iff; exact I] |].
  apply uncovered_read_keeps_db. reflexivity.
Qed.
Theorem EScan_step_refines : forall now k c p n d s,
  Inv d -> R now d s -> step_refines_m now (EScan k c p n) d s /\ fst (exec_db now (EScan k c p n) d) = d.
Proof.
  intros now k c p n d s I HR. split; [apply step_EScan; solve [exact HR | apply Inv_iff; exact I] |].
  apply uncovered_read_keeps_db. reflexivity.
Qed.
Theorem HScan_step_refines : forall now k c p n d s,
  Inv d -> R now d s -> step_refines_m now (HScan k c p n) d s /\ fst (exec_db now (HScan k c p n) d) = d.
Proof.
  intros now k c p n d s I HR. split; [apply step_HScan; solve [exact HR | apply Inv_iff; exact I] |].
  apply uncovered_read_keeps_db. reflexivity.
Qed.
Theorem ZScan_step_refines : forall now k c p n d s,
  Inv d -> R now d s -> step_refines_m now (ZScan k c p n) d s /\ fst (exec_db now (ZScan k c p n) d) = d.
Proof.
  intros now k c p n d s I HR. split; [apply step_ZScan; solve [exact HR | apply Inv_iff; exact I] |].
  apply uncovered_read_keeps_db. reflexivity.
Qed.

Theorem KRandom_step_refines : forall now c d s,
  Inv d -> R now d s -> legal_key_choice now d c ->
  step_refines_m now (KRandom c) d s /\ fst (exec_db now (KRandom c) d) = d.
Proof.
  intros now c d s I HR L. split; [apply step_KRandom; solve [exact HR | exact L | apply Inv_iff; exact I] |].
  apply uncovered_read_keeps_db. reflexivity.
Qed.

(* KLen: the state part with no premise; the whole step when no stored key has expired *)
Theorem KLen_state_refines : forall now d s,
  Inv d -> R now d s -> state_refines now KLen d s /\ fst (exec_db now KLen d) = d.
Proof.
  intros now d s I HR. split; [apply step_KLen_state; solve [exact HR | apply Inv_iff; exact I] |].
  apply uncovered_read_keeps_db. reflexivity.
Qed.
Theorem KLen_step_refines : forall now d s,
  Inv d -> R now d s -> klen_ok now d -> step_refines_m now KLen d s.
Proof. intros now d s I HR K. apply step_KLen; solve [exact HR | exact K | apply Inv_iff; exact I]. Qed.

(* ... and the result part is false without the premise: with one expired key still stored the code
   answers 1, the specification 0 (the recorded known finding kf_keylen_counts_expired) *)
Definition klen_cex_d : db :=
  fst (run_impl [(0, SSet "k" (AStr "v")); (0, KExpire "k" 5)] empty_db).

Theorem KLen_result_refuted :
  Inv klen_cex_d /\ R 10 klen_cex_d [] /\
  ~ klen_ok 10 klen_cex_d /\
  excluded 10 klen_cex_d KLen = Some "kf_keylen_counts_expired"%string /\
  snd (exec_db 10 KLen klen_cex_d) = out_ok (VI 1) /\
  snd (spec_step 10 KLen []) = out_ok (VI 0) /\
  ~ step_refines_m 10 KLen klen_cex_d [] /\
  ~ (forall now d s, Inv d -> R now d s -> step_refines_m now KLen d s).
Proof.
  assert (I : Inv klen_cex_d) by (split; vm_compute; reflexivity).
  assert (HR : R 10 klen_cex_d []).
  { split; [constructor|]. intros k. vm_compute. reflexivity. }
  assert (N : ~ step_refines_m 10 KLen klen_cex_d []).
  { unfold step_refines_m.
    assert (E1 : snd (exec_db 10 KLen klen_cex_d) = out_ok (VI 1)) by (vm_compute; reflexivity).
    assert (E2 : snd (spec_step 10 KLen []) = out_ok (VI 0)) by (vm_compute; reflexivity).
    destruct (exec_db 10 KLen klen_cex_d) as [d' r]. destruct (spec_step 10 KLen []) as [s' r'].
    cbn [snd] in E1, E2. subst r r'. intros [_ H]. specialize (H eq_refl).
    destruct H as [_ H]. cbn in H. inversion H. }
  split; [exact I|]. split; [exact HR|].
  split; [intros K; vm_compute in K; discriminate K|]. split; [vm_compute; reflexivity|].
  split; [vm_compute; reflexivity|]. split; [vm_compute; reflexivity|].
  split; [exact N|]. intros H. exact (N (H 10 klen_cex_d [] I HR)).
Qed.

(* KDeleteExpired: any count; the rows it removes are expired ones, and at most n of them when n > 0
   (C10_cleaner_limited, ProofExpiry.v, has the exact count) *)
Theorem KDeleteExpired_step_refines : forall now n d s,
  Inv d -> R now d s -> step_refines_m now (KDeleteExpired n) d s.
Proof. intros now n d s I HR. apply step_KDeleteExpired; solve [exact HR | apply Inv_iff; exact I]. Qed.

Theorem KDeleteExpired_removes_only_expired : forall now n d r,
  Inv d -> In r (rkey d) -> ~ In r (rkey (fst (exec_db now (KDeleteExpired n) d))) -> expired now r = true.
Proof.
  intros now n d r I Hr Hn. apply Inv_iff in I.
  rewrite exec_unwrapped_fst in Hn by reflexivity. cbn [exec_tx] in Hn. unfold run in Hn.
  rewrite key_delete_expired_eq in Hn. cbn [fst] in Hn. rewrite rkey_delete in Hn.
  destruct (dx_pred now n d r) eqn:Hp; [exact (dx_pred_expired now n d r I Hr Hp)|].
  exfalso. apply Hn. apply filter_In. split; [exact Hr | rewrite Hp; reflexivity].
Qed.

(* ================================================================== *)
(* Part 4: one step theorem for every operation                       *)
(* ================================================================== *)

(* the premises of the seven: only two have one *)
Definition uncovered_ok (now : Z) (o : op) (d : db) : Prop :=
  match o with
  | KRandom c => legal_key_choice now d c
  | KLen => klen_ok now d
  | _ => True
  end.

(* [step_ok] for a covered operation, [uncovered_ok] for the other seven *)
Definition step_ok_every (now : Z) (o : op) (d : db) : Prop :=
  if covered o then step_ok now o d else uncovered_ok now o d.

Theorem every_step_refines : forall now o d s,
  step_ok_every now o d -> Inv d -> R now d s -> step_refines_m now o d s.
Proof.
  intros now o d s Hk I HR. unfold step_ok_every in Hk.
  destruct (covered o) eqn:Hc.
  - apply step_refines_m_of. apply all_step_refines_closed; assumption.
  - destruct o; try discriminate Hc; cbn [uncovered_ok] in Hk.
    + apply KDeleteExpired_step_refines; assumption.
    + apply KLen_step_refines; assumption.
    + apply KRandom_step_refines; assumption.
    + apply KScan_step_refines; assumption.
    + apply EScan_step_refines; assumption.
    + apply HScan_step_refines; assumption.
    + apply ZScan_step_refines; assumption.
Qed.

(* the state half needs no premise at all for the seven *)
Theorem uncovered_state_refines : forall now o d s,
  uncovered_op o = true -> Inv d -> R now d s -> state_refines now o d s.
Proof.
  intros now o d s Hu I HR. destruct o; try discriminate Hu.
  - apply step_refines_m_state. apply KDeleteExpired_step_refines; assumption.
  - apply KLen_state_refines; assumption.
  - unfold state_refines. rewrite uncovered_read_keeps_db by reflexivity. cbn [spec_step].
    set (s1 := spurge now s).
    assert (R1 : R now d s1) by (apply R_spurge; exact HR).
    destruct s1 as [|e0 s2]; [exact R1|]. destruct choice as [k|]; [| exact R1].
    destruct (sget (e0 :: s2) k); exact R1.
  - apply step_refines_m_state. apply KScan_step_refines; assumption.
  - apply step_refines_m_state. apply EScan_step_refines; assumption.
  - apply step_refines_m_state. apply HScan_step_refines; assumption.
  - apply step_refines_m_state. apply ZScan_step_refines; assumption.
Qed.

(* ================================================================== *)
(* Part 5: every history                                              *)
(* ================================================================== *)

(* the side conditions at every state the implementation reaches along the history *)
Fixpoint side_ok_every (h : list (Z * op)) (d : db) : Prop :=
  match h with
  | [] => True
  | (t, o) :: r => step_ok_every t o d /\ side_ok_every r (fst (exec_db t o d))
  end.

(* [step_refines_m] at every step, each at the pair of states reached so far *)
Fixpoint trace_refines_m (h : list (Z * op)) (d : db) (s : sstate) : Prop :=
  match h with
  | [] => True
  | (t, o) :: r =>
      step_refines_m t o d s /\ trace_refines_m r (fst (exec_db t o d)) (fst (spec_step t o s))
  end.

(* a history of covered operations is a special case *)
Lemma side_ok_every_of_side_ok : forall h d, side_ok h d -> side_ok_every h d.
Proof.
  induction h as [|[t o] h IH]; intros d H; [exact Logic.I|].
  cbn [side_ok side_ok_every] in *. destruct H as [Hc [Hk Hr]].
  split; [unfold step_ok_every; rewrite Hc; exact Hk | apply IH; exact Hr].
Qed.

(* whole histories over ALL operations: the outputs agree wherever the specification determines
   them, the abstraction relation holds at the end, the invariant holds at the end, and the
   mode-aware step relation holds at every step *)
Theorem every_history_refines : forall h t0 d s,
  side_ok_every h d -> times_ok t0 h -> Inv d -> R t0 d s ->
  Forall2 (fun (po : (Z * op) * out) (so : out) =>
             spec_mode false (snd (fst po)) = CmpFull -> out_equiv (snd (fst po)) (snd po) so)
          (combine h (snd (run_impl h d))) (snd (run_spec h s))
  /\ (forall tl, (match rev h with (t, _) :: _ => t | [] => t0 end) = tl -> R tl (fst (run_impl h d)) (fst (run_spec h s)))
  /\ Inv (fst (run_impl h d))
  /\ trace_refines_m h d s.
Proof.
  induction h as [|[t o] h IH]; intros t0 d s Hs Ht I HR.
  - cbn. split; [constructor | split; [intros tl <-; exact HR | split; [exact I | exact Logic.I]]].
  - cbn [times_ok] in Ht. destruct Ht as [Hle Ht].
    cbn [side_ok_every] in Hs. destruct Hs as [Hk Hs].
    assert (HR' : R t d s) by (eapply R_mono_partial; eauto).
    assert (ST0 : step_refines_m t o d s) by (apply every_step_refines; assumption).
    assert (I1 : Inv (fst (exec_db t o d))) by (apply C11_inv_preserved; exact I).
    pose proof ST0 as ST. unfold step_refines_m in ST. cbn [run_impl run_spec trace_refines_m].
    destruct (exec_db t o d) as [d1 x]. destruct (spec_step t o s) as [s1 y].
    destruct ST as [HR1 OE]. cbn [fst] in I1, Hs.
    specialize (IH t d1 s1 Hs Ht I1 HR1).
    destruct (run_impl h d1) as [d2 xs]. destruct (run_spec h s1) as [s2 ys].
    cbn [fst snd combine] in *. destruct IH as [F [Rl [I2 TR]]].
    split; [|split; [|split; [|split]]].
    + constructor; [exact OE | exact F].
    + intros tl Etl. apply Rl. rewrite <- Etl. cbn [rev].
      destruct (rev h) as [|[t' o'] r']; reflexivity.
    + exact I2.
    + exact ST0.
    + exact TR.
Qed.

(* ---- from the empty database: the score premises are invariants (as in ProofRefineAll.v) ---- *)

Definition step_ok_every' (now : Z) (o : op) (d : db) : Prop :=
  if covered o then step_ok' now o d else uncovered_ok now o d.

Fixpoint side_ok_every' (h : list (Z * op)) (d : db) : Prop :=
  match h with
  | [] => True
  | (t, o) :: r => step_ok_every' t o d /\ side_ok_every' r (fst (exec_db t o d))
  end.

Lemma side_ok_every_of' : forall h d, nums d -> normals d -> side_ok_every' h d -> side_ok_every h d.
Proof.
  induction h as [|[t o] h IH]; intros d N M H; [exact Logic.I|].
  cbn [side_ok_every' side_ok_every] in *. destruct H as [Hk Hr]. split.
  - unfold step_ok_every, step_ok_every' in *. destruct (covered o); [apply step_ok_of'; assumption | exact Hk].
  - apply IH; [apply C05_scores_stay_numbers_all; exact N | apply C05_scores_stay_normal_all; exact M | exact Hr].
Qed.

Lemma side_ok_every'_of_side_ok' : forall h d, side_ok' h d -> side_ok_every' h d.
Proof.
  induction h as [|[t o] h IH]; intros d H; [exact Logic.I|].
  cbn [side_ok' side_ok_every'] in *. destruct H as [Hc [Hk Hr]].
  split; [unfold step_ok_every'; rewrite Hc; exact Hk | apply IH; exact Hr].
Qed.

Theorem every_history_from_empty_refines : forall h t0,
  side_ok_every' h empty_db -> times_ok t0 h ->
  Forall2 (fun (po : (Z * op) * out) (so : out) =>
             spec_mode false (snd (fst po)) = CmpFull -> out_equiv (snd (fst po)) (snd po) so)
          (combine h (snd (run_impl h empty_db))) (snd (run_spec h []))
  /\ (forall tl, (match rev h with (t, _) :: _ => t | [] => t0 end) = tl ->
        R tl (fst (run_impl h empty_db)) (fst (run_spec h [])))
  /\ Inv (fst (run_impl h empty_db))
  /\ trace_refines_m h empty_db [].
Proof.
  intros h t0 Hs Ht.
  apply every_history_refines; [| exact Ht | split; vm_compute; reflexivity | apply R_empty].
  apply side_ok_every_of'; [constructor | constructor | exact Hs].
Qed.

(* ================================================================== *)
(* Part 6: the premises are satisfiable                               *)
(* ================================================================== *)

(* a history from the empty database with all seven: the four scans, a Key.Len while nothing has
   expired, a limited DeleteExpired while an expired key is still stored, a random key, Key.Len again *)
Definition demo_every_prefix : list (Z * op) :=
  [ (10, SSet "s" (AStr "v"));
    (11, EAdd "e" [AStr "a"; AStr "b"]);
    (12, HSet "h" "f" (AStr "1"));
    (13, ZAdd "z" (AStr "m") one);
    (14, KExpire "s" 5);
    (15, KScan 0 "*" 0 0);
    (16, EScan "e" 0 "*" 0);
    (17, HScan "h" 0 "*" 0);
    (18, ZScan "z" 0 "*" 0);
    (18, KLen) ].
Definition demo_every_suffix : list (Z * op) :=
  [ (30, KDeleteExpired 1);
    (31, KRandom (Some "e"%string));
    (32, KLen);
    (33, KDeleteExpired 0);
    (34, KDelete ["e"; "h"; "z"]);
    (35, KRandom None) ].
Definition demo_every_history : list (Z * op) := demo_every_prefix ++ demo_every_suffix.

(* when the DeleteExpired runs (time 30) the expired key "s" is still stored, and it is gone after *)
Example demo_every_expired_present :
  existsb (expired 30) (rkey (fst (run_impl demo_every_prefix empty_db))) = true
  /\ map k_key (rkey (fst (run_impl demo_every_prefix empty_db))) = ["s"; "e"; "h"; "z"]
  /\ map k_key (rkey (fst (run_impl (demo_every_prefix ++ [(30, KDeleteExpired 1)]) empty_db))) = ["e"; "h"; "z"].
Proof. vm_compute. repeat split. Qed.

Example demo_every_outputs :
  map (fun x => o_err x) (snd (run_impl demo_every_history empty_db)) = repeat None 15 ++ [Some ENotFound].
Proof. vm_compute. reflexivity. Qed.

Example demo_every_side_ok :
  side_ok_every' demo_every_history empty_db /\ times_ok 0 demo_every_history /\ Inv empty_db.
Proof.
  split; [|split; [cbn; lia | split; vm_compute; reflexivity]].
  unfold demo_every_history, demo_every_prefix, demo_every_suffix. cbn [app side_ok_every'].
  repeat match goal with
  | |- _ /\ _ => split
  | |- True => exact Logic.I
  end.
  all: unfold step_ok_every'; cbn [covered str_op key_op hash_op set_op list_op zset_op zalg_op linsert_op orb uncovered_ok].
  all: try exact Logic.I.
  (* the uncovered ones with a premise: klen_ok, legal_key_choice *)
  all: try (vm_compute; reflexivity).
  all: try (vm_compute; eexists; split; [reflexivity|]; tauto).
  (* the covered ones *)
  all: unfold step_ok'; repeat match goal with |- _ /\ _ => split end.
  all: try exact Logic.I; try reflexivity.
  all: try (intros HH; discriminate HH).
  all: try (intros _ c; vm_compute; discriminate).
  all: try (vm_compute; exact Logic.I).
  all: try (vm_compute; constructor).
  all: try (vm_compute; repeat constructor; intros []).
Qed.

(* hence the theorem applies to it *)
Example demo_every_refines :
  R 35 (fst (run_impl demo_every_history empty_db)) (fst (run_spec demo_every_history []))
  /\ trace_refines_m demo_every_history empty_db [].
Proof.
  destruct demo_every_side_ok as [Hs [Ht _]].
  destruct (every_history_from_empty_refines demo_every_history 0 Hs Ht) as [_ [Rl [_ TR]]].
  split; [apply Rl; reflexivity | exact TR].
Qed.

Print Assumptions every_step_refines.
Print Assumptions uncovered_state_refines.
Print Assumptions KLen_result_refuted.
Print Assumptions KDeleteExpired_removes_only_expired.
Print Assumptions every_history_refines.
Print Assumptions every_history_from_empty_refines.
Print Assumptions demo_every_side_ok.
Print Assumptions demo_every_refines.
