(* ProofMeta.v — C19: key metadata tells the truth about modifications. *)
From Redka Require Import Base Db Glob ImplKey ImplString ImplList ImplSet ImplHash ImplZSet Ops Inv Refine ProofNoTrace ProofInv.
From Coq Require Import Lia ZifyBool.

(* the clock has not run backwards: every stored mtime is at most now *)
Definition mtimes_le (now : Z) (d : db) : Prop := forall r, In r (rkey d) -> k_mtime r <= now.

(* ================================================================== *)
(* Part 1: the rule on lists of key rows                              *)
(* ================================================================== *)

Definition fid (ks : list keyrow) (id : Z) : option keyrow := find (fun r => k_id r =? id) ks.

Definition up (r0 r : keyrow) : Prop := k_ver r0 < k_ver r /\ k_mtime r0 <= k_mtime r.

(* every row is, relative to the row of the same id in [ks0], identical or
   strictly newer; with [esc] a row may instead have restarted at version 1 *)
Definition Gx (esc : bool) (ks0 ks : list keyrow) : Prop :=
  forall r', In r' ks -> forall r0, fid ks0 (k_id r') = Some r0 ->
    r' = r0 \/ up r0 r' \/ (esc = true /\ k_ver r' = 1).

(* the rows of id [kid] have already been bumped *)
Definition Tch (esc : bool) (ks0 : list keyrow) (kid : Z) (ks : list keyrow) : Prop :=
  forall r', In r' ks -> k_id r' = kid -> forall r0, fid ks0 kid = Some r0 ->
    up r0 r' \/ (esc = true /\ k_ver r' = 1).

Definition MLk (now : Z) (ks : list keyrow) : Prop := forall r, In r ks -> k_mtime r <= now.

Definition Keep (ks0 ks : list keyrow) : Prop := incl (map k_id ks0) (map k_id ks).

Lemma fid_some ks id r : fid ks id = Some r -> In r ks /\ k_id r = id.
Proof. unfold fid. intros F. apply find_some in F as [H E]. split; [exact H | lia]. Qed.

Lemma fid_nodup ks r : NoDup (map k_id ks) -> In r ks -> fid ks (k_id r) = Some r.
Proof.
  intros N H. unfold fid. destruct (find (fun x => k_id x =? k_id r) ks) as [x|] eqn:F.
  - apply find_some in F as [Hx E]. f_equal. eapply NoDup_map_inj; eauto. lia.
  - pose proof (find_none _ _ F r H) as C. cbn in C. lia.
Qed.

Lemma Gx_refl esc ks : NoDup (map k_id ks) -> Gx esc ks ks.
Proof.
  intros N r' H r0 F. left. rewrite (fid_nodup ks r' N H) in F. congruence.
Qed.

Lemma Gx_weaken ks0 ks : Gx false ks0 ks -> Gx true ks0 ks.
Proof.
  intros G r' H r0 F. destruct (G r' H r0 F) as [E | [U | [C _]]]; auto. discriminate.
Qed.

Lemma Tch_weaken ks0 kid ks : Tch false ks0 kid ks -> Tch true ks0 kid ks.
Proof.
  intros G r' H K r0 F. destruct (G r' H K r0 F) as [U | [C _]]; auto. discriminate.
Qed.

(* L1: a row-wise update in which every changed row is bumped *)
Lemma G_map now ks0 ks F :
  Gx false ks0 ks -> MLk now ks ->
  (forall x, In x ks -> F x = x \/
     (k_id (F x) = k_id x /\ k_ver x < k_ver (F x) /\
      (k_mtime (F x) = now \/ k_mtime (F x) = k_mtime x))) ->
  Gx false ks0 (map F ks) /\ MLk now (map F ks) /\ map k_id (map F ks) = map k_id ks.
Proof.
  intros G M HF. split; [|split].
  - intros r' H r0 Fd. apply in_map_iff in H as [x [E Hx]]. subst r'.
    destruct (HF x Hx) as [E | [I [V T]]].
    + rewrite E in *. apply G; assumption.
    + rewrite I in Fd. right. left.
      pose proof (M x Hx) as Mx.
      destruct (G x Hx r0 Fd) as [E | [[U1 U2] | [C _]]]; [subst r0 | | discriminate];
        unfold up; destruct T as [T|T]; rewrite T; lia.
  - intros r' H. apply in_map_iff in H as [x [E Hx]]. subst r'.
    pose proof (M x Hx) as Mx.
    destruct (HF x Hx) as [E | [I [V [T|T]]]]; [rewrite E; lia | lia | lia].
  - rewrite map_map. apply map_ext_in. intros x Hx.
    destruct (HF x Hx) as [E | [I _]]; [rewrite E; reflexivity | exact I].
Qed.

(* L2: the rows of one id replaced by a bumped copy of one of them *)
Lemma G_repl now ks0 ks r r' :
  Gx false ks0 ks -> MLk now ks ->
  In r ks -> k_id r' = k_id r -> k_ver r < k_ver r' -> k_mtime r' = now ->
  let ks' := map (fun x => if k_id x =? k_id r then r' else x) ks in
  Gx false ks0 ks' /\ MLk now ks' /\ map k_id ks' = map k_id ks /\ Tch false ks0 (k_id r) ks'.
Proof.
  intros G M Hr I V T ks'.
  assert (U : forall r0, fid ks0 (k_id r) = Some r0 -> up r0 r').
  { intros r0 Fd. pose proof (M r Hr) as Mr.
    destruct (G r Hr r0 Fd) as [E | [[U1 U2] | [C _]]]; [subst r0 | | discriminate]; unfold up; lia. }
  split; [|split; [|split]].
  - intros y H r0 Fd. apply in_map_iff in H as [x [E Hx]]. subst y.
    destruct (Z.eqb_spec (k_id x) (k_id r)).
    + rewrite I in Fd. right. left. apply U. exact Fd.
    + apply G; assumption.
  - intros y H. apply in_map_iff in H as [x [E Hx]]. subst y.
    destruct (k_id x =? k_id r); [lia | apply M; exact Hx].
  - unfold ks'. rewrite map_map. apply map_ext. intros x.
    destruct (Z.eqb_spec (k_id x) (k_id r)); congruence.
  - intros y H K r0 Fd. apply in_map_iff in H as [x [E Hx]]. subst y.
    destruct (Z.eqb_spec (k_id x) (k_id r)); [| contradiction].
    left. apply U. exact Fd.
Qed.

(* L3: only columns other than version and mtime change, on rows already bumped *)
Lemma G_len esc now ks0 ks kid f :
  (forall x, k_id (f x) = k_id x /\ k_ver (f x) = k_ver x /\ k_mtime (f x) = k_mtime x) ->
  Gx esc ks0 ks -> MLk now ks -> Tch esc ks0 kid ks ->
  let ks' := map (fun x => if k_id x =? kid then f x else x) ks in
  Gx esc ks0 ks' /\ MLk now ks' /\ map k_id ks' = map k_id ks /\ Tch esc ks0 kid ks'.
Proof.
  intros Hf G M T ks'. split; [|split; [|split]].
  - intros y H r0 Fd. apply in_map_iff in H as [x [E Hx]]. subst y.
    destruct (Z.eqb_spec (k_id x) kid) as [K|K]; [| apply G; assumption].
    destruct (Hf x) as [I [V Mt]]. rewrite I in Fd. right.
    rewrite K in Fd. destruct (T x Hx K r0 Fd) as [[U1 U2] | [C1 C2]]; [left; unfold up | right]; split; auto; lia.
  - intros y H. apply in_map_iff in H as [x [E Hx]]. subst y. pose proof (M x Hx).
    destruct (k_id x =? kid); [destruct (Hf x) as [_ [_ Mt]]; lia | lia].
  - unfold ks'. rewrite map_map. apply map_ext. intros x.
    destruct (k_id x =? kid); [apply Hf | reflexivity].
  - intros y H K r0 Fd. apply in_map_iff in H as [x [E Hx]]. subst y.
    destruct (Z.eqb_spec (k_id x) kid) as [K'|K'].
    + destruct (Hf x) as [I [V Mt]].
      destruct (T x Hx K' r0 Fd) as [[U1 U2] | [C1 C2]]; [left; unfold up | right]; split; auto; lia.
    + contradiction.
Qed.

(* L4: rows disappear *)
Lemma G_filter esc now ks0 ks q :
  Gx esc ks0 ks -> MLk now ks -> Gx esc ks0 (filter q ks) /\ MLk now (filter q ks).
Proof.
  intros G M. split.
  - intros y H. apply filter_In in H as [H _]. apply G. exact H.
  - intros y H. apply filter_In in H as [H _]. apply M. exact H.
Qed.

(* L5: a row with a fresh id is appended *)
Lemma G_snoc now ks0 ks r' :
  Gx false ks0 ks -> MLk now ks -> Keep ks0 ks ->
  k_id r' = zmax_list (map k_id ks) + 1 -> k_mtime r' = now ->
  Gx false ks0 (ks ++ [r']) /\ MLk now (ks ++ [r']) /\ Keep ks0 (ks ++ [r']) /\
  Tch false ks0 (k_id r') (ks ++ [r']).
Proof.
  intros G M K I T.
  assert (N : forall r0, fid ks0 (k_id r') = Some r0 -> False).
  { intros r0 Fd. apply fid_some in Fd as [H0 E0].
    assert (Hin : In (k_id r') (map k_id ks)).
    { apply K. rewrite <- E0. apply in_map. exact H0. }
    rewrite I in Hin. exact (zmax_fresh _ Hin). }
  split; [|split; [|split]].
  - intros y H r0 Fd. apply in_app_iff in H as [H | [H | []]]; [apply G; assumption|].
    subst y. exfalso. eapply N; eauto.
  - intros y H. apply in_app_iff in H as [H | [H | []]]; [apply M; exact H | subst; lia].
  - unfold Keep. rewrite map_app. apply incl_appl. exact K.
  - intros y _ _ r0 Fd. exfalso. eapply N; eauto.
Qed.

(* the executable rule follows *)
Lemma keyrow_eqb_refl r : keyrow_eqb r r = true.
Proof.
  unfold keyrow_eqb. rewrite !Z.eqb_refl, String.eqb_refl.
  destruct (k_etime r), (k_len r); cbn; rewrite ?Z.eqb_refl; reflexivity.
Qed.

Lemma Gx_meta_ok now d d' : Gx true (rkey d) (rkey d') -> meta_ok now d d' = true.
Proof.
  intros G. unfold meta_ok. apply forallb_forall. intros r' H.
  change (find_id d (k_id r')) with (fid (rkey d) (k_id r')).
  destruct (fid (rkey d) (k_id r')) as [r0|] eqn:F; [|reflexivity].
  destruct (String.eqb (k_key r0) (k_key r') && (k_type r0 =? k_type r')); [|reflexivity].
  destruct (G r' H r0 F) as [E | [[U1 U2] | [_ C]]].
  - subst. rewrite keyrow_eqb_refl. reflexivity.
  - destruct (keyrow_eqb r0 r'); [reflexivity|]. lia.
  - destruct (keyrow_eqb r0 r'); [reflexivity|]. lia.
Qed.

(* ================================================================== *)
(* Part 2: what the primitives do to the key table                    *)
(* ================================================================== *)

Lemma find_map_key (F : keyrow -> keyrow) ks key :
  (forall x, k_key (F x) = k_key x) ->
  find (fun r => String.eqb (k_key r) key) (map F ks) =
  option_map F (find (fun r => String.eqb (k_key r) key) ks).
Proof.
  intros HF. induction ks as [|x r IH]; cbn [map find]; [reflexivity|].
  rewrite HF. destruct (String.eqb (k_key x) key); [reflexivity | exact IH].
Qed.

Definition keepsM (oc : keyrow -> keyrow) : Prop :=
  forall r, k_id (oc r) = k_id r /\ k_ver (oc r) = k_ver r /\ k_mtime (oc r) = k_mtime r.

Lemma trigG_facts now n r : 0 <= n ->
  k_id (trigG now n r) = k_id r /\ k_key (trigG now n r) = k_key r /\ k_ver r <= k_ver (trigG now n r).
Proof. intros Hn. unfold trigG. destruct (n =? 0); cbn; repeat split; lia. Qed.

Lemma upsert_rk now key typ ne nl oc d d' r' :
  keepsM oc ->
  upsert_key now key typ ne nl oc d = (d', Ok r') ->
  (exists r, find_key d key = Some r /\ k_id r' = k_id r /\ k_ver r < k_ver r' /\ k_mtime r' = now /\
             (expired now r = false -> k_ver r' = k_ver r + 1) /\
             rkey d' = map (fun x => if k_id x =? k_id r then r' else x) (rkey d))
  \/ (find_key d key = None /\ rkey d' = rkey d ++ [r'] /\ k_id r' = next_key_id d /\
      k_ver r' = 1 /\ k_mtime r' = now).
Proof.
  intros Hoc. unfold upsert_key, reset_expired.
  destruct (find_key d key) as [r|] eqn:F.
  - destruct (expired now r) eqn:X.
    + (* the expired row is reset first *)
      rewrite trig_list_delete_eq.
      set (nl' := zlen (filter (fun x => l_kid x =? k_id r) (rlist d))).
      set (g2 := fun x : keyrow => mkKey (k_id x) (k_key x) typ (k_ver x) None (k_mtime x)
                                    (if typ =? 1 then None else Some 0)).
      set (Fr := fun x => if k_id x =? k_id r then g2 (trigG now nl' x) else x).
      assert (Hn : 0 <= nl') by apply zlen_nonneg.
      match goal with |- context [find_key ?dd key] => set (dr := dd) end.
      assert (Rk : rkey dr = map Fr (rkey d)).
      { unfold dr, upd_key_id, upd_keys. cbn [rkey set_rkey]. rewrite map_map. apply map_ext.
        intros x. unfold Fr. destruct (Z.eqb_spec (k_id x) (k_id r)) as [E|E].
        - destruct (trigG_facts now nl' x Hn) as [I _]. rewrite I.
          destruct (Z.eqb_spec (k_id x) (k_id r)); [reflexivity | contradiction].
        - destruct (Z.eqb_spec (k_id x) (k_id r)); [contradiction | reflexivity]. }
      assert (Fk : find_key dr key = Some (Fr r)).
      { unfold find_key. rewrite Rk, find_map_key.
        - unfold find_key in F. rewrite F. reflexivity.
        - intros x. unfold Fr. destruct (k_id x =? k_id r); [|reflexivity].
          cbn. apply trigG_facts. exact Hn. }
      destruct (trigG_facts now nl' r Hn) as [I [_ V]].
      assert (FrE : Fr r = g2 (trigG now nl' r)) by (unfold Fr; rewrite Z.eqb_refl; reflexivity).
      assert (Ib : k_id (Fr r) = k_id r) by (rewrite FrE; exact I).
      assert (Tb : k_type (Fr r) = typ) by (rewrite FrE; reflexivity).
      assert (Vb : k_ver r <= k_ver (Fr r)) by (rewrite FrE; exact V).
      rewrite Fk, Tb, Z.eqb_refl.
      intros E. injection E as <- <-. left. exists r.
      match goal with |- context [oc ?a] => destruct (Hoc a) as [O1 [O2 O3]] end.
      split; [reflexivity|]. split; [rewrite O1; exact Ib|].
      split; [rewrite O2; cbn; lia|]. split; [rewrite O3; reflexivity|].
      split; [intros C; congruence|].
      unfold upd_key_id, upd_keys. cbn [rkey set_rkey]. rewrite Rk, map_map. apply map_ext.
      intros x. rewrite Ib.
      assert (FrI : k_id (Fr x) = k_id x).
      { unfold Fr. destruct (k_id x =? k_id r); [|reflexivity]. cbn. apply trigG_facts. exact Hn. }
      rewrite FrI. destruct (Z.eqb_spec (k_id x) (k_id r)) as [E|E]; [reflexivity|].
      unfold Fr. destruct (Z.eqb_spec (k_id x) (k_id r)); [contradiction | reflexivity].
    + rewrite F. destruct (k_type r =? typ); [|discriminate].
      intros E. injection E as <- <-. left. exists r.
      match goal with |- context [oc ?a] => destruct (Hoc a) as [O1 [O2 O3]] end.
      split; [reflexivity|]. split; [rewrite O1; reflexivity|].
      split; [rewrite O2; cbn; lia|]. split; [rewrite O3; reflexivity|].
      split; [intros _; rewrite O2; reflexivity|]. reflexivity.
  - rewrite F. intros E. injection E as <- <-. right. cbn. auto.
Qed.

Lemma live_key_find now d key T k : live_key now d key T = Some k -> find_key d key = Some k.
Proof.
  unfold live_key. destruct (find_key d key) as [r|]; [|discriminate].
  destruct ((k_type r =? T) && live now r); [|discriminate]. auto.
Qed.

Lemma live_any_find now d key k : live_any now d key = Some k -> find_key d key = Some k.
Proof.
  unfold live_any. destruct (find_key d key) as [r|]; [|discriminate].
  destruct (live now r); [|discriminate]. auto.
Qed.

Lemma live_not_expired now r : live now r = true -> expired now r = false.
Proof. unfold live, expired. destruct (k_etime r); [lia | reflexivity]. Qed.

(* a store empties the destination and re-creates it: version 1 *)
Lemma G_store now ks0 ks kid r' :
  Gx false ks0 ks -> MLk now ks -> k_ver r' = 1 -> k_mtime r' = now -> k_id r' = kid ->
  let ks' := map (fun x => if k_id x =? kid then r' else x) ks in
  Gx true ks0 ks' /\ MLk now ks' /\ map k_id ks' = map k_id ks /\ Tch true ks0 kid ks'.
Proof.
  intros G M V T I ks'. split; [|split; [|split]].
  - intros y H r0 Fd. apply in_map_iff in H as [x [E Hx]]. subst y.
    destruct (k_id x =? kid); [right; right; auto|].
    apply Gx_weaken in G. apply G; assumption.
  - intros y H. apply in_map_iff in H as [x [E Hx]]. subst y.
    destruct (k_id x =? kid); [lia | apply M; exact Hx].
  - unfold ks'. rewrite map_map. apply map_ext. intros x.
    destruct (Z.eqb_spec (k_id x) kid); congruence.
  - intros y H K r0 Fd. apply in_map_iff in H as [x [E Hx]]. subst y.
    destruct (Z.eqb_spec (k_id x) kid); [right; auto | contradiction].
Qed.

(* ================================================================== *)
(* Part 3: state predicates and the Hoare rules for the primitives    *)
(* ================================================================== *)

Section Meta.
Variable now : Z.
Variable ks0 : list keyrow.

Definition SD (esc : bool) (d : db) : Prop := Gx esc ks0 (rkey d) /\ MLk now (rkey d).
Definition S (d : db) : Prop := SD false d /\ Keep ks0 (rkey d).
Definition ST (esc : bool) (kid : Z) (d : db) : Prop :=
  SD esc d /\ Keep ks0 (rkey d) /\ Tch esc ks0 kid (rkey d).

Lemma SD_weaken d : SD false d -> SD true d.
Proof. intros [G M]. split; [apply Gx_weaken; exact G | exact M]. Qed.
Lemma S_SD d : S d -> SD true d.
Proof. intros [H _]. apply SD_weaken. exact H. Qed.
Lemma ST_S kid d : ST false kid d -> S d.
Proof. intros [H [K _]]. split; assumption. Qed.
Lemma ST_SD esc kid d : ST esc kid d -> SD true d.
Proof. intros [H _]. destruct esc; [exact H | apply SD_weaken; exact H]. Qed.
Lemma ST_weaken kid d : ST false kid d -> ST true kid d.
Proof.
  intros [H [K T]]. split; [apply SD_weaken; exact H | split; [exact K | apply Tch_weaken; exact T]].
Qed.

Lemma SD_rkey esc d d' : rkey d' = rkey d -> SD esc d -> SD esc d'.
Proof. unfold SD. intros ->. auto. Qed.
Lemma S_rkey d d' : rkey d' = rkey d -> S d -> S d'.
Proof. unfold S, SD. intros ->. auto. Qed.
Lemma ST_rkey esc kid d d' : rkey d' = rkey d -> ST esc kid d -> ST esc kid d'.
Proof. unfold ST, SD. intros ->. auto. Qed.

Definition bumpF (F : keyrow -> keyrow) (x : keyrow) : Prop :=
  F x = x \/ (k_id (F x) = k_id x /\ k_ver x < k_ver (F x) /\
              (k_mtime (F x) = now \/ k_mtime (F x) = k_mtime x)).

Lemma SD_map d d' F :
  rkey d' = map F (rkey d) -> (forall x, In x (rkey d) -> bumpF F x) -> SD false d -> SD false d'.
Proof.
  intros E HF [G M]. unfold SD. rewrite E.
  destruct (G_map now ks0 (rkey d) F G M HF) as [G' [M' _]]. auto.
Qed.

Lemma S_map d d' F :
  rkey d' = map F (rkey d) -> (forall x, In x (rkey d) -> bumpF F x) -> S d -> S d'.
Proof.
  intros E HF [[G M] K]. unfold S, SD. rewrite E.
  destruct (G_map now ks0 (rkey d) F G M HF) as [G' [M' I']].
  unfold Keep. rewrite I'. auto.
Qed.

Lemma SD_filter esc d d' q : rkey d' = filter q (rkey d) -> SD esc d -> SD esc d'.
Proof. intros E [G M]. unfold SD. rewrite E. apply G_filter; assumption. Qed.

Lemma S_repl d d' r r' :
  S d -> In r (rkey d) -> k_id r' = k_id r -> k_ver r < k_ver r' -> k_mtime r' = now ->
  rkey d' = map (fun x => if k_id x =? k_id r then r' else x) (rkey d) ->
  ST false (k_id r) d'.
Proof.
  intros [[G M] K] Hr I V T E. unfold ST, SD. rewrite E.
  destruct (G_repl now ks0 (rkey d) r r' G M Hr I V T) as [G' [M' [I' T']]].
  unfold Keep. rewrite I'. auto.
Qed.

Lemma ST_len esc kid d d' f :
  (forall x, k_id (f x) = k_id x /\ k_ver (f x) = k_ver x /\ k_mtime (f x) = k_mtime x) ->
  rkey d' = map (fun x => if k_id x =? kid then f x else x) (rkey d) ->
  ST esc kid d -> ST esc kid d'.
Proof.
  intros Hf E [[G M] [K T]]. unfold ST, SD. rewrite E.
  destruct (G_len esc now ks0 (rkey d) kid f Hf G M T) as [G' [M' [I' T']]].
  unfold Keep. rewrite I'. auto.
Qed.

Lemma with_len_keeps l x :
  k_id (with_len x (l x)) = k_id x /\ k_ver (with_len x (l x)) = k_ver x /\
  k_mtime (with_len x (l x)) = k_mtime x.
Proof. cbn. auto. Qed.

(* the type-guarded upsert *)
Lemma hoare_upsert key typ ne nl oc :
  keepsM oc ->
  hoare S (upsert_key now key typ ne nl oc) (fun k d => ST false (k_id k) d).
Proof.
  intros Hoc d d' r' HS E. apply upsert_rk in E; [|exact Hoc].
  destruct E as [[r [F [I [V [T [_ Rk]]]]]] | [F [Rk [I [V T]]]]].
  - apply find_key_some in F as [Hr _]. rewrite I. eapply S_repl; eauto.
  - destruct HS as [[G M] K]. unfold ST, SD. rewrite Rk.
    destruct (G_snoc now ks0 (rkey d) r' G M K I T) as [G' [M' [K' T']]]. auto.
Qed.

Lemma hoare_upsert_S key typ ne nl oc :
  keepsM oc -> hoare S (typed_error (upsert_key now key typ ne nl oc)) (fun _ => S).
Proof.
  intros Hoc. apply hoare_typed_error. eapply hoare_conseq; [apply hoare_upsert; exact Hoc | auto |].
  intros a d. apply ST_S.
Qed.

Lemma keepsM_id : keepsM (fun r => r).
Proof. intros r. auto. Qed.
Lemma keepsM_etime e : keepsM (fun r => with_etime r e).
Proof. intros r. cbn. auto. Qed.
Lemma keepsM_len : keepsM (fun r => with_len r (opt_add (k_len r) 1)).
Proof. intros r. cbn. auto. Qed.

(* statements that do not write the key table *)
Lemma hoare_same {A} (P : db -> Prop) (m : M A) :
  (forall d d', rkey d' = rkey d -> P d -> P d') ->
  (forall d, rkey (fst (m d)) = rkey d) -> hoare P m (fun _ => P).
Proof.
  intros HP Hm d d' a Pd E. apply (HP d); [|exact Pd]. specialize (Hm d). rewrite E in Hm. exact Hm.
Qed.

Lemma rkey_sql_set2 key v d : rkey (fst (sql_set2 key v d)) = rkey d.
Proof.
  unfold sql_set2. destruct v; [|reflexivity]. destruct (find_key d key); [|reflexivity].
  destruct (existsb _ _); reflexivity.
Qed.

Lemma rkey_insert_row kid p e d : rkey (fst (insert_row kid p e d)) = rkey d.
Proof.
  unfold insert_row. destruct p; [|reflexivity]. destruct (negb _); [reflexivity|].
  destruct e; [|reflexivity]. destruct (existsb _ _); reflexivity.
Qed.

(* the element tables' triggers: only the cached length moves *)
Lemma hoare_set_add2 esc kid e : hoare (ST esc kid) (set_add2 kid e) (fun _ => ST esc kid).
Proof.
  intros d d' b H. unfold set_add2. destruct e as [e|]; [|discriminate].
  destruct (existsb _ _); intros E; inversion E; subst; [exact H|].
  eapply (ST_len esc kid d _ (fun r => with_len r (opt_add (k_len r) 1))); [| reflexivity | exact H].
  intros x. cbn. auto.
Qed.

Lemma hoare_hash_set2 esc kid f v : hoare (ST esc kid) (hash_set2 kid f v) (fun _ => ST esc kid).
Proof.
  intros d d' b H. unfold hash_set2. destruct v as [v|]; [|discriminate].
  destruct (existsb _ _); intros E; inversion E; subst.
  - eapply ST_rkey; [|exact H]. reflexivity.
  - eapply (ST_len esc kid d _ (fun r => with_len r (opt_add (k_len r) 1))); [| reflexivity | exact H].
    intros x. cbn. auto.
Qed.

Lemma hoare_zset_upsert esc kid e s c : hoare (ST esc kid) (zset_upsert kid e s c) (fun _ => ST esc kid).
Proof.
  intros d d' b H. unfold zset_upsert. destruct e as [e|]; [|discriminate].
  destruct (find _ _).
  - destruct (negb _); [discriminate|]. intros E; inversion E; subst.
    eapply ST_rkey; [|exact H]. reflexivity.
  - destruct (negb _); [discriminate|]. intros E; inversion E; subst.
    eapply (ST_len esc kid d _ (fun r => with_len r (opt_add (k_len r) 1))); [| reflexivity | exact H].
    intros x. cbn. auto.
Qed.

(* sqlDelete2 of sets, hashes, sorted sets *)
Lemma bump_bumpF key T n x :
  bumpF (fun r => if String.eqb (k_key r) key && (k_type r =? T) && live now r
                  then with_len (with_mtime (with_ver r (k_ver r + 1)) now) (opt_add (k_len r) (- n))
                  else r) x.
Proof.
  unfold bumpF. destruct (String.eqb (k_key x) key && (k_type x =? T) && live now x); [right | left; reflexivity].
  cbn. repeat split; auto; lia.
Qed.

Lemma S_bump key T n d d' : rkey d' = rkey (bump_key_len now key T n d) -> S d -> S d'.
Proof.
  intros E. eapply S_map; [rewrite E; apply rkey_bump|]. intros x _. apply bump_bumpF.
Qed.

(* the list triggers *)
Lemma S_trigG kid n d d' : 0 <= n -> rkey d' = rkey (upd_key_id kid (trigG now n) d) -> S d -> S d'.
Proof.
  intros Hn E. eapply S_map; [rewrite E; reflexivity|]. intros x _. unfold bumpF, trigG.
  destruct (k_id x =? kid); [|left; reflexivity]. destruct (Z.eqb_spec n 0); [left; reflexivity | right].
  cbn. repeat split; auto; lia.
Qed.

(* ================================================================== *)
(* Part 4: keys and strings                                           *)
(* ================================================================== *)

Lemma SD_delete_keys esc p d : SD esc d -> SD esc (fst (delete_keys p d)).
Proof. apply SD_filter with (q := fun r => negb (p r)). apply rkey_delete. Qed.

Lemma SD_key_delete keys d : SD false d -> SD false (fst (key_delete now keys d)).
Proof.
  intros I. unfold key_delete.
  destruct (delete_keys (fun r => key_in keys r && live now r) d) as [d' n] eqn:E.
  change d' with (fst (d', n)). rewrite <- E. apply SD_delete_keys. exact I.
Qed.

Lemma SD_key_delete_all b d : SD false d -> SD false (fst (key_delete_all b d)).
Proof.
  intros I. unfold key_delete_all.
  destruct (delete_keys (fun _ => true) d) as [d' n] eqn:E.
  assert (SD false d'). { change d' with (fst (d', n)). rewrite <- E. apply SD_delete_keys. exact I. }
  destruct b; exact H.
Qed.

Lemma SD_key_delete_expired n d : SD false d -> SD false (fst (key_delete_expired now n d)).
Proof.
  intros I. unfold key_delete_expired. destruct (0 <? n).
  - match goal with |- context [delete_keys ?p d] => destruct (delete_keys p d) as [d' c] eqn:E end.
    change d' with (fst (d', c)). rewrite <- E. apply SD_delete_keys. exact I.
  - destruct (delete_keys (expired now) d) as [d' c] eqn:E.
    change d' with (fst (d', c)). rewrite <- E. apply SD_delete_keys. exact I.
Qed.

Lemma expire_bumpF (p : keyrow -> bool) e x :
  bumpF (fun r => if p r then with_etime (with_ver r (k_ver r + 1)) e else r) x.
Proof.
  unfold bumpF. destruct (p x); [right | left; reflexivity]. cbn. repeat split; auto; lia.
Qed.

Lemma SD_key_expire_at key a d : SD false d -> SD false (fst (key_expire_at now key a d)).
Proof.
  intros I. unfold key_expire_at.
  match goal with |- context [if ?c then _ else _] => destruct c end; cbn [fst]; [| exact I].
  eapply SD_map; [reflexivity | | exact I]. intros x _. apply expire_bumpF.
Qed.

Lemma SD_key_persist key d : SD false d -> SD false (fst (key_persist now key d)).
Proof.
  intros I. unfold key_persist.
  match goal with |- context [if ?c then _ else _] => destruct c end; cbn [fst]; [| exact I].
  eapply SD_map; [reflexivity | | exact I]. intros x _. apply expire_bumpF.
Qed.

Definition presD {A} (m : M A) : Prop := hoare (SD false) m (fun _ => SD false).
Definition presS {A} (m : M A) : Prop := hoare S m (fun _ => S).

Lemma presD_sql_rename key newkey : presD (sql_rename now key newkey).
Proof.
  intros d d' u I. unfold sql_rename.
  destruct (live_any now d key) as [old|] eqn:LA.
  2:{ intros E. inversion E; subst. exact I. }
  set (p := fun r => String.eqb (k_key r) newkey && negb (k_id r =? k_id old)).
  destruct (delete_keys p d) as [d1 n] eqn:E. intros E2. inversion E2; subst d'; clear E2.
  assert (I1 : SD false d1).
  { change d1 with (fst (d1, n)). rewrite <- E. apply SD_delete_keys. exact I. }
  eapply SD_map; [reflexivity | | exact I1]. intros x _. unfold bumpF.
  destruct (k_id x =? k_id old); [right | left; reflexivity]. cbn. repeat split; auto; lia.
Qed.

Lemma presD_key_rename key newkey : presD (key_rename now key newkey).
Proof.
  unfold key_rename. apply hoare_bind_read; [apply readonly_key_get|]. intros oldk.
  destruct (negb (key_struct_exists oldk)); [apply hoare_fail|].
  destruct (String.eqb key newkey); [apply hoare_ret; auto|].
  apply hoare_try_read; [apply readonly_key_get|]. intros r.
  destruct r as [newk|e].
  - destruct (k_type oldk =? k_type newk); [apply presD_sql_rename | apply hoare_fail].
  - destruct e; try apply hoare_fail. apply presD_sql_rename.
Qed.

Lemma presD_key_rename_nx key newkey : presD (key_rename_nx now key newkey).
Proof.
  unfold key_rename_nx. apply hoare_bind_read; [apply readonly_key_get|]. intros oldk.
  destruct (negb (key_struct_exists oldk)); [apply hoare_fail|].
  destruct (String.eqb key newkey); [apply hoare_ret; auto|].
  apply hoare_bind_read; [apply readonly_key_exists|]. intros ex.
  destruct ex; [apply hoare_ret; auto|].
  eapply hoare_bind; [apply presD_sql_rename|]. intros ?. apply hoare_ret. auto.
Qed.

(* ---- strings ---- *)

Lemma presS_sql_set2 key v : presS (sql_set2 key v).
Proof. apply hoare_same; [apply S_rkey | apply rkey_sql_set2]. Qed.

Lemma presS_str_write key e oc vb :
  keepsM oc -> presS (typed_error (upsert_key now key T_STRING e None oc) ;;; sql_set2 key vb).
Proof.
  intros Hoc. eapply hoare_bind; [apply hoare_upsert_S; exact Hoc|]. intros ?. apply presS_sql_set2.
Qed.

Lemma presS_str_set_at key v a : presS (str_set_at now key v a).
Proof.
  unfold str_set_at. destruct (to_bytes v); [| apply hoare_fail].
  apply presS_str_write. apply keepsM_etime.
Qed.

Lemma presS_str_update key v : presS (str_update now key v).
Proof.
  unfold str_update. destruct (to_bytes v); [| apply hoare_fail].
  apply presS_str_write. apply keepsM_id.
Qed.

Lemma presS_str_set_each items : presS (str_set_each now items).
Proof.
  induction items as [|[k v] r IH]; cbn [str_set_each].
  - apply hoare_ret. auto.
  - eapply hoare_bind; [apply presS_str_set_at|]. intros ?. exact IH.
Qed.

Lemma presS_str_set_many items : presS (str_set_many now items).
Proof.
  unfold str_set_many. destruct (forallb _ items); [apply presS_str_set_each | apply hoare_fail].
Qed.

Lemma presS_str_incr key delta : presS (str_incr now key delta).
Proof.
  unfold str_incr. apply hoare_try_read; [apply readonly_str_get|]. intros r.
  assert (G : forall cur, presS (match value_int cur with
     | None => fail EValueType
     | Some n => if negb (in_int64 (n + delta)) then fail EValueType
                 else str_update now key (AInt (n + delta)) ;;; ret (n + delta) end)).
  { intros cur. destruct (value_int cur) as [n|]; [| apply hoare_fail].
    destruct (negb (in_int64 (n + delta))); [apply hoare_fail|].
    eapply hoare_bind; [apply presS_str_update|]. intros ?. apply hoare_ret. auto. }
  destruct r as [v|e]; [apply G|]. destruct e; try apply hoare_fail. apply G.
Qed.

Lemma presS_str_incr_float key delta parsed fmt : presS (str_incr_float now key delta parsed fmt).
Proof.
  unfold str_incr_float. apply hoare_try_read; [apply readonly_str_get|]. intros r.
  assert (G : forall (o : option float), presS (match o with
     | None => fail EValueType
     | Some f => str_update now key (AFloat (f + delta)%float (fmt (f + delta)%float)) ;;; ret (f + delta)%float end)).
  { intros o. destruct o as [f|]; [| apply hoare_fail].
    eapply hoare_bind; [apply presS_str_update|]. intros ?. apply hoare_ret. auto. }
  destruct r as [v|e]; [apply G|]. destruct e; try apply hoare_fail. apply (G (Some zero)).
Qed.

Lemma S_str_set_with key v o d :
  S d -> S (if is_err (snd (str_set_with now key v o d)) then d else fst (str_set_with now key v o d)).
Proof.
  intros I. unfold str_set_with.
  destruct (negb (is_value_type v)); [cbn; exact I|].
  destruct (str_get now key d) as [d0 r].
  destruct (so_ifx o && negb match r with Err ENotFound => false | _ => true end); [cbn; exact I|].
  destruct (so_ifnx o && match r with Err ENotFound => false | _ => true end); [cbn; exact I|].
  match goal with |- context [let '(d', w) := ?m d in _] => destruct (m d) as [d' w] eqn:E end.
  destruct w as [u|e]; cbn; [| exact I].
  destruct (so_keep o).
  - eapply presS_str_update; eauto.
  - eapply presS_str_set_at; eauto.
Qed.

(* wrapped calls: an error rolls back *)
Lemma run_wrapped_P {A} (P : db -> Prop) (m : M A) f d :
  hoare P m (fun _ => P) -> P d -> P (if is_err (snd (run m f d)) then d else fst (run m f d)).
Proof.
  intros Hm Hd. unfold run. destruct (m d) as [d' r] eqn:E. destruct r as [a|e]; cbn.
  - eapply Hm; eauto.
  - exact Hd.
Qed.

(* ================================================================== *)
(* Part 5: lists                                                      *)
(* ================================================================== *)

Lemma presS_insert_row kid p e : presS (insert_row kid p e).
Proof. apply hoare_same; [apply S_rkey | apply rkey_insert_row]. Qed.

Lemma presS_list_push key v front : presS (list_push now key v front).
Proof.
  unfold list_push. apply hoare_bind_read; [apply RO_bytes_arg|]. intros elemb.
  eapply hoare_bind; [apply hoare_upsert_S; apply keepsM_len|]. intros r.
  apply hoare_bind_read; [unfold scan_len; destruct (k_len r); intros d; reflexivity|]. intros n.
  apply hoare_bind_read; [apply RO_get_db|]. intros dd.
  eapply hoare_bind; [apply presS_insert_row|]. intros ?. apply hoare_ret. auto.
Qed.

Lemma S_delete_rows kid victims d : S d -> S (fst (delete_rows now kid victims d)).
Proof.
  intros I. unfold delete_rows. cbn [fst]. rewrite trig_list_delete_eq.
  eapply S_trigG; [apply (zlen_nonneg victims) | reflexivity | exact I].
Qed.

Lemma presS_list_pop key back : presS (list_pop now key back).
Proof.
  intros d d' a I. unfold list_pop. destruct (live_key now d key T_LIST) as [k|]; [|discriminate].
  destruct (if back then rows_desc d (k_id k) else rows_asc d (k_id k)) as [|r rest]; [discriminate|].
  destruct (delete_rows now (k_id k) [r] d) as [d1 n] eqn:E. intros E2. inversion E2; subst.
  change d' with (fst (d', n)). rewrite <- E. apply S_delete_rows. exact I.
Qed.

Lemma presS_list_delete key v : presS (list_delete now key v).
Proof.
  unfold list_delete. apply hoare_bind_read; [apply RO_bytes_arg|]. intros elemb.
  intros d d' a I. destruct (live_key now d key T_LIST) as [k|]; [|intros E; inversion E; subst; exact I].
  destruct elemb as [e|]; [|intros E; inversion E; subst; exact I].
  match goal with |- context [delete_rows now ?a ?b d] => destruct (delete_rows now a b d) as [d1 n] eqn:E end.
  intros E2. inversion E2; subst. change d' with (fst (d', a)). rewrite <- E. apply S_delete_rows. exact I.
Qed.

Lemma presS_list_delete_n key v count back : presS (list_delete_n now key v count back).
Proof.
  unfold list_delete_n. destruct (count <=? 0); [apply hoare_ret; auto|].
  apply hoare_bind_read; [apply RO_bytes_arg|]. intros elemb.
  intros d d' a I. destruct (live_key now d key T_LIST) as [k|]; [|intros E; inversion E; subst; exact I].
  destruct elemb as [e|]; [|intros E; inversion E; subst; exact I].
  match goal with |- context [delete_rows now ?a ?b d] => destruct (delete_rows now a b d) as [d1 n] eqn:E end.
  intros E2. inversion E2; subst. change d' with (fst (d', a)). rewrite <- E. apply S_delete_rows. exact I.
Qed.

Lemma presS_list_trim key start stop : presS (list_trim now key start stop).
Proof.
  intros d d' a I. unfold list_trim.
  destruct (live_key now d key T_LIST) as [k|]; [|intros E; inversion E; subst; exact I].
  destruct (range_window (k_len k) start stop) as [off cnt].
  match goal with |- context [delete_rows now ?a ?b d] => destruct (delete_rows now a b d) as [d1 n] eqn:E end.
  intros E2. inversion E2; subst. change d' with (fst (d', a)). rewrite <- E. apply S_delete_rows. exact I.
Qed.

Lemma presS_list_set key idx v : presS (list_set now key idx v).
Proof.
  unfold list_set. apply hoare_bind_read; [apply RO_bytes_arg|]. intros elemb.
  intros d d' a I. destruct (norm_idx idx) as [rev_ i].
  destruct (live_key now d key T_LIST) as [k|]; [|discriminate].
  destruct (znth i _) as [r|]; [|discriminate].
  destruct elemb as [e|]; [|discriminate].
  intros E. inversion E; subst. unfold trig_list_update. change (1 =? 0) with false. cbv iota.
  eapply S_map; [reflexivity | | exact I]. intros x _. unfold bumpF.
  destruct (k_id x =? k_id k); [right | left; reflexivity]. cbn. repeat split; auto; lia.
Qed.

Lemma presS_sql_insert key : hoare S (sql_insert now key) (fun _ => S).
Proof.
  intros d d' a I. unfold sql_insert. destruct (live_key now d key T_LIST) as [r|] eqn:L.
  - intros E. inversion E; subst. apply live_key_some in L as [Hr _].
    eapply ST_S. eapply (S_repl d _ r (with_len (with_mtime (with_ver r (k_ver r + 1)) now) (opt_add (k_len r) 1)));
      [exact I | exact Hr | | | | reflexivity]; cbn; auto; lia.
  - intros E. inversion E; subst. exact I.
Qed.

Lemma S_list_insert key pivot elem after d :
  S d -> S (if is_err (snd (list_insert now key pivot elem after d)) then d
            else fst (list_insert now key pivot elem after d)).
Proof.
  intros I. unfold list_insert.
  destruct (to_bytes pivot) as [pb|]; [|exact I].
  destruct (to_bytes elem) as [eb|]; [|exact I].
  destruct (live_key now d key T_LIST) as [k0|]; [|exact I].
  destruct (list_rows d (k_id k0)) as [|x0 rest]; [exact I|].
  destruct (insert_row (k_id k0) (insert_pos d (k_id k0) pb after) eb d) as [d1 w] eqn:E1.
  assert (I1 : S d1).
  { eapply S_rkey; [|exact I]. change d1 with (fst (d1, w)). rewrite <- E1. apply rkey_insert_row. }
  destruct w as [u|e].
  - destruct (sql_insert now key d1) as [d2 r] eqn:E2.
    destruct r as [[k|]|e]; try exact I.
    destruct (k_len k); [|exact I]. cbn. eapply presS_sql_insert; eauto.
  - repeat match goal with |- context [match ?x with _ => _ end] => is_var x; destruct x end; exact I.
Qed.

Lemma S_list_pop_push src dest d :
  S d -> S (if is_err (snd (list_pop_push now src dest d)) then d
            else fst (list_pop_push now src dest d)).
Proof.
  intros I. unfold list_pop_push.
  destruct (list_pop now src true d) as [d1 r] eqn:E1. destruct r as [e|er]; [|exact I].
  destruct (list_push now dest (ABytes e) true d1) as [d2 w] eqn:E2. destruct w as [n|er]; [|exact I].
  cbn. eapply presS_list_push; [|exact E2]. eapply presS_list_pop; eauto.
Qed.

(* ================================================================== *)
(* Part 6: sets, hashes, sorted sets                                  *)
(* ================================================================== *)

Lemma hoare_add1 key typ :
  hoare S (typed_error (upsert_key now key typ None (Some 0) (fun r => r)))
        (fun k d => ST false (k_id k) d).
Proof. apply hoare_typed_error. apply hoare_upsert. apply keepsM_id. Qed.

Lemma hoare_set_add_each esc kid elems : forall n,
  hoare (ST esc kid) (set_add_each kid elems n) (fun _ => ST esc kid).
Proof.
  induction elems as [|e r IH]; intros n; cbn [set_add_each].
  - apply hoare_ret. auto.
  - eapply hoare_bind; [apply hoare_set_add2|]. intros c. apply IH.
Qed.

Lemma hoare_set_add_all esc kid elems :
  hoare (ST esc kid) (set_add_all kid elems) (fun _ => ST esc kid).
Proof.
  induction elems as [|e r IH]; cbn [set_add_all].
  - apply hoare_ret. auto.
  - eapply hoare_bind; [apply hoare_set_add2|]. intros c. apply IH.
Qed.

Lemma presS_set_add key vs : presS (set_add now key vs).
Proof.
  unfold set_add. apply hoare_bind_read; [apply RO_bytes_args|]. intros elembs.
  eapply hoare_bind; [apply hoare_add1|]. intros k.
  eapply hoare_conseq; [apply (hoare_set_add_each false) | auto |]. intros a d. apply ST_S.
Qed.

Lemma presS_set_delete key vs : presS (set_delete now key vs).
Proof.
  unfold set_delete. apply hoare_bind_read; [apply RO_bytes_args|]. intros elembs.
  intros d d' a I. destruct (live_key now d key T_SET) as [k|]; [|intros E; inversion E; subst; exact I].
  match goal with |- context [if ?c then _ else _] => destruct c end; intros E; inversion E; subst; [exact I|].
  eapply S_bump; [reflexivity | exact I].
Qed.

Lemma presS_set_pop key choice : presS (set_pop now key choice).
Proof.
  intros d d' a I. unfold set_pop. destruct (live_key now d key T_SET) as [k|]; [|discriminate].
  destruct (set_rows d (k_id k)) as [|first rest]; [discriminate|].
  intros E; inversion E; subst. eapply S_bump; [reflexivity | exact I].
Qed.

Lemma presS_set_move src dest v : presS (set_move now src dest v).
Proof.
  unfold set_move. eapply hoare_bind; [apply presS_set_delete|]. intros n.
  destruct (n =? 0); [apply hoare_fail|].
  eapply hoare_bind; [apply presS_set_add|]. intros ?. apply hoare_ret. auto.
Qed.

(* ---- stores: the destination is emptied (version 0), then re-created ---- *)

Definition zeroed (x : keyrow) : keyrow := with_len (with_mtime (with_ver x 0) 0) (Some 0).

Definition Mid (typ : Z) (dest : bytes) (d1 : db) : Prop :=
  exists d, S d /\
    ((live_key now d dest typ = None /\ rkey d1 = rkey d) \/
     (exists k, live_key now d dest typ = Some k /\
                rkey d1 = map (fun x => if k_id x =? k_id k then zeroed x else x) (rkey d))).

Lemma hoare_set_delete_key dest : hoare S (set_delete_key now dest) (fun _ => Mid T_SET dest).
Proof.
  intros d d' u I. unfold set_delete_key. destruct (live_key now d dest T_SET) as [k|] eqn:L.
  - intros E. inversion E; subst. exists d. split; [exact I|]. right. exists k. split; [exact L | reflexivity].
  - intros E. inversion E; subst. exists d'. split; [exact I|]. left. auto.
Qed.

Lemma hoare_zset_delete_key dest : hoare S (zset_delete_key now dest) (fun _ => Mid T_ZSET dest).
Proof.
  intros d d' u I. unfold zset_delete_key. destruct (live_key now d dest T_ZSET) as [k|] eqn:L.
  - intros E. inversion E; subst. exists d. split; [exact I|]. right. exists k. split; [exact L | reflexivity].
  - intros E. inversion E; subst. exists d'. split; [exact I|]. left. auto.
Qed.

Lemma hoare_recreate typ dest :
  hoare (Mid typ dest) (typed_error (upsert_key now dest typ None (Some 0) (fun r => r)))
        (fun k d => ST true (k_id k) d).
Proof.
  intros d1 d' r' [d [I [[L Rk] | [k [L Rk]]]]] E.
  - apply ST_weaken. eapply hoare_add1; [|exact E]. eapply S_rkey; eauto.
  - apply typed_error_ok in E. apply upsert_rk in E; [|apply keepsM_id].
    pose proof (live_key_find _ _ _ _ _ L) as Fk.
    apply live_key_some in L as [Hk [Kk [Tk Lk]]].
    set (Fz := fun x => if k_id x =? k_id k then zeroed x else x) in *.
    assert (F1 : find_key d1 dest = Some (zeroed k)).
    { unfold find_key. rewrite Rk, find_map_key.
      - unfold find_key in Fk. rewrite Fk. cbn. unfold Fz. rewrite Z.eqb_refl. reflexivity.
      - intros x. unfold Fz. destruct (k_id x =? k_id k); reflexivity. }
    destruct E as [[r [F [Ir [V [T [X Rk']]]]]] | [F _]]; [| congruence].
    rewrite F1 in F. injection F as <-.
    assert (V1 : k_ver r' = 1).
    { rewrite X; [reflexivity|]. apply live_not_expired in Lk. exact Lk. }
    destruct I as [[G M] K]. cbn [zeroed k_id with_len with_mtime with_ver] in Ir, Rk'.
    assert (Rk2 : rkey d' = map (fun x => if k_id x =? k_id k then r' else x) (rkey d)).
    { rewrite Rk', Rk, map_map. apply map_ext. intros x. unfold Fz.
      destruct (Z.eqb_spec (k_id x) (k_id k)) as [Ex|Ex].
      - cbn. destruct (Z.eqb_spec (k_id x) (k_id k)); [reflexivity | contradiction].
      - destruct (Z.eqb_spec (k_id x) (k_id k)); [contradiction | reflexivity]. }
    destruct (G_store now ks0 (rkey d) (k_id k) r' G M V1 T Ir) as [G' [M' [I' T']]].
    unfold ST, SD, Keep. rewrite Rk2, I', Ir. auto.
Qed.

Lemma hoareST_set_replace dest elems :
  hoare S (set_replace now dest elems) (fun _ => SD true).
Proof.
  unfold set_replace. eapply hoare_bind; [apply hoare_set_delete_key|]. intros ?.
  eapply hoare_bind; [apply hoare_recreate|]. intros k.
  eapply hoare_bind; [apply hoare_set_add_all|]. intros ?.
  apply hoare_ret. intros d. apply ST_SD.
Qed.

Lemma hoareST_set_store a dest keys : hoare S (set_store a now dest keys) (fun _ => SD true).
Proof.
  unfold set_store. destruct keys as [|k0 rest]; [apply hoare_ret; apply S_SD|].
  apply hoare_bind_read; [apply RO_set_alg|]. intros elems. apply hoareST_set_replace.
Qed.

(* ---- hashes ---- *)

Lemma presS_hash_set_raw key field v : presS (hash_set_raw now key field v).
Proof.
  unfold hash_set_raw. destruct (to_bytes v) as [vb|]; [| apply hoare_fail].
  eapply hoare_bind; [apply hoare_add1|]. intros k.
  eapply hoare_conseq; [apply (hoare_hash_set2 false) | auto |]. intros a d. apply ST_S.
Qed.

Lemma presS_hash_delete key fields : presS (hash_delete now key fields).
Proof.
  intros d d' a I. unfold hash_delete.
  destruct (live_key now d key T_HASH) as [k|]; [|intros E; inversion E; subst; exact I].
  match goal with |- context [if ?c then _ else _] => destruct c end; intros E; inversion E; subst; [exact I|].
  eapply S_bump; [reflexivity | exact I].
Qed.

Lemma presS_hash_incr key field delta : presS (hash_incr now key field delta).
Proof.
  unfold hash_incr. apply hoare_try_read; [apply readonly_hash_get|]. intros r.
  assert (G : forall cur, presS (match value_int cur with
     | None => fail EValueType
     | Some n => if negb (in_int64 (n + delta)) then fail EValueType
                 else hash_set_raw now key field (AInt (n + delta)) ;;; ret (n + delta) end)).
  { intros cur. destruct (value_int cur) as [n|]; [| apply hoare_fail].
    destruct (negb (in_int64 (n + delta))); [apply hoare_fail|].
    eapply hoare_bind; [apply presS_hash_set_raw|]. intros ?. apply hoare_ret. auto. }
  destruct r as [v|e]; [apply G|]. destruct e; try apply hoare_fail. apply G.
Qed.

Lemma presS_hash_incr_float key field delta parsed fmt :
  presS (hash_incr_float now key field delta parsed fmt).
Proof.
  unfold hash_incr_float. apply hoare_try_read; [apply readonly_hash_get|]. intros r.
  assert (G : forall (o : option float), presS (match o with
     | None => fail EValueType
     | Some f => hash_set_raw now key field (AFloat (f + delta)%float (fmt (f + delta)%float)) ;;; ret (f + delta)%float end)).
  { intros o. destruct o as [f|]; [| apply hoare_fail].
    eapply hoare_bind; [apply presS_hash_set_raw|]. intros ?. apply hoare_ret. auto. }
  destruct r as [v|e]; [apply G|]. destruct e; try apply hoare_fail. apply (G (Some zero)).
Qed.

Lemma presS_hash_set key field v : presS (hash_set now key field v).
Proof.
  unfold hash_set. destruct (negb (is_value_type v)); [apply hoare_fail|].
  apply hoare_bind_read; [apply readonly_hash_count|]. intros c.
  eapply hoare_bind; [apply presS_hash_set_raw|]. intros ?. apply hoare_ret. auto.
Qed.

Lemma presS_hash_set_each key items : presS (hash_set_each now key items).
Proof.
  induction items as [|[f v] r IH]; cbn [hash_set_each].
  - apply hoare_ret. auto.
  - eapply hoare_bind; [apply presS_hash_set_raw|]. intros ?. exact IH.
Qed.

Lemma presS_hash_set_many key items : presS (hash_set_many now key items).
Proof.
  unfold hash_set_many. destruct (negb _); [apply hoare_fail|].
  apply hoare_bind_read; [apply readonly_hash_count|]. intros c.
  eapply hoare_bind; [apply presS_hash_set_each|]. intros ?. apply hoare_ret. auto.
Qed.

Lemma presS_hash_set_nx key field v : presS (hash_set_nx now key field v).
Proof.
  unfold hash_set_nx. destruct (negb (is_value_type v)); [apply hoare_fail|].
  apply hoare_bind_read; [apply readonly_hash_exists|]. intros ex.
  destruct ex; [apply hoare_ret; auto|].
  eapply hoare_bind; [apply presS_hash_set_raw|]. intros ?. apply hoare_ret. auto.
Qed.

(* ---- sorted sets ---- *)

Lemma presS_zset_add_raw key v score : presS (zset_add_raw now key v score).
Proof.
  unfold zset_add_raw. destruct (to_bytes v) as [eb|]; [| apply hoare_fail].
  eapply hoare_bind; [apply hoare_add1|]. intros k.
  eapply hoare_bind; [apply hoare_zset_upsert|]. intros ?. apply hoare_ret. intros d. apply ST_S.
Qed.

Lemma presS_zset_add key v score : presS (zset_add now key v score).
Proof.
  unfold zset_add. apply hoare_bind_read; [apply RO_bytes_args|]. intros elembs.
  apply hoare_bind_read; [apply RO_lift_read|]. intros c.
  eapply hoare_bind; [apply presS_zset_add_raw|]. intros ?. apply hoare_ret. auto.
Qed.

Lemma presS_zset_add_each key items : presS (zset_add_each now key items).
Proof.
  induction items as [|[v s] r IH]; cbn [zset_add_each].
  - apply hoare_ret. auto.
  - eapply hoare_bind; [apply presS_zset_add_raw|]. intros ?. exact IH.
Qed.

Lemma presS_zset_add_many key items : presS (zset_add_many now key items).
Proof.
  unfold zset_add_many. apply hoare_bind_read; [apply RO_bytes_args|]. intros elembs.
  apply hoare_bind_read; [apply RO_lift_read|]. intros c.
  eapply hoare_bind; [apply presS_zset_add_each|]. intros ?. apply hoare_ret. auto.
Qed.

Lemma presS_zset_delete key vs : presS (zset_delete now key vs).
Proof.
  unfold zset_delete. apply hoare_bind_read; [apply RO_bytes_args|]. intros elembs.
  intros d d' a I. destruct (live_key now d key T_ZSET) as [k|]; [|intros E; inversion E; subst; exact I].
  match goal with |- context [if ?c then _ else _] => destruct c end; intros E; inversion E; subst; [exact I|].
  eapply S_bump; [reflexivity | exact I].
Qed.

Lemma presS_delete_zrows key victims : presS (delete_zrows now key victims).
Proof.
  intros d d' a I. unfold delete_zrows.
  match goal with |- context [if ?c then _ else _] => destruct c end; intros E; inversion E; subst; [exact I|].
  eapply S_bump; [reflexivity | exact I].
Qed.

Lemma presS_zset_delete_rank key start stop : presS (zset_delete_rank now key start stop).
Proof.
  unfold zset_delete_rank. destruct (_ || _); [apply hoare_ret; auto|].
  destruct (stop <? start); [apply hoare_ret; auto|].
  apply hoare_bind_read; [apply RO_get_db|]. intros dd. apply presS_delete_zrows.
Qed.

Lemma presS_zset_delete_score key lo hi : presS (zset_delete_score now key lo hi).
Proof.
  unfold zset_delete_score. apply hoare_bind_read; [apply RO_get_db|]. intros dd. apply presS_delete_zrows.
Qed.

Lemma presS_zset_incr key v delta : presS (zset_incr now key v delta).
Proof.
  unfold zset_incr. apply hoare_bind_read; [apply RO_bytes_args|]. intros elembs.
  eapply hoare_bind; [apply hoare_add1|]. intros k.
  eapply hoare_conseq; [apply (hoare_zset_upsert false) | auto |]. intros a d. apply ST_S.
Qed.

Lemma hoare_zset_add_all esc kid rows :
  hoare (ST esc kid) (zset_add_all kid rows) (fun _ => ST esc kid).
Proof.
  induction rows as [|r rest IH]; cbn [zset_add_all].
  - apply hoare_ret. auto.
  - eapply hoare_bind; [apply hoare_zset_upsert|]. intros c. apply IH.
Qed.

Lemma hoareST_zset_store inter g dest keys :
  hoare S (zset_store inter g now dest keys) (fun _ => SD true).
Proof.
  unfold zset_store. apply hoare_bind_read; [apply RO_zset_alg|]. intros items.
  eapply hoare_bind; [apply hoare_zset_delete_key|]. intros ?.
  eapply hoare_bind; [apply hoare_recreate|]. intros k.
  eapply hoare_bind; [apply hoare_zset_add_all|]. intros ?.
  apply hoare_ret. intros d. apply ST_SD.
Qed.

End Meta.

(* ================================================================== *)
(* Part 7: every DB-level operation                                   *)
(* ================================================================== *)

Lemma presS_str_set_expires now ks0 key v ttl : presS now ks0 (str_set_expires now key v ttl).
Proof. unfold str_set_expires. apply presS_str_set_at. Qed.

Lemma run_wrapped_PQ {A} (P Q : db -> Prop) (m : M A) f d :
  hoare P m (fun _ => Q) -> P d -> Q d ->
  Q (if is_err (snd (run m f d)) then d else fst (run m f d)).
Proof.
  intros Hm Hd Qd. unfold run. destruct (m d) as [d' r] eqn:E. destruct r as [a|e]; cbn.
  - eapply Hm; eauto.
  - exact Qd.
Qed.

Lemma S_start now d : Inv d -> mtimes_le now d -> S now (rkey d) d.
Proof.
  intros I M. apply Inv_iff in I. split; [split|].
  - apply Gx_refl. exact (a_ids _ _ _ (i_a _ _ I)).
  - exact M.
  - apply incl_refl.
Qed.

Ltac presS_any :=
  first [ apply presS_str_incr | apply presS_str_incr_float | apply presS_str_set_at
        | apply presS_str_set_expires | apply presS_str_set_many
        | apply presS_list_delete | apply presS_list_delete_n | apply presS_list_pop
        | apply presS_list_push | apply presS_list_set | apply presS_list_trim
        | apply presS_set_add | apply presS_set_delete | apply presS_set_move | apply presS_set_pop
        | apply presS_hash_delete | apply presS_hash_incr | apply presS_hash_incr_float
        | apply presS_hash_set | apply presS_hash_set_many | apply presS_hash_set_nx
        | apply presS_zset_add | apply presS_zset_add_many | apply presS_zset_delete
        | apply presS_zset_delete_rank | apply presS_zset_delete_score | apply presS_zset_incr ].

Lemma meta_main now o d :
  Inv d -> mtimes_le now d -> SD now (rkey d) true (fst (exec_db now o d)).
Proof.
  intros I M. pose proof (S_start now d I M) as I0.
  pose proof (S_SD _ _ _ I0) as I1. pose proof (proj1 I0) as I2.
  destruct (is_read o) eqn:R.
  { rewrite exec_db_unwrapped by (apply read_not_wrapped, R). rewrite read_no_trace by exact R. exact I1. }
  destruct o; try discriminate R;
    first
    [ (* single statements on the read-write handle *)
      rewrite exec_unwrapped_fst by reflexivity; cbn [exec_tx]; rewrite run_fst; apply SD_weaken;
      first [ apply SD_key_delete | apply SD_key_delete_all | apply SD_key_delete_expired
            | apply SD_key_expire_at | apply SD_key_persist ]; exact I2
    | (* the renames *)
      rewrite exec_wrapped_fst by reflexivity; cbn [exec_tx]; apply SD_weaken;
      apply (run_wrapped_P (SD now (rkey d) false));
      [ first [apply presD_key_rename | apply presD_key_rename_nx] | exact I2 ]
    | (* the stores *)
      rewrite exec_wrapped_fst by reflexivity; cbn [exec_tx];
      apply (run_wrapped_PQ (S now (rkey d)) (SD now (rkey d) true));
      [ first [apply hoareST_set_store | apply hoareST_zset_store] | exact I0 | exact I1 ]
    | (* calls that are not in the monad *)
      rewrite exec_wrapped_fst by reflexivity; cbn [exec_tx]; apply S_SD;
      first [apply S_str_set_with | apply S_list_insert | apply S_list_pop_push]; exact I0
    | (* everything else *)
      rewrite exec_wrapped_fst by reflexivity; cbn [exec_tx]; apply S_SD;
      apply (run_wrapped_P (S now (rkey d))); [ presS_any | exact I0 ] ].
Qed.

Theorem C19_meta_step : forall now o d,
  Inv d -> mtimes_le now d -> meta_ok now d (fst (exec_db now o d)) = true.
Proof.
  intros now o d I M. apply Gx_meta_ok. exact (proj1 (meta_main now o d I M)).
Qed.

(* mtimes stay below the clock, so the rule holds along any history with non-decreasing times *)
Theorem C19_mtimes_step : forall now o d, Inv d -> mtimes_le now d -> mtimes_le now (fst (exec_db now o d)).
Proof. intros now o d I M. exact (proj2 (meta_main now o d I M)). Qed.

Theorem C19_mtimes_mono : forall now now' d, now <= now' -> mtimes_le now d -> mtimes_le now' d.
Proof. intros now now' d L M r H. specialize (M r H). lia. Qed.

(* reads and refusals do not touch any metadata (corollary of C12_no_trace_db) *)
Theorem C19_untouched : forall now o d,
  classify o (snd (exec_db now o d)) <> CChanged -> rkey (fst (exec_db now o d)) = rkey d.
Proof. intros now o d H. rewrite (C12_no_trace_db now o d H). reflexivity. Qed.

(* ================================================================== *)
(* Part 8: what a string write does to the row it writes              *)
(* ================================================================== *)

Lemma find_map_key_in (F : keyrow -> keyrow) ks key :
  (forall x, In x ks -> k_key (F x) = k_key x) ->
  find (fun r => String.eqb (k_key r) key) (map F ks) =
  option_map F (find (fun r => String.eqb (k_key r) key) ks).
Proof.
  induction ks as [|x r IH]; intros HF; cbn [map find]; [reflexivity|].
  rewrite HF by (left; reflexivity). destruct (String.eqb (k_key x) key); [reflexivity|].
  apply IH. intros y Hy. apply HF. right. exact Hy.
Qed.

Lemma find_snoc {A} (p : A -> bool) l x :
  find p l = None -> find p (l ++ [x]) = if p x then Some x else None.
Proof.
  induction l as [|y r IH]; cbn [app find]; [reflexivity|].
  destruct (p y); [discriminate | exact IH].
Qed.

Lemma value_bytes v : is_value_type v = true -> exists b, to_bytes v = Some (Some b).
Proof. destruct v; try discriminate; intros _; eexists; reflexivity. Qed.

Lemma sql_set2_ok key b d r :
  find_key d key = Some r ->
  exists d2, sql_set2 key (Some b) d = (d2, Ok tt) /\ rkey d2 = rkey d.
Proof.
  intros F. unfold sql_set2. rewrite F. destruct (existsb _ _); eexists; split; reflexivity.
Qed.

Lemma str_set_at_live now k v at_ d r :
  Inv d -> live_any now d k = Some r -> k_type r = 1 -> is_value_type v = true ->
  exists d2, str_set_at now k v at_ d = (d2, Ok tt) /\
             find_key d2 k = Some (with_etime (with_mtime (with_ver r (k_ver r + 1)) now) at_).
Proof.
  intros I L Tr Hv. destruct (value_bytes v Hv) as [b Eb].
  pose proof (live_any_find _ _ _ _ L) as F.
  apply live_any_some in L as [Hr [Kr Lr]]. apply live_not_expired in Lr.
  set (r' := with_etime (with_mtime (with_ver r (k_ver r + 1)) now) at_).
  assert (U : upsert_key now k T_STRING at_ None (fun x => with_etime x at_) d =
              (upd_key_id (k_id r) (fun _ => r') d, Ok r')).
  { unfold upsert_key, reset_expired. rewrite F, Lr, F, Tr. reflexivity. }
  assert (F1 : find_key (upd_key_id (k_id r) (fun _ => r') d) k = Some r').
  { unfold find_key, upd_key_id, upd_keys. cbn [rkey set_rkey]. rewrite find_map_key_in.
    - unfold find_key in F. rewrite F. cbn. rewrite Z.eqb_refl. reflexivity.
    - intros x Hx. destruct (Z.eqb_spec (k_id x) (k_id r)) as [E|E]; [|reflexivity].
      apply Inv_iff in I. assert (x = r) by (eapply same_id; [exact (i_a _ _ I) | | |]; auto).
      subst x. reflexivity. }
  destruct (sql_set2_ok k b _ _ F1) as [d2 [E2 Rk]].
  exists d2. split.
  - unfold str_set_at. rewrite Eb. unfold bind, typed_error. rewrite U, E2. reflexivity.
  - unfold find_key in *. rewrite Rk. exact F1.
Qed.

Lemma str_set_at_new now k v at_ d :
  find_key d k = None -> is_value_type v = true ->
  exists d2, str_set_at now k v at_ d = (d2, Ok tt) /\
             find_key d2 k = Some (mkKey (next_key_id d) k T_STRING 1 at_ now None).
Proof.
  intros F Hv. destruct (value_bytes v Hv) as [b Eb].
  set (r' := mkKey (next_key_id d) k T_STRING 1 at_ now None).
  assert (U : upsert_key now k T_STRING at_ None (fun x => with_etime x at_) d =
              (set_rkey d (rkey d ++ [r']), Ok r')).
  { unfold upsert_key, reset_expired. rewrite F, F. reflexivity. }
  assert (F1 : find_key (set_rkey d (rkey d ++ [r'])) k = Some r').
  { unfold find_key. cbn [rkey set_rkey]. rewrite find_snoc by exact F.
    cbn. rewrite String.eqb_refl. reflexivity. }
  destruct (sql_set2_ok k b _ _ F1) as [d2 [E2 Rk]].
  exists d2. split.
  - unfold str_set_at. rewrite Eb. unfold bind, typed_error. rewrite U, E2. reflexivity.
  - unfold find_key in *. rewrite Rk. exact F1.
Qed.

Lemma exec_db_sset now k v d d2 :
  str_set_at now k v None d = (d2, Ok tt) -> fst (exec_db now (SSet k v) d) = d2.
Proof.
  intros E. unfold exec_db. cbn [wrapped exec_tx]. unfold run. rewrite E. reflexivity.
Qed.

(* a value-changing string write bumps the version and refreshes mtime *)
Theorem C19_set_bumps : forall now k v d r,
  Inv d -> live_any now d k = Some r -> k_type r = 1 -> is_value_type v = true ->
  exists r', find_key (fst (exec_db now (SSet k v) d)) k = Some r' /\ k_id r' = k_id r /\
             k_ver r' = k_ver r + 1 /\ k_mtime r' = now /\ k_etime r' = None.
Proof.
  intros now k v d r I L Tr Hv.
  destruct (str_set_at_live now k v None d r I L Tr Hv) as [d2 [E F]].
  rewrite (exec_db_sset _ _ _ _ _ E). eexists. split; [exact F|]. cbn. auto.
Qed.

(* deleting and re-creating starts a new history: the new row has version 1 *)
Theorem C19_recreate_restarts : forall now k v d,
  Inv d -> find_key d k = None -> is_value_type v = true ->
  exists r', find_key (fst (exec_db now (SSet k v) d)) k = Some r' /\ k_ver r' = 1 /\ k_mtime r' = now.
Proof.
  intros now k v d I F Hv.
  destruct (str_set_at_new now k v None d F Hv) as [d2 [E F2]].
  rewrite (exec_db_sset _ _ _ _ _ E). eexists. split; [exact F2|]. cbn. auto.
Qed.

Print Assumptions C19_meta_step.
Print Assumptions C19_mtimes_step.
Print Assumptions C19_mtimes_mono.
Print Assumptions C19_untouched.
Print Assumptions C19_set_bumps.
Print Assumptions C19_recreate_restarts.
