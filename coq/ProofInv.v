From Redka Require Import Base Db Glob ImplKey ImplString ImplList ImplSet ImplHash ImplZSet Ops Inv Refine.
From Coq Require Import Lia ZifyBool.


(* which operations this file covers *)
Definition fam_ks (o : op) : bool :=
  match o with
  | KCount _ | KDelete _ | KDeleteAll | KDeleteExpired _ | KExists _ | KExpire _ _ | KExpireAt _ _
  | KGet _ | KKeys _ | KLen | KPersist _ | KRandom _ | KRename _ _ | KRenameNX _ _ | KScan _ _ _ _
  | SGet _ | SGetMany _ | SIncr _ _ | SIncrFloat _ _ _ _ | SSet _ _ | SSetExpires _ _ _
  | SSetMany _ | SSetWith _ _ _ => true
  | _ => false
  end.
Definition fam_set (o : op) : bool :=
  match o with
  | EAdd _ _ | EDelete _ _ | EAlg _ _ | EStore _ _ _ | EExists _ _ | EItems _ | ELen _
  | EMove _ _ _ | EPop _ _ | ERandom _ _ | EScan _ _ _ _ => true
  | _ => false
  end.
Definition fam_hash (o : op) : bool :=
  match o with
  | HDelete _ _ | HExists _ _ | HFields _ | HGet _ _ | HGetMany _ _ | HIncr _ _ _
  | HIncrFloat _ _ _ _ _ | HItems _ | HLen _ | HScan _ _ _ _ | HSet _ _ _ | HSetMany _ _
  | HSetNX _ _ _ | HValues _ => true
  | _ => false
  end.

(* ================================================================== *)
(* Part 1: list library                                               *)
(* ================================================================== *)

Lemma zmem_In x l : zmem x l = true <-> In x l.
Proof.
  unfold zmem. rewrite existsb_exists. split.
  - intros [y [Hy E]]. apply Z.eqb_eq in E. subst. exact Hy.
  - intros H. exists x. split; [exact H | apply Z.eqb_refl].
Qed.

Lemma zmem_false x l : zmem x l = false <-> ~ In x l.
Proof.
  rewrite <- zmem_In. destruct (zmem x l); split; intros H; try congruence;
    try (exfalso; apply H; reflexivity).
Qed.

Lemma str_in_In x l : str_in x l = true <-> In x l.
Proof.
  unfold str_in. rewrite existsb_exists. split.
  - intros [y [Hy E]]. apply String.eqb_eq in E. subst. exact Hy.
  - intros H. exists x. split; [exact H | apply String.eqb_refl].
Qed.

Lemma nodup_z_iff l : nodup_z l = true <-> NoDup l.
Proof.
  induction l as [|x r IH]; simpl.
  - split; intros; [constructor | reflexivity].
  - rewrite andb_true_iff, negb_true_iff, zmem_false, IH. split.
    + intros [A B]. constructor; assumption.
    + intros H. inversion H; subst. split; assumption.
Qed.

Lemma nodup_s_iff l : nodup_s l = true <-> NoDup l.
Proof.
  induction l as [|x r IH]; simpl.
  - split; intros; [constructor | reflexivity].
  - rewrite andb_true_iff, negb_true_iff, IH.
    assert (E : str_in x r = false <-> ~ In x r).
    { rewrite <- str_in_In. destruct (str_in x r); split; intros H; try congruence;
        try (exfalso; apply H; reflexivity). }
    rewrite E. split.
    + intros [A B]. constructor; assumption.
    + intros H. inversion H; subst. split; assumption.
Qed.

Lemma NoDup_map_filter {A B} (f : A -> B) p l :
  NoDup (map f l) -> NoDup (map f (filter p l)).
Proof.
  induction l as [|x r IH]; simpl; intros H.
  - constructor.
  - inversion H as [|? ? Hn Hr]; subst. destruct (p x); simpl.
    + constructor; [| apply IH; exact Hr].
      intros Hin. apply Hn. apply in_map_iff in Hin. destruct Hin as [y [E Hy]].
      apply filter_In in Hy. apply in_map_iff. exists y. tauto.
    + apply IH; exact Hr.
Qed.

Lemma NoDup_filter' {A} (p : A -> bool) l : NoDup l -> NoDup (filter p l).
Proof.
  intros H. rewrite <- (map_id (filter p l)). apply NoDup_map_filter.
  rewrite map_id. exact H.
Qed.

Lemma NoDup_snoc {A} (l : list A) x : NoDup l -> ~ In x l -> NoDup (l ++ [x]).
Proof.
  induction l as [|y r IH]; simpl; intros H Hn.
  - constructor; [intros [] | constructor].
  - inversion H; subst. constructor.
    + rewrite in_app_iff. simpl. intros [K | [K | []]]; [tauto | subst; tauto].
    + apply IH; tauto.
Qed.

Lemma NoDup_map_inj {A B} (f : A -> B) l a b :
  NoDup (map f l) -> In a l -> In b l -> f a = f b -> a = b.
Proof.
  induction l as [|x r IH]; simpl; intros H Ha Hb E; [tauto |].
  inversion H as [|? ? Hn Hr]; subst.
  destruct Ha as [Ha | Ha], Hb as [Hb | Hb]; subst.
  - reflexivity.
  - exfalso. apply Hn. rewrite E. apply in_map. exact Hb.
  - exfalso. apply Hn. rewrite <- E. apply in_map. exact Ha.
  - apply IH; assumption.
Qed.

(* zlen *)
Arguments zlen {A} l : simpl never.
Lemma zlen_nil {A} : zlen (@nil A) = 0.
Proof. reflexivity. Qed.
Lemma zlen_cons {A} (x : A) l : zlen (x :: l) = 1 + zlen l.
Proof. unfold zlen. simpl List.length. lia. Qed.
Lemma zlen_app {A} (a b : list A) : zlen (a ++ b) = zlen a + zlen b.
Proof. unfold zlen. rewrite app_length. lia. Qed.
Lemma zlen_nonneg {A} (l : list A) : 0 <= zlen l.
Proof. unfold zlen. lia. Qed.

(* counting occurrences of an id in a list of ids *)
Definition cntz (id : Z) (l : list Z) : Z := zlen (filter (fun k => k =? id) l).

Arguments cntz id l : simpl never.

Lemma cntz_nil id : cntz id [] = 0.
Proof. reflexivity. Qed.
Lemma cntz_cons id k l : cntz id (k :: l) = (if k =? id then 1 else 0) + cntz id l.
Proof. unfold cntz. simpl. destruct (k =? id); [rewrite zlen_cons|]; lia. Qed.
Lemma cntz_nonneg id l : 0 <= cntz id l.
Proof. apply zlen_nonneg. Qed.
Lemma cntz_map {A} (f : A -> Z) id l :
  zlen (filter (fun x => f x =? id) l) = cntz id (map f l).
Proof.
  induction l as [|x r IH]; [reflexivity|].
  simpl map. rewrite cntz_cons. simpl. destruct (f x =? id); [rewrite zlen_cons|]; lia.
Qed.
Lemma cntz_app id a b : cntz id (a ++ b) = cntz id a + cntz id b.
Proof. unfold cntz. rewrite filter_app, zlen_app. reflexivity. Qed.
Lemma cntz_snoc id l k : cntz id (l ++ [k]) = cntz id l + (if k =? id then 1 else 0).
Proof. rewrite cntz_app, cntz_cons, cntz_nil. lia. Qed.
Lemma cntz_notin id l : ~ In id l -> cntz id l = 0.
Proof.
  induction l as [|k r IH]; intros H; [reflexivity|].
  rewrite cntz_cons. simpl in H.
  destruct (Z.eqb_spec k id); [tauto|]. rewrite IH; tauto.
Qed.
Lemma cntz_in id l : In id l -> 0 < cntz id l.
Proof.
  induction l as [|k r IH]; intros H; [destruct H|].
  rewrite cntz_cons. pose proof (cntz_nonneg id r).
  destruct (Z.eqb_spec k id); [lia|]. destruct H; [congruence|]. apply IH in H. lia.
Qed.
Lemma cntz_filter id q l :
  cntz id (filter q l) = if q id then cntz id l else 0.
Proof.
  induction l as [|k r IH]; simpl.
  - rewrite cntz_nil. destruct (q id); reflexivity.
  - destruct (q k) eqn:Q.
    + rewrite !cntz_cons, IH. destruct (Z.eqb_spec k id).
      * subst. rewrite Q. reflexivity.
      * destruct (q id); lia.
    + rewrite cntz_cons, IH. destruct (Z.eqb_spec k id).
      * subst. rewrite Q. reflexivity.
      * destruct (q id); lia.
Qed.
Lemma cntz_NoDup id l : NoDup l -> In id l -> cntz id l = 1.
Proof.
  induction l as [|k r IH]; intros H Hin; [destruct Hin|].
  inversion H; subst. rewrite cntz_cons. destruct (Z.eqb_spec k id).
  - subst. rewrite cntz_notin; [lia | assumption].
  - destruct Hin; [congruence|]. rewrite IH; [lia | assumption | assumption].
Qed.

(* removing rows that all belong to kid0 *)
Lemma cntz_filter_hit {A} (f : A -> Z) (hit : A -> bool) kid0 id tbl :
  (forall x, hit x = true -> f x = kid0) ->
  cntz id (map f (filter (fun x => negb (hit x)) tbl)) =
  cntz id (map f tbl) - (if id =? kid0 then zlen (filter hit tbl) else 0).
Proof.
  intros Hh. induction tbl as [|x r IH]; cbn [map filter].
  - rewrite cntz_nil. change (zlen (@nil A)) with 0. destruct (id =? kid0); reflexivity.
  - destruct (hit x) eqn:Hx; cbn [map filter negb].
    + rewrite IH, cntz_cons. rewrite (Hh x Hx).
      rewrite (Z.eqb_sym kid0 id). destruct (id =? kid0); [rewrite zlen_cons|]; lia.
    + rewrite !cntz_cons, IH. lia.
Qed.

Lemma map_filter_comm {A} (f : A -> Z) (q : Z -> bool) l :
  map f (filter (fun x => q (f x)) l) = filter q (map f l).
Proof.
  induction l as [|x r IH]; simpl; [reflexivity|].
  destruct (q (f x)); simpl; rewrite IH; reflexivity.
Qed.

(* nodup_by *)
Lemma existsb_filter_false {A} (e p : A -> bool) l :
  existsb e l = false -> existsb e (filter p l) = false.
Proof.
  induction l as [|x r IH]; simpl; [tauto|].
  rewrite orb_false_iff. intros [H1 H2]. destruct (p x); simpl; [rewrite H1|]; auto.
Qed.

Lemma nodup_by_filter {A} (eq : A -> A -> bool) p l :
  nodup_by eq l = true -> nodup_by eq (filter p l) = true.
Proof.
  induction l as [|x r IH]; simpl; [tauto|].
  rewrite andb_true_iff, negb_true_iff. intros [H1 H2]. destruct (p x); simpl.
  - rewrite existsb_filter_false; auto.
  - auto.
Qed.

Lemma nodup_by_snoc {A} (eq : A -> A -> bool) l x :
  nodup_by eq (l ++ [x]) = nodup_by eq l && negb (existsb (fun y => eq y x) l).
Proof.
  induction l as [|y r IH]; simpl; [reflexivity|].
  rewrite IH, existsb_app. simpl. rewrite orb_false_r.
  destruct (existsb (eq y) r), (eq y x), (nodup_by eq r), (existsb (fun y0 => eq y0 x) r); reflexivity.
Qed.

Lemma existsb_map_eq {A} (eq : A -> A -> bool) g x l :
  (forall a b, eq (g a) (g b) = eq a b) ->
  existsb (eq (g x)) (map g l) = existsb (eq x) l.
Proof.
  intros H. induction l as [|y s IHs]; simpl; [reflexivity|].
  rewrite H, IHs. reflexivity.
Qed.

Lemma nodup_by_map {A} (eq : A -> A -> bool) g l :
  (forall a b, eq (g a) (g b) = eq a b) -> nodup_by eq (map g l) = nodup_by eq l.
Proof.
  intros H. induction l as [|x r IH]; simpl; [reflexivity|].
  rewrite IH, existsb_map_eq by exact H. reflexivity.
Qed.

Lemma zmax_ge x l : In x l -> x <= zmax_list l.
Proof.
  induction l as [|y r IH]; simpl; [tauto|].
  intros [E | H]; [subst; lia | apply IH in H; lia].
Qed.
Lemma zmax_nonneg l : 0 <= zmax_list l.
Proof. induction l as [|y r IH]; simpl; lia. Qed.

(* ================================================================== *)
(* Part 2: abstract invariant over (key rows, lists of owner ids)     *)
(* ================================================================== *)

Definition LenP (kids : Z -> list Z) (r : keyrow) : Prop :=
  (k_type r = 1 /\ cntz (k_id r) (kids 1) = 1) \/
  (k_type r <> 1 /\ k_len r = Some (cntz (k_id r) (kids (k_type r)))).

(* [h = Some key]: the string key named [key] may still lack its value row *)
Definition LenH (h : option bytes) (kids : Z -> list Z) (r : keyrow) : Prop :=
  LenP kids r \/ (h = Some (k_key r) /\ k_type r = 1 /\ cntz (k_id r) (kids 1) = 0).

Record AInv (h : option bytes) (ks : list keyrow) (kids : Z -> list Z) : Prop := mkAInv {
  a_names : NoDup (map k_key ks);
  a_ids : NoDup (map k_id ks);
  a_range : forall r, In r ks -> 0 < k_id r /\ 1 <= k_type r <= 5;
  a_own : forall T k, 1 <= T <= 5 -> In k (kids T) ->
          exists r, In r ks /\ k_id r = k /\ k_type r = T;
  a_s : NoDup (kids 1);
  a_len : forall r, In r ks -> LenH h kids r }.

Lemma same_id h ks kids a b :
  AInv h ks kids -> In a ks -> In b ks -> k_id a = k_id b -> a = b.
Proof. intros I. apply NoDup_map_inj. exact (a_ids _ _ _ I). Qed.

Lemma same_key h ks kids a b :
  AInv h ks kids -> In a ks -> In b ks -> k_key a = k_key b -> a = b.
Proof. intros I. apply NoDup_map_inj. exact (a_names _ _ _ I). Qed.

Lemma LenH_ext h kids kids' r :
  (forall T, kids' T = kids T) -> LenH h kids r -> LenH h kids' r.
Proof. intros E. unfold LenH, LenP. rewrite !E. tauto. Qed.

Lemma AInv_ext h ks kids kids' :
  (forall T, kids' T = kids T) -> AInv h ks kids -> AInv h ks kids'.
Proof.
  intros E [A1 A2 A3 A4 A5 A6]. constructor; auto.
  - intros T k HT Hk. rewrite E in Hk. eauto.
  - rewrite E. exact A5.
  - intros r Hr. apply (LenH_ext h kids); auto.
Qed.

Lemma AInv_weaken h ks kids : AInv None ks kids -> AInv h ks kids.
Proof.
  intros [A1 A2 A3 A4 A5 A6]. constructor; auto.
  intros r Hr. destruct (A6 r Hr) as [L | [K _]]; [left; exact L | discriminate].
Qed.

Lemma LenH_None kids r : LenH None kids r -> LenP kids r.
Proof. intros [L | [K _]]; [exact L | discriminate]. Qed.

Lemma map_ext_in' {A B} (f g : A -> B) l :
  (forall a, In a l -> f a = g a) -> map f l = map g l.
Proof. apply map_ext_in. Qed.

(* A1: rows rewritten keeping id, type and len *)
Lemma AInv_map h ks kids F :
  AInv h ks kids ->
  (forall r, In r ks -> k_id (F r) = k_id r /\ k_type (F r) = k_type r /\ k_len (F r) = k_len r) ->
  NoDup (map k_key (map F ks)) ->
  (forall r, In r ks -> h = Some (k_key r) -> k_key (F r) = k_key r) ->
  AInv h (map F ks) kids.
Proof.
  intros I HF Hn Hk. pose proof I as [A1 A2 A3 A4 A5 A6]. constructor; auto.
  - rewrite map_map. erewrite map_ext_in'; [exact A2|]. intros a Ha. apply HF; exact Ha.
  - intros r' Hr'. apply in_map_iff in Hr' as [r [<- Hr]].
    destruct (HF r Hr) as [E1 [E2 E3]]. rewrite E1, E2. auto.
  - intros T k HT Hin. destruct (A4 T k HT Hin) as [r [Hr [E1 E2]]].
    exists (F r). destruct (HF r Hr) as [F1 [F2 F3]].
    split; [apply in_map; exact Hr | split; congruence].
  - intros r' Hr'. apply in_map_iff in Hr' as [r [<- Hr]].
    destruct (HF r Hr) as [E1 [E2 E3]]. specialize (A6 r Hr).
    unfold LenH, LenP in *. rewrite E1, E2, E3.
    destruct A6 as [L | [K1 K2]]; [left; exact L | right].
    split; [| exact K2]. rewrite (Hk r Hr K1). exact K1.
Qed.

(* A2: deleting key rows, cascading to the children *)
Lemma AInv_delete ks kids p :
  AInv None ks kids ->
  AInv None (filter (fun r => negb (p r)) ks)
       (fun T => filter (fun k => negb (zmem k (map k_id (filter p ks)))) (kids T)).
Proof.
  intros I. pose proof I as [A1 A2 A3 A4 A5 A6].
  assert (Hgone : forall r, In r ks -> p r = false ->
                  zmem (k_id r) (map k_id (filter p ks)) = false).
  { intros r Hr Hp. apply zmem_false. intros Hin.
    apply in_map_iff in Hin as [r' [E Hr']]. apply filter_In in Hr' as [Hr' Hp'].
    assert (r' = r) by (eapply same_id; eauto). subst. congruence. }
  constructor.
  - apply NoDup_map_filter; exact A1.
  - apply NoDup_map_filter; exact A2.
  - intros r Hr. apply filter_In in Hr as [Hr _]. auto.
  - intros T k HT Hk. apply filter_In in Hk as [Hk Hz].
    destruct (A4 T k HT Hk) as [r [Hr [E1 E2]]]. exists r. split; [| tauto].
    apply filter_In. split; [exact Hr|]. destruct (p r) eqn:Hp; [| reflexivity].
    exfalso. apply negb_true_iff, zmem_false in Hz. apply Hz.
    rewrite <- E1. apply in_map. apply filter_In. tauto.
  - apply NoDup_filter'. exact A5.
  - intros r Hr. apply filter_In in Hr as [Hr Hp]. apply negb_true_iff in Hp.
    left. pose proof (LenH_None _ _ (A6 r Hr)) as L. unfold LenP in *. cbv beta.
    rewrite !cntz_filter, (Hgone r Hr Hp). exact L.
Qed.

(* A3: an expired row is emptied and retyped *)
Lemma AInv_reset ks kids F r0 typ :
  AInv None ks kids -> In r0 ks -> 1 <= typ <= 5 ->
  (forall r, In r ks -> k_id r <> k_id r0 -> F r = r) ->
  k_id (F r0) = k_id r0 -> k_key (F r0) = k_key r0 -> k_type (F r0) = typ ->
  k_len (F r0) = (if typ =? 1 then None else Some 0) ->
  AInv (if typ =? 1 then Some (k_key r0) else None) (map F ks)
       (fun T => filter (fun k => negb (k =? k_id r0)) (kids T)).
Proof.
  intros I H0 Ht Hoth Fid Fkey Ftyp Flen. pose proof I as [A1 A2 A3 A4 A5 A6].
  assert (Hcase : forall r, In r ks -> (r = r0) \/ (k_id r <> k_id r0 /\ F r = r)).
  { intros r Hr. destruct (Z.eq_dec (k_id r) (k_id r0)) as [E | E].
    - left. eapply same_id; eauto.
    - right. auto. }
  assert (HK : forall r, In r ks -> k_key (F r) = k_key r).
  { intros r Hr. destruct (Hcase r Hr) as [-> | [_ E]]; [exact Fkey | rewrite E; reflexivity]. }
  assert (HI : forall r, In r ks -> k_id (F r) = k_id r).
  { intros r Hr. destruct (Hcase r Hr) as [-> | [_ E]]; [exact Fid | rewrite E; reflexivity]. }
  constructor.
  - rewrite map_map. erewrite map_ext_in'; [exact A1 | exact HK].
  - rewrite map_map. erewrite map_ext_in'; [exact A2 | exact HI].
  - intros r' Hr'. apply in_map_iff in Hr' as [r [<- Hr]].
    destruct (Hcase r Hr) as [-> | [_ E]].
    + rewrite Fid, Ftyp. split; [apply A3; exact H0 | exact Ht].
    + rewrite E. auto.
  - intros T k HT Hk. apply filter_In in Hk as [Hk Hne].
    destruct (A4 T k HT Hk) as [r [Hr [E1 E2]]].
    exists r. split; [| tauto]. apply in_map_iff. exists r. split; [| exact Hr].
    apply Hoth; [exact Hr|]. rewrite E1. apply negb_true_iff in Hne. lia.
  - apply NoDup_filter'. exact A5.
  - intros r' Hr'. apply in_map_iff in Hr' as [r [<- Hr]].
    destruct (Hcase r Hr) as [-> | [Hne E]].
    + unfold LenH, LenP. cbv beta. rewrite !cntz_filter, Fid, Ftyp, Flen, Fkey, Z.eqb_refl.
      cbn [negb]. destruct (Z.eqb_spec typ 1) as [T1 | T1].
      * right. auto.
      * left. right. auto.
    + rewrite E. pose proof (LenH_None _ _ (A6 r Hr)) as L.
      assert (Q : negb (k_id r =? k_id r0) = true) by (apply negb_true_iff; lia).
      left. unfold LenP in *. cbv beta. rewrite !cntz_filter, Q. exact L.
Qed.

(* A4: a new key row with a fresh id *)
Lemma AInv_snoc h ks kids r :
  AInv h ks kids ->
  k_id r = zmax_list (map k_id ks) + 1 ->
  ~ In (k_key r) (map k_key ks) ->
  1 <= k_type r <= 5 ->
  (k_type r = 1 -> h = Some (k_key r)) ->
  (k_type r <> 1 -> k_len r = Some 0) ->
  AInv h (ks ++ [r]) kids.
Proof.
  intros I Hid Hkey Ht H1 Hn1. pose proof I as [A1 A2 A3 A4 A5 A6].
  assert (Hfresh : forall r1, In r1 ks -> k_id r1 <> k_id r).
  { intros r1 Hr1 E. assert (k_id r1 <= zmax_list (map k_id ks)).
    { apply zmax_ge. apply in_map. exact Hr1. } lia. }
  assert (Hcnt : forall T, 1 <= T <= 5 -> cntz (k_id r) (kids T) = 0).
  { intros T HT. apply cntz_notin. intros Hin.
    destruct (A4 T _ HT Hin) as [r1 [Hr1 [E _]]]. exact (Hfresh r1 Hr1 E). }
  constructor.
  - rewrite map_app. apply NoDup_snoc; assumption.
  - rewrite map_app. apply NoDup_snoc; [assumption|].
    intros Hin. apply in_map_iff in Hin as [r1 [E Hr1]]. exact (Hfresh r1 Hr1 E).
  - intros r1 Hr1. apply in_app_iff in Hr1 as [Hr1 | [<- | []]]; [auto|].
    split; [| exact Ht]. pose proof (zmax_nonneg (map k_id ks)). lia.
  - intros T k HT Hk. destruct (A4 T k HT Hk) as [r1 [Hr1 E]].
    exists r1. split; [apply in_or_app; left; exact Hr1 | exact E].
  - exact A5.
  - intros r1 Hr1. apply in_app_iff in Hr1 as [Hr1 | [<- | []]]; [auto|].
    unfold LenH, LenP. destruct (Z.eq_dec (k_type r) 1) as [E | E].
    + right. split; [auto|]. split; [exact E|]. apply Hcnt. lia.
    + left. right. split; [exact E|]. rewrite Hcnt by exact Ht. auto.
Qed.

(* A5: the value row of a string key *)
Lemma AInv_sset_same ks kids k :
  AInv (Some (k_key k)) ks kids -> In k ks -> In (k_id k) (kids 1) -> AInv None ks kids.
Proof.
  intros I Hk Hin. pose proof I as [A1 A2 A3 A4 A5 A6]. constructor; auto.
  intros r Hr. destruct (A6 r Hr) as [L | [K1 [K2 K3]]]; [left; exact L|].
  exfalso. assert (r = k). { eapply same_key; eauto. congruence. } subst.
  apply cntz_in in Hin. lia.
Qed.

Lemma AInv_sset_new ks kids kids' k :
  AInv (Some (k_key k)) ks kids -> In k ks -> k_type k = 1 -> ~ In (k_id k) (kids 1) ->
  kids' 1 = kids 1 ++ [k_id k] -> (forall T, T <> 1 -> kids' T = kids T) ->
  AInv None ks kids'.
Proof.
  intros I Hk Ht Hnin E1 En1. pose proof I as [A1 A2 A3 A4 A5 A6]. constructor; auto.
  - intros T k0 HT Hk0. destruct (Z.eq_dec T 1) as [-> | NE].
    + rewrite E1 in Hk0. apply in_app_iff in Hk0 as [Hk0 | [<- | []]]; [eauto|].
      exists k. auto.
    + rewrite En1 in Hk0 by exact NE. eauto.
  - rewrite E1. apply NoDup_snoc; assumption.
  - intros r Hr. left. unfold LenP. rewrite E1, cntz_snoc.
    destruct (Z.eq_dec (k_id r) (k_id k)) as [E | E].
    + assert (r = k) by (eapply same_id; eauto). subst.
      left. split; [exact Ht|]. rewrite cntz_notin by exact Hnin. rewrite Z.eqb_refl. lia.
    + destruct (Z.eqb_spec (k_id k) (k_id r)) as [E' | _]; [congruence|].
      rewrite Z.add_0_r. destruct (A6 r Hr) as [L | [K1 _]].
      * destruct L as [L | [L1 L2]]; [left; exact L | right].
        split; [exact L1|]. rewrite En1 by exact L1. exact L2.
      * exfalso. apply E. f_equal. eapply same_key; eauto. congruence.
Qed.

(* A6: child rows of one key of type T0 <> 1 come or go, len follows *)
Lemma AInv_adjust h ks kids kids' F T0 kid0 n :
  AInv h ks kids ->
  1 <= T0 <= 5 -> T0 <> 1 ->
  (exists r, In r ks /\ k_id r = kid0 /\ k_type r = T0) ->
  (forall T, T <> T0 -> kids' T = kids T) ->
  (forall k, In k (kids' T0) -> In k (kids T0) \/ k = kid0) ->
  (forall id, cntz id (kids' T0) = cntz id (kids T0) + (if id =? kid0 then n else 0)) ->
  (forall r, In r ks -> k_id r <> kid0 -> F r = r) ->
  (forall r, In r ks -> k_id r = kid0 ->
     k_id (F r) = k_id r /\ k_key (F r) = k_key r /\ k_type (F r) = k_type r /\
     (k_len r = Some (cntz kid0 (kids T0)) -> k_len (F r) = Some (cntz kid0 (kids T0) + n))) ->
  AInv h (map F ks) kids'.
Proof.
  intros I HT0 HT1 [rk [Hrk [Erk Trk]]] Hoth Hincl Hcnt Fne Feq.
  pose proof I as [A1 A2 A3 A4 A5 A6].
  assert (HP : forall r, In r ks ->
     k_id (F r) = k_id r /\ k_key (F r) = k_key r /\ k_type (F r) = k_type r).
  { intros r Hr. destruct (Z.eq_dec (k_id r) kid0) as [E | E].
    - destruct (Feq r Hr E) as [P1 [P2 [P3 _]]]. auto.
    - rewrite (Fne r Hr E). auto. }
  constructor.
  - rewrite map_map. erewrite map_ext_in'; [exact A1|]. intros a Ha. apply HP; exact Ha.
  - rewrite map_map. erewrite map_ext_in'; [exact A2|]. intros a Ha. apply HP; exact Ha.
  - intros r' Hr'. apply in_map_iff in Hr' as [r [<- Hr]].
    destruct (HP r Hr) as [P1 [P2 P3]]. rewrite P1, P3. auto.
  - intros T k HT Hk.
    assert (Hex : exists r, In r ks /\ k_id r = k /\ k_type r = T).
    { destruct (Z.eq_dec T T0) as [-> | NE].
      - destruct (Hincl k Hk) as [Hk' | ->]; [eauto | exists rk; auto].
      - rewrite Hoth in Hk by exact NE. eauto. }
    destruct Hex as [r [Hr [E1 E2]]]. destruct (HP r Hr) as [P1 [P2 P3]].
    exists (F r). split; [apply in_map; exact Hr | split; congruence].
  - rewrite Hoth by auto. exact A5.
  - intros r' Hr'. apply in_map_iff in Hr' as [r [<- Hr]].
    destruct (Z.eq_dec (k_id r) kid0) as [E | E].
    + assert (r = rk) by (eapply same_id; eauto; congruence). subst r.
      destruct (Feq rk Hrk E) as [P1 [P2 [P3 P4]]].
      left. right. rewrite P1, P3, Trk. split; [exact HT1|].
      rewrite Hcnt, E, Z.eqb_refl. apply P4.
      destruct (A6 rk Hrk) as [[[L _] | [_ L]] | [_ [L _]]]; congruence.
    + rewrite (Fne r Hr E). specialize (A6 r Hr). unfold LenH, LenP in *.
      rewrite (Hoth 1) by auto.
      destruct A6 as [[L | [L1 L2]] | K]; [left; left; exact L | | right; exact K].
      left. right. split; [exact L1|]. rewrite L2. f_equal.
      destruct (Z.eq_dec (k_type r) T0) as [ET | ET].
      * rewrite ET, Hcnt. destruct (Z.eqb_spec (k_id r) kid0); [congruence | lia].
      * rewrite Hoth by exact ET. reflexivity.
Qed.

(* ================================================================== *)
(* Part 3: the invariant of a db in Prop form                         *)
(* ================================================================== *)

Definition kidsOf (d : db) (T : Z) : list Z :=
  if T =? 1 then map s_kid (rstring d) else
  if T =? 2 then map l_kid (rlist d) else
  if T =? 3 then map e_kid (rset d) else
  if T =? 4 then map h_kid (rhash d) else
  if T =? 5 then map z_kid (rzset d) else [].

Definition eqL (a b : lrow) : bool := (l_kid a =? l_kid b) && (l_pos a =? l_pos b)%float.
Definition eqE (a b : erow) : bool := (e_kid a =? e_kid b) && String.eqb (e_elem a) (e_elem b).
Definition eqH (a b : hrow) : bool := (h_kid a =? h_kid b) && String.eqb (h_field a) (h_field b).
Definition eqZ (a b : zrow) : bool := (z_kid a =? z_kid b) && String.eqb (z_elem a) (z_elem b).

Definition TL (l : list lrow) : Prop :=
  nodup_by eqL l = true /\ forallb (fun x => (l_pos x =? l_pos x)%float) l = true.
Definition TE (l : list erow) : Prop := nodup_by eqE l = true /\ NoDup (map e_rid l).
Definition TH (l : list hrow) : Prop := nodup_by eqH l = true /\ NoDup (map h_rid l).
Definition TZ (l : list zrow) : Prop := nodup_by eqZ l = true /\ NoDup (map z_rid l).

Record InvH (h : option bytes) (d : db) : Prop := mkInvH {
  i_a : AInv h (rkey d) (kidsOf d);
  i_l : TL (rlist d);
  i_e : TE (rset d);
  i_h : TH (rhash d);
  i_z : TZ (rzset d);
  i_fk : fk_on d = true }.

Lemma forallb_filter {A} (q p : A -> bool) l :
  forallb q l = true -> forallb q (filter p l) = true.
Proof.
  rewrite !forallb_forall. intros H x Hx. apply filter_In in Hx. apply H. tauto.
Qed.

Lemma TL_filter p l : TL l -> TL (filter p l).
Proof. intros [A B]. split; [apply nodup_by_filter | apply forallb_filter]; assumption. Qed.
Lemma TE_filter p l : TE l -> TE (filter p l).
Proof. intros [A B]. split; [apply nodup_by_filter | apply NoDup_map_filter]; assumption. Qed.
Lemma TH_filter p l : TH l -> TH (filter p l).
Proof. intros [A B]. split; [apply nodup_by_filter | apply NoDup_map_filter]; assumption. Qed.
Lemma TZ_filter p l : TZ l -> TZ (filter p l).
Proof. intros [A B]. split; [apply nodup_by_filter | apply NoDup_map_filter]; assumption. Qed.

Lemma kot_iff d k T :
  NoDup (map k_id (rkey d)) ->
  (key_of_type d k T = true <-> exists r, In r (rkey d) /\ k_id r = k /\ k_type r = T).
Proof.
  intros ND. unfold key_of_type, find_id.
  destruct (find (fun r => k_id r =? k) (rkey d)) as [r|] eqn:F.
  - apply find_some in F as [Hr E]. apply Z.eqb_eq in E. rewrite Z.eqb_eq. split.
    + intros Ht. exists r. auto.
    + intros [r' [Hr' [E1 E2]]].
      assert (r = r'). { eapply NoDup_map_inj; eauto. congruence. } subst r'. exact E2.
  - split; [discriminate|]. intros [r' [Hr' [E1 E2]]].
    pose proof (find_none _ _ F r' Hr') as N. simpl in N. lia.
Qed.

Lemma own_forallb {A} (f : A -> Z) d T tbl :
  NoDup (map k_id (rkey d)) ->
  (forallb (fun x => key_of_type d (f x) T) tbl = true <->
   forall k, In k (map f tbl) -> exists r, In r (rkey d) /\ k_id r = k /\ k_type r = T).
Proof.
  intros ND. rewrite forallb_forall. split; intros H.
  - intros k Hk. apply in_map_iff in Hk as [x [<- Hx]]. apply kot_iff; auto.
  - intros x Hx. apply kot_iff; auto. apply H. apply in_map. exact Hx.
Qed.

Lemma len_ok_iff d r :
  1 <= k_type r <= 5 -> (len_ok d r = true <-> LenP (kidsOf d) r).
Proof.
  intros Ht. unfold len_ok, LenP, count_children. rewrite !cntz_map.
  assert (C : k_type r = 1 \/ k_type r = 2 \/ k_type r = 3 \/ k_type r = 4 \/ k_type r = 5) by lia.
  destruct C as [E | [E | [E | [E | E]]]]; rewrite E.
  - change (1 =? 1) with true. cbv iota. change (kidsOf d 1) with (map s_kid (rstring d)).
    rewrite Z.eqb_eq. split; [left; auto | intros [[_ C] | [C _]]; [exact C | lia]].
  - change (2 =? 1) with false. cbv iota. change (kidsOf d 2) with (map l_kid (rlist d)).
    destruct (k_len r) as [n|].
    + rewrite Z.eqb_eq. split.
      * intros ->. right. split; [lia | reflexivity].
      * intros [[C _] | [_ C]]; [lia | injection C; auto].
    + split; [discriminate | intros [[C _] | [_ C]]; [lia | discriminate]].
  - change (3 =? 1) with false. cbv iota. change (kidsOf d 3) with (map e_kid (rset d)).
    destruct (k_len r) as [n|].
    + rewrite Z.eqb_eq. split.
      * intros ->. right. split; [lia | reflexivity].
      * intros [[C _] | [_ C]]; [lia | injection C; auto].
    + split; [discriminate | intros [[C _] | [_ C]]; [lia | discriminate]].
  - change (4 =? 1) with false. cbv iota. change (kidsOf d 4) with (map h_kid (rhash d)).
    destruct (k_len r) as [n|].
    + rewrite Z.eqb_eq. split.
      * intros ->. right. split; [lia | reflexivity].
      * intros [[C _] | [_ C]]; [lia | injection C; auto].
    + split; [discriminate | intros [[C _] | [_ C]]; [lia | discriminate]].
  - change (5 =? 1) with false. cbv iota. change (kidsOf d 5) with (map z_kid (rzset d)).
    destruct (k_len r) as [n|].
    + rewrite Z.eqb_eq. split.
      * intros ->. right. split; [lia | reflexivity].
      * intros [[C _] | [_ C]]; [lia | injection C; auto].
    + split; [discriminate | intros [[C _] | [_ C]]; [lia | discriminate]].
Qed.

Lemma range_iff (ks : list keyrow) :
  forallb (fun r => (0 <? k_id r) && (1 <=? k_type r) && (k_type r <=? 5)) ks = true <->
  (forall r, In r ks -> 0 < k_id r /\ 1 <= k_type r <= 5).
Proof.
  rewrite forallb_forall. split; intros H r Hr; specialize (H r Hr); lia.
Qed.

Lemma Inv_iff d : Inv d <-> InvH None d.
Proof.
  unfold Inv, inv_ok. rewrite !andb_true_iff.
  fold eqL eqE eqH eqZ.
  rewrite !nodup_z_iff, nodup_s_iff, range_iff.
  split.
  - intros [[[[[[[[[[[[[[[[[[N1 N2] R] O1] O2] O3] O4] O5] U1] U2] U3] U4] U5] U6] U7] U8] U9] L] FK].
    rewrite own_forallb in O1 by exact N2. rewrite own_forallb in O2 by exact N2.
    rewrite own_forallb in O3 by exact N2. rewrite own_forallb in O4 by exact N2.
    rewrite own_forallb in O5 by exact N2.
    constructor; try (split; assumption); try assumption.
    constructor; try assumption.
    + intros T k HT Hk.
      assert (C : T = 1 \/ T = 2 \/ T = 3 \/ T = 4 \/ T = 5) by lia.
      destruct C as [E | [E | [E | [E | E]]]]; subst T; auto.
    + intros r Hr. left. apply len_ok_iff; [apply R; exact Hr|].
      rewrite forallb_forall in L. apply L. exact Hr.
  - intros [[A1 A2 A3 A4 A5 A6] [L1 L2] [E1 E2] [H1 H2] [Z1 Z2] FK].
    rewrite !own_forallb by exact A2.
    repeat match goal with |- _ /\ _ => split end; try assumption;
      try (intros k Hk; apply A4; [lia | exact Hk]).
    rewrite forallb_forall. intros r Hr. apply len_ok_iff; [apply A3; exact Hr|].
    apply LenH_None. apply A6. exact Hr.
Qed.

Lemma InvH_weaken h d : InvH None d -> InvH h d.
Proof. intros [A L E H Z FK]. constructor; auto. apply AInv_weaken. exact A. Qed.

(* ================================================================== *)
(* Part 4: the primitives of Db.v preserve the invariant              *)
(* ================================================================== *)

Lemma kidsOf_set_rstring d x T :
  kidsOf (set_rstring d x) T = if T =? 1 then map s_kid x else kidsOf d T.
Proof. unfold kidsOf. destruct (T =? 1); reflexivity. Qed.

Lemma kidsOf_set_rset d x T :
  kidsOf (set_rset d x) T = if T =? 3 then map e_kid x else kidsOf d T.
Proof.
  unfold kidsOf.
  destruct (Z.eqb_spec T 1); [subst; reflexivity|].
  destruct (Z.eqb_spec T 2); [subst; reflexivity|].
  destruct (T =? 3); reflexivity.
Qed.

Lemma kidsOf_set_rhash d x T :
  kidsOf (set_rhash d x) T = if T =? 4 then map h_kid x else kidsOf d T.
Proof.
  unfold kidsOf.
  destruct (Z.eqb_spec T 1); [subst; reflexivity|].
  destruct (Z.eqb_spec T 2); [subst; reflexivity|].
  destruct (Z.eqb_spec T 3); [subst; reflexivity|].
  destruct (T =? 4); reflexivity.
Qed.

Lemma find_key_some d key r :
  find_key d key = Some r -> In r (rkey d) /\ k_key r = key.
Proof.
  unfold find_key. intros F. apply find_some in F as [H E].
  apply String.eqb_eq in E. auto.
Qed.

Lemma find_key_none d key :
  find_key d key = None -> ~ In key (map k_key (rkey d)).
Proof.
  unfold find_key. intros F Hin. apply in_map_iff in Hin as [r [E Hr]].
  pose proof (find_none _ _ F r Hr) as N. simpl in N. rewrite E, String.eqb_refl in N. discriminate.
Qed.

Lemma live_key_some now d key T k :
  live_key now d key T = Some k ->
  In k (rkey d) /\ k_key k = key /\ k_type k = T /\ live now k = true.
Proof.
  unfold live_key. destruct (find_key d key) as [r|] eqn:F; [|discriminate].
  destruct ((k_type r =? T) && live now r) eqn:C; [|discriminate].
  intros E. injection E as <-. apply find_key_some in F as [F1 F2].
  apply andb_true_iff in C as [C1 C2]. apply Z.eqb_eq in C1. auto.
Qed.

Lemma live_any_some now d key k :
  live_any now d key = Some k -> In k (rkey d) /\ k_key k = key /\ live now k = true.
Proof.
  unfold live_any. destruct (find_key d key) as [r|] eqn:F; [|discriminate].
  destruct (live now r) eqn:C; [|discriminate].
  intros E. injection E as <-. apply find_key_some in F as [F1 F2]. auto.
Qed.

(* P1 *)
Lemma InvH_upd_keys_gen h p f d :
  InvH h d ->
  (forall r, In r (rkey d) -> p r = true ->
     k_id (f r) = k_id r /\ k_type (f r) = k_type r /\ k_len (f r) = k_len r) ->
  NoDup (map k_key (map (fun r => if p r then f r else r) (rkey d))) ->
  (forall r, In r (rkey d) -> p r = true -> h = Some (k_key r) -> k_key (f r) = k_key r) ->
  InvH h (upd_keys p f d).
Proof.
  intros [A L E H Z FK] Hf Hn Hk. constructor; try assumption.
  change (rkey (upd_keys p f d)) with (map (fun r => if p r then f r else r) (rkey d)).
  apply AInv_ext with (kids := kidsOf d); [reflexivity|].
  apply AInv_map; auto.
  - intros r Hr. destruct (p r) eqn:P; [apply Hf; assumption | auto].
  - intros r Hr Hh. destruct (p r) eqn:P; [apply Hk; assumption | auto].
Qed.

Lemma InvH_upd_keys h p f d :
  InvH h d ->
  (forall r, In r (rkey d) -> p r = true ->
     k_id (f r) = k_id r /\ k_key (f r) = k_key r /\ k_type (f r) = k_type r /\ k_len (f r) = k_len r) ->
  InvH h (upd_keys p f d).
Proof.
  intros I Hf. apply InvH_upd_keys_gen; auto.
  - intros r Hr P. destruct (Hf r Hr P) as [? [? [? ?]]]. auto.
  - rewrite map_map. erewrite map_ext_in'; [exact (a_names _ _ _ (i_a _ _ I))|].
    intros r Hr. cbv beta. destruct (p r) eqn:P; [apply Hf; assumption | reflexivity].
  - intros r Hr P _. apply Hf; assumption.
Qed.

(* P2 *)
Lemma kidsOf_delete p d T :
  fk_on d = true ->
  kidsOf (fst (delete_keys p d)) T =
  filter (fun k => negb (zmem k (map k_id (filter p (rkey d))))) (kidsOf d T).
Proof.
  intros FK. unfold delete_keys. rewrite FK. cbn [fst]. unfold kidsOf.
  cbn [rstring rlist rset rhash rzset set_rkey].
  destruct (T =? 1); [apply (map_filter_comm s_kid (fun k => negb (zmem k (map k_id (filter p (rkey d))))))|].
  destruct (T =? 2); [apply (map_filter_comm l_kid (fun k => negb (zmem k (map k_id (filter p (rkey d))))))|].
  destruct (T =? 3); [apply (map_filter_comm e_kid (fun k => negb (zmem k (map k_id (filter p (rkey d))))))|].
  destruct (T =? 4); [apply (map_filter_comm h_kid (fun k => negb (zmem k (map k_id (filter p (rkey d))))))|].
  destruct (T =? 5); [apply (map_filter_comm z_kid (fun k => negb (zmem k (map k_id (filter p (rkey d))))))|].
  reflexivity.
Qed.

Lemma rkey_delete p d :
  rkey (fst (delete_keys p d)) = filter (fun r => negb (p r)) (rkey d).
Proof. unfold delete_keys. destruct (fk_on d); reflexivity. Qed.

Lemma InvH_delete p d : InvH None d -> InvH None (fst (delete_keys p d)).
Proof.
  intros I. pose proof I as [A L E H Z FK]. constructor.
  - rewrite rkey_delete. apply AInv_ext with (2 := AInv_delete _ _ p A).
    intros T. rewrite kidsOf_delete by exact FK. reflexivity.
  - unfold delete_keys. rewrite FK. cbn. apply TL_filter. exact L.
  - unfold delete_keys. rewrite FK. cbn. apply TE_filter. exact E.
  - unfold delete_keys. rewrite FK. cbn. apply TH_filter. exact H.
  - unfold delete_keys. rewrite FK. cbn. apply TZ_filter. exact Z.
  - unfold delete_keys. rewrite FK. cbn. exact FK.
Qed.

(* P3 *)
Lemma upd_key_id_id id d : upd_key_id id (fun r => r) d = d.
Proof.
  unfold upd_key_id, upd_keys, set_rkey. destruct d as [ks s l e h z fk]. cbn.
  f_equal. rewrite <- (map_id ks) at 2. apply map_ext. intros r. destruct (k_id r =? id); reflexivity.
Qed.

Definition trigG (now n : Z) (r : keyrow) : keyrow :=
  if n =? 0 then r
  else with_len (with_mtime (with_ver r (k_ver r + n)) now) (opt_add (k_len r) (- n)).

Lemma trig_list_delete_eq now kid n d :
  trig_list_delete now kid n d = upd_key_id kid (trigG now n) d.
Proof.
  unfold trig_list_delete, trigG. destruct (n =? 0).
  - symmetry. apply upd_key_id_id.
  - reflexivity.
Qed.

Lemma InvH_reset now key typ d :
  InvH None d -> 1 <= typ <= 5 ->
  InvH (if typ =? 1 then Some key else None) (reset_expired now key typ d).
Proof.
  intros I Ht. unfold reset_expired.
  destruct (find_key d key) as [r0|] eqn:F; [| apply InvH_weaken; exact I].
  destruct (expired now r0) eqn:X; [| apply InvH_weaken; exact I].
  apply find_key_some in F as [H0 K0]. subst key.
  rewrite trig_list_delete_eq.
  pose proof I as [A L E H Z FK].
  set (nl := zlen (filter (fun x => l_kid x =? k_id r0) (rlist d))).
  set (g2 := fun x : keyrow => mkKey (k_id x) (k_key x) typ (k_ver x) None (k_mtime x)
                                  (if typ =? 1 then None else Some 0)).
  set (F := fun r => (fun r1 => if k_id r1 =? k_id r0 then g2 r1 else r1)
                     ((fun r1 => if k_id r1 =? k_id r0 then trigG now nl r1 else r1) r)).
  assert (Gid : forall r, k_id (trigG now nl r) = k_id r /\ k_key (trigG now nl r) = k_key r).
  { intros r. unfold trigG. destruct (nl =? 0); auto. }
  constructor; cbn; try (first [apply TL_filter | apply TE_filter | apply TH_filter | apply TZ_filter]; assumption);
    try assumption.
  rewrite map_map. change (AInv (if typ =? 1 then Some (k_key r0) else None) (map F (rkey d))
    (kidsOf (upd_key_id (k_id r0) g2 (upd_key_id (k_id r0) (trigG now nl)
       (mkDb (rkey d)
          (filter (fun x => negb (s_kid x =? k_id r0)) (rstring d))
          (filter (fun x => negb (l_kid x =? k_id r0)) (rlist d))
          (filter (fun x => negb (e_kid x =? k_id r0)) (rset d))
          (filter (fun x => negb (h_kid x =? k_id r0)) (rhash d))
          (filter (fun x => negb (z_kid x =? k_id r0)) (rzset d)) (fk_on d)))))).
  eapply AInv_ext; [| apply (AInv_reset (rkey d) (kidsOf d) F r0 typ A H0 Ht)].
  - intros T. unfold kidsOf. cbn [rstring rlist rset rhash rzset upd_key_id upd_keys set_rkey].
    destruct (T =? 1); [apply (map_filter_comm s_kid (fun k => negb (k =? k_id r0)))|].
    destruct (T =? 2); [apply (map_filter_comm l_kid (fun k => negb (k =? k_id r0)))|].
    destruct (T =? 3); [apply (map_filter_comm e_kid (fun k => negb (k =? k_id r0)))|].
    destruct (T =? 4); [apply (map_filter_comm h_kid (fun k => negb (k =? k_id r0)))|].
    destruct (T =? 5); [apply (map_filter_comm z_kid (fun k => negb (k =? k_id r0)))|].
    reflexivity.
  - intros r Hr Hne. unfold F. cbv beta.
    destruct (Z.eqb_spec (k_id r) (k_id r0)); [contradiction|].
    destruct (Z.eqb_spec (k_id r) (k_id r0)); [contradiction|]. reflexivity.
  - unfold F. cbv beta. rewrite Z.eqb_refl. rewrite (proj1 (Gid r0)), Z.eqb_refl.
    cbn. apply Gid.
  - unfold F. cbv beta. rewrite Z.eqb_refl. rewrite (proj1 (Gid r0)), Z.eqb_refl.
    cbn. apply Gid.
  - unfold F. cbv beta. rewrite Z.eqb_refl. rewrite (proj1 (Gid r0)), Z.eqb_refl. reflexivity.
  - unfold F. cbv beta. rewrite Z.eqb_refl. rewrite (proj1 (Gid r0)), Z.eqb_refl. reflexivity.
Qed.

(* P4 + conflict branch: the type-guarded upsert *)
Definition keeps (oc : keyrow -> keyrow) : Prop :=
  forall r, k_id (oc r) = k_id r /\ k_key (oc r) = k_key r /\
            k_type (oc r) = k_type r /\ k_len (oc r) = k_len r.

Lemma upsert_spec now key typ ne nl oc d0 d' r' :
  InvH None d0 -> 1 <= typ <= 5 -> (typ <> 1 -> nl = Some 0) -> keeps oc ->
  upsert_key now key typ ne nl oc d0 = (d', Ok r') ->
  InvH (if typ =? 1 then Some key else None) d' /\
  In r' (rkey d') /\ k_key r' = key /\ k_type r' = typ.
Proof.
  intros I Ht Hnl Hoc. unfold upsert_key.
  pose proof (InvH_reset now key typ d0 I Ht) as I1.
  set (d := reset_expired now key typ d0) in *.
  destruct (find_key d key) as [r|] eqn:F.
  - destruct (k_type r =? typ) eqn:ET; [|discriminate].
    intros E. injection E as <- <-. apply find_key_some in F as [Hr Kr]. apply Z.eqb_eq in ET.
    set (r1 := oc (with_mtime (with_ver r (k_ver r + 1)) now)).
    assert (Hr1 : k_id r1 = k_id r /\ k_key r1 = k_key r /\ k_type r1 = k_type r /\ k_len r1 = k_len r).
    { unfold r1. destruct (Hoc (with_mtime (with_ver r (k_ver r + 1)) now)) as [? [? [? ?]]].
      cbn in *. auto. }
    split; [|split;[|split]].
    + apply InvH_upd_keys; [exact I1|]. intros x Hx Px. apply Z.eqb_eq in Px.
      assert (x = r) by (eapply same_id; [exact (i_a _ _ I1) | | | ]; auto). subst x. exact Hr1.
    + change (In r1 (map (fun x => if k_id x =? k_id r then r1 else x) (rkey d))).
      apply in_map_iff. exists r. rewrite Z.eqb_refl. auto.
    + destruct Hr1 as [_ [K _]]. congruence.
    + destruct Hr1 as [_ [_ [K _]]]. congruence.
  - intros E. injection E as <- <-. apply find_key_none in F.
    split; [|split;[|split]]; [| apply in_or_app; right; left; reflexivity | reflexivity | reflexivity].
    pose proof I1 as [A L E H Z FK]. constructor; try assumption.
    change (AInv (if typ =? 1 then Some key else None)
                 (rkey d ++ [mkKey (next_key_id d) key typ 1 ne now nl]) (kidsOf d)).
    apply AInv_snoc; auto; cbn.
    intros T1. destruct (Z.eqb_spec typ 1); [reflexivity | contradiction].
Qed.

(* P5: the value row of a string *)
Lemma sql_set2_spec key v d d' u :
  InvH (Some key) d -> (exists r, In r (rkey d) /\ k_key r = key /\ k_type r = 1) ->
  sql_set2 key v d = (d', Ok u) -> InvH None d'.
Proof.
  intros I [r [Hr [Kr Tr]]]. unfold sql_set2. destruct v as [v|]; [|discriminate].
  destruct (find_key d key) as [k|] eqn:F; [|discriminate].
  apply find_key_some in F as [Hk Kk].
  pose proof I as [A L E H Z FK].
  assert (k = r) by (eapply same_key; eauto; congruence). subst r. subst key.
  destruct (existsb (fun r => s_kid r =? k_id k) (rstring d)) eqn:X; intros Eq; inversion Eq; subst d'; clear Eq.
  - constructor; try assumption.
    apply AInv_ext with (kids := kidsOf d).
    + intros T. rewrite kidsOf_set_rstring. destruct (Z.eqb_spec T 1); [|reflexivity]. subst T.
      change (kidsOf d 1) with (map s_kid (rstring d)). rewrite map_map. apply map_ext.
      intros a. destruct (Z.eqb_spec (s_kid a) (k_id k)); cbn; congruence.
    + apply (AInv_sset_same _ _ k); auto.
      apply existsb_exists in X as [x [Hx Ex]]. apply Z.eqb_eq in Ex. rewrite <- Ex.
      change (kidsOf d 1) with (map s_kid (rstring d)). apply in_map. exact Hx.
  - constructor; try assumption.
    apply (AInv_sset_new (rkey d) (kidsOf d) _ k); auto.
    + intros Hin. change (kidsOf d 1) with (map s_kid (rstring d)) in Hin.
      apply in_map_iff in Hin as [x [Ex Hx]].
      assert (existsb (fun r => s_kid r =? k_id k) (rstring d) = true).
      { apply existsb_exists. exists x. split; [exact Hx | lia]. }
      congruence.
    + rewrite kidsOf_set_rstring. change (1 =? 1) with true. cbv iota.
      rewrite map_app. reflexivity.
    + intros T NE. rewrite kidsOf_set_rstring. destruct (Z.eqb_spec T 1); [contradiction | reflexivity].
Qed.

(* ================================================================== *)
(* Part 5: a small Hoare logic for the error monad                    *)
(* ================================================================== *)

Definition hoare {A} (P : db -> Prop) (m : M A) (Q : A -> db -> Prop) : Prop :=
  forall d d' a, P d -> m d = (d', Ok a) -> Q a d'.

Definition HI : db -> Prop := InvH None.
Definition pres {A} (m : M A) : Prop := hoare HI m (fun _ => HI).
Definition readonly {A} (m : M A) : Prop := forall d, fst (m d) = d.

Lemma hoare_bind {A B} P (m : M A) Q (f : A -> M B) R :
  hoare P m Q -> (forall a, hoare (Q a) (f a) R) -> hoare P (bind m f) R.
Proof.
  intros Hm Hf d d' b HP. unfold bind. destruct (m d) as [d1 r] eqn:E.
  destruct r as [a|e]; [|discriminate]. intros E2. eapply Hf; eauto.
Qed.

Lemma hoare_ret {A} (P : db -> Prop) (a : A) (Q : A -> db -> Prop) :
  (forall d, P d -> Q a d) -> hoare P (ret a) Q.
Proof. intros H d d' b HP E. unfold ret in E. inversion E; subst. auto. Qed.

Lemma hoare_fail {A} P e (Q : A -> db -> Prop) : hoare P (fail e) Q.
Proof. intros d d' b HP E. unfold fail in E. discriminate. Qed.

Lemma hoare_lift_read {A} (P : db -> Prop) (f : db -> A) (Q : A -> db -> Prop) :
  (forall d, P d -> Q (f d) d) -> hoare P (lift_read f) Q.
Proof. intros H d d' b HP E. unfold lift_read in E. inversion E; subst. auto. Qed.

Lemma hoare_conseq {A} (P P' : db -> Prop) (m : M A) (Q Q' : A -> db -> Prop) :
  hoare P m Q -> (forall d, P' d -> P d) -> (forall a d, Q a d -> Q' a d) -> hoare P' m Q'.
Proof. intros H H1 H2 d d' a HP E. eapply H2, H; eauto. Qed.

Lemma hoare_try_read {A B} P (m : M A) (f : res A -> M B) Q :
  readonly m -> (forall r, hoare P (f r) Q) -> hoare P (try_ m f) Q.
Proof.
  intros Hr Hf d d' b HP. unfold try_. specialize (Hr d).
  destruct (m d) as [d1 r]. cbn in Hr. subst d1. intros E. eapply Hf; eauto.
Qed.

Lemma hoare_bind_read {A B} P (m : M A) (f : A -> M B) Q :
  readonly m -> (forall a, hoare P (f a) Q) -> hoare P (bind m f) Q.
Proof.
  intros Hr Hf d d' b HP. unfold bind. specialize (Hr d).
  destruct (m d) as [d1 r]. cbn in Hr. subst d1.
  destruct r as [a|e]; [|discriminate]. intros E. eapply Hf; eauto.
Qed.

Lemma typed_error_ok {A} (m : M A) d d' a :
  typed_error m d = (d', Ok a) -> m d = (d', Ok a).
Proof.
  unfold typed_error. destruct (m d) as [d1 r]. destruct r as [a0|e]; [auto|].
  intros H. exfalso. revert H.
  repeat match goal with |- context [match ?x with _ => _ end] => destruct x end; discriminate.
Qed.

Lemma hoare_typed_error {A} P (m : M A) Q : hoare P m Q -> hoare P (typed_error m) Q.
Proof. intros H d d' a HP E. apply typed_error_ok in E. eapply H; eauto. Qed.

Lemma readonly_lift_read {A} (f : db -> A) : readonly (lift_read f).
Proof. intros d. reflexivity. Qed.

Ltac ro :=
  repeat first
    [ reflexivity
    | match goal with |- context [match ?x with _ => _ end] => destruct x eqn:? end ].

(* ================================================================== *)
(* Part 6: keys and strings                                           *)
(* ================================================================== *)

Lemma exec_unwrapped_fst now o d :
  wrapped o = false -> fst (exec_db now o d) = fst (exec_tx false now o d).
Proof. unfold exec_db. intros ->. destruct (exec_tx false now o d). reflexivity. Qed.

Lemma exec_wrapped_fst now o d :
  wrapped o = true ->
  fst (exec_db now o d) =
  if is_err (snd (exec_tx true now o d)) then d else fst (exec_tx true now o d).
Proof.
  unfold exec_db. intros ->. destruct (exec_tx true now o d) as [d' r]. cbn.
  destruct (is_err r); reflexivity.
Qed.

Lemma run_wrapped {A} (m : M A) f d :
  pres m -> HI d -> HI (if is_err (snd (run m f d)) then d else fst (run m f d)).
Proof.
  intros Hm Hd. unfold run. destruct (m d) as [d' r] eqn:E. destruct r as [a|e]; cbn.
  - eapply Hm; eauto.
  - exact Hd.
Qed.

Lemma run_fst {A} (m : M A) f d : fst (run m f d) = fst (m d).
Proof. unfold run. destruct (m d) as [d' r]. destruct r; reflexivity. Qed.

Lemma run_readonly {A} (m : M A) f d : readonly m -> fst (run m f d) = d.
Proof. intros H. rewrite run_fst. apply H. Qed.

(* ---- keys ---- *)

Lemma keeps_expire r v e :
  k_id (with_etime (with_ver r v) e) = k_id r /\ k_key (with_etime (with_ver r v) e) = k_key r /\
  k_type (with_etime (with_ver r v) e) = k_type r /\ k_len (with_etime (with_ver r v) e) = k_len r.
Proof. cbn. auto. Qed.

Lemma HI_key_delete now keys d : HI d -> HI (fst (key_delete now keys d)).
Proof.
  intros I. unfold key_delete.
  destruct (delete_keys (fun r => key_in keys r && live now r) d) as [d' n] eqn:E.
  change d' with (fst (d', n)). rewrite <- E. apply InvH_delete. exact I.
Qed.

Lemma HI_key_delete_all b d : HI d -> HI (fst (key_delete_all b d)).
Proof.
  intros I. unfold key_delete_all.
  destruct (delete_keys (fun _ => true) d) as [d' n] eqn:E.
  assert (HI d'). { change d' with (fst (d', n)). rewrite <- E. apply InvH_delete. exact I. }
  destruct b; exact H.
Qed.

Lemma HI_key_delete_expired now n d : HI d -> HI (fst (key_delete_expired now n d)).
Proof.
  intros I. unfold key_delete_expired. destruct (0 <? n).
  - match goal with |- context [delete_keys ?p d] => destruct (delete_keys p d) as [d' c] eqn:E end.
    change d' with (fst (d', c)). rewrite <- E. apply InvH_delete. exact I.
  - destruct (delete_keys (expired now) d) as [d' c] eqn:E.
    change d' with (fst (d', c)). rewrite <- E. apply InvH_delete. exact I.
Qed.

Lemma HI_key_expire_at now key a d : HI d -> HI (fst (key_expire_at now key a d)).
Proof.
  intros I. unfold key_expire_at.
  match goal with |- context [if ?c then _ else _] => destruct c end; cbn [fst]; [| exact I].
  apply InvH_upd_keys; [exact I|]. intros r _ _. apply keeps_expire.
Qed.

Lemma HI_key_persist now key d : HI d -> HI (fst (key_persist now key d)).
Proof.
  intros I. unfold key_persist.
  match goal with |- context [if ?c then _ else _] => destruct c end; cbn [fst]; [| exact I].
  apply InvH_upd_keys; [exact I|]. intros r _ _. apply keeps_expire.
Qed.

Lemma NoDup_rename (g : keyrow -> keyrow) nk id0 l :
  NoDup (map k_key l) -> NoDup (map k_id l) ->
  (forall r, In r l -> k_key r = nk -> k_id r = id0) ->
  (forall r, k_key (g r) = nk) ->
  NoDup (map k_key (map (fun r => if k_id r =? id0 then g r else r) l)).
Proof.
  induction l as [|x r IH]; intros N1 N2 Hnk Hg; cbn [map]; [constructor|].
  inversion N1 as [|? ? Hx1 Hr1]. inversion N2 as [|? ? Hx2 Hr2]. subst. constructor.
  - intros Hin. rewrite map_map in Hin. apply in_map_iff in Hin as [y [Ey Hy]]. cbv beta in Ey.
    destruct (Z.eqb_spec (k_id x) id0) as [Ex|Ex]; destruct (Z.eqb_spec (k_id y) id0) as [Ey'|Ey'].
    + apply Hx2. rewrite Ex, <- Ey'. apply in_map. exact Hy.
    + rewrite Hg in Ey. apply Ey'. apply Hnk; [right; exact Hy | exact Ey].
    + rewrite Hg in Ey. apply Ex. apply Hnk; [left; reflexivity | auto].
    + apply Hx1. rewrite <- Ey. apply in_map. exact Hy.
  - apply IH; auto. intros y Hy. apply Hnk. right. exact Hy.
Qed.

Lemma pres_sql_rename now key newkey : pres (sql_rename now key newkey).
Proof.
  intros d d' u I. unfold sql_rename.
  destruct (live_any now d key) as [old|] eqn:LA.
  2:{ intros E. inversion E; subst. exact I. }
  set (p := fun r => String.eqb (k_key r) newkey && negb (k_id r =? k_id old)).
  destruct (delete_keys p d) as [d1 n] eqn:E. intros E2. inversion E2; subst d'; clear E2.
  assert (I1 : InvH None d1).
  { change d1 with (fst (d1, n)). rewrite <- E. apply InvH_delete. exact I. }
  assert (R1 : rkey d1 = filter (fun r => negb (p r)) (rkey d)).
  { change d1 with (fst (d1, n)). rewrite <- E. apply rkey_delete. }
  apply InvH_upd_keys_gen; [exact I1 | | | discriminate].
  - intros r _ _. cbn. auto.
  - apply NoDup_rename with (nk := newkey).
    + exact (a_names _ _ _ (i_a _ _ I1)).
    + exact (a_ids _ _ _ (i_a _ _ I1)).
    + intros r Hr Kr. rewrite R1 in Hr. apply filter_In in Hr as [_ Hp].
      unfold p in Hp. rewrite Kr, String.eqb_refl in Hp. cbn in Hp.
      rewrite negb_involutive in Hp. lia.
    + intros r. reflexivity.
Qed.

Lemma readonly_key_get now key : readonly (key_get now key).
Proof. intros d. unfold key_get. ro. Qed.
Lemma readonly_key_count now keys : readonly (key_count now keys).
Proof. intros d. reflexivity. Qed.
Lemma readonly_key_exists now key : readonly (key_exists now key).
Proof. intros d. reflexivity. Qed.

Lemma pres_key_rename now key newkey : pres (key_rename now key newkey).
Proof.
  unfold key_rename. apply hoare_bind_read; [apply readonly_key_get|]. intros oldk.
  destruct (negb (key_struct_exists oldk)); [apply hoare_fail|].
  destruct (String.eqb key newkey); [apply hoare_ret; auto|].
  apply hoare_try_read; [apply readonly_key_get|]. intros r.
  destruct r as [newk|e].
  - destruct (k_type oldk =? k_type newk); [apply pres_sql_rename | apply hoare_fail].
  - destruct e; try apply hoare_fail. apply pres_sql_rename.
Qed.

Lemma pres_key_rename_nx now key newkey : pres (key_rename_nx now key newkey).
Proof.
  unfold key_rename_nx. apply hoare_bind_read; [apply readonly_key_get|]. intros oldk.
  destruct (negb (key_struct_exists oldk)); [apply hoare_fail|].
  destruct (String.eqb key newkey); [apply hoare_ret; auto|].
  apply hoare_bind_read; [apply readonly_key_exists|]. intros ex.
  destruct ex; [apply hoare_ret; auto|].
  eapply hoare_bind; [apply pres_sql_rename|]. intros ?. apply hoare_ret. auto.
Qed.

(* ---- strings ---- *)

Lemma pres_str_write now key e oc vb :
  keeps oc ->
  pres (typed_error (upsert_key now key T_STRING e None oc) ;;; sql_set2 key vb).
Proof.
  intros Hoc.
  apply hoare_bind with
    (Q := fun (_ : keyrow) d => InvH (Some key) d /\
                    exists r, In r (rkey d) /\ k_key r = key /\ k_type r = 1).
  - apply hoare_typed_error. intros d d' r I E.
    eapply upsert_spec in E; eauto; [| unfold T_STRING; lia | unfold T_STRING; intros C; contradiction C; reflexivity].
    destruct E as [I' [Hr [Kr Tr]]]. split; [exact I' | exists r; auto].
  - intros _ d d' u [I Hex] E. eapply sql_set2_spec; eauto.
Qed.

Lemma pres_str_set_at now key v a : pres (str_set_at now key v a).
Proof.
  unfold str_set_at. destruct (to_bytes v); [| apply hoare_fail].
  apply pres_str_write. intros r. cbn. auto.
Qed.

Lemma pres_str_update now key v : pres (str_update now key v).
Proof.
  unfold str_update. destruct (to_bytes v); [| apply hoare_fail].
  apply pres_str_write. intros r. auto.
Qed.

Lemma pres_str_set_each now items : pres (str_set_each now items).
Proof.
  induction items as [|[k v] r IH]; cbn [str_set_each].
  - apply hoare_ret. auto.
  - eapply hoare_bind; [apply pres_str_set_at|]. intros ?. exact IH.
Qed.

Lemma pres_str_set_many now items : pres (str_set_many now items).
Proof.
  unfold str_set_many. destruct (forallb _ items); [apply pres_str_set_each | apply hoare_fail].
Qed.

Lemma readonly_str_get now key : readonly (str_get now key).
Proof. intros d. unfold str_get. ro. Qed.

Lemma pres_str_incr now key delta : pres (str_incr now key delta).
Proof.
  unfold str_incr. apply hoare_try_read; [apply readonly_str_get|]. intros r.
  assert (G : forall cur, pres (match value_int cur with
     | None => fail EValueType
     | Some n => if negb (in_int64 (n + delta)) then fail EValueType
                 else str_update now key (AInt (n + delta)) ;;; ret (n + delta) end)).
  { intros cur. destruct (value_int cur) as [n|]; [| apply hoare_fail].
    destruct (negb (in_int64 (n + delta))); [apply hoare_fail|].
    eapply hoare_bind; [apply pres_str_update|]. intros ?. apply hoare_ret. auto. }
  destruct r as [v|e]; [apply G|]. destruct e; try apply hoare_fail. apply G.
Qed.

Lemma pres_str_incr_float now key delta parsed fmt : pres (str_incr_float now key delta parsed fmt).
Proof.
  unfold str_incr_float. apply hoare_try_read; [apply readonly_str_get|]. intros r.
  assert (G : forall (o : option float), pres (match o with
     | None => fail EValueType
     | Some f => str_update now key (AFloat (f + delta)%float (fmt (f + delta)%float)) ;;; ret (f + delta)%float end)).
  { intros o. destruct o as [f|]; [| apply hoare_fail].
    eapply hoare_bind; [apply pres_str_update|]. intros ?. apply hoare_ret. auto. }
  destruct r as [v|e]; [apply G|]. destruct e; try apply hoare_fail. apply (G (Some zero)).
Qed.

Lemma HI_str_set_with now key v o d :
  HI d ->
  HI (if is_err (snd (str_set_with now key v o d)) then d else fst (str_set_with now key v o d)).
Proof.
  intros I. unfold str_set_with.
  destruct (negb (is_value_type v)); [cbn; exact I|].
  destruct (str_get now key d) as [d0 r].
  destruct (so_ifx o && negb match r with Err ENotFound => false | _ => true end); [cbn; exact I|].
  destruct (so_ifnx o && match r with Err ENotFound => false | _ => true end); [cbn; exact I|].
  match goal with |- context [let '(d', w) := ?m d in _] => destruct (m d) as [d' w] eqn:E end.
  destruct w as [u|e]; cbn; [| exact I].
  destruct (so_keep o).
  - eapply pres_str_update; eauto.
  - eapply pres_str_set_at; eauto.
Qed.

(* ---- reads ---- *)

Ltac ro1 :=
  repeat first
    [ reflexivity
    | match goal with |- fst (match (match ?x with _ => _ end) _ with _ => _ end) = _ => destruct x eqn:? end
    | match goal with |- fst ((match ?x with _ => _ end) _) = _ => destruct x eqn:? end
    | match goal with |- fst (match ?x with _ => _ end) = _ => destruct x eqn:? end ].

Lemma read_fst now o d :
  is_read o = true -> (fam_ks o || fam_set o || fam_hash o) = true ->
  fst (exec_db now o d) = d.
Proof.
  intros R F.
  rewrite exec_unwrapped_fst by (destruct o; try discriminate R; reflexivity).
  destruct o; try discriminate R; try discriminate F; cbn [exec_tx]; rewrite run_fst;
    unfold key_count, key_exists, key_get, key_keys, key_len, key_random, key_scan,
      str_get, str_get_many, set_alg, set_exists, set_items, set_len, set_random, set_scan,
      hash_exists, hash_count, hash_fields, hash_get, hash_get_many, hash_items, hash_len,
      hash_scan, hash_values, lift_read, bind, ret, fail; ro1.
Qed.

Theorem inv_empty : Inv empty_db.
Proof. split; reflexivity. Qed.

Lemma HI_Inv d : HI d <-> Inv d.
Proof. unfold HI. symmetry. apply Inv_iff. Qed.

Theorem inv_preserved_key_str : forall now o d, fam_ks o = true -> Inv d -> Inv (fst (exec_db now o d)).
Proof.
  intros now o d F I.
  destruct (is_read o) eqn:R.
  { rewrite read_fst; [exact I | exact R | rewrite F; reflexivity]. }
  apply HI_Inv. apply HI_Inv in I.
  destruct o; try discriminate F; try discriminate R.
  - rewrite exec_unwrapped_fst by reflexivity. cbn [exec_tx]. rewrite run_fst. apply HI_key_delete; exact I.
  - rewrite exec_unwrapped_fst by reflexivity. cbn [exec_tx]. rewrite run_fst. apply HI_key_delete_all; exact I.
  - rewrite exec_unwrapped_fst by reflexivity. cbn [exec_tx]. rewrite run_fst. apply HI_key_delete_expired; exact I.
  - rewrite exec_unwrapped_fst by reflexivity. cbn [exec_tx]. rewrite run_fst. apply HI_key_expire_at; exact I.
  - rewrite exec_unwrapped_fst by reflexivity. cbn [exec_tx]. rewrite run_fst. apply HI_key_expire_at; exact I.
  - rewrite exec_unwrapped_fst by reflexivity. cbn [exec_tx]. rewrite run_fst. apply HI_key_persist; exact I.
  - rewrite exec_wrapped_fst by reflexivity. cbn [exec_tx]. apply run_wrapped; [apply pres_key_rename | exact I].
  - rewrite exec_wrapped_fst by reflexivity. cbn [exec_tx]. apply run_wrapped; [apply pres_key_rename_nx | exact I].
  - rewrite exec_wrapped_fst by reflexivity. cbn [exec_tx]. apply run_wrapped; [apply pres_str_incr | exact I].
  - rewrite exec_wrapped_fst by reflexivity. cbn [exec_tx]. apply run_wrapped; [apply pres_str_incr_float | exact I].
  - rewrite exec_wrapped_fst by reflexivity. cbn [exec_tx]. apply run_wrapped; [apply pres_str_set_at | exact I].
  - rewrite exec_wrapped_fst by reflexivity. cbn [exec_tx]. apply run_wrapped; [apply pres_str_set_at | exact I].
  - rewrite exec_wrapped_fst by reflexivity. cbn [exec_tx]. apply run_wrapped; [apply pres_str_set_many | exact I].
  - rewrite exec_wrapped_fst by reflexivity. cbn [exec_tx]. apply HI_str_set_with; exact I.
Qed.

(* ================================================================== *)
(* Part 7: hashes                                                     *)
(* ================================================================== *)

(* rows of one key go away, then sqlDelete2 *)
Lemma AInv_bump h ks kids kids' now key T0 n k :
  AInv h ks kids -> In k ks -> k_key k = key -> k_type k = T0 -> live now k = true ->
  1 <= T0 <= 5 -> T0 <> 1 ->
  (forall T, T <> T0 -> kids' T = kids T) ->
  (forall x, In x (kids' T0) -> In x (kids T0)) ->
  (forall id, cntz id (kids' T0) = cntz id (kids T0) - (if id =? k_id k then n else 0)) ->
  AInv h (map (fun r => if String.eqb (k_key r) key && (k_type r =? T0) && live now r
                        then with_len (with_mtime (with_ver r (k_ver r + 1)) now) (opt_add (k_len r) (- n))
                        else r) ks) kids'.
Proof.
  intros I Hk Kk Tk Lk HT0 HT1 Hoth Hincl Hcnt.
  apply (AInv_adjust h ks kids kids' _ T0 (k_id k) (- n)); auto.
  - exists k. auto.
  - intros id. rewrite Hcnt. destruct (id =? k_id k); lia.
  - intros r Hr Hne. destruct (String.eqb_spec (k_key r) key) as [E|E]; [|reflexivity].
    exfalso. apply Hne. f_equal. eapply same_key; eauto. congruence.
  - intros r Hr E. assert (r = k) by (eapply same_id; eauto). subst r.
    rewrite Kk, String.eqb_refl, Tk, Z.eqb_refl, Lk. cbn.
    repeat split; auto. intros ->. reflexivity.
Qed.

Lemma rkey_bump now key T n d :
  rkey (bump_key_len now key T n d) =
  map (fun r => if String.eqb (k_key r) key && (k_type r =? T) && live now r
                then with_len (with_mtime (with_ver r (k_ver r + 1)) now) (opt_add (k_len r) (- n))
                else r) (rkey d).
Proof. reflexivity. Qed.

Lemma kidsOf_bump now key T n d T' :
  kidsOf (bump_key_len now key T n d) T' = kidsOf d T'.
Proof. reflexivity. Qed.

Lemma zmax_fresh l : ~ In (zmax_list l + 1) l.
Proof. intros H. apply zmax_ge in H. lia. Qed.

Lemma hash_set2_spec kid field v d d' u :
  InvH None d -> (exists r, In r (rkey d) /\ k_id r = kid /\ k_type r = 4) ->
  hash_set2 kid field v d = (d', Ok u) -> InvH None d'.
Proof.
  intros I Hex. unfold hash_set2. destruct v as [v|]; [|discriminate].
  pose proof I as [A L E [H1 H2] Z FK].
  destruct (existsb (fun r => (h_kid r =? kid) && String.eqb (h_field r) field) (rhash d)) eqn:X;
    intros Eq; inversion Eq; subst d'; clear Eq.
  - set (g := fun r => if (h_kid r =? kid) && String.eqb (h_field r) field
                       then mkH (h_rid r) kid field v else r).
    assert (Gk : forall a, h_kid (g a) = h_kid a /\ h_field (g a) = h_field a /\ h_rid (g a) = h_rid a).
    { intros a. unfold g. destruct (Z.eqb_spec (h_kid a) kid); cbn; auto.
      destruct (String.eqb_spec (h_field a) field); cbn; auto. }
    constructor; try assumption.
    + apply AInv_ext with (kids := kidsOf d); [| exact A].
      intros T. rewrite kidsOf_set_rhash. destruct (Z.eqb_spec T 4); [|reflexivity]. subst T.
      change (kidsOf d 4) with (map h_kid (rhash d)). rewrite map_map. apply map_ext.
      intros a. apply Gk.
    + cbn. split.
      * rewrite nodup_by_map; [exact H1|]. intros a b. unfold eqH.
        destruct (Gk a) as [-> [-> _]]. destruct (Gk b) as [-> [-> _]]. reflexivity.
      * rewrite map_map. erewrite map_ext; [exact H2|]. intros a. apply Gk.
  - set (F := fun r => if k_id r =? kid then with_len r (opt_add (k_len r) 1) else r).
    set (new := mkH (next_hash_rid (upd_key_id kid (fun r => with_len r (opt_add (k_len r) 1)) d)) kid field v).
    constructor; try assumption.
    + change (AInv None (map F (rkey d)) (kidsOf (set_rhash d (rhash d ++ [new])))).
      apply (AInv_adjust None (rkey d) (kidsOf d) _ F 4 kid 1); auto; try lia.
      * intros T NE. rewrite kidsOf_set_rhash. destruct (Z.eqb_spec T 4); [contradiction | reflexivity].
      * intros k. rewrite kidsOf_set_rhash. change (4 =? 4) with true. cbv iota.
        rewrite map_app, in_app_iff. change (kidsOf d 4) with (map h_kid (rhash d)).
        intros [Hk | [<- | []]]; auto.
      * intros id. rewrite kidsOf_set_rhash. change (4 =? 4) with true. cbv iota.
        rewrite map_app, cntz_app. change (kidsOf d 4) with (map h_kid (rhash d)).
        cbn [map]. rewrite cntz_cons, cntz_nil. cbn [h_kid new].
        rewrite (Z.eqb_sym kid id). destruct (id =? kid); lia.
      * intros r Hr Hne. unfold F. destruct (Z.eqb_spec (k_id r) kid); [contradiction | reflexivity].
      * intros r Hr Heq. unfold F. rewrite Heq, Z.eqb_refl. cbn. repeat split; auto.
        intros ->. reflexivity.
    + change (TH (rhash d ++ [new])). split.
      * rewrite nodup_by_snoc, H1. unfold eqH. cbn [h_kid h_field new]. rewrite X. reflexivity.
      * rewrite map_app. apply NoDup_snoc; [exact H2|]. cbn [map h_rid new].
        unfold next_hash_rid. apply zmax_fresh.
Qed.

Lemma hash_set1_spec now key :
  hoare HI (hash_set1 now key)
        (fun k d => HI d /\ exists r, In r (rkey d) /\ k_id r = k_id k /\ k_type r = 4).
Proof.
  unfold hash_set1. apply hoare_typed_error. intros d d' r I E.
  destruct (upsert_spec now key T_HASH None (Some 0) (fun r => r) d d' r I) as [I' [Hr [Kr Tr]]];
    [unfold T_HASH; lia | intros _; reflexivity | intros x; auto | exact E |].
  split; [exact I' | exists r; auto].
Qed.

Lemma pres_hash_set_raw now key field v : pres (hash_set_raw now key field v).
Proof.
  unfold hash_set_raw. destruct (to_bytes v); [| apply hoare_fail].
  eapply hoare_bind; [apply hash_set1_spec|]. intros k d d' u [I Hex] E.
  eapply hash_set2_spec; eauto.
Qed.

Lemma pres_hash_delete now key fields : pres (hash_delete now key fields).
Proof.
  intros d d' a I. unfold hash_delete.
  destruct (live_key now d key T_HASH) as [k|] eqn:LK.
  2:{ intros E. inversion E; subst. exact I. }
  apply live_key_some in LK as [Hk [Kk [Tk Lk]]].
  set (hit := fun r => (h_kid r =? k_id k) && str_in (h_field r) fields).
  destruct (zlen (filter hit (rhash d)) =? 0).
  { intros E. inversion E; subst. exact I. }
  intros E. inversion E; subst d'; clear E.
  pose proof I as [A L E H Z FK].
  constructor; try assumption.
  - rewrite rkey_bump.
    apply (AInv_bump None (rkey d) (kidsOf d) _ now key T_HASH _ k); auto; try (unfold T_HASH; lia).
    + intros T NE. rewrite kidsOf_bump, kidsOf_set_rhash. destruct (Z.eqb_spec T 4); [contradiction | reflexivity].
    + intros x Hx. apply in_map_iff in Hx as [y [<- Hy]]. apply filter_In in Hy as [Hy _].
      change (In (h_kid y) (map h_kid (rhash d))). apply in_map. exact Hy.
    + intros id. apply (cntz_filter_hit h_kid hit (k_id k) id (rhash d)).
      intros x Hx. unfold hit in Hx. apply andb_true_iff in Hx as [Hx _]. lia.
  - apply TH_filter. exact H.
Qed.

Lemma readonly_hash_get now key field : readonly (hash_get now key field).
Proof. intros d. unfold hash_get. ro1. Qed.
Lemma readonly_hash_count now key fields : readonly (hash_count now key fields).
Proof. intros d. reflexivity. Qed.
Lemma readonly_hash_exists now key field : readonly (hash_exists now key field).
Proof. intros d. reflexivity. Qed.

Lemma pres_hash_incr now key field delta : pres (hash_incr now key field delta).
Proof.
  unfold hash_incr. apply hoare_try_read; [apply readonly_hash_get|]. intros r.
  assert (G : forall cur, pres (match value_int cur with
     | None => fail EValueType
     | Some n => if negb (in_int64 (n + delta)) then fail EValueType
                 else hash_set_raw now key field (AInt (n + delta)) ;;; ret (n + delta) end)).
  { intros cur. destruct (value_int cur) as [n|]; [| apply hoare_fail].
    destruct (negb (in_int64 (n + delta))); [apply hoare_fail|].
    eapply hoare_bind; [apply pres_hash_set_raw|]. intros ?. apply hoare_ret. auto. }
  destruct r as [v|e]; [apply G|]. destruct e; try apply hoare_fail. apply G.
Qed.

Lemma pres_hash_incr_float now key field delta parsed fmt :
  pres (hash_incr_float now key field delta parsed fmt).
Proof.
  unfold hash_incr_float. apply hoare_try_read; [apply readonly_hash_get|]. intros r.
  assert (G : forall (o : option float), pres (match o with
     | None => fail EValueType
     | Some f => hash_set_raw now key field (AFloat (f + delta)%float (fmt (f + delta)%float)) ;;;
                 ret (f + delta)%float end)).
  { intros o. destruct o as [f|]; [| apply hoare_fail].
    eapply hoare_bind; [apply pres_hash_set_raw|]. intros ?. apply hoare_ret. auto. }
  destruct r as [v|e]; [apply G|]. destruct e; try apply hoare_fail. apply (G (Some zero)).
Qed.

Lemma pres_hash_set now key field v : pres (hash_set now key field v).
Proof.
  unfold hash_set. destruct (negb (is_value_type v)); [apply hoare_fail|].
  apply hoare_bind_read; [apply readonly_hash_count|]. intros c.
  eapply hoare_bind; [apply pres_hash_set_raw|]. intros ?. apply hoare_ret. auto.
Qed.

Lemma pres_hash_set_each now key items : pres (hash_set_each now key items).
Proof.
  induction items as [|[f v] r IH]; cbn [hash_set_each].
  - apply hoare_ret. auto.
  - eapply hoare_bind; [apply pres_hash_set_raw|]. intros ?. exact IH.
Qed.

Lemma pres_hash_set_many now key items : pres (hash_set_many now key items).
Proof.
  unfold hash_set_many. destruct (negb (forallb _ items)); [apply hoare_fail|].
  apply hoare_bind_read; [apply readonly_hash_count|]. intros c.
  eapply hoare_bind; [apply pres_hash_set_each|]. intros ?. apply hoare_ret. auto.
Qed.

Lemma pres_hash_set_nx now key field v : pres (hash_set_nx now key field v).
Proof.
  unfold hash_set_nx. destruct (negb (is_value_type v)); [apply hoare_fail|].
  apply hoare_bind_read; [apply readonly_hash_exists|]. intros ex.
  destruct ex; [apply hoare_ret; auto|].
  eapply hoare_bind; [apply pres_hash_set_raw|]. intros ?. apply hoare_ret. auto.
Qed.

Theorem inv_preserved_hash : forall now o d, fam_hash o = true -> Inv d -> Inv (fst (exec_db now o d)).
Proof.
  intros now o d F I.
  destruct (is_read o) eqn:R.
  { rewrite read_fst; [exact I | exact R | rewrite F; apply orb_true_r]. }
  apply HI_Inv. apply HI_Inv in I.
  destruct o; try discriminate F; try discriminate R;
    rewrite exec_wrapped_fst by reflexivity; cbn [exec_tx]; apply run_wrapped; try exact I.
  - apply pres_hash_delete.
  - apply pres_hash_incr.
  - apply pres_hash_incr_float.
  - apply pres_hash_set.
  - apply pres_hash_set_many.
  - apply pres_hash_set_nx.
Qed.

(* ================================================================== *)
(* Part 8: sets                                                       *)
(* ================================================================== *)

Definition HasSet (kid : Z) (d : db) : Prop :=
  exists r, In r (rkey d) /\ k_id r = kid /\ k_type r = 3.

Lemma set_add2_spec kid elem :
  hoare (fun d => HI d /\ HasSet kid d) (set_add2 kid elem)
        (fun _ d => HI d /\ HasSet kid d).
Proof.
  intros d d' b [I Hex]. unfold set_add2. destruct elem as [e|]; [|discriminate].
  pose proof I as [A L [E1 E2] H Z FK].
  destruct (existsb (fun r => (e_kid r =? kid) && String.eqb (e_elem r) e) (rset d)) eqn:X;
    intros Eq; inversion Eq; subst; clear Eq.
  { split; assumption. }
  set (F := fun r => if k_id r =? kid then with_len r (opt_add (k_len r) 1) else r).
  set (new := mkE (next_set_rid d) kid e).
  split.
  - constructor; try assumption.
    + change (AInv None (map F (rkey d)) (kidsOf (set_rset d (rset d ++ [new])))).
      apply (AInv_adjust None (rkey d) (kidsOf d) _ F 3 kid 1); auto; try lia.
      * intros T NE. rewrite kidsOf_set_rset. destruct (Z.eqb_spec T 3); [contradiction | reflexivity].
      * intros k. rewrite kidsOf_set_rset. change (3 =? 3) with true. cbv iota.
        rewrite map_app, in_app_iff. change (kidsOf d 3) with (map e_kid (rset d)).
        intros [Hk | [<- | []]]; auto.
      * intros id. rewrite kidsOf_set_rset. change (3 =? 3) with true. cbv iota.
        rewrite map_app, cntz_app. change (kidsOf d 3) with (map e_kid (rset d)).
        cbn [map]. rewrite cntz_cons, cntz_nil. cbn [e_kid new].
        rewrite (Z.eqb_sym kid id). destruct (id =? kid); lia.
      * intros r Hr Hne. unfold F. destruct (Z.eqb_spec (k_id r) kid); [contradiction | reflexivity].
      * intros r Hr Heq. unfold F. rewrite Heq, Z.eqb_refl. cbn. repeat split; auto.
        intros ->. reflexivity.
    + change (TE (rset d ++ [new])). split.
      * rewrite nodup_by_snoc, E1. unfold eqE. cbn [e_kid e_elem new]. rewrite X. reflexivity.
      * rewrite map_app. apply NoDup_snoc; [exact E2|]. cbn [map e_rid new].
        unfold next_set_rid. apply zmax_fresh.
  - destruct Hex as [r [Hr [Er Tr]]]. exists (F r). split.
    + change (In (F r) (map F (rkey d))). apply in_map. exact Hr.
    + unfold F. destruct (k_id r =? kid); cbn; auto.
Qed.

Lemma set_add_each_spec kid elems : forall n,
  hoare (fun d => HI d /\ HasSet kid d) (set_add_each kid elems n) (fun _ d => HI d).
Proof.
  induction elems as [|e r IH]; intros n; cbn [set_add_each].
  - apply hoare_ret. tauto.
  - eapply hoare_bind; [apply set_add2_spec|]. intros c. apply IH.
Qed.

Lemma set_add_all_spec kid elems :
  hoare (fun d => HI d /\ HasSet kid d) (set_add_all kid elems) (fun _ d => HI d).
Proof.
  induction elems as [|e r IH]; cbn [set_add_all].
  - apply hoare_ret. tauto.
  - eapply hoare_bind; [apply set_add2_spec|]. intros c. apply IH.
Qed.

Lemma set_add1_spec now key :
  hoare HI (set_add1 now key) (fun k d => HI d /\ HasSet (k_id k) d).
Proof.
  unfold set_add1. apply hoare_typed_error. intros d d' r I E.
  destruct (upsert_spec now key T_SET None (Some 0) (fun r => r) d d' r I) as [I' [Hr [Kr Tr]]];
    [unfold T_SET; lia | intros _; reflexivity | intros x; auto | exact E |].
  split; [exact I' | exists r; auto].
Qed.

Lemma readonly_bytes_args vs : readonly (bytes_args vs).
Proof. intros d. unfold bytes_args. destruct (values_bytes vs); reflexivity. Qed.

Lemma pres_set_add now key vs : pres (set_add now key vs).
Proof.
  unfold set_add. apply hoare_bind_read; [apply readonly_bytes_args|]. intros elembs.
  eapply hoare_bind; [apply set_add1_spec|]. intros k. apply set_add_each_spec.
Qed.

(* rows of one set key go away, then sqlDelete2 *)
Lemma HI_set_rows_delete now key k hit d :
  HI d -> In k (rkey d) -> k_key k = key -> k_type k = T_SET -> live now k = true ->
  (forall x, hit x = true -> e_kid x = k_id k) ->
  HI (bump_key_len now key T_SET (zlen (filter hit (rset d)))
        (set_rset d (filter (fun r => negb (hit r)) (rset d)))).
Proof.
  intros I Hk Kk Tk Lk Hhit. pose proof I as [A L E H Z FK].
  constructor; try assumption.
  - rewrite rkey_bump.
    apply (AInv_bump None (rkey d) (kidsOf d) _ now key T_SET _ k); auto; try (unfold T_SET; lia).
    + intros T NE. rewrite kidsOf_bump, kidsOf_set_rset.
      destruct (Z.eqb_spec T 3); [contradiction | reflexivity].
    + intros x Hx. apply in_map_iff in Hx as [y [<- Hy]]. apply filter_In in Hy as [Hy _].
      change (In (e_kid y) (map e_kid (rset d))). apply in_map. exact Hy.
    + intros id. apply (cntz_filter_hit e_kid hit (k_id k) id (rset d)). exact Hhit.
  - apply TE_filter. exact E.
Qed.

Lemma pres_set_delete now key vs : pres (set_delete now key vs).
Proof.
  unfold set_delete. apply hoare_bind_read; [apply readonly_bytes_args|]. intros elembs.
  intros d d' a I.
  destruct (live_key now d key T_SET) as [k|] eqn:LK.
  2:{ intros E. inversion E; subst. exact I. }
  apply live_key_some in LK as [Hk [Kk [Tk Lk]]].
  set (hit := fun r => (e_kid r =? k_id k) && opt_in (e_elem r) elembs).
  destruct (zlen (filter hit (rset d)) =? 0).
  { intros E. inversion E; subst. exact I. }
  intros E. inversion E; subst d'; clear E.
  apply (HI_set_rows_delete now key k hit d); auto.
  intros x Hx. unfold hit in Hx. apply andb_true_iff in Hx as [Hx _]. lia.
Qed.

Lemma filter_none {A} (p : A -> bool) l : (forall x, In x l -> p x = false) -> filter p l = [].
Proof.
  induction l as [|y r IH]; intros H; cbn; [reflexivity|].
  rewrite (H y (or_introl eq_refl)). apply IH. intros x Hx. apply H. right. exact Hx.
Qed.

Lemma count_one l kid e :
  nodup_by eqE l = true ->
  (exists x, In x l /\ e_kid x = kid /\ e_elem x = e) ->
  zlen (filter (fun r => (e_kid r =? kid) && String.eqb (e_elem r) e) l) = 1.
Proof.
  induction l as [|y r IH]; intros ND [x [Hx [Kx Ex]]]; [destruct Hx|].
  cbn [nodup_by] in ND. apply andb_true_iff in ND as [N1 N2]. apply negb_true_iff in N1.
  cbn [filter]. destruct ((e_kid y =? kid) && String.eqb (e_elem y) e) eqn:Hy.
  - rewrite zlen_cons, filter_none; [reflexivity|].
    intros z Hz. destruct ((e_kid z =? kid) && String.eqb (e_elem z) e) eqn:Hz'; [|reflexivity].
    exfalso. assert (existsb (eqE y) r = true); [| congruence].
    apply existsb_exists. exists z. split; [exact Hz|]. unfold eqE.
    apply andb_true_iff in Hy as [Y1 Y2]. apply andb_true_iff in Hz' as [Z1 Z2].
    apply String.eqb_eq in Y2, Z2. rewrite Y2, Z2, String.eqb_refl. lia.
  - apply IH; [exact N2|]. destruct Hx as [<- | Hx].
    + rewrite Kx, Ex, Z.eqb_refl, String.eqb_refl in Hy. discriminate.
    + exists x. auto.
Qed.

Lemma pres_set_pop now key choice : pres (set_pop now key choice).
Proof.
  intros d d' a I. unfold set_pop.
  destruct (live_key now d key T_SET) as [k|] eqn:LK; [|discriminate].
  apply live_key_some in LK as [Hk [Kk [Tk Lk]]].
  destruct (set_rows d (k_id k)) as [|first rest] eqn:SR; [discriminate|].
  set (e := match choice with
            | Some c => if existsb (fun r => String.eqb (e_elem r) c) (first :: rest) then c else e_elem first
            | None => e_elem first end).
  intros E. inversion E; subst d'; clear E.
  set (hit := fun r => (e_kid r =? k_id k) && String.eqb (e_elem r) e).
  assert (Hone : zlen (filter hit (rset d)) = 1).
  { apply count_one; [exact (proj1 (i_e _ _ I))|].
    assert (Hin : forall x, In x (first :: rest) -> In x (rset d) /\ e_kid x = k_id k).
    { intros x Hx. rewrite <- SR in Hx. unfold set_rows in Hx. apply filter_In in Hx as [G1 G2].
      split; [exact G1 | lia]. }
    assert (Hfirst : exists x, In x (rset d) /\ e_kid x = k_id k /\ e_elem x = e_elem first).
    { exists first. destruct (Hin first (or_introl eq_refl)). auto. }
    unfold e. destruct choice as [c|]; [| exact Hfirst].
    destruct (existsb (fun r => String.eqb (e_elem r) c) (first :: rest)) eqn:X; [| exact Hfirst].
    apply existsb_exists in X as [x [Hx Ex]]. apply String.eqb_eq in Ex.
    exists x. destruct (Hin x Hx). auto. }
  rewrite <- Hone. apply (HI_set_rows_delete now key k hit d); auto.
  intros x Hx. unfold hit in Hx. apply andb_true_iff in Hx as [Hx _]. lia.
Qed.

Lemma pres_set_delete_key now key : pres (set_delete_key now key).
Proof.
  intros d d' u I. unfold set_delete_key.
  destruct (live_key now d key T_SET) as [k|] eqn:LK.
  2:{ intros E. inversion E; subst. exact I. }
  apply live_key_some in LK as [Hk [Kk [Tk Lk]]].
  intros E. inversion E; subst d'; clear E.
  pose proof I as [A L E H Z FK].
  set (F := fun r => if k_id r =? k_id k then with_len (with_mtime (with_ver r 0) 0) (Some 0) else r).
  set (tbl := filter (fun r => negb (e_kid r =? k_id k)) (rset d)).
  constructor; try assumption.
  - change (AInv None (map F (rkey d)) (kidsOf (set_rset d tbl))).
    assert (Etbl : map e_kid tbl = filter (fun x => negb (x =? k_id k)) (kidsOf d 3)).
    { apply (map_filter_comm e_kid (fun x => negb (x =? k_id k))). }
    apply (AInv_adjust None (rkey d) (kidsOf d) _ F 3 (k_id k) (- cntz (k_id k) (kidsOf d 3)));
      auto; try lia.
    + exists k. auto.
    + intros T NE. rewrite kidsOf_set_rset. destruct (Z.eqb_spec T 3); [contradiction | reflexivity].
    + intros x. rewrite kidsOf_set_rset. change (3 =? 3) with true. cbv iota.
      rewrite Etbl. intros Hx. apply filter_In in Hx. tauto.
    + intros id. rewrite kidsOf_set_rset. change (3 =? 3) with true. cbv iota.
      rewrite Etbl, cntz_filter. destruct (Z.eqb_spec id (k_id k)); [subst id|]; cbn [negb]; lia.
    + intros r Hr Hne. unfold F. destruct (Z.eqb_spec (k_id r) (k_id k)); [contradiction | reflexivity].
    + intros r Hr Heq. unfold F. rewrite Heq, Z.eqb_refl. cbn. repeat split; auto.
      intros _. f_equal. lia.
  - apply TE_filter. exact E.
Qed.

Lemma pres_set_replace now dest elems : pres (set_replace now dest elems).
Proof.
  unfold set_replace. eapply hoare_bind; [apply pres_set_delete_key|]. intros ?.
  eapply hoare_bind; [apply set_add1_spec|]. intros k.
  eapply hoare_bind; [apply set_add_all_spec|]. intros ?. apply hoare_ret. auto.
Qed.

Lemma readonly_set_alg a now keys : readonly (set_alg a now keys).
Proof. intros d. unfold set_alg. destruct keys; reflexivity. Qed.

Lemma pres_set_store a now dest keys : pres (set_store a now dest keys).
Proof.
  unfold set_store. destruct keys as [|k0 ks]; [apply hoare_ret; auto|].
  apply hoare_bind_read; [apply readonly_set_alg|]. intros elems. apply pres_set_replace.
Qed.

Lemma pres_set_move now src dest v : pres (set_move now src dest v).
Proof.
  unfold set_move. eapply hoare_bind; [apply pres_set_delete|]. intros n.
  destruct (n =? 0); [apply hoare_fail|].
  eapply hoare_bind; [apply pres_set_add|]. intros ?. apply hoare_ret. auto.
Qed.

Theorem inv_preserved_set : forall now o d, fam_set o = true -> Inv d -> Inv (fst (exec_db now o d)).
Proof.
  intros now o d F I.
  destruct (is_read o) eqn:R.
  { rewrite read_fst; [exact I | exact R | rewrite F; rewrite orb_true_r; reflexivity]. }
  apply HI_Inv. apply HI_Inv in I.
  destruct o; try discriminate F; try discriminate R;
    rewrite exec_wrapped_fst by reflexivity; cbn [exec_tx]; apply run_wrapped; try exact I.
  - apply pres_set_add.
  - apply pres_set_delete.
  - apply pres_set_store.
  - apply pres_set_move.
  - apply pres_set_pop.
Qed.

(* hence along any history of such operations *)
Theorem inv_history : forall (h : list (Z * op)) d,
  (forall p, In p h -> (fam_ks (snd p) || fam_set (snd p) || fam_hash (snd p)) = true) ->
  Inv d -> Inv (fold_left (fun acc p => fst (exec_db (fst p) (snd p) acc)) h d).
Proof.
  induction h as [|p r IH]; intros d Hall I; cbn [fold_left]; [exact I|].
  apply IH.
  - intros q Hq. apply Hall. right. exact Hq.
  - specialize (Hall p (or_introl eq_refl)).
    apply orb_true_iff in Hall as [Hall | Hh].
    + apply orb_true_iff in Hall as [Hk | Hs].
      * apply inv_preserved_key_str; assumption.
      * apply inv_preserved_set; assumption.
    + apply inv_preserved_hash; assumption.
Qed.

Print Assumptions inv_empty.
Print Assumptions inv_preserved_key_str.
Print Assumptions inv_preserved_set.
Print Assumptions inv_preserved_hash.
Print Assumptions inv_history.
